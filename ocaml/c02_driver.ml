(* Driver for the extracted C02 model (coq/C02/Model.v).  One case per stdin line.

   c02_model parse [pinned|spec|old]   (pinned = spec since fix 4d0a4b7; old = the ladder before it)
       line:  <expression tokens separated by blanks> [ @@ <tokens that follow in the file> ]
              (default follow context:  ) ;  -- the end of `println( E );`)
       out :  OK <dump>                 parsed, exactly the follow context is left
              PARTIAL <dump> @@ <rest>  parsed a prefix only
              ERR | FUEL
   c02_model tree [pinned|spec]
       line:  a source tree, e.g. (B + (V a) (P (B * (N 2) (V b))))
       out :  <tokens of pr tbl 0 e> @@@ wf=<0/1> safe=<0/1> synsafe=<0/1> rt=<0/1> @@@ <dump of strip e>
              rt=1 iff parse tbl (pr tbl 0 e ++ ctx) = Ok (strip e, ctx)
   c02_model full [pinned|spec]      line: tree       out: the tree of (full e), same syntax
   c02_model eval                    line: v0,v1,... | tree     out: value or NONE
   c02_model safe                    line: tokens [@@ follow]   out: 0/1 (safeb)
   c02_model levels [pinned|spec]    out: one line per binary operator "<op> <level>"

   Dumps use the format of cbv_dump_ast (src/common/verif_hooks.h) with node-type names instead
   of numbers; compound assignment is desugared here the way parseAssignment does it. *)
open C02_model

let rec nat_of_int n = if n <= 0 then O else S (nat_of_int (n - 1))
let rec int_of_nat = function O -> 0 | S n -> 1 + int_of_nat n
let rec pos_of_int n = if n <= 1 then XH else if n land 1 = 1 then XI (pos_of_int (n lsr 1)) else XO (pos_of_int (n lsr 1))
let n_of_int n = if n <= 0 then N0 else Npos (pos_of_int n)
let rec int_of_pos = function XH -> 1 | XO p -> 2 * int_of_pos p | XI p -> 2 * int_of_pos p + 1
let int_of_n = function N0 -> 0 | Npos p -> int_of_pos p
let z_of_int n = if n = 0 then Z0 else if n > 0 then Zpos (pos_of_int n) else Zneg (pos_of_int (-n))
let int_of_z = function Z0 -> 0 | Zpos p -> int_of_pos p | Zneg p -> - (int_of_pos p)

(* identifiers <-> nat.  The number carries the two facts the parser looks at (Model.v id_upper / id_type):
   x = 4 * k + 2 * (names a declared type) + (upper-case initial); 0 is `sizeof`.
   The declared type names are those of the prelude every harness program starts with (props/c02.py PRELUDE);
   typedefs resolve to their base type in the cast node. *)
let type_names = [ ("Point", "Point"); ("node", "node"); ("Len", "int"); ("len_t", "int"); ("Color", "Color");
                   ("mode", "mode"); ("Shape", "Shape") ]
let names : (string, int) Hashtbl.t = Hashtbl.create 16
let rev_names : (int, string) Hashtbl.t = Hashtbl.create 16
let next_k = ref 1
let intern s =
  match Hashtbl.find_opt names s with
  | Some i -> nat_of_int i
  | None ->
    let i =
      if s = "sizeof" then 0
      else begin
        let k = !next_k in incr next_k;
        4 * k + (if List.mem_assoc s type_names then 2 else 0) + (if s.[0] >= 'A' && s.[0] <= 'Z' then 1 else 0)
      end in
    Hashtbl.add names s i; Hashtbl.add rev_names i s; nat_of_int i
let name_of n = match Hashtbl.find_opt rev_names (int_of_nat n) with Some s -> s | None -> "v" ^ string_of_int (int_of_nat n)

let keywords = [ "int"; "long"; "short"; "tiny"; "float"; "double"; "bool"; "string"; "char"; "void" ]
let kw_index s = let rec go i = function [] -> None | x :: r -> if x = s then Some i else go (i + 1) r in go 0 keywords

let binops = [ ("||", Or); ("&&", And); ("|", BOr); ("^", BXor); ("&", BAnd); ("==", EqO); ("!=", NeO);
               ("<", LtO); ("<=", LeO); (">", GtO); (">=", GeO); ("<<", Shl); (">>", Shr); ("+", Add);
               ("-", Sub); ("*", Mul); ("/", Div); ("%", Mod) ]
let binop_text o = fst (List.find (fun (_, b) -> b = o) binops)
let compound = [ "+"; "-"; "*"; "/"; "%"; "&"; "|"; "^"; "<<"; ">>" ]

let tok_of_string s =
  match s with
  | "!" -> TNot | "~" -> TTilde | "++" -> TInc | "--" -> TDec
  | "(" -> TLP | ")" -> TRP | "[" -> TLB | "]" -> TRB | "." -> TDot | "->" -> TArrow
  | "?" -> TQ | ":" -> TColon | "," -> TComma | "=" -> TAsg None | ";" -> TSemi | "}" -> TRBrace
  | "await" -> TAwait | "try" -> TTry | "checked" -> TChecked
  | _ ->
    (match List.assoc_opt s binops with
     | Some o -> TOp o
     | None ->
       let l = String.length s in
       if l >= 2 && s.[l - 1] = '=' && List.mem (String.sub s 0 (l - 1)) compound
       then TAsg (Some (List.assoc (String.sub s 0 (l - 1)) binops))
       else if l > 0 && s.[0] >= '0' && s.[0] <= '9' then
         (match int_of_string_opt s with Some n -> TNum (n_of_int n) | None -> TOther)
       else if l > 0 && ((s.[0] >= 'a' && s.[0] <= 'z') || (s.[0] >= 'A' && s.[0] <= 'Z') || s.[0] = '_') then
         (match kw_index s with Some k -> TKw (nat_of_int k) | None -> TId (intern s))
       else TOther)

let string_of_tok = function
  | TNum n -> string_of_int (int_of_n n) | TId x -> name_of x | TOp o -> binop_text o
  | TNot -> "!" | TTilde -> "~" | TInc -> "++" | TDec -> "--" | TLP -> "(" | TRP -> ")"
  | TLB -> "[" | TRB -> "]" | TDot -> "." | TArrow -> "->" | TQ -> "?" | TColon -> ":"
  | TComma -> "," | TAsg None -> "=" | TAsg (Some o) -> binop_text o ^ "=" | TSemi -> ";"
  | TRBrace -> "}" | TOther -> "@other@" | TAwait -> "await" | TTry -> "try" | TChecked -> "checked" | TKw k -> List.nth keywords (int_of_nat k)
let text_of_toks ts = String.concat " " (List.map string_of_tok ts)

let split_ws s = List.filter (fun x -> x <> "") (String.split_on_char ' ' s)
let toks_of_line s = List.map tok_of_string (split_ws s)

(* split "a b @@ c d" *)
let split_ctx line =
  let ws = split_ws line in
  let rec go acc = function
    | [] -> (List.rev acc, None)
    | "@@" :: r -> (List.rev acc, Some r)
    | x :: r -> go (x :: acc) r in
  let (a, c) = go [] ws in
  (List.map tok_of_string a, match c with None -> [TRP; TSemi] | Some r -> List.map tok_of_string r)

(* ---------------------------------------------------------------- dump *)
let unop_text = function Not -> "!" | Neg -> "-" | BNot -> "~" | Addr -> "ADDRESS_OF" | Deref -> "DEREFERENCE"
                          | Await -> "await" | TryE -> "try" | Checked -> "checked"

(* full_type of parseType for the reachable shapes: base, '*'s, dims, '&' for an lvalue reference *)
let type_text ty =
  let base = Buffer.create 8 and stars = Buffer.create 4 and dims = Buffer.create 8 and amp = ref false in
  List.iter (function
      | TKw k -> Buffer.add_string base (List.nth keywords (int_of_nat k))
      | TId x -> if Buffer.length base = 0 && Buffer.length dims = 0 then
                   Buffer.add_string base (match List.assoc_opt (name_of x) type_names with Some b -> b | None -> name_of x)
                 else Buffer.add_string dims (name_of x)
      | TOp Mul -> Buffer.add_char stars '*'
      | TOp BAnd -> amp := true
      | TOp And -> ()
      | TLB -> Buffer.add_char dims '['
      | TRB -> Buffer.add_char dims ']'
      | TNum n -> Buffer.add_string dims (string_of_int (int_of_n n))
      | _ -> ()) ty;
  Buffer.contents base ^ Buffer.contents stars ^ Buffer.contents dims ^ (if !amp then "&" else "")

(* the `name` field the C++ node carries (used by the array-element compound-assignment copy) *)
let node_name = function
  | Var x -> Some (name_of x) | Call (f, _) when int_of_nat f <> 0 -> Some (name_of f) | Generic (_, Call (f, _)) -> Some (name_of f)
  | Mem (_, m) | Arrow (_, m) | MCall (_, _, m, _) -> Some (name_of m)
  | Asg (_, Var x, _) -> Some (name_of x)
  | _ -> None

(* clone = rendered through RecursiveParser::cloneAstNode, which drops cast/type-argument fields *)
let rec dump ?(clone = false) (e : expr) : string =
  let d = dump ~clone in
  match e with
  | Num n -> Printf.sprintf "(NUMBER int=%d)" (int_of_n n)
  | Var x -> Printf.sprintf "(VARIABLE name=%s)" (name_of x)
  | Par a -> d a
  | Bin (o, a, b) -> Printf.sprintf "(BINARY_OP op=%s L%s R%s)" (binop_text o) (d a) (d b)
  | Un (TryE, a) -> Printf.sprintf "(TRY_EXPR L%s)" (d a)
  | Un (Checked, a) -> Printf.sprintf "(CHECKED_EXPR L%s)" (d a)
  | Un (u, a) -> Printf.sprintf "(UNARY_OP op=%s L%s)" (unop_text u) (d a)
  | Pre (i, a) -> Printf.sprintf "(PRE_INCDEC op=%s L%s)" (if i then "++" else "--") (d a)
  | Post (i, a) -> Printf.sprintf "(POST_INCDEC op=%s L%s)" (if i then "++" else "--") (d a)
  | Idx (a, i) -> Printf.sprintf "(ARRAY_REF L%s X%s)" (d a) (d i)
  | Mem (a, m) -> Printf.sprintf "(MEMBER_ACCESS name=%s L%s)" (name_of m) (d a)
  | Arrow (a, m) -> Printf.sprintf "(ARROW_ACCESS name=%s L%s)" (name_of m) (d a)
  | Call (f, _) when int_of_nat f = 0 -> "(SIZEOF_EXPR)"      (* sizeof_expr is not a field the dump hook prints *)
  | SizeofT -> "(SIZEOF_EXPR)"
  | ArrLit l -> Printf.sprintf "(ARRAY_LITERAL%s)" (dump_args ~clone l)
  | Call (f, args) -> Printf.sprintf "(FUNC_CALL name=%s%s)" (name_of f) (dump_args ~clone args)
  | MCall (_, a, m, args) -> Printf.sprintf "(FUNC_CALL name=%s L%s%s)" (name_of m) (d a) (dump_args ~clone args)
  | Generic (n, Call (f, args)) ->
    let n = int_of_nat n in
    Printf.sprintf "(FUNC_CALL name=%s%s%s)" (name_of f)
      (if n > 0 && not clone then Printf.sprintf " targs=%d" n else "") (dump_args ~clone args)
  | Generic (_, a) -> d a
  | Tern (c, a, b) -> Printf.sprintf "(TERNARY_OP L%s R%s T%s)" (d c) (d a) (d b)
  | EProp a -> Printf.sprintf "(ERROR_PROPAGATION L%s)" (d a)
  | Cast (ty, a) -> if clone then "(CAST_EXPR)" else Printf.sprintf "(CAST_EXPR cast=%s Z%s)" (type_text ty) (d a)
  | Asg (None, Var x, r) -> Printf.sprintf "(ASSIGN name=%s R%s)" (name_of x) (d r)
  | Asg (Some o, Var x, r) ->
    Printf.sprintf "(ASSIGN name=%s R(BINARY_OP op=%s L(VARIABLE name=%s) R%s))" (name_of x) (binop_text o) (name_of x) (d r)
  | Asg (None, l, r) -> Printf.sprintf "(ASSIGN L%s R%s)" (d l) (d r)
  | Asg (Some o, (Idx (a, i) as l), r) ->
    (* arr[i] op= v: the copy keeps the array *name* and the index only if it is a variable or a number *)
    let nm = match node_name a with Some s -> " name=" ^ s | None -> "" in
    let ix = match i with
      | Var y -> " X(VARIABLE name=" ^ name_of y ^ ")"
      | Num n -> Printf.sprintf " X(NUMBER int=%d)" (int_of_n n)
      | _ -> "" in
    Printf.sprintf "(ASSIGN L%s R(BINARY_OP op=%s L(ARRAY_REF L(VARIABLE%s)%s) R%s))" (d l) (binop_text o) nm ix (d r)
  | Asg (Some o, l, r) ->
    Printf.sprintf "(ASSIGN L%s R(BINARY_OP op=%s L%s R%s))" (d l) (binop_text o) (dump ~clone:true l) (d r)
and dump_args ?(clone = false) args =
  match args with [] -> "" | _ -> " A[" ^ String.concat " " (List.map (dump ~clone) args) ^ "]"

(* ---------------------------------------------------------------- tree reader *)
type sx = A of string | Lst of sx list
let read_sx (s : string) : sx =
  let n = String.length s in
  let pos = ref 0 in
  let rec skip () = if !pos < n && (s.[!pos] = ' ' || s.[!pos] = '\t') then (incr pos; skip ()) in
  let rec one () =
    skip ();
    if !pos >= n then failwith "eof"
    else if s.[!pos] = '(' then begin
      incr pos;
      let items = ref [] in
      let rec loop () =
        skip ();
        if !pos >= n then failwith "unclosed"
        else if s.[!pos] = ')' then incr pos
        else (items := one () :: !items; loop ()) in
      loop (); Lst (List.rev !items)
    end else begin
      let st = !pos in
      while !pos < n && s.[!pos] <> ' ' && s.[!pos] <> '(' && s.[!pos] <> ')' do incr pos done;
      A (String.sub s st (!pos - st))
    end in
  one ()

let rec expr_of_sx = function
  | Lst [A "N"; A n] -> Num (n_of_int (int_of_string n))
  | Lst [A "V"; A x] -> Var (intern x)
  | Lst [A "P"; e] -> Par (expr_of_sx e)
  | Lst [A "B"; A o; a; b] -> Bin (List.assoc o binops, expr_of_sx a, expr_of_sx b)
  | Lst [A "U"; A u; a] ->
    Un ((match u with "!" -> Not | "-" -> Neg | "~" -> BNot | "&" -> Addr | "*" -> Deref | "await" -> Await | "try" -> TryE
                     | "checked" -> Checked | _ -> failwith "unop"), expr_of_sx a)
  | Lst [A "PRE"; A d; a] -> Pre (d = "++", expr_of_sx a)
  | Lst [A "POST"; A d; a] -> Post (d = "++", expr_of_sx a)
  | Lst [A "I"; a; i] -> Idx (expr_of_sx a, expr_of_sx i)
  | Lst [A "M"; a; A m] -> Mem (expr_of_sx a, intern m)
  | Lst [A "A"; a; A m] -> Arrow (expr_of_sx a, intern m)
  | Lst (A "C" :: A f :: args) -> Call (intern f, List.map expr_of_sx args)
  | Lst (A "MC" :: A k :: a :: A m :: args) -> MCall (k = "->", expr_of_sx a, intern m, List.map expr_of_sx args)
  | Lst (A "AL" :: l) -> ArrLit (List.map expr_of_sx l)
  | Lst [A "K"; A ty; a] ->
    (* cast to a keyword type with '*'s, e.g. (K int** (V a)) *)
    let n = String.length ty in
    let rec base i = if i < n && ty.[i] <> '*' then base (i + 1) else i in
    let b = base 0 in
    (match kw_index (String.sub ty 0 b) with
     | Some k -> Cast (TKw (nat_of_int k) :: List.init (n - b) (fun _ -> TOp Mul), expr_of_sx a)
     | None -> failwith "cast type")
  | Lst [A "T"; c; a; b] -> Tern (expr_of_sx c, expr_of_sx a, expr_of_sx b)
  | Lst [A "S"; A o; l; r] ->
    let op = if o = "=" then None else Some (List.assoc (String.sub o 0 (String.length o - 1)) binops) in
    Asg (op, expr_of_sx l, expr_of_sx r)
  | Lst [A "E"; a] -> EProp (expr_of_sx a)
  | _ -> failwith "bad tree"

let rec sx_of_expr e =
  let p = Printf.sprintf in
  match e with
  | Num n -> p "(N %d)" (int_of_n n) | Var x -> p "(V %s)" (name_of x) | Par a -> p "(P %s)" (sx_of_expr a)
  | Bin (o, a, b) -> p "(B %s %s %s)" (binop_text o) (sx_of_expr a) (sx_of_expr b)
  | Un (u, a) -> p "(U %s %s)" (match u with Not -> "!" | Neg -> "-" | BNot -> "~" | Addr -> "&" | Deref -> "*" | Await -> "await" | TryE -> "try" | Checked -> "checked") (sx_of_expr a)
  | Pre (d, a) -> p "(PRE %s %s)" (if d then "++" else "--") (sx_of_expr a)
  | Post (d, a) -> p "(POST %s %s)" (if d then "++" else "--") (sx_of_expr a)
  | Idx (a, i) -> p "(I %s %s)" (sx_of_expr a) (sx_of_expr i)
  | Mem (a, m) -> p "(M %s %s)" (sx_of_expr a) (name_of m)
  | Arrow (a, m) -> p "(A %s %s)" (sx_of_expr a) (name_of m)
  | Call (f, args) -> p "(C %s%s)" (name_of f) (String.concat "" (List.map (fun a -> " " ^ sx_of_expr a) args))
  | MCall (ar, a, m, args) -> p "(MC %s %s %s%s)" (if ar then "->" else ".") (sx_of_expr a) (name_of m)
                                (String.concat "" (List.map (fun a -> " " ^ sx_of_expr a) args))
  | SizeofT -> "(SZT)"
  | ArrLit l -> p "(AL%s)" (String.concat "" (List.map (fun a -> " " ^ sx_of_expr a) l))
  | Tern (c, a, b) -> p "(T %s %s %s)" (sx_of_expr c) (sx_of_expr a) (sx_of_expr b)
  | Asg (o, l, r) -> p "(S %s %s %s)" (match o with None -> "=" | Some o -> binop_text o ^ "=") (sx_of_expr l) (sx_of_expr r)
  | EProp a -> p "(E %s)" (sx_of_expr a)
  | Cast (ty, a) -> p "(K %s %s)" (type_text ty) (sx_of_expr a)
  | Generic (_, a) -> p "(G %s)" (sx_of_expr a)

let b2s b = if b then "1" else "0"

(* fuel is recursion depth only (theorem roundtrip_any_fuel: a non-Fuel answer is THE answer): start with
   the closed-form bound and double until the answer is not Fuel *)
let rec nat_double = function O -> O | S n -> S (S (nat_double n))
let parse_iter tbl ts =
  let rec go f k = match p_assign tbl f ts with
    | Fuel when k < 6 -> go (nat_double f) (k + 1)
    | r -> r in
  go (enough_fuel tbl ts) 0

let () =
  let sub = if Array.length Sys.argv > 1 then Sys.argv.(1) else "parse" in
  let tbl = if Array.length Sys.argv > 2 && Sys.argv.(2) = "spec" then spec_table
            else if Array.length Sys.argv > 2 && Sys.argv.(2) = "old" then old_table else pinned_table in
  (* a fixed, small set of names first so that numbering is stable *)
  List.iter (fun s -> ignore (intern s)) [ "sizeof"; "a"; "b"; "c"; "d"; "e"; "f"; "g"; "h"; "i"; "j"; "m"; "n"; "p"; "q"; "v"; "w"; "x"; "y"; "z" ];
  if sub = "levels" then begin
    List.iter (fun (s, o) -> Printf.printf "%s %d\n" s (int_of_nat (lvl tbl o))) binops; exit 0
  end;
  try
    while true do
      let line = input_line stdin in
      (try
         match sub with
         | "parse" ->
           let (ts, ctx) = split_ctx line in
           (match parse_iter tbl (ts @ ctx) with
            | Ok (e, rest) ->
              if rest = ctx then print_endline ("OK " ^ dump e)
              else print_endline ("PARTIAL " ^ dump e ^ " @@ " ^ text_of_toks rest)
            | Err -> print_endline "ERR"
            | Fuel -> print_endline "FUEL")
         | "tree" ->
           let e = expr_of_sx (read_sx line) in
           let ctx = [TRP; TSemi] in
           let ts = pr tbl O e in
           let rt = (match parse_iter tbl (ts @ ctx) with Ok (e', rest) -> e' = strip e && rest = ctx | _ -> false) in
           Printf.printf "%s @@@ wf=%s safe=%s synsafe=%s rt=%s @@@ %s\n" (text_of_toks ts) (b2s (wf e))
             (b2s (safeb (ts @ ctx))) (b2s (syn_safe (ts @ ctx))) (b2s rt) (dump (strip e))
         | "full" -> print_endline (sx_of_expr (full (expr_of_sx (read_sx line))))
         | "eval" ->
           (match String.index_opt line '|' with
            | None -> print_endline "NONE"
            | Some i ->
              (* bindings name=value, ... ; an unbound identifier is 0 *)
              let binds = List.map (fun s ->
                  match String.split_on_char '=' (String.trim s) with
                  | [n; v] -> (int_of_nat (intern (String.trim n)), int_of_string (String.trim v))
                  | _ -> failwith "binding")
                  (List.filter (fun s -> String.trim s <> "") (String.split_on_char ',' (String.sub line 0 i))) in
              let e = expr_of_sx (read_sx (String.sub line (i + 1) (String.length line - i - 1))) in
              let env x = match List.assoc_opt (int_of_nat x) binds with Some v -> z_of_int v | None -> Z0 in
              (* the two pure functions every evaluation program declares:
                 int f(int x, int y) { return x * 3 + y; }   int g(int x) { return 7 - x; } *)
              let fn f vs = match name_of f, List.map int_of_z vs with
                | "f", [x; y] -> Some (z_of_int (x * 3 + y))
                | "g", [x] -> Some (z_of_int (7 - x))
                | "sizeof", [_] -> Some (z_of_int 4)      (* every operand of the evaluation programs is an int *)
                | _ -> None in
              (match eval_fn fn env e with Some z -> print_endline (string_of_int (int_of_z z)) | None -> print_endline "NONE"))
         | "safe" ->
           let (ts, ctx) = split_ctx line in
           print_endline (b2s (safeb (ts @ ctx)))
         | _ -> print_endline "?"
       with Failure m -> print_endline ("BAD " ^ m) | Not_found -> print_endline "BAD notfound")
    done
  with End_of_file -> ()
