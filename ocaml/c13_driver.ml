(* Driver for the extracted C13 model. One case per input line, TAB separated:
     A <type name hex> <variant hex> <payload> <src> <steps> <final> <arms>
     M <functions> <calls>   function = style|arms|nest ("-" or i0/arms), joined by ';'
                             call = fn|varianthex:payload|varianthex:payload|direct 0/1, joined by ';' 
     Q <R|O> <ok payload> <sel> <links>        link = ctx:payload[:v]   (v: ? applied to a variable declared from the call)
     T <checked 0/1> <ctx> <a> <b> <sa hex> <sb hex> <expr, prefix tokens separated by blanks>
         (integer tokens A B L<n> D0 D1 I + - * / % DV MD AT; a string expression starts with an S token:
          SL<hex> SA SB, SC x y (x + y), SK x y (cat(x, y)), SI i (names[i]), SN i (nm(i)))
     R <type name hex> <init varianthex:payload> <steps> <arms>     step = how:fn:varianthex:payload, how = var|call|mkv|mk|fld
     S <items> <calls>       items = A/Q/T lines with TAB written as 0x1d, joined by 0x1e;
                             call = item:a:b:sahex:sbhex:sel, comma separated
     C <checked 0/1> <message hex>
     L <type name hex> <type> <src> <steps (those of A, ov = `w = v;`, oc = `w = idf(v);`)> <final> <arms> <values joined by ';'>
       <initial value of w: varianthex:payload> [<erase 0/1>]
         type (prefix tokens separated by blanks): I | S | R | O t | G n1hex t n2hex | E t e | U n1hex a n2hex b n3hex c n4hex
         value (prefix tokens): i<decimal> | s<hex> | r<k> followed by k scalar tokens | e<varianthex> - | e<varianthex> + value
     LT <checked 0/1> <expr as in T> <operands joined by ';', each a:b:sahex:sbhex>
     LQ <R|O> <ctx> <c|v> <outcomes, comma separated: k<decimal> (Ok / Some) | f<payload> (Err / None)>
   payload = N | I<decimal> | S<hex>; lists are comma separated, "-" = empty.
   Output for A/Q/T: three lines  M <exit> <events joined by 0x1f> / S ... / F <safe 0/1>;
   for C one line  <variant>|<has>|<int>|<string channel>. *)
open C13_model

let explode s = List.init (String.length s) (String.get s)
let implode l = let b = Buffer.create 64 in List.iter (Buffer.add_char b) l; Buffer.contents b
let rec int_of_nat = function O -> 0 | S n -> 1 + int_of_nat n
let rec nat_of_int n = if n <= 0 then O else S (nat_of_int (n - 1))

(* Z <-> int64 (two's complement; every payload of the language fits) *)
let rec pos_to_i64 = function
  | XH -> 1L
  | XO p -> Int64.mul 2L (pos_to_i64 p)
  | XI p -> Int64.add (Int64.mul 2L (pos_to_i64 p)) 1L
let z_to_i64 = function Z0 -> 0L | Zpos p -> pos_to_i64 p | Zneg p -> Int64.neg (pos_to_i64 p)
(* decimal rendering through unsigned magnitude so that -2^63 prints correctly *)
let z_to_string z =
  match z with
  | Z0 -> "0"
  | Zpos p -> Printf.sprintf "%Lu" (pos_to_i64 p)
  | Zneg p -> "-" ^ Printf.sprintf "%Lu" (pos_to_i64 p)
let rec pos_of_bits (n : int64) : positive =
  (* n > 0 as unsigned *)
  if Int64.equal n 1L then XH
  else
    let h = Int64.shift_right_logical n 1 in
    if Int64.equal (Int64.logand n 1L) 1L then XI (pos_of_bits h) else XO (pos_of_bits h)
let z_of_string (s : string) : z =
  let neg = String.length s > 0 && s.[0] = '-' in
  let body = if neg then String.sub s 1 (String.length s - 1) else s in
  let m = Int64.of_string ("0u" ^ body) in
  if Int64.equal m 0L then Z0 else if neg then Zneg (pos_of_bits m) else Zpos (pos_of_bits m)

let unhex (h : string) : char list =
  let n = String.length h / 2 in
  List.init n (fun i -> Char.chr (int_of_string ("0x" ^ String.sub h (2 * i) 2)))

let split c s = String.split_on_char c s
let list_field s = if s = "-" || s = "" then [] else split ',' s

let payload_of (s : string) : payload =
  if s = "N" then PNone
  else if s.[0] = 'I' then PInt (z_of_string (String.sub s 1 (String.length s - 1)))
  else PStr (unhex (String.sub s 1 (String.length s - 1)))

let cval_of vh p = { c_variant = unhex vh; c_payload = payload_of p }

let step_of (s : string) : step =
  match split ':' s with
  | ["dv"] -> StDeclVar
  | ["dc"] -> StDeclCall
  | ["pa"] -> StParam
  | ["av"; v; p] -> StAsgVar (cval_of v p)
  | ["ac"; v; p] -> StAsgCall (cval_of v p)
  | ["as"; v; p] -> StAsgCons (cval_of v p)
  | _ -> failwith ("bad step " ^ s)

let arm_of (s : string) : pattern =
  match split ':' s with
  | ["w"] -> PatWild
  | ["v"; v; b] -> PatVar (unhex v, (match b with "n" -> BNo | "u" -> BUnder | "b" -> BName | _ -> failwith "bind"))
  | _ -> failwith ("bad arm " ^ s)

let src_of = function "cons" -> SrcCons | "call" -> SrcCall | "callvar" -> SrcCallVar | s -> failwith ("src " ^ s)
let final_of = function
  | "var" -> FinVar | "call" -> FinCall | "mk" -> FinMk | "mkv" -> FinMkv | "cons" -> FinCons
  | "obs" -> FinObs | "val" -> FinVal | s -> failwith ("final " ^ s)
let qctx_of = function
  | "decl" -> QDecl | "asg" -> QAsg | "ret" -> QRet | "bin" -> QBin | "stmt" -> QStmt | s -> failwith ("qctx " ^ s)
let tctx_of = function
  | "ret" -> TRet | "decl" -> TDecl | "void" -> TVoid | "main" -> TMain
  | "asg" -> TAsg | "asgmain" -> TAsgMain | s -> failwith ("tctx " ^ s)

let parse_texpr (toks : string list) : texpr =
  let rest = ref toks in
  let next () = match !rest with t :: r -> rest := r; t | [] -> failwith "expr: eof" in
  let rec go () =
    let t = next () in
    match t with
    | "A" -> CA | "B" -> CB
    | "D0" -> CDeref false | "D1" -> CDeref true
    | "I" -> let i = go () in CIdx i
    | "+" -> let x = go () in let y = go () in CAdd (x, y)
    | "-" -> let x = go () in let y = go () in CSub (x, y)
    | "*" -> let x = go () in let y = go () in CMul (x, y)
    | "/" -> let x = go () in let y = go () in CDiv (x, y)
    | "%" -> let x = go () in let y = go () in CMod (x, y)
    | "DV" -> let x = go () in let y = go () in CCallDiv (x, y)
    | "MD" -> let x = go () in let y = go () in CCallMod (x, y)
    | "AT" -> let i = go () in CCallIdx i
    | _ when String.length t > 1 && t.[0] = 'L' -> CLit (z_of_string (String.sub t 1 (String.length t - 1)))
    | _ -> failwith ("expr token " ^ t)
  in
  let rec gs () =
    let t = next () in
    match t with
    | "SA" -> SSA | "SB" -> SSB
    | "SC" -> let x = gs () in let y = gs () in SCat (x, y)
    | "SK" -> let x = gs () in let y = gs () in SCallCat (x, y)
    | "SI" -> let i = go () in SIdx i
    | "SN" -> let i = go () in SCallIdx i
    | _ when String.length t >= 2 && String.sub t 0 2 = "SL" -> SLit (unhex (String.sub t 2 (String.length t - 2)))
    | _ -> failwith ("string expr token " ^ t)
  in
  match toks with
  | t :: _ when String.length t > 0 && t.[0] = 'S' -> TEStr (gs ())
  | _ -> TEInt (go ())

let bval_s = function VNo -> "" | VInt z -> " " ^ z_to_string z | VStr s -> " " ^ implode s
let ev_s = function
  | EArm (i, b) -> "arm " ^ string_of_int (int_of_nat i) ^ bval_s b
  | EVariant s -> implode s
  | EValue b -> (match b with VNo -> "" | VInt z -> z_to_string z | VStr s -> implode s)
  | EAfter -> "after"
  | EBack k -> "back " ^ string_of_int (int_of_nat k)
  | EEnter k -> "enter " ^ string_of_int (int_of_nat k)
  | EPost (k, b) -> "post " ^ string_of_int (int_of_nat k) ^ bval_s b
  | EG1 -> "g1"
  | EG2 -> "g2"
let exit_s = function
  | XOk -> "ok"
  | XNonExhaustive v -> "nonexhaustive:" ^ implode v
  | XNotEnum -> "notenum"
  | XNoValue -> "novalue"
  | XBadScrutinee -> "badscrutinee"
  | XUnbound -> "unbound"
  | XNotStruct -> "notstruct"
  | XQBad -> "qbad"
  | XUnmodelled -> "unmodelled"

let mev_s = function
  | EM (j, i, b) -> "m " ^ string_of_int (int_of_nat j) ^ " arm " ^ string_of_int (int_of_nat i) ^ bval_s b
  | EInner (j, i, b) -> "n " ^ string_of_int (int_of_nat j) ^ " arm " ^ string_of_int (int_of_nat i) ^ bval_s b
  | EEnd j -> "end " ^ string_of_int (int_of_nat j)
  | ERetV (j, i) -> "ret " ^ string_of_int (int_of_nat j) ^ " " ^ string_of_int (int_of_nat i)
  | EDone -> "after"
let showm tag (r : mresult) =
  print_string tag; print_char '\t'; print_string (exit_s r.mr_exit); print_char '\t';
  print_endline (String.concat "\x1f" (List.map mev_s r.mr_events))
let mstyle_of = function
  | "inline" -> MInline | "void" -> MVoid | "ret" -> MRet | "expr" -> MExpr | "loop" -> MLoop | s -> failwith ("mstyle " ^ s)
let semi_field s = if s = "-" || s = "" then [] else split ';' s

let show tag (r : result) =
  print_string tag; print_char '\t'; print_string (exit_s r.r_exit); print_char '\t';
  print_endline (String.concat "\x1f" (List.map ev_s r.r_events))

let parse_a = function
  | [bi; vh; p; src; steps; fin; arms] ->
      { a_builtin = builtin_of_name (unhex bi); a_val = cval_of vh p; a_src = src_of src;
        a_steps = List.map step_of (list_field steps); a_final = final_of fin;
        a_arms = List.map arm_of (list_field arms) }
  | _ -> failwith "bad A line"
let parse_q = function
  | [k; okp; sel; links] ->
      let lk s = match split ':' s with
        | [c; p] -> { l_ctx = qctx_of c; l_err = payload_of p; l_opnd = OpCall }
        | [c; p; "v"] -> { l_ctx = qctx_of c; l_err = payload_of p; l_opnd = OpVar }
        | [c; p; _] -> { l_ctx = qctx_of c; l_err = payload_of p; l_opnd = OpCall }
        | _ -> failwith ("bad link " ^ s) in
      { q_kind = (if k = "R" then KResult else KOption); q_links = List.map lk (list_field links);
        q_ok = payload_of okp; q_sel = nat_of_int (int_of_string sel) }
  | _ -> failwith "bad Q line"
let parse_t = function
  | [ch; ctx; a; b; sa; sb; e] ->
      { t_checked = (ch = "1"); t_ctx = tctx_of ctx; t_a = z_of_string a; t_b = z_of_string b;
        t_sa = unhex sa; t_sb = unhex sb;
        t_expr = parse_texpr (List.filter (fun s -> s <> "") (split ' ' e)) }
  | _ -> failwith "bad T line"
let cv s = match split ':' s with [v; p] -> cval_of v p | _ -> failwith ("bad cval " ^ s)
let flag b = if b then "1" else "0"

let sev_s = function
  | ESCall n -> "call " ^ string_of_int (int_of_nat n)
  | ESIn e -> ev_s e
  | ESDone -> "done"
let shows tag (r : sresult) =
  print_string tag; print_char '\t'; print_string (exit_s r.sr_exit); print_char '\t';
  print_endline (String.concat "\x1f" (List.map sev_s r.sr_events))


(* ---- nested payloads / loops (ModelNest.v) ---- *)
let toks s = List.filter (fun x -> x <> "") (split ' ' s)
let rest_of t = String.sub t 1 (String.length t - 1)
let parse_nty (ts : string list) : nty =
  let rest = ref ts in
  let next () = match !rest with t :: r -> rest := r; t | [] -> failwith "nty: eof" in
  let rec go () =
    match next () with
    | "I" -> TInt | "S" -> TStr | "R" -> TRec
    | "O" -> let t = go () in TOpt t
    | "G" -> let n1 = unhex (next ()) in let t = go () in let n2 = unhex (next ()) in TGen (n1, t, n2)
    | "E" -> let t = go () in let e = go () in TRes (t, e)
    | "U" -> let n1 = unhex (next ()) in let a = go () in let n2 = unhex (next ()) in let b = go () in
             let n3 = unhex (next ()) in let c = go () in let n4 = unhex (next ()) in TUsr (n1, a, n2, b, n3, c, n4)
    | t -> failwith ("nty token " ^ t) in
  go ()
let parse_nval (ts : string list) : nval =
  let rest = ref ts in
  let next () = match !rest with t :: r -> rest := r; t | [] -> failwith "nval: eof" in
  let scal t = if t.[0] = 'i' then SInt (z_of_string (rest_of t)) else SStr (unhex (rest_of t)) in
  let rec go () =
    let t = next () in
    match t.[0] with
    | 'i' -> VI (z_of_string (rest_of t))
    | 's' -> VS (unhex (rest_of t))
    | 'r' -> let k = int_of_string (rest_of t) in VR (List.init k (fun _ -> scal (next ())))
    | 'e' -> let v = unhex (rest_of t) in
             (match next () with "-" -> VE (v, None) | "+" -> let p = go () in VE (v, Some p) | x -> failwith ("nval " ^ x))
    | _ -> failwith ("nval token " ^ t) in
  go ()
let scal_s = function SInt z -> z_to_string z | SStr s -> implode s
let leaf_s = function
  | LfNo -> "" | LfInt z -> " " ^ z_to_string z | LfStr s -> " " ^ implode s
  | LfRec fs -> String.concat "" (List.map (fun f -> " " ^ scal_s f) fs)
let nev_s = function
  | NEIter k -> "it " ^ string_of_int (int_of_nat k)
  | NEArm (path, l) -> "arm " ^ String.concat " in " (List.map (fun n -> string_of_int (int_of_nat n)) path) ^ leaf_s l
  | NEVariant s -> implode s
  | NEPost (k, l) -> "post " ^ string_of_int (int_of_nat k) ^ leaf_s l
  | NEAfter -> "after"
  | NEBack k -> "back " ^ string_of_int (int_of_nat k)
  | NEDone -> "done"
let shown tag (r : nresult) =
  print_string tag; print_char '\t'; print_string (exit_s r.nr_exit); print_char '\t';
  print_endline (String.concat "\x1f" (List.map nev_s r.nr_events))

let () =
  try
    while true do
      let l = input_line stdin in
      match split '\t' l with
      | "A" :: rest ->
          let pa = parse_a rest in
          show "M" (m_run_a pa); show "S" (s_run_a pa);
          print_endline ("F\t" ^ flag (safe_a pa))
      | "Q" :: rest ->
          let pq = parse_q rest in
          show "M" (m_run_q pq); show "S" (s_run_q pq);
          print_endline ("F\t" ^ flag (safe_q pq))
      | ["M"; fns; calls] ->
          let fn s = match split '|' s with
            | [st; arms; nest] ->
                let n = if nest = "-" then None else
                  (match split '/' nest with
                   | [i0; a2] -> Some (nat_of_int (int_of_string i0), List.map arm_of (list_field a2))
                   | _ -> failwith ("bad nest " ^ nest)) in
                { f_style = mstyle_of st; f_arms = List.map arm_of (list_field arms); f_nest = n }
            | _ -> failwith ("bad fn " ^ s) in
          let call s = match split '|' s with
            | [f; v1; v2; d] -> { k_fn = nat_of_int (int_of_string f); k_val = cv v1; k_val2 = cv v2; k_direct = (d = "1") }
            | _ -> failwith ("bad call " ^ s) in
          let pm = { pm_fns = List.map fn (semi_field fns); pm_calls = List.map call (semi_field calls) } in
          showm "M" (m_run_m pm); showm "S" (s_run_m pm);
          print_endline ("F\t" ^ flag (safe_m pm))
      | "T" :: rest ->
          let pt = parse_t rest in
          show "M" (m_run_t pt); show "S" (s_run_t pt);
          print_endline ("F\t" ^ flag (safe_t pt))
      | ["R"; bi; init; steps; arms] ->
          let st s = match split ':' s with
            | [how; fn; v; p] ->
                { rs_val = cval_of v p; rs_fn = (fn = "1");
                  rs_how = (match how with "var" -> RVar | "call" -> RCall | "mkv" -> RMkv | "mk" -> RMk | "fld" -> RFld | _ -> failwith ("how " ^ how)) }
            | _ -> failwith ("bad rstep " ^ s) in
          let pr = { pr_builtin = builtin_of_name (unhex bi); pr_init = cv init;
                     pr_steps = List.map st (list_field steps); pr_arms = List.map arm_of (list_field arms) } in
          showm "M" (m_run_r pr); showm "S" (s_run_r pr);
          print_endline ("F\t" ^ flag (safe_r pr))
      | ["S"; items; calls] ->
          let item s = match split '\x1d' s with
            | "A" :: rest -> IA (parse_a rest)
            | "Q" :: rest -> IQ (parse_q rest)
            | "T" :: rest -> IT (parse_t rest)
            | _ -> failwith ("bad item " ^ s) in
          let call s = match split ':' s with
            | [j; a; b; sa; sb; sel] ->
                { sc_item = nat_of_int (int_of_string j); sc_a = z_of_string a; sc_b = z_of_string b;
                  sc_sa = unhex sa; sc_sb = unhex sb; sc_sel = nat_of_int (int_of_string sel) }
            | _ -> failwith ("bad scall " ^ s) in
          let ps = { ps_items = (if items = "-" || items = "" then [] else List.map item (split '\x1e' items));
                     ps_calls = List.map call (list_field calls) } in
          shows "M" (m_run_s ps); shows "S" (s_run_s ps);
          print_endline ("F\t" ^ flag (safe_s ps))
      | "L" :: bi :: ty :: src :: steps :: fin :: arms :: vals :: winit :: opt ->
          let lstep_of = function "ov" -> LOutVar | "oc" -> LOutCall | x -> LS (step_of x) in
          let pl = { pl_builtin = builtin_of_name (unhex bi); pl_ty = parse_nty (toks ty); pl_src = src_of src;
                     pl_steps = List.map lstep_of (list_field steps); pl_final = final_of fin;
                     pl_arms = List.map arm_of (list_field arms);
                     pl_vals = List.map (fun v -> parse_nval (toks v)) (semi_field vals); pl_winit = cv winit } in
          let erase = (match opt with ["0"] -> false | _ -> true) in
          shown "M" (m_run_l_with erase pl); shown "S" (s_run_l pl);
          (* F <safe> <one name bound to one kind only 0/1>: the kinds every binding path receives, execution by execution *)
          let kinds = List.concat (l_kinds pl) in
          let consistent = List.for_all (fun (pa, k) -> List.for_all (fun (pb, k') -> pa <> pb || k = k') kinds) kinds in
          print_endline ("F\t" ^ flag (safe_l pl) ^ "\t" ^ flag consistent)
      | ["LT"; ch; e; ops] ->
          let op s = match split ':' s with
            | [a; b; sa; sb] -> { lo_a = z_of_string a; lo_b = z_of_string b; lo_sa = unhex sa; lo_sb = unhex sb }
            | _ -> failwith ("bad lops " ^ s) in
          let pt = { lt_checked = (ch = "1"); lt_expr = parse_texpr (toks e); lt_ops = List.map op (semi_field ops) } in
          shown "M" (m_run_lt pt); shown "S" (s_run_lt pt);
          print_endline ("F\t" ^ flag (safe_lt pt))
      | ["LQ"; k; ctx; opnd; outs] ->
          let out s = if s.[0] = 'k' then QOOk (z_of_string (rest_of s)) else QOFail (payload_of (rest_of s)) in
          let pq = { lq_kind = (if k = "R" then KResult else KOption); lq_ctx = qctx_of ctx;
                     lq_opnd = (if opnd = "v" then OpVar else OpCall); lq_outs = List.map out (list_field outs) } in
          shown "M" (m_run_lq pq); shown "S" (s_run_lq pq);
          print_endline ("F\t" ^ flag (safe_lq pq))
      | ["C"; ch; mh] ->
          let sv = build_err (unhex mh) (ch = "1") in
          Printf.printf "%s|%d|%s|%s\n" (implode sv.s_variant) (if sv.s_has then 1 else 0)
            (z_to_string sv.s_int) (implode sv.s_str)
      | _ -> failwith ("bad line: " ^ l)
    done
  with End_of_file -> ()
