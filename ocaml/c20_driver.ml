(* Driver for the extracted C20 model (history semantics of the FFI manager + call sites, against the
   echo library's pure model). One case per stdin line; operations separated by " ; ":
     L <m> <f> <f> ...                         lib<m>.so exists and exports these function ids
     U <m> <f>:<ret>:<params>[:<reply>] ...    use foreign.<m> { ... }   ret/params letters i l d f v o,
                                               an upper-case parameter letter is a pointer; reply = 16 hex
                                               digits (the constant this echo function returns) or absent (mix)
     C q|u <m> <f> <arg> ...                   call; arg = i:<hex16> | l:<hex16> (integer-typed, two's
                                               complement int64) | p:<hex16> (an address) | d:<hex16> (double-typed, bit pattern)
   Output, one line per case, events separated by " ; ":
     DIAG load <m> | DIAG reg <m> <f> | DIAG call <error>
     CALL <m> <f> <cast> <args>    cast like i(id), args like i:0000002a,d:4004000000000000 ("-" if none)
     RES v <hex16> | RES d <hex16> | RES exit | RES notforeign
   sub-command "supported": lines "<ret>:<params>" -> 1/0. *)
open C20_model

let rec nat_of_int n = if n <= 0 then O else S (nat_of_int (n - 1))
let rec int_of_nat = function O -> 0 | S n -> 1 + int_of_nat n

(* unsigned 64-bit pattern (held in an Int64) <-> positive / Z *)
let rec pos_of_u64 (x : int64) : positive =
  (* x <> 0 *)
  let hi = Int64.shift_right_logical x 1 and lo = Int64.logand x 1L in
  if hi = 0L then XH else if lo = 1L then XI (pos_of_u64 hi) else XO (pos_of_u64 hi)
let z_of_u64 x = if x = 0L then Z0 else Zpos (pos_of_u64 x)
let z_of_i64 x = if x = 0L then Z0 else if Int64.compare x 0L > 0 then Zpos (pos_of_u64 x) else Zneg (pos_of_u64 (Int64.neg x))
let rec u64_of_pos = function
  | XH -> 1L
  | XO p -> Int64.shift_left (u64_of_pos p) 1
  | XI p -> Int64.logor (Int64.shift_left (u64_of_pos p) 1) 1L
let i64_of_z = function Z0 -> 0L | Zpos p -> u64_of_pos p | Zneg p -> Int64.neg (u64_of_pos p)
let hex16 z = Printf.sprintf "%016Lx" (i64_of_z z)
let hex8 z = Printf.sprintf "%08Lx" (Int64.logand (i64_of_z z) 0xFFFFFFFFL)
let i64_of_hex s = Int64.of_string ("0x" ^ s)

let ty_of_char c = match Char.lowercase_ascii c with
  | 'i' -> TInt | 'l' -> TLong | 'd' -> TDouble | 'f' -> TFloat | 'v' -> TVoid | 'p' -> TPointer | 'u' -> TUnknown | _ -> TOther
let char_of_ty = function
  | TInt -> 'i' | TLong -> 'l' | TDouble -> 'd' | TFloat -> 'f' | TVoid -> 'v' | TPointer -> 'p' | TUnknown -> 'u' | TOther -> 'o'
let explode s = List.init (String.length s) (String.get s)
let sig_str (s : csig) =
  Printf.sprintf "%c(%s)" (char_of_ty s.cs_ret) (String.concat "" (List.map (fun t -> String.make 1 (char_of_ty t)) s.cs_params))
let cval_str = function
  | CInt z -> "i:" ^ hex8 z | CLong z -> "l:" ^ hex16 z | CDouble z -> "d:" ^ hex16 z | CVoid -> "v:"
let err_str = function
  | ENotLoaded -> "notloaded" | ENotRegistered -> "notregistered" | EArgCount -> "argcount"
  | EUnsupported (t, n) -> Printf.sprintf "unsupported %c %d" (char_of_ty t) (int_of_nat n)

let words s = List.filter (fun w -> w <> "") (String.split_on_char ' ' s)

let split_ops line =
  (* " ; " separated *)
  List.map String.trim (Str.split (Str.regexp_string " ; ") line)

let () =
  let sub = if Array.length Sys.argv > 1 then Sys.argv.(1) else "history" in
  try while true do
    let line = input_line stdin in
    if sub = "supported" then begin
      match String.split_on_char ':' line with
      | [r; ps] ->
        let s = { cs_ret = ty_of_char r.[0]; cs_params = List.map ty_of_char (explode ps) } in
        print_endline (if supported ffi_chain s then "1" else "0")
      | _ -> print_endline "?"
    end else begin
      let libs : (int, nat list) Hashtbl.t = Hashtbl.create 8 in
      let replies : (int * int, z) Hashtbl.t = Hashtbl.create 8 in
      let ops = ref [] in
      List.iter (fun o ->
        match words o with
        | "L" :: m :: fs -> Hashtbl.replace libs (int_of_string m) (List.map (fun f -> nat_of_int (int_of_string f)) fs)
        | "U" :: m :: ds ->
          let m = int_of_string m in
          let decls = List.map (fun d ->
            match String.split_on_char ':' d with
            | f :: r :: ps :: rest ->
              let f = int_of_string f in
              (match rest with
               | [h] when h <> "" -> Hashtbl.replace replies (m, f) (z_of_u64 (i64_of_hex h))
               | _ -> Hashtbl.remove replies (m, f));
              { fd_name = nat_of_int f; fd_ret = ty_of_char r.[0];
                fd_params = List.map (fun c -> (ty_of_char c, Char.uppercase_ascii c = c)) (explode ps) }
            | _ -> failwith ("bad decl " ^ d)) ds in
          ops := OUse (nat_of_int m, decls) :: !ops
        | "C" :: q :: m :: f :: args ->
          let tvs = List.map (fun a ->
            let k = a.[0] and h = String.sub a 2 (String.length a - 2) in
            match k with
            | 'i' -> { tv_type = TInt; tv_is_float = false; tv_is_string = false; tv_value = z_of_i64 (i64_of_hex h); tv_dbl = Z0 }
            | 'l' -> { tv_type = TLong; tv_is_float = false; tv_is_string = false; tv_value = z_of_i64 (i64_of_hex h); tv_dbl = Z0 }
            | 'p' -> { tv_type = TPointer; tv_is_float = false; tv_is_string = false; tv_value = z_of_i64 (i64_of_hex h); tv_dbl = Z0 }
            | 'd' -> { tv_type = TDouble; tv_is_float = true; tv_is_string = false; tv_value = Z0; tv_dbl = z_of_u64 (i64_of_hex h) }
            | _ -> failwith ("bad arg " ^ a)) args in
          ops := OCall (q = "q", nat_of_int (int_of_string m), nat_of_int (int_of_string f), tvs) :: !ops
        | [] -> ()
        | _ -> failwith ("bad op " ^ o)) (split_ops line);
      let env m = Hashtbl.find_opt libs (int_of_nat m) in
      let native m f cast args = echo_native (Hashtbl.find_opt replies (int_of_nat m, int_of_nat f)) cast args in
      let evs = run_history native ffi_chain ffi_arity_check env st_empty (List.rev !ops) in
      let ev_str = function
        | EvDiag (DLoadFailed m) -> Printf.sprintf "DIAG load %d" (int_of_nat m)
        | EvDiag (DRegFailed (m, f)) -> Printf.sprintf "DIAG reg %d %d" (int_of_nat m) (int_of_nat f)
        | EvDiag (DCallFailed e) -> "DIAG call " ^ err_str e
        | EvCall (m, f, c) ->
          Printf.sprintf "CALL %d %d %s %s" (int_of_nat m) (int_of_nat f) (sig_str c.k_cast)
            (if c.k_args = [] then "-" else String.concat "," (List.map cval_str c.k_args))
        | EvResult (SValue (true, z)) -> "RES d " ^ hex16 z
        | EvResult (SValue (false, z)) -> "RES v " ^ hex16 z
        | EvResult (SExit _) -> "RES exit"
        | EvResult SNotForeign -> "RES notforeign" in
      print_endline (String.concat " ; " (List.map ev_str evs))
    end
  done with End_of_file -> ()
