(* Driver for the extracted C04 store-path models (coq/C04/Model.v).
   c04_model mech          stdin: one query per line
                             store  <path> <type> <value>          -> val N | range | other     (Mech: mech_store)
                             update <path> <type> <old> <delta>    -> val N | range | other     (Mech: mech_elem1_update)
                             spec   <type> <value>                 -> val N | range | other     (Spec: Lang.Sem.coerce)
                           path := decl|assign|compound|arg|global-scalar|static|incdec-var|incdec-elem1|return|return-from-elemN|elem1|
                                   elem1-compound|elemN|lit1|litN|global-arr|assign-from-elemN|assign-call|decl-call|decl-typedef|
                                   decl-typedef-ternary|const-global|static-assign|elem1-global|arrlit-assign1|arrlit-assignN|arr-copy|
                                   member|member-generic (direct member stores, checked since fix a3f0b3d)|
                                   member-literal (struct literal: clamp only)|member-literal-arr (array member inside a struct literal)|
                                   member-arrlit-assign (s.a = [..])|
                                   member-nested|member-pointer|member-reference|member-struct-array|deref|reference (nothing)|
                                   assign-hint:H|decl-multi:H      H := none|ptr|tiny|short|int|long|char|bool (the type hint handed to
                                   VariableManager::assign_variable)
                           type := tiny|short|int|long|char|bool|utiny|ushort|uint|ulong|uchar
   Whole programs are run by bin/lang_model (ocaml/lang_driver.ml). *)
open C04_model

let rec nat_of_int n = if n <= 0 then O else S (nat_of_int (n - 1))
let zsmall n = Z.of_nat (nat_of_int n)
let z_of_string (s : string) : z =
  let neg = String.length s > 0 && s.[0] = '-' in
  let st = if neg then 1 else 0 in
  let acc = ref Z0 in
  let ten = zsmall 10 in
  for i = st to String.length s - 1 do
    let d = Char.code s.[i] - 48 in
    if d < 0 || d > 9 then failwith ("bad int " ^ s);
    acc := Z.add (Z.mul !acc ten) (zsmall d)
  done;
  if neg then Z.opp !acc else !acc
let implode l = let b = Buffer.create 64 in List.iter (Buffer.add_char b) l; Buffer.contents b

let ty_of s =
  let mk b u = { base = b; uns = u } in
  match s with
  | "tiny" -> mk TTiny false | "short" -> mk TShort false | "int" -> mk TInt false | "long" -> mk TLong false
  | "char" -> mk TChar false | "bool" -> mk TBool false
  | "utiny" -> mk TTiny true | "ushort" -> mk TShort true | "uint" -> mk TInt true | "ulong" -> mk TLong true
  | "uchar" -> mk TChar true
  | _ -> failwith ("type " ^ s)

let hint_of = function
  | "none" -> HNone | "ptr" -> HPointer
  | "tiny" -> HTy TTiny | "short" -> HTy TShort | "int" -> HTy TInt | "long" -> HTy TLong | "char" -> HTy TChar | "bool" -> HTy TBool
  | s -> failwith ("hint " ^ s)

let rec path_of = function
  | s when String.contains s ':' ->
      let i = String.index s ':' in
      let h = hint_of (String.sub s (i + 1) (String.length s - i - 1)) in
      (match String.sub s 0 i with
       | "assign-hint" -> PAssignHint h | "decl-multi" -> PDeclMulti h
       | q -> failwith ("hinted path " ^ q))
  | "assign-call" -> PAssignCall | "decl-call" -> PDeclCall | "decl-typedef" -> PDeclTypedef
  | "decl-typedef-ternary" -> PDeclTypedefTernary | "const-global" -> PConstGlobal | "static-assign" -> PStaticAssign
  | "elem1-global" -> PElem1Global | "arrlit-assign1" -> PArrLitAssign1 | "arrlit-assignN" -> PArrLitAssignN | "arr-copy" -> PArrCopy
  | "member" | "member-generic" -> PMember | "member-literal" -> PMemberLit
  | "member-nested" | "member-pointer" | "member-reference" | "member-struct-array" | "deref" | "reference" -> PIndirect
  (* an array member initialised inside a struct literal behaves like `a = [..]` on a 1-D array (clamp, narrowing read); a whole
     array literal assigned to a member array like the nested form (clamp only, the member read does not narrow) *)
  | "member-literal-arr" -> PArrLitAssign1 | "member-arrlit-assign" -> PArrLitAssignN
  | "decl" -> PDecl | "assign" -> PAssign | "compound" -> PCompound | "arg" -> PArg | "global-scalar" -> PGlobalScalar
  | "static" -> PStatic | "incdec-var" -> PIncDecVar | "incdec-elem1" -> PIncDecElem1 | "return" -> PReturn
  | "return-from-elemN" -> PReturnElemN
  | "elem1" -> PElem1 | "elem1-compound" -> PElem1Compound | "elemN" -> PElemN | "lit1" -> PLit1 | "litN" -> PLitN
  | "global-arr" -> PGlobalArr | "assign-from-elemN" -> PAssignFromElemN
  | s -> failwith ("path " ^ s)

let show_ctl = function
  | Val z -> "val " ^ implode (dec_Z z)
  | Fail ERange -> "range"
  | _ -> "other"

let () =
  try
    while true do
      let line = input_line stdin in
      match String.split_on_char ' ' (String.trim line) with
      | ["store"; p; t; v] -> print_endline (show_ctl (mech_store (path_of p) (ty_of t) (z_of_string v)))
      | ["update"; p; t; o; d] -> print_endline (show_ctl (mech_elem1_update (path_of p) (ty_of t) (z_of_string o) (z_of_string d)))
      | ["spec"; t; v] -> print_endline (show_ctl (coerce (ty_of t) (z_of_string v)))
      | [""] -> ()
      | _ -> print_endline "bad-query"
    done
  with End_of_file -> ()
