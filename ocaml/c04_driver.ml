(* Driver for the extracted C04 store-path models (coq/C04/Model.v).
   c04_model mech          stdin: one query per line
                             store  <path> <type> <value>          -> val N | range | other     (Mech: mech_store)
                             update <path> <type> <old> <delta>    -> val N | range | other     (Mech: mech_elem1_update)
                             spec   <type> <value>                 -> val N | range | other     (Spec: Lang.Sem.coerce)
                             effects <path> <type> <cell> <op> ..  -> one `ok|range READ RAW` per op, `;`-separated   (Mech: mech_effects -
                                                                      the order of conversion, check and write of the path; READ = what
                                                                      a read of the cell yields afterwards, RAW = what the cell holds)
                             spec-effects <type> <cell> <op> ..    -> the same for Spec (a rejected store changes nothing)
                                                                      op := =V (store V) | +D (store cell + D) | ~D (store read(cell) + D)
   c04_model try [fuel]    stdin: one try-program per line (coq/C04/Try.v) as an S-expression
                             (T (gdecl ..) (func ..) (item ..))   item := stmt | (try CHK (incdec pre inc lv)) | (try CHK (call F e ..))
                             gdecl / func / stmt / expr as in ocaml/lang_driver.ml; answer in the protocol of bin/lang_model
                             (===BEGIN / Cb text / ===EXPECT outcome / expected stdout / ===END)
                           path := decl|assign|compound|arg|global-scalar|static|incdec-var|incdec-elem1|return|return-from-elemN|elem1|
                                   elem1-compound|elemN|lit1|litN|global-arr|assign-from-elemN|assign-call|decl-call|decl-typedef|
                                   decl-typedef-ternary|const-global|static-assign|elem1-global|elemN-global|arrlit-assign1|arrlit-assignN|arr-copy|
                                   member|member-generic (direct member stores, checked since fix a3f0b3d)|
                                   member-literal (struct literal: clamp only)|member-literal-arr (array member inside a struct literal)|
                                   member-arrlit-assign (s.a = [..])|
                                   member-nested|member-pointer|member-reference|member-struct-array|deref|reference (nothing)|
                                   assign-hint:H|decl-multi:H      H := none|ptr|tiny|short|int|long|char|bool (the type hint handed to
                                   VariableManager::assign_variable)
                           type := tiny|short|int|long|char|bool|utiny|ushort|uint|ulong|uchar
   Whole programs are run by bin/lang_model (ocaml/lang_driver.ml). *)
open C04_model

let rec nat_of_int n = if n <= 0 then O else S (nat_of_int (n - 1))
let zsmall n = Z.of_nat (nat_of_int n)
let z_of_string (s : string) : z =
  let neg = String.length s > 0 && s.[0] = '-' in
  let st = if neg then 1 else 0 in
  let acc = ref Z0 in
  let ten = zsmall 10 in
  for i = st to String.length s - 1 do
    let d = Char.code s.[i] - 48 in
    if d < 0 || d > 9 then failwith ("bad int " ^ s);
    acc := Z.add (Z.mul !acc ten) (zsmall d)
  done;
  if neg then Z.opp !acc else !acc
let implode l = let b = Buffer.create 64 in List.iter (Buffer.add_char b) l; Buffer.contents b

let ty_of s =
  let mk b u = { base = b; uns = u } in
  match s with
  | "tiny" -> mk TTiny false | "short" -> mk TShort false | "int" -> mk TInt false | "long" -> mk TLong false
  | "char" -> mk TChar false | "bool" -> mk TBool false
  | "utiny" -> mk TTiny true | "ushort" -> mk TShort true | "uint" -> mk TInt true | "ulong" -> mk TLong true
  | "uchar" -> mk TChar true
  | _ -> failwith ("type " ^ s)

let hint_of = function
  | "none" -> HNone | "ptr" -> HPointer
  | "tiny" -> HTy TTiny | "short" -> HTy TShort | "int" -> HTy TInt | "long" -> HTy TLong | "char" -> HTy TChar | "bool" -> HTy TBool
  | s -> failwith ("hint " ^ s)

let rec path_of = function
  | s when String.contains s ':' ->
      let i = String.index s ':' in
      let h = hint_of (String.sub s (i + 1) (String.length s - i - 1)) in
      (match String.sub s 0 i with
       | "assign-hint" -> PAssignHint h | "decl-multi" -> PDeclMulti h
       | q -> failwith ("hinted path " ^ q))
  | "assign-call" -> PAssignCall | "decl-call" -> PDeclCall | "decl-typedef" -> PDeclTypedef
  | "decl-typedef-ternary" -> PDeclTypedefTernary | "const-global" -> PConstGlobal | "static-assign" -> PStaticAssign
  (* an element of a GLOBAL multi-dimensional array: ArrayManager::setMultidimensionalArrayElement on a Variable that has lost
     is_unsigned - no clamp, the signed range, no narrowing read: the same conversion as a store to a static *)
  | "elemN-global" -> PStaticAssign
  | "elem1-global" -> PElem1Global | "arrlit-assign1" -> PArrLitAssign1 | "arrlit-assignN" -> PArrLitAssignN | "arr-copy" -> PArrCopy
  | "member" | "member-generic" -> PMember | "member-literal" -> PMemberLit
  | "member-nested" | "member-pointer" | "member-reference" | "member-struct-array" | "deref" | "reference" -> PIndirect
  (* an array member initialised inside a struct literal behaves like `a = [..]` on a 1-D array (clamp, narrowing read); a whole
     array literal assigned to a member array like the nested form (clamp only, the member read does not narrow) *)
  | "member-literal-arr" -> PArrLitAssign1 | "member-arrlit-assign" -> PArrLitAssignN
  | "decl" -> PDecl | "assign" -> PAssign | "compound" -> PCompound | "arg" -> PArg | "global-scalar" -> PGlobalScalar
  | "static" -> PStatic | "incdec-var" -> PIncDecVar | "incdec-elem1" -> PIncDecElem1 | "return" -> PReturn
  | "return-from-elemN" -> PReturnElemN
  | "elem1" -> PElem1 | "elem1-compound" -> PElem1Compound | "elemN" -> PElemN | "lit1" -> PLit1 | "litN" -> PLitN
  | "global-arr" -> PGlobalArr | "assign-from-elemN" -> PAssignFromElemN
  | s -> failwith ("path " ^ s)

(* ------------------------------------------------------------------ S-expression reader (same grammar as ocaml/lang_driver.ml) *)
type sx = A of string | L of sx list

let parse_sx (s : string) : sx =
  let n = String.length s in
  let pos = ref 0 in
  let rec skip () = while !pos < n && (s.[!pos] = ' ' || s.[!pos] = '\t') do incr pos done
  and item () =
    skip ();
    if !pos >= n then failwith "eof"
    else if s.[!pos] = '(' then begin
      incr pos;
      let items = ref [] in
      skip ();
      while !pos < n && s.[!pos] <> ')' do items := item () :: !items; skip () done;
      if !pos >= n then failwith "unclosed";
      incr pos; L (List.rev !items)
    end else begin
      let st = !pos in
      while !pos < n && s.[!pos] <> ' ' && s.[!pos] <> '(' && s.[!pos] <> ')' && s.[!pos] <> '\t' do incr pos done;
      A (String.sub s st (!pos - st))
    end in
  item ()

let atom = function A s -> s | L _ -> failwith "atom expected"
let nat_a x = nat_of_int (int_of_string (atom x))
let bool_a x = (atom x) = "1"
let binop_of = function
  | "+" -> Add | "-" -> Sub | "*" -> Mul | "/" -> Div | "%" -> Mod | "&" -> BAnd | "|" -> BOr | "^" -> BXor
  | "<<" -> Shl | ">>" -> Shr | "<" -> Lt0 | "<=" -> Le | ">" -> Gt0 | ">=" -> Ge | "==" -> Eq0 | "!=" -> Ne
  | s -> failwith ("binop " ^ s)
let unop_of = function "-" -> Neg | "!" -> LNot | "~" -> BNot | s -> failwith ("unop " ^ s)
let rec expr_of = function
  | A s -> ENum (z_of_string s)
  | L [A "v"; n] -> EVar (nat_a n)
  | L [A "un"; o; e] -> EUn (unop_of (atom o), expr_of e)
  | L [A "bin"; o; a; b] -> EBin (binop_of (atom o), expr_of a, expr_of b)
  | L [A "and"; a; b] -> EAnd (expr_of a, expr_of b)
  | L [A "or"; a; b] -> EOr (expr_of a, expr_of b)
  | L [A "cond"; c; a; b] -> ECond (expr_of c, expr_of a, expr_of b)
  | L (A "call" :: f :: args) -> ECall (nat_a f, List.map expr_of args)
  | L (A "idx" :: a :: idx) -> EIdx (nat_a a, List.map expr_of idx)
  | _ -> failwith "expr"
let lval_of = function
  | L [A "v"; n] -> LVar (nat_a n)
  | L (A "idx" :: a :: idx) -> LIdx (nat_a a, List.map expr_of idx)
  | _ -> failwith "lval"
let list_of = function L l -> l | A _ -> failwith "list expected"
let fld_of = function
  | A t -> { fty = ty_of t; fdims = [] }
  | L (A t :: dims) -> { fty = ty_of t; fdims = List.map nat_a dims }
  | _ -> failwith "fld"
let rec stmt_of = function
  | L [A "decl"; c; s; t; x] -> SDecl (bool_a c, bool_a s, ty_of (atom t), nat_a x, None)
  | L [A "decl"; c; s; t; x; e] -> SDecl (bool_a c, bool_a s, ty_of (atom t), nat_a x, Some (expr_of e))
  | L [A "arr"; c; t; x; dims; init] ->
      SArr (bool_a c, ty_of (atom t), nat_a x, List.map nat_a (list_of dims), List.map expr_of (list_of init))
  | L [A "asg"; lv; e] -> SAssign (lval_of lv, None, expr_of e)
  | L [A "casg"; o; lv; e] -> SAssign (lval_of lv, Some (binop_of (atom o)), expr_of e)
  | L [A "incdec"; p; i; lv] -> SIncDec (bool_a p, bool_a i, lval_of lv)
  | L [A "expr"; e] -> SExpr (expr_of e)
  | L [A "if"; c; s1; s2] -> SIf (expr_of c, stmts_of s1, stmts_of s2)
  | L [A "while"; c; b] -> SWhile (expr_of c, stmts_of b)
  | L [A "for"; i; c; u; b] -> SFor (stmts_of i, expr_of c, stmts_of u, stmts_of b)
  | L [A "break"] -> SBreak
  | L [A "continue"] -> SContinue
  | L [A "ret"] -> SReturn None
  | L [A "ret"; e] -> SReturn (Some (expr_of e))
  | L (A "block" :: ss) -> SBlock (List.map stmt_of ss)
  | L (A "print" :: n :: args) -> SPrint (bool_a n, List.map expr_of args)
  | L (A "struct" :: sn :: x :: flds) -> SStruct (nat_a sn, nat_a x, List.map fld_of flds)
  | L (A "copy" :: x :: y :: flds) -> SCopy (nat_a x, nat_a y, List.map fld_of flds)
  | _ -> failwith "stmt"
and stmts_of x = List.map stmt_of (list_of x)
let param_of = function
  | L [n; t] -> { pty = ty_of (atom t); pname = nat_a n; pdef = None }
  | L [n; t; d] -> { pty = ty_of (atom t); pname = nat_a n; pdef = Some (expr_of d) }
  | _ -> failwith "param"
let func_of = function
  | L [A "F"; n; r; ps; body] ->
      { fname = nat_a n; fret = (match atom r with "void" -> None | s -> Some (ty_of s));
        fparams = List.map param_of (list_of ps); fbody = stmts_of body }
  | _ -> failwith "func"
let gdecl_of = function
  | L [A "G"; c; t; n; dims; init] ->
      { gcst = bool_a c; gty = ty_of (atom t); gname = nat_a n; gdims = List.map nat_a (list_of dims);
        ginit = List.map (fun x -> z_of_string (atom x)) (list_of init) }
  | _ -> failwith "gdecl"
let item_of = function
  | L [A "try"; c; L [A "incdec"; p; i; lv]] -> TTry (bool_a c, AIncDec (bool_a p, bool_a i, lval_of lv))
  | L [A "try"; c; L (A "call" :: f :: args)] -> TTry (bool_a c, ACall (nat_a f, List.map expr_of args))
  | L (A "try" :: _) -> failwith "try item"
  | st -> TStmt (stmt_of st)
let tprog_of = function
  | L [A "T"; gs; fs; m] ->
      { tglobals = List.map gdecl_of (list_of gs); tfuncs = List.map func_of (list_of fs); tmain = List.map item_of (list_of m) }
  | _ -> failwith "tprog"
let err_s = function
  | EDiv0 -> "div0" | ERange -> "range" | EBounds -> "bounds" | EConst -> "const" | EArity -> "arity"
  | EUnbound -> "unbound" | EUndef -> "undef" | ENoFuel -> "nofuel"

let sop_of (s : string) : sop =
  let rest = String.sub s 1 (String.length s - 1) in
  match s.[0] with
  | '=' -> OSet (z_of_string rest) | '+' -> OAddRaw (z_of_string rest) | '~' -> OAddRead (z_of_string rest)
  | _ -> failwith ("op " ^ s)
let show_effects rd l =
  String.concat " ; " (List.map (fun (ok, raw) -> (if ok then "ok " else "range ") ^ implode (dec_Z (rd raw)) ^ " " ^ implode (dec_Z raw)) l)

let show_ctl = function
  | Val z -> "val " ^ implode (dec_Z z)
  | Fail ERange -> "range"
  | _ -> "other"

let mech_loop () =
  try
    while true do
      let line = input_line stdin in
      match String.split_on_char ' ' (String.trim line) with
      | ["store"; p; t; v] -> print_endline (show_ctl (mech_store (path_of p) (ty_of t) (z_of_string v)))
      | ["update"; p; t; o; d] -> print_endline (show_ctl (mech_elem1_update (path_of p) (ty_of t) (z_of_string o) (z_of_string d)))
      | ["spec"; t; v] -> print_endline (show_ctl (coerce (ty_of t) (z_of_string v)))
      | "effects" :: p :: t :: c :: ops ->
          let pp = path_of p and tt = ty_of t in
          print_endline (show_effects (read_of pp tt) (mech_effects pp tt (z_of_string c) (List.map sop_of ops)))
      | "spec-effects" :: t :: c :: ops ->
          print_endline (show_effects (fun z -> z) (spec_effects (ty_of t) (z_of_string c) (List.map sop_of ops)))
      | [""] -> ()
      | _ -> print_endline "bad-query"
    done
  with End_of_file -> ()

let try_loop fuel =
  try
    while true do
      let line = input_line stdin in
      if String.length line > 0 then begin
        let p = tprog_of (parse_sx line) in
        print_endline "===BEGIN";
        print_string (implode (print_tprogram p));
        let (out, oc) = run_try fuel p in
        print_endline ("===EXPECT " ^ (match oc with Finished -> "finished" | Failed e -> err_s e));
        print_string (implode (render out));
        print_endline "";
        print_endline "===END"
      end
    done
  with End_of_file -> ()

let () =
  match (if Array.length Sys.argv > 1 then Sys.argv.(1) else "mech") with
  | "try" -> try_loop (nat_of_int (if Array.length Sys.argv > 2 then int_of_string Sys.argv.(2) else 4000))
  | _ -> mech_loop ()
