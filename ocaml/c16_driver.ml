(* Driver for the extracted C16 model.  Sub-command "run" (default), protocol on stdin, many cases per run:
     CASE
     <call>                            the call instance of main
     END
   <call> ::=
     CALL
     A <hex name>  <comp>              parameter name, followed by its argument expression
     L <hex text>  <comp>              source text of an expression of the body, followed by what it is
     P <0|1> <arg> ...                 print (0) / println (1)
     F                                 a statement that raises a run-time error
     X <hex text>                      expression statement (the value is dropped)
     T <hex name> <arg>                declaration  T name = <arg>;
     O [<hex text>:<hex key> ...]      enter a scope (block, if / else body, loop iteration, switch case, match arm) in
                                       which each text means what the key means in the enclosing environment
     C                                 leave the scope (its deferred statements run, last registered first)
     D <0|1> <arg> ...                 defer print / println
     RET <arg>                         return expression (absent: no value)
     ENDCALL
   <comp> ::= VAL I <decimal> | VAL S [<hex>] | VAL F <0|1> <m> <e> (the double (-1)^neg * m * 2^e) | <call>
   <arg>  ::= Q<hex> string literal token text | I<decimal> effect-free integer expression | S<hex> effect-free
              string expression | R<hex> any other expression, by its source text
   The A / L / statement lines of a call may come in any order; statements keep their order.
   (Old format, still accepted inside the main call: "E <hex> I <dec>" / "E <hex> S [<hex>]" = L + VAL.)
   Output per case: "OK <hex of stdout> <1 if the run ended in an error else 0> ,<hex>,<hex>..."
   (the last field: what each statement of main wrote, up to and including the failing one; "!" = outside the model)
   or "ERR parse" (some literal does not split: nothing runs) / "ERR unsupported" / "ERR unbound".
   For a case without calls the result is cross-checked against the effect-free model (run_program), for a case
   without scope tokens against the model of Nested.v (run_main): "ERR lift" would mean the extracted functions
   disagree (excluded by theorems nested_model_conservative and contexts_model_conservative).
   Sub-command "split": one hex literal per line -> "T<hex>" / "X<hex>[:<hex>]" / "D" tokens, or "ERR parse";
   prefixed by "1 " / "0 " = the lexer's interpolation flag. *)
open C16_model

let hexval c = match c with
  | '0'..'9' -> Char.code c - 48 | 'a'..'f' -> Char.code c - 87 | 'A'..'F' -> Char.code c - 55
  | _ -> failwith "bad hex"
let unhex s =
  let n = String.length s / 2 in
  List.init n (fun i -> Char.chr (hexval s.[2*i] * 16 + hexval s.[2*i+1]))
let hex l =
  let b = Buffer.create 64 in
  List.iter (fun c -> Buffer.add_string b (Printf.sprintf "%02x" (Char.code c))) l; Buffer.contents b

let rec pos_of_u64 (u : int64) : positive =
  if Int64.equal u 1L then XH
  else let h = pos_of_u64 (Int64.shift_right_logical u 1) in
       if Int64.equal (Int64.logand u 1L) 0L then XO h else XI h
let z_of_string s : z =
  let v = Int64.of_string s in
  if Int64.equal v 0L then Z0
  else if Int64.compare v 0L > 0 then Zpos (pos_of_u64 v)
  else Zneg (pos_of_u64 (Int64.neg v))      (* min_int: neg wraps to the bit pattern of 2^63 *)

let parse_arg t =
  let rest = String.sub t 1 (String.length t - 1) in
  match t.[0] with
  | 'Q' -> XQuoted (unhex rest)
  | 'I' -> XInt (z_of_string rest)
  | 'S' -> XStr (unhex rest)
  | 'R' -> XRef (unhex rest)
  | _ -> failwith ("bad arg " ^ t)

let words l = List.filter (fun w -> w <> "") (String.split_on_char ' ' l)

let pushed : string list option ref = ref None
let rec next_words () =
  match !pushed with
  | Some w -> pushed := None; w
  | None ->
    match words (input_line stdin) with
    | [] -> next_words ()
    | w -> w

(* reads the lines of a call after its CALL line, up to ENDCALL *)
let parse_alias w =
  match String.index_opt w ':' with
  | Some i -> (unhex (String.sub w 0 i), unhex (String.sub w (i + 1) (String.length w - i - 1)))
  | None -> failwith ("bad alias " ^ w)

let rec read_call ?(stop = "ENDCALL") () : ccomp =
  let ps = ref [] and ls = ref [] and body = ref [] and ret = ref None in
  let fin = ref false in
  while not !fin do
    (match next_words () with
     | [w] when w = stop -> fin := true
     | ["A"; n] -> let c = read_comp () in ps := (unhex n, c) :: !ps
     | ["L"; n] -> let c = read_comp () in ls := (unhex n, c) :: !ls
     | ["E"; n; "I"; v] -> ls := (unhex n, KVal (VInt (z_of_string v))) :: !ls
     | ["E"; n; "S"; v] -> ls := (unhex n, KVal (VStr (unhex v))) :: !ls
     | ["E"; n; "S"] -> ls := (unhex n, KVal (VStr [])) :: !ls
     | "P" :: nl :: args -> body := CBase (XPrint (nl = "1", List.map parse_arg args)) :: !body
     | ["F"] -> body := CBase XFail :: !body
     | ["X"; n] -> body := CBase (XEval (unhex n)) :: !body
     | ["T"; n; a] -> body := CBase (XLet (unhex n, parse_arg a)) :: !body
     | "O" :: al -> body := COpen (List.map parse_alias al) :: !body
     | ["C"] -> body := CClose :: !body
     | "D" :: nl :: args -> body := CDefer (XPrint (nl = "1", List.map parse_arg args)) :: !body
     | ["RET"; a] -> ret := Some (parse_arg a)
     | w -> failwith ("bad line in call: " ^ String.concat " " w))
  done;
  KCall (List.rev !ps, List.rev !ls, List.rev !body, !ret)

and read_comp () : ccomp =
  match next_words () with
  | ["VAL"; "I"; v] -> KVal (VInt (z_of_string v))
  | ["VAL"; "S"; v] -> KVal (VStr (unhex v))
  | ["VAL"; "S"] -> KVal (VStr [])
  | ["VAL"; "F"; ng; m; e] ->
      let mz = Int64.of_string m in
      KVal (VFlt (ng = "1", (if Int64.equal mz 0L then N0 else Npos (pos_of_u64 mz)), z_of_string e))
  | ["CALL"] -> read_call ()
  | w -> failwith ("bad comp: " ^ String.concat " " w)

(* the call instance in the vocabulary of Nested.v, if it has no scope tokens *)
let rec unembed (c : ccomp) : comp option =
  match c with
  | KVal v -> Some (CVal v)
  | KCall (ps, ls, body, r) ->
      (try
        let sub l = List.map (fun (k, c') -> match unembed c' with Some x -> (k, x) | None -> raise Exit) l in
        let st = function CBase x -> x | _ -> raise Exit in
        Some (CCall (sub ps, sub ls, List.map st body, r))
      with Exit -> None)

(* the effect-free image of a case, if it has one (no calls, no X/T statements) *)
let pure_image (c : ccomp) : (env * stmt list) option =
  match c with
  | KCall ([], ls, body, None) ->
      (try
        let e = List.map (fun (k, v) -> match v with KVal x -> (k, x) | _ -> raise Exit) ls in
        let arg = function XQuoted s -> AQuoted s | XInt z -> AInt z | XStr s -> AStr s | XRef _ -> raise Exit in
        let st = function CBase (XPrint (nl, a)) -> SPrint (nl, List.map arg a) | CBase XFail -> SFail | _ -> raise Exit in
        Some (e, List.map st body)
      with Exit -> None)
  | _ -> None

let report (c : ccomp) =
  match run_main_c c with
  | Inl (o, failed) ->
      (* what each statement of main wrote (a statement that opens scopes: up to the token that closes the
         outermost one), for the harness' own oracle *)
      let per =
        match c with
        | KCall (_, ls, body, _) ->
            let e0 = List.map (fun (k, c') -> (k, run_ccomp c')) ls in
            let depth_after d = function COpen _ -> d + 1 | CClose -> d - 1 | _ -> d in
            let rec go st d acc = function
              | [] -> if acc = [] then [] else [hex acc]
              | s :: r ->
                  (match step_c st s with
                   | Inl (side, Some st') ->
                       let d' = depth_after d s in
                       if d' = 0 then hex (acc @ side) :: go st' 0 [] r else go st' d' (acc @ side) r
                   | Inl (side, None) -> [hex (acc @ side)]
                   | Inr _ -> ["!"]) in
            go ((e0, []), []) 0 [] body
        | KVal _ -> [] in
      let ok =
        (match pure_image c with
         | None -> true
         | Some (e, p) ->
             (match run_program e p with
              | (Inl o', failed') -> o' = o && failed' = failed
              | (Inr _, _) -> false))
        && (if List.compare_length_with o 60000 > 0 then true       (* megabytes of output: once is enough *)
            else match unembed c with
            | None -> true
            | Some c0 -> (match run_main c0 with Inl (o', failed') -> o' = o && failed' = failed | Inr _ -> false)) in
      if ok then Printf.printf "OK %s %d %s\n" (hex o) (if failed then 1 else 0) (String.concat "," ("" :: per))
      else print_endline "ERR lift"
  | Inr EParse -> print_endline "ERR parse"
  | Inr EUnsupported -> print_endline "ERR unsupported"
  | Inr EUnbound -> print_endline "ERR unbound"

let run () =
  (try while true do
    match next_words () with
    | ["CASE"] ->
        (match next_words () with
         | ["CALL"] ->
             let c = read_call () in
             (match next_words () with
              | ["END"] -> report c
              | w -> failwith ("expected END: " ^ String.concat " " w))
         | w -> (* old flat format: the lines of main directly, up to END *)
             pushed := Some w; report (read_call ~stop:"END" ()))
    | w -> failwith ("bad line " ^ String.concat " " w)
  done with End_of_file -> ())

let split_cmd () =
  (try while true do
    let l = String.trim (input_line stdin) in
    let s = unhex l in
    let flag = if has_interpolation s then "1" else "0" in
    match split s with
    | None -> print_endline (flag ^ " ERR parse")
    | Some segs ->
        let tok = function
          | SText t -> "T" ^ hex t
          | SDollar -> "D"
          | SExpr (e, None) -> "X" ^ hex e
          | SExpr (e, Some f) -> "X" ^ hex e ^ ":" ^ hex f in
        print_endline (String.concat " " (flag :: List.map tok segs))
  done with End_of_file -> ())

let () =
  match (if Array.length Sys.argv > 1 then Sys.argv.(1) else "run") with
  | "split" -> split_cmd ()
  | _ -> run ()
