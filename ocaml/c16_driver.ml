(* Driver for the extracted C16 model.  Sub-command "run" (default), protocol on stdin, many cases per run:
     CASE
     <call>                            the call instance of main
     END
   <call> ::=
     CALL
     A <hex name>  <comp>              parameter name, followed by its argument expression
     L <hex text>  <comp>              source text of an expression of the body, followed by what it is
     P <0|1> <arg> ...                 print (0) / println (1)
     F                                 a statement that raises a run-time error
     X <hex text>                      expression statement (the value is dropped)
     T <hex name> <arg>                declaration  T name = <arg>;
     RET <arg>                         return expression (absent: no value)
     ENDCALL
   <comp> ::= VAL I <decimal> | VAL S [<hex>] | VAL F <0|1> <m> <e> (the double (-1)^neg * m * 2^e) | <call>
   <arg>  ::= Q<hex> string literal token text | I<decimal> effect-free integer expression | S<hex> effect-free
              string expression | R<hex> any other expression, by its source text
   The A / L / statement lines of a call may come in any order; statements keep their order.
   (Old format, still accepted inside the main call: "E <hex> I <dec>" / "E <hex> S [<hex>]" = L + VAL.)
   Output per case: "OK <hex of stdout> <1 if the run ended in an error else 0> ,<hex>,<hex>..."
   (the last field: what each statement of main wrote, up to and including the failing one; "!" = outside the model)
   or "ERR parse" (some literal does not split: nothing runs) / "ERR unsupported" / "ERR unbound".
   For a case without calls the result is cross-checked against the effect-free model (run_program): "ERR lift"
   would mean the two extracted functions disagree (excluded by theorem nested_model_conservative).
   Sub-command "split": one hex literal per line -> "T<hex>" / "X<hex>[:<hex>]" / "D" tokens, or "ERR parse";
   prefixed by "1 " / "0 " = the lexer's interpolation flag. *)
open C16_model

let hexval c = match c with
  | '0'..'9' -> Char.code c - 48 | 'a'..'f' -> Char.code c - 87 | 'A'..'F' -> Char.code c - 55
  | _ -> failwith "bad hex"
let unhex s =
  let n = String.length s / 2 in
  List.init n (fun i -> Char.chr (hexval s.[2*i] * 16 + hexval s.[2*i+1]))
let hex l =
  let b = Buffer.create 64 in
  List.iter (fun c -> Buffer.add_string b (Printf.sprintf "%02x" (Char.code c))) l; Buffer.contents b

let rec pos_of_u64 (u : int64) : positive =
  if Int64.equal u 1L then XH
  else let h = pos_of_u64 (Int64.shift_right_logical u 1) in
       if Int64.equal (Int64.logand u 1L) 0L then XO h else XI h
let z_of_string s : z =
  let v = Int64.of_string s in
  if Int64.equal v 0L then Z0
  else if Int64.compare v 0L > 0 then Zpos (pos_of_u64 v)
  else Zneg (pos_of_u64 (Int64.neg v))      (* min_int: neg wraps to the bit pattern of 2^63 *)

let parse_arg t =
  let rest = String.sub t 1 (String.length t - 1) in
  match t.[0] with
  | 'Q' -> XQuoted (unhex rest)
  | 'I' -> XInt (z_of_string rest)
  | 'S' -> XStr (unhex rest)
  | 'R' -> XRef (unhex rest)
  | _ -> failwith ("bad arg " ^ t)

let words l = List.filter (fun w -> w <> "") (String.split_on_char ' ' l)

let pushed : string list option ref = ref None
let rec next_words () =
  match !pushed with
  | Some w -> pushed := None; w
  | None ->
    match words (input_line stdin) with
    | [] -> next_words ()
    | w -> w

(* reads the lines of a call after its CALL line, up to ENDCALL *)
let rec read_call ?(stop = "ENDCALL") () : comp =
  let ps = ref [] and ls = ref [] and body = ref [] and ret = ref None in
  let fin = ref false in
  while not !fin do
    (match next_words () with
     | [w] when w = stop -> fin := true
     | ["A"; n] -> let c = read_comp () in ps := (unhex n, c) :: !ps
     | ["L"; n] -> let c = read_comp () in ls := (unhex n, c) :: !ls
     | ["E"; n; "I"; v] -> ls := (unhex n, CVal (VInt (z_of_string v))) :: !ls
     | ["E"; n; "S"; v] -> ls := (unhex n, CVal (VStr (unhex v))) :: !ls
     | ["E"; n; "S"] -> ls := (unhex n, CVal (VStr [])) :: !ls
     | "P" :: nl :: args -> body := XPrint (nl = "1", List.map parse_arg args) :: !body
     | ["F"] -> body := XFail :: !body
     | ["X"; n] -> body := XEval (unhex n) :: !body
     | ["T"; n; a] -> body := XLet (unhex n, parse_arg a) :: !body
     | ["RET"; a] -> ret := Some (parse_arg a)
     | w -> failwith ("bad line in call: " ^ String.concat " " w))
  done;
  CCall (List.rev !ps, List.rev !ls, List.rev !body, !ret)

and read_comp () : comp =
  match next_words () with
  | ["VAL"; "I"; v] -> CVal (VInt (z_of_string v))
  | ["VAL"; "S"; v] -> CVal (VStr (unhex v))
  | ["VAL"; "S"] -> CVal (VStr [])
  | ["VAL"; "F"; ng; m; e] ->
      let mz = Int64.of_string m in
      CVal (VFlt (ng = "1", (if Int64.equal mz 0L then N0 else Npos (pos_of_u64 mz)), z_of_string e))
  | ["CALL"] -> read_call ()
  | w -> failwith ("bad comp: " ^ String.concat " " w)

(* the effect-free image of a case, if it has one (no calls, no X/T statements) *)
let pure_image (c : comp) : (env * stmt list) option =
  match c with
  | CCall ([], ls, body, None) ->
      (try
        let e = List.map (fun (k, v) -> match v with CVal x -> (k, x) | _ -> raise Exit) ls in
        let arg = function XQuoted s -> AQuoted s | XInt z -> AInt z | XStr s -> AStr s | XRef _ -> raise Exit in
        let st = function XPrint (nl, a) -> SPrint (nl, List.map arg a) | XFail -> SFail | _ -> raise Exit in
        Some (e, List.map st body)
      with Exit -> None)
  | _ -> None

let report (c : comp) =
  match run_main c with
  | Inl (o, failed) ->
      (* what each statement of main wrote, for the harness' own oracle *)
      let per =
        match c with
        | CCall (_, ls, body, _) ->
            let e0 = List.map (fun (k, c') -> (k, run_comp c')) ls in
            let rec go e = function
              | [] -> []
              | s :: r ->
                  (match stmt_m e s with
                   | Inl (side, Some e') -> hex side :: go e' r
                   | Inl (side, None) -> [hex side]
                   | Inr _ -> ["!"]) in
            go e0 body
        | CVal _ -> [] in
      let ok =
        match pure_image c with
        | None -> true
        | Some (e, p) ->
            (match run_program e p with
             | (Inl o', failed') -> o' = o && failed' = failed
             | (Inr _, _) -> false) in
      if ok then Printf.printf "OK %s %d %s\n" (hex o) (if failed then 1 else 0) (String.concat "," ("" :: per))
      else print_endline "ERR lift"
  | Inr EParse -> print_endline "ERR parse"
  | Inr EUnsupported -> print_endline "ERR unsupported"
  | Inr EUnbound -> print_endline "ERR unbound"

let run () =
  (try while true do
    match next_words () with
    | ["CASE"] ->
        (match next_words () with
         | ["CALL"] ->
             let c = read_call () in
             (match next_words () with
              | ["END"] -> report c
              | w -> failwith ("expected END: " ^ String.concat " " w))
         | w -> (* old flat format: the lines of main directly, up to END *)
             pushed := Some w; report (read_call ~stop:"END" ()))
    | w -> failwith ("bad line " ^ String.concat " " w)
  done with End_of_file -> ())

let split_cmd () =
  (try while true do
    let l = String.trim (input_line stdin) in
    let s = unhex l in
    let flag = if has_interpolation s then "1" else "0" in
    match split s with
    | None -> print_endline (flag ^ " ERR parse")
    | Some segs ->
        let tok = function
          | SText t -> "T" ^ hex t
          | SDollar -> "D"
          | SExpr (e, None) -> "X" ^ hex e
          | SExpr (e, Some f) -> "X" ^ hex e ^ ":" ^ hex f in
        print_endline (String.concat " " (flag :: List.map tok segs))
  done with End_of_file -> ())

let () =
  match (if Array.length Sys.argv > 1 then Sys.argv.(1) else "run") with
  | "split" -> split_cmd ()
  | _ -> run ()
