(* Driver for the extracted C16 model.  Sub-command "run" (default), protocol on stdin, many cases per run:
     CASE
     E <hex name> I <decimal>          binding of an interpolated expression text to an integer value
     E <hex name> S <hex>              ... to a string value
     P <0|1> <arg> ...                 print (0) / println (1); arg = Q<hex> string literal token text,
                                       I<decimal> integer-valued expression, S<hex> string-valued expression
     F                                 a statement that raises a run-time error
     END
   Output per case: "OK <hex of stdout> <1 if the run ended in the error statement else 0> ,<hex>,<hex>..."
   (the last field: output of each statement before the failing one) or
   "ERR parse" (some literal does not split: nothing runs) / "ERR unsupported" / "ERR unbound".
   Sub-command "split": one hex literal per line -> "T<hex>" / "X<hex>[:<hex>]" / "D" tokens, or "ERR parse";
   prefixed by "1 " / "0 " = the lexer's interpolation flag. *)
open C16_model

let hexval c = match c with
  | '0'..'9' -> Char.code c - 48 | 'a'..'f' -> Char.code c - 87 | 'A'..'F' -> Char.code c - 55
  | _ -> failwith "bad hex"
let unhex s =
  let n = String.length s / 2 in
  List.init n (fun i -> Char.chr (hexval s.[2*i] * 16 + hexval s.[2*i+1]))
let hex l =
  let b = Buffer.create 64 in
  List.iter (fun c -> Buffer.add_string b (Printf.sprintf "%02x" (Char.code c))) l; Buffer.contents b

let rec pos_of_u64 (u : int64) : positive =
  if Int64.equal u 1L then XH
  else let h = pos_of_u64 (Int64.shift_right_logical u 1) in
       if Int64.equal (Int64.logand u 1L) 0L then XO h else XI h
let z_of_string s : z =
  let v = Int64.of_string s in
  if Int64.equal v 0L then Z0
  else if Int64.compare v 0L > 0 then Zpos (pos_of_u64 v)
  else Zneg (pos_of_u64 (Int64.neg v))      (* min_int: neg wraps to the bit pattern of 2^63 *)

let parse_arg t =
  let rest = String.sub t 1 (String.length t - 1) in
  match t.[0] with
  | 'Q' -> AQuoted (unhex rest)
  | 'I' -> AInt (z_of_string rest)
  | 'S' -> AStr (unhex rest)
  | _ -> failwith ("bad arg " ^ t)

let words l = List.filter (fun w -> w <> "") (String.split_on_char ' ' l)

let run () =
  let env = ref [] and prog = ref [] in
  (try while true do
    let l = input_line stdin in
    match words l with
    | ["CASE"] -> env := []; prog := []
    | ["E"; n; "I"; v] -> env := (unhex n, VInt (z_of_string v)) :: !env
    | ["E"; n; "S"; v] -> env := (unhex n, VStr (unhex v)) :: !env
    | ["E"; n; "S"] -> env := (unhex n, VStr []) :: !env
    | "P" :: nl :: args -> prog := SPrint (nl = "1", List.map parse_arg args) :: !prog
    | ["F"] -> prog := SFail :: !prog
    | ["END"] ->
        (match run_program (List.rev !env) (List.rev !prog) with
         | (Inl o, failed) ->
             (* per-statement outputs (up to the failing statement) for the harness' own oracle *)
             let rec per = function
               | [] | SFail :: _ -> []
               | s :: r -> (match stmt_out (List.rev !env) s with Inl b -> hex b | Inr _ -> "!") :: per r in
             Printf.printf "OK %s %d %s\n" (hex o) (if failed then 1 else 0)
               (String.concat "," ("" :: per (List.rev !prog)))
         | (Inr EParse, _) -> print_endline "ERR parse"
         | (Inr EUnsupported, _) -> print_endline "ERR unsupported"
         | (Inr EUnbound, _) -> print_endline "ERR unbound")
    | [] -> ()
    | _ -> failwith ("bad line " ^ l)
  done with End_of_file -> ())

let split_cmd () =
  (try while true do
    let l = String.trim (input_line stdin) in
    let s = unhex l in
    let flag = if has_interpolation s then "1" else "0" in
    match split s with
    | None -> print_endline (flag ^ " ERR parse")
    | Some segs ->
        let tok = function
          | SText t -> "T" ^ hex t
          | SDollar -> "D"
          | SExpr (e, None) -> "X" ^ hex e
          | SExpr (e, Some f) -> "X" ^ hex e ^ ":" ^ hex f in
        print_endline (String.concat " " (flag :: List.map tok segs))
  done with End_of_file -> ())

let () =
  match (if Array.length Sys.argv > 1 then Sys.argv.(1) else "run") with
  | "split" -> split_cmd ()
  | _ -> run ()
