(* Driver for the extracted C18 loader model. Protocol on stdin (many cases per run):
     CASE
     FILE <path as opened relative to the cwd>      then statement lines
     MAIN                                           then statement lines of the program file
     END
   Statement lines ("e" = 1 exported / 0 not):
     I <module.path>
     F e <name> <body> [<expr>]     expr: the `return` expression of a side-effect-free function
     S e <name> <generic 0|1> <member>:<extent|-> ...
     N e <name> <method> ...
     M e <iface|-> <struct> <m:b,..|-> <arity:b,..|-> <dtor b|-> <static,..|->
     T e <name> <target>
     V e <name> <const 0|1> <expr|->
   Expressions (no blanks): term{+term}; term = INT | a (the parameter) | $name (variable, may be
   qualified) | #Enum:Member | @f(expr) (call; the candidate bodies are collected from every F line
   of the case that declares a function called f and has an expr).
     E e <name> <member>:<value> ...
     O e <name>
   Items with a SPELLED type (every line is turned into a surface item of Front.v and goes through the extracted
   front-end model Front.parse_fs, the old forms with the spelling `int`):
     PV e <default 0|1> <static 0|1> <const 0|1> <spell> <name>[=<expr>][,<name>[=<expr>]...]
     PF e <default 0|1> <async 0|1> <retspell> <name> <body> <tparam,..|-> <paramspell,..|-> [<expr>]
   spell (no blanks): [u.]<keyword | Name[<arg;arg>]>{*}[&]{[n] | []}, e.g. long  u.int  Ms  Bx<int>  int*  Ms[2]  int[3]
   Output per case: "R ok" or "R err open <p> <fp>" / "R err conflict <m> <s>" / "R err undefvar <x>" /
   "R err undeffunc <f>" / "R err undefenum <e> <m>", then (if ok) the current bindings of every table,
   one per line ("V name const value": the value the initialiser evaluated to; "A name accepted|rejected":
   what an assignment to the variable meets; "H name v": the value of name(3) for every bound function
   with a known body), then END. *)
open C18_model

let explode s = List.init (String.length s) (String.get s)
let implode l = let b = Buffer.create 32 in List.iter (Buffer.add_char b) l; Buffer.contents b
let rec int_of_nat = function O -> 0 | S n -> 1 + int_of_nat n
let rec nat_of_int n = if n <= 0 then O else S (nat_of_int (n - 1))
let words l = List.filter (fun w -> w <> "") (String.split_on_char ' ' l)
let split2 c s = match String.index_opt s c with
  | None -> (s, "")
  | Some i -> (String.sub s 0 i, String.sub s (i + 1) (String.length s - i - 1))
let commas s = if s = "-" || s = "" then [] else String.split_on_char ',' s
let opt_nat s = if s = "-" then None else Some (nat_of_int (int_of_string s))

(* all function bodies of the current case: (function name, node id, expression text) *)
let bodies : (string * int * string) list ref = ref []

let rec parse_expr depth (s : string) : expr =
  let n = String.length s in
  (* split at top-level '+' *)
  let parts = ref [] and start = ref 0 and lvl = ref 0 in
  String.iteri (fun i c ->
      if c = '(' then incr lvl else if c = ')' then decr lvl
      else if c = '+' && !lvl = 0 then (parts := String.sub s !start (i - !start) :: !parts; start := i + 1)) s;
  parts := String.sub s !start (n - !start) :: !parts;
  let terms = List.rev_map (parse_term depth) !parts in
  (match terms with
   | [] -> failwith "empty expression"
   | t :: r -> List.fold_left (fun acc x -> EAdd (acc, x)) t r)
and parse_term depth (s : string) : expr =
  if s = "" then failwith "empty term"
  else if s = "a" then EParam
  else match s.[0] with
    | '$' -> EVar (explode (String.sub s 1 (String.length s - 1)))
    | '#' -> let (en, m) = split2 ':' (String.sub s 1 (String.length s - 1)) in EEnum (explode en, explode m)
    | '@' ->
      let i = String.index s '(' in
      let f = String.sub s 1 (i - 1) in
      let arg = String.sub s (i + 1) (String.length s - i - 2) in
      (* candidates by the unqualified function name (m.f and f denote declarations called f) *)
      let base = match String.rindex_opt f '.' with Some j -> String.sub f (j + 1) (String.length f - j - 1) | None -> f in
      let cands = if depth <= 0 then [] else
          List.filter_map (fun (g, id, txt) -> if g = base then Some (nat_of_int id, parse_expr (depth - 1) txt) else None) !bodies in
      ECall (explode f, cands, parse_expr depth arg)
    | _ -> ELit (nat_of_int (int_of_string s))

let expr_depth = 6

let basic_of = function
  | "int" -> Some BInt | "long" -> Some BLong | "short" -> Some BShort | "tiny" -> Some BTiny | "void" -> Some BVoid
  | "bool" -> Some BBool | "string" -> Some BString | "char" -> Some BChar | "float" -> Some BFloat
  | "double" -> Some BDouble | "big" -> Some BBig | "quad" -> Some BQuad | _ -> None

(* [u.]head[<a;b>]{*}[&]{[n]|[]} *)
let parse_spell (s0 : string) : spell =
  let uns, s = if String.length s0 > 2 && String.sub s0 0 2 = "u." then (true, String.sub s0 2 (String.length s0 - 2)) else (false, s0) in
  let n = String.length s in
  let i = ref 0 in
  while !i < n && not (List.mem s.[!i] ['<'; '*'; '&'; '[']) do incr i done;
  let hd = String.sub s 0 !i in
  let targs = ref [] in
  if !i < n && s.[!i] = '<' then begin
    let j = String.index_from s !i '>' in
    targs := String.split_on_char ';' (String.sub s (!i + 1) (j - !i - 1));
    i := j + 1
  end;
  let ptr = ref 0 in
  while !i < n && s.[!i] = '*' do incr ptr; incr i done;
  let rf = (!i < n && s.[!i] = '&') in
  if rf then incr i;
  let dims = ref [] in
  while !i < n && s.[!i] = '[' do
    let j = String.index_from s !i ']' in
    let d = String.sub s (!i + 1) (j - !i - 1) in
    dims := !dims @ [if d = "" then None else Some (nat_of_int (int_of_string d))];
    i := j + 1
  done;
  if !i <> n then failwith ("bad type spelling: " ^ s0);
  let head = match uns, basic_of hd with
    | true, Some b -> HUnsigned b
    | true, None -> failwith ("bad type spelling: " ^ s0)
    | false, Some b when !targs = [] -> HBasic b
    | false, _ -> HName (explode hd, List.map explode !targs) in
  { sp_head = head; sp_ptr = nat_of_int !ptr; sp_ref = rf; sp_dims = !dims }

let int_spell = { sp_head = HBasic BInt; sp_ptr = O; sp_ref = false; sp_dims = [] }

let parse_declarator (s : string) : declarator =
  let (n, i) = split2 '=' s in
  { d_name = explode n; d_dims = []; d_init = (if i = "" then None else Some (parse_expr expr_depth i)) }

let parse_witem (ws : string list) : witem =
  let w e df it = { w_export = e; w_default = df; w_item = it } in
  match ws with
  | ["I"; p] -> w false false (IImport (explode p))
  | "PV" :: e :: df :: st :: c :: sp :: [decls] ->
    (match List.map parse_declarator (String.split_on_char ',' decls) with
     | d :: more -> w (e = "1") (df = "1") (IVar (st = "1", c = "1", parse_spell sp, d, more))
     | [] -> failwith "PV without declarator")
  | "PF" :: e :: df :: asy :: rs :: n :: b :: tps :: pss :: _ ->
    w (e = "1") (df = "1") (IFunc (asy = "1", false, parse_spell rs, explode n, List.map explode (commas tps),
                                    List.map parse_spell (commas pss), nat_of_int (int_of_string b)))
  | k :: e :: rest ->
    let ex = (e = "1") in
    let it = match k, rest with
      | "F", [n; b] | "F", [n; b; _] -> IFunc (false, false, int_spell, explode n, [], [int_spell], nat_of_int (int_of_string b))
      | "S", n :: g :: mems ->
        IStruct (explode n, { sd_generic = (g = "1");
                              sd_members = List.map (fun m -> let (a, x) = split2 ':' m in
                                                      { mem_name = explode a; mem_array = opt_nat x }) mems })
      | "N", n :: ms -> IInterface (explode n, List.map explode ms)
      | "M", [i; s; ms; cs; dt; st] ->
        IImpl { im_iface = (if i = "-" then [] else explode i); im_struct = explode s;
                im_methods = List.map (fun m -> let (a, b) = split2 ':' m in (explode a, nat_of_int (int_of_string b))) (commas ms);
                im_ctors = List.map (fun c -> let (a, b) = split2 ':' c in (nat_of_int (int_of_string a), nat_of_int (int_of_string b))) (commas cs);
                im_dtor = opt_nat dt; im_statics = List.map explode (commas st) }
      | "T", [n; t] -> ITypedef (explode n, explode t)
      | "V", [n; c; i] -> IVar (false, c = "1", int_spell,
                                { d_name = explode n; d_dims = []; d_init = (if i = "-" then None else Some (parse_expr expr_depth i)) }, [])
      | "E", n :: ms -> IEnum (explode n, List.map (fun m -> let (a, v) = split2 ':' m in (explode a, nat_of_int (int_of_string v))) ms)
      | "O", [n] -> IVar (false, false, { int_spell with sp_dims = [Some (S (S (S O)))] }, { d_name = explode n; d_dims = []; d_init = None }, [])
      | _ -> failwith ("bad statement: " ^ String.concat " " ws) in
    w ex false it
  | _ -> failwith ("bad statement: " ^ String.concat " " ws)

let uniq_keys m = List.fold_left (fun acc (k, _) -> if List.mem k acc then acc else acc @ [k]) [] m
let sorted_keys m = List.sort compare (List.map implode (uniq_keys m))
let onat = function None -> "-" | Some n -> string_of_int (int_of_nat n)
let join = String.concat ","

let print_tables (t : tables) =
  List.iter (fun k -> match lookup (explode k) t.funcs with
      | Some b -> Printf.printf "F %s %d\n" k (int_of_nat b) | None -> ()) (sorted_keys t.funcs);
  List.iter (fun k -> match lookup (explode k) t.structs with
      | Some d -> Printf.printf "S %s %d %s\n" k (if d.sd_generic then 1 else 0)
                    (join (List.map (fun m -> implode m.mem_name ^ ":" ^ onat m.mem_array) d.sd_members))
      | None -> ()) (sorted_keys t.structs);
  List.iter (fun k -> match lookup (explode k) t.ifaces with
      | Some ms -> Printf.printf "N %s %s\n" k (join (List.map implode ms)) | None -> ()) (sorted_keys t.ifaces);
  List.iter (fun k -> match lookup (explode k) t.typedefs with
      | Some x -> Printf.printf "T %s %s\n" k (implode x) | None -> ()) (sorted_keys t.typedefs);
  List.iter (fun k -> match lookup (explode k) t.vars with
      | Some (c, v) -> Printf.printf "V %s %d %s\n" k (if c then 1 else 0) (onat v) | None -> ()) (sorted_keys t.vars);
  (* what an assignment `k = 0;` by the importer meets *)
  List.iter (fun k -> match assign t (explode k) O with
      | Ok _ -> Printf.printf "A %s accepted\n" k
      | Err (EConstAssign _) -> Printf.printf "A %s rejected\n" k
      | Err _ -> ()) (sorted_keys t.vars);
  (* value of k(3) for every bound function whose node has a known body *)
  List.iter (fun k ->
      let base = match String.rindex_opt k '.' with Some j -> String.sub k (j + 1) (String.length k - j - 1) | None -> k in
      if List.exists (fun (g, _, _) -> g = base) !bodies then
        match eval t O (parse_expr expr_depth ("@" ^ k ^ "(3)")) with
        | VOk v -> Printf.printf "H %s %d\n" k (int_of_nat v)
        | VErr _ -> Printf.printf "H %s !\n" k) (sorted_keys t.funcs);
  List.iter (fun k -> match lookup (explode k) t.enums with
      | Some ms -> Printf.printf "E %s %s\n" k (join (List.map (fun (a, v) -> implode a ^ ":" ^ string_of_int (int_of_nat v)) ms))
      | None -> ()) (sorted_keys t.enums);
  List.iter (fun k -> match lookup (explode k) t.dtors with
      | Some b -> Printf.printf "D %s %d\n" k (int_of_nat b) | None -> ()) (sorted_keys t.dtors);
  (* constructor chosen for each (struct, arity) that occurs *)
  let pairs = List.sort_uniq compare (List.map (fun (s, (a, _)) -> (implode s, int_of_nat a)) t.ctors) in
  List.iter (fun (s, a) -> match find_ctor (explode s) (nat_of_int a) t.ctors with
      | Some b -> Printf.printf "C %s %d %d\n" s a (int_of_nat b) | None -> ()) pairs;
  List.iter (fun (d : impl_def) ->
      Printf.printf "IM %s %s %s\n" (if d.im_iface = [] then "-" else implode d.im_iface) (implode d.im_struct)
        (join (List.map (fun (m, b) -> implode m ^ ":" ^ string_of_int (int_of_nat b)) d.im_methods)))
    (List.sort compare t.impls);
  List.iter (fun (i, (s, v)) -> Printf.printf "ST %s %s %s\n" (if i = [] then "-" else implode i) (implode s) (implode v))
    (List.sort_uniq compare t.istatics);
  List.iter (fun p -> Printf.printf "L %s\n" p) (List.sort_uniq compare (List.map implode t.loaded))

let () =
  let files = ref [] and cur = ref [] and curname = ref None and main = ref [] in
  let files : (string * string list list) list ref = files and cur : string list list ref = cur
  and main : string list list ref = main in
  let flush_file () =
    (match !curname with
     | Some "MAIN" -> main := List.rev !cur
     | Some n -> files := !files @ [(n, List.rev !cur)]
     | None -> ());
    cur := []; curname := None in
  (try while true do
      let l = input_line stdin in
      match words l with
      | [] -> ()
      | ["CASE"] -> files := []; cur := []; curname := None; main := []; bodies := []
      | ["FILE"; p] -> flush_file (); curname := Some p
      | ["MAIN"] -> flush_file (); curname := Some "MAIN"
      | ["END"] ->
        flush_file ();
        (* recursion bound: every nesting level marks a new module path, and every path stems from an
           import statement (of the program or of a file) *)
        let sfiles = List.map (fun (n, m) -> (explode n, List.map parse_witem m)) !files in
        let pfiles = parse_fs sfiles in
        let pmain = parse_file sfiles (List.map parse_witem !main) in
        let nimp l = List.length (List.filter (function SImport _ -> true | _ -> false) l) in
        let n = List.fold_left (fun acc (_, m) -> acc + nimp m) (nimp pmain) pfiles in
        let fuel = nat_of_int (n + 2) and pf = nat_of_int (List.length pfiles + 1) in
        (match start_program fuel pf pfiles pmain with
         | Ok t -> print_endline "R ok"; print_tables t
         | Err (EOpen (p, fp)) -> Printf.printf "R err open %s %s\n" (implode p) (implode fp)
         | Err (EConflict (m, s)) -> Printf.printf "R err conflict %s %s\n" (implode m) (implode s)
         | Err (EDepth p) -> Printf.printf "R err depth %s\n" (implode p)
         | Err (EUndefVar x) -> Printf.printf "R err undefvar %s\n" (implode x)
         | Err (EUndefFunc f) -> Printf.printf "R err undeffunc %s\n" (implode f)
         | Err (EUndefEnum (e, m)) -> Printf.printf "R err undefenum %s %s\n" (implode e) (implode m)
         | Err (ENoBody f) -> Printf.printf "R err nobody %s\n" (implode f)
         | Err (EConstAssign x) -> Printf.printf "R err constassign %s\n" (implode x));
        print_endline "END"
      | ws ->
        (match ws with
         | ["F"; _; n; b; ex] -> bodies := !bodies @ [(n, int_of_string b, ex)]
         | ["PF"; _; _; _; _; n; b; _; _; ex] -> bodies := !bodies @ [(n, int_of_string b, ex)]
         | _ -> ());
        cur := ws :: !cur
    done with End_of_file -> ())
