(* Driver for the extracted C06 model. One program per input line:
     N<n0> <function 0 = main> | <function 1> | ...
   (the N<n0> token - main's depth value - is optional, default 0). Statement tokens (blank separated):
     o<T><x>:<k> object of struct type T in {R,Q,W} in variable v<x>, constant k  (o<k> = oR<k>:<k>)
     d<k> defer   m<k> mark   { ... } block   ?T|?F|?D|?<j> { ... } { ... } if/else  (?D: n > 0)
     L<n> { ... } loop   c<f> call f<f>(n - 1)   r return   b break   k continue
   Output, one line per program, tab separated:
     mech_ok d t s <mech events> spec_ok <spec events> s11 s43 s44 pinned_ok d t s <pinned-machine events> wf
   (mech = machine of the current code; pinned = machine of the code before the fix commits, diagnosis
   only; s11/s43/s44 = the program contains the shape the former defect needed; wf = wf_prog, the class
   covered by theorem cleanup_mech_refines_spec_partial)
   events are joined by ";" ; "FUEL" when the fuel (4000) is exhausted. *)
open C06_model
let rec nat_of_int n = if n <= 0 then O else S (nat_of_int (n - 1))
let rec int_of_nat = function O -> 0 | S n -> 1 + int_of_nat n
let num s = int_of_string (String.sub s 1 (String.length s - 1))
exception Bad of string
let parse_obj t =
  (* o<k>  or  o<T><x>:<k> *)
  match t.[1] with
  | 'R' | 'Q' | 'W' ->
      let ty = (match t.[1] with 'R' -> TR | 'Q' -> TQ | _ -> TW) in
      let i = String.index t ':' in
      let x = int_of_string (String.sub t 2 (i - 2)) in
      let k = int_of_string (String.sub t (i + 1) (String.length t - i - 1)) in
      SObj (nat_of_int x, ty, nat_of_int k)
  | _ -> let k = num t in SObj (nat_of_int k, TR, nat_of_int k)
let rec parse_block toks =            (* expects "{" ... "}" ; returns block, rest *)
  match toks with
  | "{" :: r -> parse_items r
  | t :: _ -> raise (Bad ("expected { got " ^ t))
  | [] -> raise (Bad "expected {")
and parse_items toks =                (* items up to the closing "}" *)
  match toks with
  | "}" :: r -> (BNil, r)
  | [] -> raise (Bad "missing }")
  | _ -> let (s, r) = parse_stmt toks in let (b, r') = parse_items r in (BCons (s, b), r')
and parse_stmt toks =
  match toks with
  | [] -> raise (Bad "stmt")
  | t :: r ->
    (match t.[0] with
     | 'o' -> (parse_obj t, r)
     | 'd' -> (SDefer (nat_of_int (num t)), r)
     | 'm' -> (SMark (nat_of_int (num t)), r)
     | 'c' -> (SCall (nat_of_int (num t)), r)
     | 'r' -> (SRet, r) | 'b' -> (SBrk, r) | 'k' -> (SCont, r)
     | '{' -> let (b, r') = parse_block toks in (SBlock b, r')
     | '?' -> let c = (match t with "?T" -> CTrue | "?F" -> CFalse | "?D" -> CDepth | _ -> CIter (nat_of_int (num t))) in
              let (b1, r1) = parse_block r in let (b2, r2) = parse_block r1 in (SIf (c, b1, b2), r2)
     | 'L' -> let (b, r') = parse_block r in (SLoop (nat_of_int (num t), b), r')
     | _ -> raise (Bad ("token " ^ t)))
let rec parse_top toks =              (* items up to end of list *)
  match toks with
  | [] -> BNil
  | _ -> let (s, r) = parse_stmt toks in BCons (s, parse_top r)
let tyname = function TR -> "" | TQ -> "q" | TW -> "w"
let ev = function
  | ECtor (t, k) -> Printf.sprintf "%sctor %d" (tyname t) (int_of_nat k)
  | EDtor (t, k) -> Printf.sprintf "%sdtor %d" (tyname t) (int_of_nat k)
  | EReg k -> Printf.sprintf "reg %d" (int_of_nat k)
  | EDefer k -> Printf.sprintf "defer %d" (int_of_nat k)
  | EMark k -> Printf.sprintf "mark %d" (int_of_nat k)
  | EImb (f, d0, d1, t0, t1, s0, s1) ->
      Printf.sprintf "imb %d %d %d %d %d %d %d" (int_of_nat f) (int_of_nat d0) (int_of_nat d1)
        (int_of_nat t0) (int_of_nat t1) (int_of_nat s0) (int_of_nat s1)
let evs l = String.concat ";" (List.map ev l)
let b2s b = if b then "1" else "0"
let () =
  let fuel = nat_of_int 4000 in
  (try while true do
    let l = input_line stdin in
    let toks0 = List.filter (fun s -> s <> "") (String.split_on_char ' ' l) in
    let (n0, l) = (match toks0 with
                   | t :: _ when String.length t > 1 && t.[0] = 'N' ->
                       let i = String.index l 'N' in
                       let j = (try String.index_from l i ' ' with Not_found -> String.length l) in
                       (num t, String.sub l j (String.length l - j))
                   | _ -> (0, l)) in
    let funcs = String.split_on_char '|' l in
    let p = List.map (fun f -> parse_top (List.filter (fun s -> s <> "") (String.split_on_char ' ' f))) funcs in
    let n0 = nat_of_int n0 in
    let st_s st = Printf.sprintf "%d\t%d\t%d\t%s" (List.length st.dfs) (List.length st.dts) (List.length st.vars) (evs st.tr) in
    let m = (match mrun fuel p n0 with
             | None -> "FUEL\t0\t0\t0\t"
             | Some (ok, st) -> Printf.sprintf "%s\t%s" (b2s ok) (st_s st)) in
    let s = (match srun fuel p n0 with
             | None -> "FUEL\t"
             | Some (ok, t) -> Printf.sprintf "%s\t%s" (b2s ok) (evs t)) in
    let ((a, b), c) = shapes p in
    let pn = (match prun fuel p n0 with
             | None -> "FUEL\t0\t0\t0\t"
             | Some (ok, st) -> Printf.sprintf "%s\t%s" (b2s ok) (st_s st)) in
    Printf.printf "%s\t%s\t%s\t%s\t%s\t%s\t%s\n" m s (b2s a) (b2s b) (b2s c) pn (b2s (wf_prog p))
  done with End_of_file -> ())
