(* Driver for the extracted C12 model. One program per input line, blank-separated tokens:
     prog   := nifaces iface* nimpls impl* nvars var* nhelpers helper* nops op*
     iface  := name n name*
     impl   := iface type nstatics (name z)* nmethods method*
     method := name (i | v) nlocals var* nstmts stmt* expr        (i: int m(int d) ; v: void m(int d))
     stmt   := F field expr | S static expr | P tag n expr* | C tag method expr | O op | G expr stmt
     expr   := c z | a | s | f name | t name | + e e | - e e | * e e
     var    := name C type payload | name A type n payload*
     payload:= S n (field z)* | P z
     helper := name param (- | iface) n (method z)*
     op     := b x i src | p p x | c recv m z | v h src z | s x f z | e a i f z | w x
     recv   := V x | P p | E a i
   Output per program: "O <tag> <z>..." per printed line, then "R ok" or "R <error class>", then "END". *)
open C12_model
let explode s = List.init (String.length s) (String.get s)
let implode l = let b = Buffer.create 16 in List.iter (Buffer.add_char b) l; Buffer.contents b
let rec nat_of_int n = if n <= 0 then O else S (nat_of_int (n - 1))
let rec pos_of_int n = if n <= 1 then XH else if n land 1 = 1 then XI (pos_of_int (n lsr 1)) else XO (pos_of_int (n lsr 1))
let z_of_int n = if n = 0 then Z0 else if n > 0 then Zpos (pos_of_int n) else Zneg (pos_of_int (- n))
let rec int_of_pos = function XH -> 1 | XO p -> 2 * int_of_pos p | XI p -> 2 * int_of_pos p + 1
let int_of_z = function Z0 -> 0 | Zpos p -> int_of_pos p | Zneg p -> - (int_of_pos p)
exception Bad of string
let toks = ref []
let next () = match !toks with [] -> raise (Bad "eof") | t :: r -> toks := r; t
let name () = explode (next ())
let num () = let t = next () in try int_of_string t with _ -> raise (Bad ("number expected: " ^ t))
let zed () = z_of_int (num ())
let rec many n f = if n <= 0 then [] else let x = f () in x :: many (n - 1) f
let rec expr () =
  match next () with
  | "c" -> EConst (zed ()) | "a" -> EArg | "s" -> ESelf
  | "f" -> EField (name ()) | "t" -> EStatic (name ())
  | "+" -> let a = expr () in let b = expr () in EAdd (a, b)
  | "-" -> let a = expr () in let b = expr () in ESub (a, b)
  | "*" -> let a = expr () in let b = expr () in EMul (a, b)
  | t -> raise (Bad ("expr " ^ t))
let payload () =
  match next () with
  | "S" -> let n = num () in PStruct (many n (fun () -> let f = name () in (f, zed ())))
  | "P" -> PPrim (zed ())
  | t -> raise (Bad ("payload " ^ t))
let var () =
  let x = name () in
  match next () with
  | "C" -> let t = name () in (x, VConc (t, payload ()))
  | "A" -> let t = name () in let n = num () in (x, VArr (t, many n payload))
  | t -> raise (Bad ("var " ^ t))
let helper () =
  let h = name () in let p = name () in
  let i = (match next () with "-" -> None | s -> Some (explode s)) in
  let n = num () in
  { h_name = h; h_param = p; h_iface = i; h_calls = many n (fun () -> let m = name () in (m, zed ())) }
let recv () =
  match next () with
  | "V" -> RVar (name ()) | "P" -> RPtr (name ())
  | "E" -> let a = name () in RElem (a, nat_of_int (num ()))
  | t -> raise (Bad ("recv " ^ t))
let op () =
  match next () with
  | "b" -> let x = name () in let i = name () in OBind (x, i, name ())
  | "p" -> let p = name () in OPtr (p, name ())
  | "c" -> let r = recv () in let m = name () in OCall (r, m, zed ())
  | "v" -> let h = name () in let s = name () in OVia (h, s, zed ())
  | "s" -> let x = name () in let f = name () in OSet (x, f, zed ())
  | "e" -> let a = name () in let i = nat_of_int (num ()) in let f = name () in OSetElem (a, i, f, zed ())
  | "w" -> OShow (name ())
  | t -> raise (Bad ("op " ^ t))
let rec stmt () =
  match next () with
  | "F" -> let f = name () in SSetField (f, expr ())
  | "S" -> let n = name () in SSetStatic (n, expr ())
  | "P" -> let tag = name () in let n = num () in SPrint (tag, many n expr)
  | "C" -> let tag = name () in let m = name () in SCallSelf (tag, m, expr ())
  | "O" -> SOp (op ())
  | "G" -> let g = expr () in SGuard (g, stmt ())
  | t -> raise (Bad ("stmt " ^ t))
let meth () =
  let n = name () in
  let v = (match next () with "v" -> true | "i" -> false | t -> raise (Bad ("method kind " ^ t))) in
  let nl = num () in let ls = many nl var in
  let k = num () in let b = many k stmt in let r = expr () in
  { m_name = n; m_void = v; m_locals = ls; m_body = b; m_ret = r }
let impl () =
  let i = name () in let t = name () in
  let ns = num () in let ss = many ns (fun () -> let n = name () in (n, zed ())) in
  let nm = num () in let ms = many nm meth in
  { i_iface = i; i_type = t; i_statics = ss; i_methods = ms }
let prog () =
  let ni = num () in
  let ifs = many ni (fun () -> let i = name () in let n = num () in (i, many n name)) in
  let nd = num () in let ds = many nd impl in
  let nv = num () in let vs = many nv var in
  let nh = num () in let hs = many nh helper in
  let no = num () in let os = many no op in
  { p_ifaces = ifs; p_impls = ds; p_vars = vs; p_helpers = hs; p_ops = os }
let err_class = function
  | EIncomplete _ -> "incomplete" | EDuplicate _ -> "duplicate" | EConflict _ -> "conflict"
  | ENoImpl _ -> "noimpl" | EUndefVar _ -> "undefvar" | EUndefFunc _ -> "undeffunc"
  | ERange -> "range" | EBad -> "bad" | EUnmodelled -> "unmodelled" | EFuel -> "fuel"
let () =
  (try while true do
    let l = input_line stdin in
    toks := List.filter (fun s -> s <> "") (String.split_on_char ' ' l);
    (try
      let p = prog () in
      let (out, e) = run_program p in
      List.iter (fun (tag, zs) ->
        let parts = (if tag = [] then [] else [implode tag]) @ List.map (fun z -> string_of_int (int_of_z z)) zs in
        print_endline ("O " ^ String.concat " " parts)) out;
      print_endline ("R " ^ (match e with None -> "ok" | Some x -> err_class x))
    with Bad m -> print_endline ("R parse-error " ^ m));
    print_endline "END"
  done with End_of_file -> ())
