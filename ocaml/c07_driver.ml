(* Driver for the extracted C07 model. One case per input line, whitespace-separated tokens:
     H n val*n  O n op*n
     val  := I z | N | G k val*k
     aexp := V l | R i | F k aexp | D aexp
     sop  := W aexp z | C aexp aexp | A aexp aexp | P id n aexp*n
     op   := S sop | Z n | L aexp | K np (mode aexp)*np nb stmt*nb ret       mode := v | p | r | a | s
     stmt := sop | K np (mode aexp)*np nb stmt*nb ret     (a call made from inside a callee body; nests to any depth)
           | L aexp                                   (T c = e; a local declared in the callee body)
     ret  := 0 | 1 aexp | 2 aexp aexp
   Output per case: two lines  "S <ok> l1|l2|..."  (aliasing semantics) and "M <ok> ..." (copy-in/write-through/
   copy-back for array parameters and self), each li a space-separated list of integers. *)
open C07_model

let rec nat_of_int n = if n <= 0 then O else S (nat_of_int (n - 1))
let rec int_of_nat = function O -> 0 | S n -> 1 + int_of_nat n
let rec pos_of_int n = if n = 1 then XH else if n land 1 = 1 then XI (pos_of_int (n lsr 1)) else XO (pos_of_int (n lsr 1))
let z_of_int n = if n = 0 then Z0 else if n > 0 then Zpos (pos_of_int n) else Zneg (pos_of_int (-n))
let rec int_of_pos = function XH -> 1 | XO p -> 2 * int_of_pos p | XI p -> 2 * int_of_pos p + 1
let int_of_z = function Z0 -> 0 | Zpos p -> int_of_pos p | Zneg p -> - (int_of_pos p)

let toks = ref [||]
let pos = ref 0
let next () = let t = !toks.(!pos) in incr pos; t
let next_int () = int_of_string (next ())
let rec times n f = if n <= 0 then [] else let x = f () in x :: times (n - 1) f

let rec p_val () =
  match next () with
  | "I" -> VInt (z_of_int (next_int ()))
  | "N" -> VPtr None
  | "G" -> let k = next_int () in VAgg (times k p_val)
  | t -> failwith ("val " ^ t)
let rec p_aexp () =
  match next () with
  | "V" -> AVar (nat_of_int (next_int ()))
  | "R" -> APar (nat_of_int (next_int ()))
  | "F" -> let k = next_int () in let a = p_aexp () in AFld (a, nat_of_int k)
  | "D" -> ADeref (p_aexp ())
  | t -> failwith ("aexp " ^ t)
let p_sop () =
  match next () with
  | "W" -> let a = p_aexp () in SWrite (a, z_of_int (next_int ()))
  | "C" -> let d = p_aexp () in let s = p_aexp () in SCopy (d, s)
  | "A" -> let p = p_aexp () in let t = p_aexp () in SAddr (p, t)
  | "P" -> let id = next_int () in let n = next_int () in SRead (z_of_int id, times n p_aexp)
  | t -> failwith ("sop " ^ t)
let p_mode () =
  match next () with "v" -> MVal | "p" -> MPtr | "r" -> MRef | "a" -> MArr | "s" -> MSelf | t -> failwith ("mode " ^ t)
let p_ret () =
  match next_int () with
  | 0 -> None
  | 1 -> let e = p_aexp () in Some (e, None)
  | _ -> let e = p_aexp () in let d = p_aexp () in Some (e, Some d)
let p_params () =
  let np = next_int () in
  times np (fun () -> let m = p_mode () in let a = p_aexp () in (m, a))
(* a statement of a callee body: a simple statement, or (token K) a call made from inside the body, whose own body
   is again a list of such statements (calls nest to any depth: recursion) *)
let rec p_rstmt () =
  if !toks.(!pos) = "K" then begin
    ignore (next ());
    let ps = p_params () in
    let nb = next_int () in
    let body = times nb p_rstmt in
    let ret = p_ret () in
    RCall (ps, body, ret)
  end else if !toks.(!pos) = "L" then begin
    ignore (next ());
    RDecl (p_aexp ())                      (* T c = e; a local declared in the callee body *)
  end else RS (p_sop ())
let is_rs = function RS _ -> true | _ -> false
let un_rs = function RS s -> s | _ -> assert false
let flat_call = function RS _ -> true | RCall (_, body, _) -> List.for_all is_rs body | RDecl _ -> false
let p_op () =
  match next () with
  | "S" -> OS (p_sop ())
  | "Z" -> ONop (nat_of_int (next_int ()))
  | "L" -> ODecl (p_aexp ())
  | "K" ->
      let ps = p_params () in
      let nb = next_int () in
      let body = times nb p_rstmt in
      let ret = p_ret () in
      (* a call-free body is the construct OCall, one level of calls OCall2 (theorems nested_calls_conservative,
         recursive_calls_conservative: same semantics as OCallR); deeper nesting is OCallR *)
      if List.for_all is_rs body then OCall (ps, List.map un_rs body, ret)
      else if List.for_all flat_call body
      then OCall2 (ps, List.map (function RS s -> TS s
                                        | RCall (ps', b', r') -> TCall (ps', List.map un_rs b', r')
                                        | RDecl _ -> assert false) body, ret)
      else OCallR (ps, body, ret)
  | t -> failwith ("op " ^ t)

let show tag (out, ok) =
  let ls = List.map (fun l -> String.concat " " (List.map (fun z -> string_of_int (int_of_z z)) l)) out in
  Printf.printf "%s %d %s\n" tag (if ok then 1 else 0) (String.concat "|" ls)

let () =
  try while true do
    let l = input_line stdin in
    toks := Array.of_list (List.filter (fun s -> s <> "") (String.split_on_char ' ' l));
    pos := 0;
    if Array.length !toks > 0 then begin
      (match next () with "H" -> () | t -> failwith ("expected H, got " ^ t));
      let nh = next_int () in
      let h = times nh p_val in
      (match next () with "O" -> () | t -> failwith ("expected O, got " ^ t));
      let no = next_int () in
      let ops = times no p_op in
      show "S" (transcript false h ops);
      show "M" (transcript true h ops)
    end
  done with End_of_file -> ()
