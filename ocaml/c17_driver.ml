(* Driver for the extracted C17 model. Protocol (stdin), many cases per run:
     CASE / F <filename> / D <name>=<value> ... / L <line> ... / END
   Output: O <line> per emitted line, then E <errors> W <warnings>, then END. *)
open C17_model
let explode s = List.init (String.length s) (String.get s)
let implode l = String.init (List.length l) (List.nth l)
let implode l = let b = Buffer.create 64 in List.iter (Buffer.add_char b) l; Buffer.contents b
let rec int_of_nat = function O -> 0 | S n -> 1 + int_of_nat n
let () =
  let sub = if Array.length Sys.argv > 1 then Sys.argv.(1) else "process" in
  let defs = ref [] and lines = ref [] and file = ref "in.cb" in
  (try while true do
    let l = input_line stdin in
    if l = "CASE" then (defs := []; lines := []; file := "in.cb")
    else if l = "END" then begin
      let t = List.fold_left (fun t (n, v) -> define t (explode n) (explode v)) [] (List.rev !defs) in
      (match sub with
       | "expand" ->
           List.iter (fun l -> print_string "O "; print_endline (implode (fst (expand t (explode l))))) (List.rev !lines)
       | _ ->
           let c = process t (explode !file) (List.map explode (List.rev !lines)) in
           List.iter (fun l -> print_string "O "; print_endline (implode l)) c.outp;
           Printf.printf "E %d W %d\n" (int_of_nat c.nerr) (int_of_nat c.nwarn));
      print_endline "END"
    end
    else if String.length l >= 2 && l.[0] = 'D' then begin
      let d = String.sub l 2 (String.length l - 2) in
      match String.index_opt d '=' with
      | None -> defs := (d, "1") :: !defs
      | Some i -> defs := (String.sub d 0 i, String.sub d (i + 1) (String.length d - i - 1)) :: !defs
    end
    else if String.length l >= 2 && l.[0] = 'F' then file := String.sub l 2 (String.length l - 2)
    else if String.length l >= 1 && l.[0] = 'L' then
      lines := (if String.length l >= 2 then String.sub l 2 (String.length l - 2) else "") :: !lines
  done with End_of_file -> ())
