(* Driver for the extracted C15 scheduler model.
   stdin: one case per line:   <clock step ms> ; <main body> ; <fn1 body> ; <fn2 body> ...
   statements (blank separated):
     P<tag> C<tag>,<tag>.. F<f> S<f>:<slot> G<f>:<g> A<slot> B<g> W<f> Z<ms> z<ms>:<slot>
     T<slot>:<ms>:<slot'> M E U      simple statements
     Y  R  L<n>( simple ... )        yield, return, loop
     @ <structured statement>        blocks, if, for, while, continue, break, ... (see parse_b)
   modes (argv.(1)):
     trace  : the CB_VERIF_SCHED_TRACE lines ("CBV ...") and the program's own lines ("P n") in
              the order the model produces them; ghost lines start with '#' (#TRUNC: only the events
              of the first print_cap machine steps were printed); then END
     states : the distinct abstract scheduler states visited (queue | exec | status per task),
              each followed by the result of re-checking the proved invariants on it; then END *)
open C15_model

let rec nat_of_int n = if n <= 0 then O else S (nat_of_int (n - 1))
let rec int_of_nat = function O -> 0 | S n -> 1 + int_of_nat n
let rec pos_of_int n = if n = 1 then XH else if n land 1 = 0 then XO (pos_of_int (n lsr 1)) else XI (pos_of_int (n lsr 1))
let z_of_int n = if n = 0 then Z0 else if n > 0 then Zpos (pos_of_int n) else Zneg (pos_of_int (-n))
let rec int_of_pos = function XH -> 1 | XO p -> 2 * int_of_pos p | XI p -> 2 * int_of_pos p + 1
let int_of_z = function Z0 -> 0 | Zpos p -> int_of_pos p | Zneg p -> - (int_of_pos p)

let ints s = List.map int_of_string (String.split_on_char ':' s)
let rest s = String.sub s 1 (String.length s - 1)

let simple_of tok =
  let a = rest tok in
  match tok.[0] with
  | 'P' -> XPrint (z_of_int (int_of_string a))
  | 'C' -> XCall (if a = "" then [] else List.map (fun x -> z_of_int (int_of_string x)) (String.split_on_char ',' a))
  | 'F' -> XFire (nat_of_int (int_of_string a))
  | 'S' -> (match ints a with [f; s] -> XSpawn (nat_of_int f, nat_of_int s) | _ -> failwith tok)
  | 'G' -> (match ints a with [f; g] -> XSpawnG (nat_of_int f, nat_of_int g) | _ -> failwith tok)
  | 'A' -> XAwait (nat_of_int (int_of_string a))
  | 'B' -> XAwaitG (nat_of_int (int_of_string a))
  | 'W' -> XAwaitCall (nat_of_int (int_of_string a))
  | 'Z' -> XSleep (z_of_int (int_of_string a))
  | 'z' -> (match ints a with [ms; s] -> XSleepFut (z_of_int ms, nat_of_int s) | _ -> failwith tok)
  | 'T' -> (match ints a with [s; ms; s'] -> XTimeout (nat_of_int s, z_of_int ms, nat_of_int s') | _ -> failwith tok)
  | 'M' -> XMark
  | 'E' -> XElapsed
  | 'U' -> XRunAll
  | _ -> failwith ("bad statement " ^ tok)

(* structured statements (coq/C15/Body.v).  Words:
     cont brk yld ret | set <v> <c> | inc <v> | if <cond> <stmt> [else <stmt>] | { <stmt>* } |
     for <v> <n> <stmt> | whl <cond> <stmt> | call{ <stmt>* } | <simple statement token>
   cond:  true | false | eq <v> <c> | lt <v> <c> | mod <v> <m> <r> | not <cond>
   node ids (blocks, loops, calls) are numbered in pre-order per case *)
let node_ctr = ref 0
let fresh () = incr node_ctr; nat_of_int !node_ctr
let n_of w = nat_of_int (int_of_string w)

let rec parse_cond ws = match ws with
  | "true" :: r -> (CTrue, r)
  | "false" :: r -> (CFalse, r)
  | "eq" :: v :: c :: r -> (CEq (n_of v, n_of c), r)
  | "lt" :: v :: c :: r -> (CLt (n_of v, n_of c), r)
  | "mod" :: v :: m :: k :: r -> (CMod (n_of v, n_of m, n_of k), r)
  | "not" :: r -> let (c, r') = parse_cond r in (CNot c, r')
  | _ -> failwith "bad condition"

let rec parse_b ws = match ws with
  | "cont" :: r -> (BContinue, r)
  | "brk" :: r -> (BBreak, r)
  | "yld" :: r -> (BYield, r)
  | "ret" :: r -> (BReturn, r)
  | "set" :: v :: c :: r -> (BSet (n_of v, n_of c), r)
  | "inc" :: v :: r -> (BInc (n_of v), r)
  | "if" :: r ->
      let (c, r1) = parse_cond r in
      let (t, r2) = parse_b r1 in
      (match r2 with
       | "else" :: r3 -> let (e, r4) = parse_b r3 in (BIf (c, t, Some e), r4)
       | _ -> (BIf (c, t, None), r2))
  | "{" :: r -> let id = fresh () in let (b, r') = parse_blist r in (BBlock (id, b), r')
  | "for" :: v :: n :: r -> let id = fresh () in let (b, r') = parse_b r in (BFor (id, n_of v, n_of n, b), r')
  | "whl" :: r ->
      let id = fresh () in
      let (c, r1) = parse_cond r in
      let (b, r2) = parse_b r1 in (BWhile (id, c, b), r2)
  | "call{" :: r -> let id = fresh () in let (b, r') = parse_blist r in (BCall (id, b), r')
  | t :: r -> (BSimple (simple_of t), r)
  | [] -> failwith "structured statement expected"
and parse_blist ws = match ws with
  | "}" :: r -> ([], r)
  | [] -> failwith "unclosed block"
  | _ -> let (s, r) = parse_b ws in let (l, r') = parse_blist r in (s :: l, r')

let rec parse_body toks acc =
  match toks with
  | [] -> List.rev acc
  | "@" :: r -> let (b, r') = parse_b r in parse_body r' (SBody b :: acc)
  | "Y" :: r -> parse_body r (SYield :: acc)
  | "R" :: r -> parse_body r (SReturn :: acc)
  | t :: r when t.[0] = 'L' ->
      let n = int_of_string (String.sub t 1 (String.length t - 2)) in   (* L<n>( *)
      let rec body ts acc' = match ts with
        | ")" :: r' -> (List.rev acc', r')
        | x :: r' -> body r' (simple_of x :: acc')
        | [] -> failwith "unclosed loop" in
      let (b, r') = body r [] in
      parse_body r' (SLoop (nat_of_int n, b) :: acc)
  | t :: r -> parse_body r (SSimple (simple_of t) :: acc)

let words s = List.filter (fun w -> w <> "") (String.split_on_char ' ' s)

let parse_case line =
  match String.split_on_char ';' line with
  | st :: funs -> (z_of_int (int_of_string (String.trim st)), List.map (fun f -> parse_body (words f) []) funs)
  | [] -> failwith "empty case"

let b01 b = if b then 1 else 0
let show_event = function
  | ESpawn id -> Printf.sprintf "CBV spawn %d auto=1" (int_of_nat id)
  | ETurn (id, r) -> Printf.sprintf "CBV turn %d %s" (int_of_nat id) (if r then "run" else "cycle")
  | ESkip id -> Printf.sprintf "CBV skip %d" (int_of_nat id)
  | EExec (id, i) -> Printf.sprintf "CBV exec %d stmt=%d" (int_of_nat id) (int_of_nat i)
  | EYield (id, l, i) -> Printf.sprintf "CBV yield %d loop=%d stmt=%d" (int_of_nat id) (b01 l) (int_of_nat i)
  | EReturn (id, i) -> Printf.sprintf "CBV return %d stmt=%d" (int_of_nat id) (int_of_nat i)
  | ERequeue id -> Printf.sprintf "CBV requeue %d" (int_of_nat id)
  | EComplete id -> Printf.sprintf "CBV complete %d" (int_of_nat id)
  | EBlocked (id, w) -> Printf.sprintf "CBV blocked %d on %d" (int_of_nat id) (int_of_nat w)
  | EUnblocked id -> Printf.sprintf "CBV unblocked %d" (int_of_nat id)
  | EClock t -> Printf.sprintf "CBV clock %d" (int_of_z t)
  | EAsleep (id, n, w) -> Printf.sprintf "CBV asleep %d now=%d wake=%d" (int_of_nat id) (int_of_z n) (int_of_z w)
  | EWoke (id, n, w) -> Printf.sprintf "CBV woke %d now=%d wake=%d" (int_of_nat id) (int_of_z n) (int_of_z w)
  | EOut v -> Printf.sprintf "P %d" (int_of_z v)

let cap = 300000        (* no halt within this many machine steps = livelock *)
let print_cap = 30000   (* events are printed for the first print_cap steps only *)

let signature s =
  let q = String.concat "," (List.map (fun i -> string_of_int (int_of_nat i)) (queue s)) in
  let x = String.concat "," (List.map (fun i -> string_of_int (int_of_nat i)) (exec s)) in
  let st = String.concat "" (List.map (fun t -> string_of_int (int_of_nat (task_status t))) (tasks s)) in
  Printf.sprintf "q=%s x=%s st=%s" q x st

(* executable re-check of the proved invariants on a visited state (sanity of the extraction) *)
let invariants_ok s =
  let q = List.map int_of_nat (queue s) and x = List.map int_of_nat (exec s) in
  let all = q @ x in
  let n = List.length (tasks s) in
  let nodup = List.length (List.sort_uniq compare all) = List.length all in
  let inrange = List.for_all (fun i -> i >= 1 && i <= n) all in
  let live = List.for_all (fun i ->
      let t = List.nth (tasks s) (i - 1) in
      (int_of_nat (task_status t) = 3) = not (List.mem i all)) (List.init n (fun i -> i + 1)) in
  nodup && inrange && live

let () =
  let mode = if Array.length Sys.argv > 1 then Sys.argv.(1) else "trace" in
  let agg = Hashtbl.create 4096 and ncases = ref 0 and nbad = ref 0 and ncap = ref 0 and nsteps = ref 0 in
  (try while true do
    let line = input_line stdin in
    if String.trim line <> "" then begin
      node_ctr := 0;
      let (stepms, funs) = parse_case line in
      let s = ref cinit and n = ref 0 in
      let seen = Hashtbl.create 64 in
      let early = ref false and lifo = ref false in
      while not (chalted !s) && !n < cap do
        if mode = "trace" then begin
          if until_exit_undone !s then (early := true; Printf.printf "#EARLY-EXIT %d\n" !n);
          if lifo_delay !s && not !lifo then (lifo := true; Printf.printf "#LIFO-DELAY %d\n" !n)
        end else if mode = "states" then begin
          let sg = signature !s in
          if not (Hashtbl.mem seen sg) then begin
            Hashtbl.add seen sg ();
            print_endline ((if invariants_ok !s then "S " else "BAD ") ^ sg)
          end
        end else begin
          (* states-agg: the distinct states over ALL cases of the input, printed once at the end *)
          let sg = signature !s in
          if not (Hashtbl.mem agg sg) then begin
            Hashtbl.add agg sg ();
            if not (invariants_ok !s) then (incr nbad; print_endline ("BAD " ^ sg ^ " in " ^ line))
          end
        end;
        let (s', evs) = cstep funs stepms !s in
        if mode = "trace" && !n < print_cap then List.iter (fun e -> print_endline (show_event e)) evs;
        if mode = "trace" && !n = print_cap then print_endline "#TRUNC";
        s := s'; incr n
      done;
      incr ncases; nsteps := !nsteps + !n;
      if mode = "states-agg" then (if !n >= cap then incr ncap)
      else begin
        if !n >= cap then print_endline "#CAP";
        Printf.printf "#STEPS %d\n" !n;
        print_endline "END"
      end
    end
  done with End_of_file -> ());
  if mode = "states-agg" then begin
    Hashtbl.iter (fun sg () -> print_endline ("S " ^ sg)) agg;
    Printf.printf "#CASES %d\n#STATES %d\n#BAD %d\n#NOHALT %d\n#STEPS %d\n" !ncases (Hashtbl.length agg) !nbad !ncap !nsteps
  end
