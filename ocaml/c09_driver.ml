(* Driver for the extracted C09 model (coq/C09/ConstPtr.v, Model.v).
   Sub-commands (argv.(1)):
     matrix   - one line per (kind, path) cell of the property's matrix:
                  CELL <kind> <path> <script|-> spec=<v> mech=<v> twin=<script|-> twin_spec=<v> twin_mech=<v>
     sites    - one line per check site:
                  SITE <name> chk=<0|1> eff=<0|1> <script> spec=<v> mech=<v> allbut=<v> breaks_allbut=<0|1> breaks_mech=<0|1>
     chains <ref depth> <alias depth> <ptr depth>
              - one line per derivation chain (object -> handle -> handle ... -> store):
                  CHAIN <family> <name> <script> spec=<v> mech=<v> expect=<v>
     run      - stdin: one script per line; for each script three lines
                  SPEC <outcome> <snap> ...   MECH <outcome> <snap> ...   FREE <outcome> <snap> ...
                (FREE = no test at all: gives the pointer structure of every prefix), then INV <0|1> <start snap>;
                with argv.(2) = "<checked sites,>;<non-writing sites,>" a line OBS (that policy) precedes INV
   Script text:   <obj>;<obj>;... | <ptr>;<ptr>;... | <op>;<op>;...          (empty parts allowed)
     obj  := <s|a|t>,<const 0/1>,<member-const bits or ->,<v> <v> ...
     ptr  := <tgt>,<pc>,<cc>             tgt := n | o<i> | s<i>.<k>
     op   := D <a|c|i> <o> <k> <u> | W <o> <v> ... | N <pc> <cc> <src|-> | P <p> <src> | T <d|i|e|m|a> <p> <m> <u>
           | R <param> <rc> <o> <k> <u> | C <src> <u> | M <a|c|i> <p> <d>
           | H <param> <rc> <o<i>|h<j>> | S <a|c|i> <h> <m> <u> | X <h> <v> ... | Q <pc> <src> | E <h>
     src  := &o<i> | &s<i>.<k> | =<q>
     psites   - one line per check site of the access-path machine (coq/C09/Paths.v):
                  PSITE <name> chk=<0|1> exec=<0|1> <pscript> spec=<outcome> mech=<outcome> twin=<pscript>
     puniverse - every case of the path universe (coq/C09/PathModel.v: 8 graphs x const placements x cells / nodes x forms):
                  PCASE <graph> <placement> <set|sub> exec=<0|1> <pscript> spec=<outcome> mech=<outcome>
     prun     - stdin: one pscript per line; for each: PSPEC / PMECH / PFREE <outcome> <psnap> ... (one psnap per accepted
                op), with argv.(2) = "<checked site,...>" also POBS, then PINFO <start psnap> <exec flag per op, 0/1 ...>
   pscript  := <var>;<var>;... | <pop>;<pop>;...
     var    := <const 0/1> <tree>        tree := L<z> | R(<c><tree>,...) | A(<c><tree>,...)   c = const flag of the child 0/1
     pop    := S <x>:<path> <s|o|i> <u>  |  B <x>:<path> <lit 0/1> <tree>          path := - | <i>.<j>.<k> (child indices)
   psnap    := <cells of var 0 ,-separated>/<var 1>/...
   outcome := done | rej:<i>:<site> | stuck:<i>
   snap    := <vals of obj 0 ,-separated>/<obj 1>/...#<tgt of ptr 0>,<ptr 1>,...      (one per accepted op) *)
open C09_model

let rec nat_of_int n = if n <= 0 then O else S (nat_of_int (n - 1))
let rec int_of_nat = function O -> 0 | S k -> 1 + int_of_nat k
let rec pos_of_int n = if n <= 1 then XH else if n land 1 = 0 then XO (pos_of_int (n lsr 1)) else XI (pos_of_int (n lsr 1))
let z_of_int n = if n = 0 then Z0 else if n > 0 then Zpos (pos_of_int n) else Zneg (pos_of_int (-n))
let rec int_of_pos = function XH -> 1 | XO p -> 2 * int_of_pos p | XI p -> 2 * int_of_pos p + 1
let int_of_z = function Z0 -> 0 | Zpos p -> int_of_pos p | Zneg p -> - (int_of_pos p)

let split c s = String.split_on_char c s
let words s = List.filter (fun w -> w <> "") (split ' ' s)
let b01 s = s = "1"
let s01 b = if b then "1" else "0"

let site_s = function
  | SAssignVar -> "AssignVar" | SCompoundVar -> "CompoundVar" | SIncDecVar -> "IncDecVar" | SElemStore -> "ElemStore"
  | SElemCompound -> "ElemCompound" | SElemIncDec -> "ElemIncDec" | SMemberStore -> "MemberStore"
  | SMemberCompound -> "MemberCompound" | SMemberIncDec -> "MemberIncDec" | SWholeConst -> "WholeConst"
  | SWholeMemberConst -> "WholeMemberConst" | SDerefStore -> "DerefStore" | SDerefIncDec -> "DerefIncDec"
  | SDerefExprStore -> "DerefExprStore" | SDerefMember -> "DerefMember" | SArrowStore -> "ArrowStore"
  | SPtrMemberConst -> "PtrMemberConst" | SAddrAssign -> "AddrAssign" | SAddrDecl -> "AddrDecl"
  | SAddrSubAssign -> "AddrSubAssign" | SAddrSubDecl -> "AddrSubDecl" | SAddrArg -> "AddrArg"
  | SPtrCopyAssign -> "PtrCopyAssign" | SPtrCopyDecl -> "PtrCopyDecl" | SPtrCopyArg -> "PtrCopyArg"
  | SRefParam -> "RefParam" | SRefLocal -> "RefLocal" | SConstRefStore -> "ConstRefStore"
  | SReseatAssign -> "ReseatAssign" | SReseatCompound -> "ReseatCompound" | SReseatIncDec -> "ReseatIncDec"
  | SRefLocalViaLocal -> "RefLocalViaLocal" | SRefLocalViaParam -> "RefLocalViaParam" | SRefLocalCRef -> "RefLocalCRef"
  | SRefParamViaLocal -> "RefParamViaLocal" | SRefParamViaParam -> "RefParamViaParam" | SRefMemberConst -> "RefMemberConst"
  | SRefStructRead -> "RefStructRead" | SRefStructFresh -> "RefStructFresh"
  | SPtcParamStore -> "PtcParamStore" | SPtrCopyArgParam -> "PtrCopyArgParam" | SAliasOwnConst -> "AliasOwnConst"
  | SAliasParentStore -> "AliasParentStore" | SAliasParentIncDec -> "AliasParentIncDec" | SAliasParentWhole -> "AliasParentWhole"
  | SAliasDeep -> "AliasDeep"

(* ---------- parsing ---------- *)
let tgt_of s =
  if s = "n" then None
  else if s.[0] = 'o' then Some (TObj (nat_of_int (int_of_string (String.sub s 1 (String.length s - 1)))))
  else match split '.' (String.sub s 1 (String.length s - 1)) with
    | [o; k] -> Some (TSlot (nat_of_int (int_of_string o), nat_of_int (int_of_string k)))
    | _ -> failwith ("tgt " ^ s)
let src_of s =
  if s.[0] = '=' then PCopy (nat_of_int (int_of_string (String.sub s 1 (String.length s - 1))))
  else match tgt_of (String.sub s 1 (String.length s - 1)) with Some t -> PAddr t | None -> failwith ("src " ^ s)
let dform_of = function "a" -> FAssign | "c" -> FCompound | "i" -> FIncDec | s -> failwith ("dform " ^ s)
let pform_of = function "d" -> PDeref | "i" -> PDerefInc | "e" -> PDerefExpr | "m" -> PDerefMember | "a" -> PArrow
                      | s -> failwith ("pform " ^ s)
let n s = nat_of_int (int_of_string s)
let zz s = z_of_int (int_of_string s)
let hsrc_of s =
  let k = nat_of_int (int_of_string (String.sub s 1 (String.length s - 1))) in
  if s.[0] = 'o' then HObj k else if s.[0] = 'h' then HVia k else failwith ("hsrc " ^ s)
let obj_of s =
  match split ',' s with
  | [sh; c; mc; vs] ->
      { oshape = (match sh with "s" -> Scalar | "a" -> Arr | "t" -> Struct | _ -> failwith "shape");
        oconst = b01 c;
        omconst = (if mc = "-" then [] else List.init (String.length mc) (fun i -> mc.[i] = '1'));
        ovals = List.map zz (words vs) }
  | _ -> failwith ("obj " ^ s)
let ptr_of s =
  match split ',' s with
  | [t; pc; cc] -> mk_ptr (tgt_of t) (b01 pc) (b01 cc) false false
  | _ -> failwith ("ptr " ^ s)
let op_of s =
  match words s with
  | ["D"; f; o; k; u] -> ODirect (dform_of f, n o, n k, zz u)
  | "W" :: o :: vs -> OWhole (n o, List.map zz vs)
  | ["N"; pc; cc; "-"] -> OPtrNew (b01 pc, b01 cc, None)
  | ["N"; pc; cc; src] -> OPtrNew (b01 pc, b01 cc, Some (src_of src))
  | ["P"; p; src] -> OPtrSet (n p, src_of src)
  | ["T"; f; p; m; u] -> OPtrStore (pform_of f, n p, n m, zz u)
  | ["R"; pa; rc; o; k; u] -> ORef (b01 pa, b01 rc, n o, n k, zz u)
  | ["C"; src; u] -> OPtrCall (src_of src, zz u)
  | ["M"; f; p; d] -> OPtrMove (dform_of f, n p, zz d)
  | ["H"; pa; rc; src] -> OHRef (b01 pa, b01 rc, hsrc_of src)
  | ["S"; f; h; m; u] -> OHStore (dform_of f, n h, n m, zz u)
  | "X" :: h :: vs -> OHWhole (n h, List.map zz vs)
  | ["Q"; pc; src] -> OPtrParam (b01 pc, src_of src)
  | ["E"; h] -> OHRead (n h)
  | _ -> failwith ("op " ^ s)
let items s = List.filter (fun x -> String.trim x <> "") (split ';' s)
let script_of line =
  match split '|' line with
  | [os; ps; ops] ->
      ({ objs = List.map (fun x -> obj_of (String.trim x)) (items os);
         ptrs = List.map (fun x -> ptr_of (String.trim x)) (items ps); gbad = false },
       List.map (fun x -> op_of (String.trim x)) (items ops))
  | _ -> failwith "script"

(* ---------- printing ---------- *)
let tgt_s = function
  | None -> "n"
  | Some (TObj o) -> "o" ^ string_of_int (int_of_nat o)
  | Some (TSlot (o, k)) -> "s" ^ string_of_int (int_of_nat o) ^ "." ^ string_of_int (int_of_nat k)
let src_s = function PAddr t -> "&" ^ tgt_s (Some t) | PCopy q -> "=" ^ string_of_int (int_of_nat q)
let dform_s = function FAssign -> "a" | FCompound -> "c" | FIncDec -> "i"
let pform_s = function PDeref -> "d" | PDerefInc -> "i" | PDerefExpr -> "e" | PDerefMember -> "m" | PArrow -> "a"
let ni x = string_of_int (int_of_nat x)
let zi x = string_of_int (int_of_z x)
let obj_s o =
  (match o.oshape with Scalar -> "s" | Arr -> "a" | Struct -> "t") ^ "," ^ s01 o.oconst ^ "," ^
  (if o.omconst = [] then "-" else String.concat "" (List.map s01 o.omconst)) ^ "," ^ String.concat " " (List.map zi o.ovals)
let ptr_s p = tgt_s p.ptgt ^ "," ^ s01 p.ppc ^ "," ^ s01 p.pcc
let op_s = function
  | ODirect (f, o, k, u) -> Printf.sprintf "D %s %s %s %s" (dform_s f) (ni o) (ni k) (zi u)
  | OWhole (o, vs) -> "W " ^ ni o ^ " " ^ String.concat " " (List.map zi vs)
  | OPtrNew (pc, cc, None) -> Printf.sprintf "N %s %s -" (s01 pc) (s01 cc)
  | OPtrNew (pc, cc, Some s) -> Printf.sprintf "N %s %s %s" (s01 pc) (s01 cc) (src_s s)
  | OPtrSet (p, s) -> Printf.sprintf "P %s %s" (ni p) (src_s s)
  | OPtrStore (f, p, m, u) -> Printf.sprintf "T %s %s %s %s" (pform_s f) (ni p) (ni m) (zi u)
  | ORef (pa, rc, o, k, u) -> Printf.sprintf "R %s %s %s %s %s" (s01 pa) (s01 rc) (ni o) (ni k) (zi u)
  | OPtrCall (s, u) -> Printf.sprintf "C %s %s" (src_s s) (zi u)
  | OPtrMove (f, p, d) -> Printf.sprintf "M %s %s %s" (dform_s f) (ni p) (zi d)
  | OHRef (pa, rc, HObj o) -> Printf.sprintf "H %s %s o%s" (s01 pa) (s01 rc) (ni o)
  | OHRef (pa, rc, HVia h) -> Printf.sprintf "H %s %s h%s" (s01 pa) (s01 rc) (ni h)
  | OHStore (f, h, m, u) -> Printf.sprintf "S %s %s %s %s" (dform_s f) (ni h) (ni m) (zi u)
  | OHWhole (h, vs) -> "X " ^ ni h ^ " " ^ String.concat " " (List.map zi vs)
  | OPtrParam (pc, s) -> Printf.sprintf "Q %s %s" (s01 pc) (src_s s)
  | OHRead h -> "E " ^ ni h
let script_s (s, ops) =
  String.concat ";" (List.map obj_s s.objs) ^ "|" ^ String.concat ";" (List.map ptr_s s.ptrs) ^ "|" ^
  String.concat ";" (List.map op_s ops)
let snap_s s =
  String.concat "/" (List.map (fun o -> String.concat "," (List.map zi o.ovals)) s.objs) ^ "#" ^
  String.concat "," (List.map (fun p -> tgt_s p.ptgt) s.ptrs)
let outcome_s = function
  | Done -> "done"
  | RejectedAt (i, st) -> "rej:" ^ ni i ^ ":" ^ site_s st
  | StuckAt i -> "stuck:" ^ ni i
let verdict_s = function VRejected -> "rejected" | VChanged -> "changed" | VUnchanged -> "unchanged" | VStuck -> "stuck"

let kind_s = function
  | KTiny -> "tiny" | KShort -> "short" | KInt -> "int" | KLong -> "long" | KChar -> "char" | KBool -> "bool"
  | KArray -> "array" | KStruct -> "struct" | KMember -> "member" | KGlobal -> "global" | KParam -> "param"
  | KPtc -> "ptc" | KCptr -> "cptr"
let path_s = function
  | PAssign -> "assign" | PCompound -> "compound" | PPostInc -> "postinc" | PPreDec -> "predec" | PElem -> "elem"
  | PMemberSt -> "memberst" | PDerefSt -> "deref" | PArrowSt -> "arrow" | PRefParam -> "refparam"
  | PAddrDecl -> "addr_decl" | PAddrAsg -> "addr_asg" | PLocalRef -> "localref"


(* ---------- access-path machine (coq/C09/Paths.v) ---------- *)
let sform_s = function FSet -> "set" | FOp -> "op" | FInc -> "inc"
let pcls_s = function CElem -> "Elem" | CDirect -> "Direct" | CDirectElem -> "DirectElem" | CChain -> "Chain"
                    | CRootIdx -> "RootIdx" | CMidIdx -> "MidIdx" | COther -> "Other"
let skind_s = function SkWhole -> "Whole" | SkMember -> "Member" | SkMemberElem -> "MemberElem" | SkRootElem -> "RootElem"
                     | SkDeep -> "Deep"
let sreason_s = function RRoot -> "Root" | REdge -> "Edge" | RInStruct -> "InStruct" | RInPlain -> "InPlain"
let psite_s = function
  | PRoot (c, f) -> "Root." ^ pcls_s c ^ "." ^ sform_s f
  | PLast (c, f) -> "Last." ^ pcls_s c ^ "." ^ sform_s f
  | PInner c -> "Inner." ^ pcls_s c
  | PSub (k, l, r) -> "Sub." ^ skind_s k ^ "." ^ (if l then "lit" else "var") ^ "." ^ sreason_s r
let rec tree_s = function
  | TLeaf z -> "L" ^ zi z
  | TRec f -> "R(" ^ forest_s f ^ ")"
  | TArr f -> "A(" ^ forest_s f ^ ")"
and forest_s f =
  let rec go = function FNil -> [] | FCons (c, t, r) -> (s01 c ^ tree_s t) :: go r in
  String.concat "," (go f)
(* recursive-descent parser over a string with a cursor *)
let parse_tree (s : string) : tree =
  let pos = ref 0 in
  let peek () = if !pos < String.length s then s.[!pos] else '\000' in
  let adv () = incr pos in
  let rec tree () =
    match peek () with
    | 'L' -> adv ();
        let st = !pos in
        if peek () = '-' then adv ();
        while (match peek () with '0' .. '9' -> true | _ -> false) do adv () done;
        TLeaf (z_of_int (int_of_string (String.sub s st (!pos - st))))
    | 'R' -> adv (); adv (); let f = forest () in adv (); TRec f
    | 'A' -> adv (); adv (); let f = forest () in adv (); TArr f
    | c -> failwith (Printf.sprintf "tree: unexpected %c at %d in %s" c !pos s)
  and forest () =
    if peek () = ')' then FNil
    else begin
      let c = (peek () = '1') in adv ();
      let t = tree () in
      if peek () = ',' then (adv (); FCons (c, t, forest ())) else FCons (c, t, FNil)
    end in
  let t = tree () in
  if !pos <> String.length s then failwith ("tree: trailing input in " ^ s);
  t
let path_of_s s = if s = "-" then [] else List.map n (split '.' s)
let path_s' p = if p = [] then "-" else String.concat "." (List.map ni p)
let pvar_of s =
  match words s with
  | [c; t] -> { vconst = b01 c; vtree = parse_tree t }
  | _ -> failwith ("pvar " ^ s)
let pvar_s v = s01 v.vconst ^ " " ^ tree_s v.vtree
let sform_of = function "s" -> FSet | "o" -> FOp | "i" -> FInc | s -> failwith ("sform " ^ s)
let sform_c = function FSet -> "s" | FOp -> "o" | FInc -> "i"
let target_of st s =
  match split ':' s with
  | [x; p] ->
      let x = n x and p = path_of_s p in
      let t = (match List.nth_opt st (int_of_nat x) with Some v -> v.vtree | None -> failwith "no such variable") in
      lv_of x p t
  | _ -> failwith ("target " ^ s)
let pop_of st s =
  match words s with
  | ["S"; tg; f; u] -> OSet (target_of st tg, sform_of f, zz u)
  | ["B"; tg; l; t] -> OSub (target_of st tg, b01 l, parse_tree t)
  | _ -> failwith ("pop " ^ s)
let pop_s = function
  | OSet (e, f, u) -> Printf.sprintf "S %s:%s %s %s" (ni (root_of e)) (path_s' (lpath e)) (sform_c f) (zi u)
  | OSub (e, l, t) -> Printf.sprintf "B %s:%s %s %s" (ni (root_of e)) (path_s' (lpath e)) (s01 l) (tree_s t)
let pscript_of line =
  match split '|' line with
  | [vs; ops] ->
      let st = List.map (fun x -> pvar_of (String.trim x)) (items vs) in
      (st, List.map (fun x -> pop_of st (String.trim x)) (items ops))
  | _ -> failwith "pscript"
let pscript_s (st, ops) = String.concat ";" (List.map pvar_s st) ^ "|" ^ String.concat ";" (List.map pop_s ops)
let psnap_s st = String.concat "/" (List.map (fun v -> String.concat "," (List.map zi (cells v.vtree))) st)
let poutcome_s = function
  | PDone -> "done"
  | PRejectedAt (i, st) -> "rej:" ^ ni i ^ ":" ^ psite_s st
  | PStuckAt i -> "stuck:" ^ ni i
(* can the implementation execute this store at all (on a non-const object)? *)
let pop_exec st = function
  | OSet (e, f, _) ->
      (match List.nth_opt st (int_of_nat (root_of e)) with
       | Some v -> exec_set (classify (steps (lpath e) v.vtree)) f
       | None -> false)
  | OSub (e, l, _) ->
      (match List.nth_opt st (int_of_nat (root_of e)) with
       | Some v -> (match get (lpath e) v.vtree with
                    | Some sub -> exec_sub (sclassify (steps (lpath e) v.vtree) sub) l
                    | None -> false)
       | None -> false)
let pfree : psite -> bool = fun _ -> false
let groot_s = function UO -> "O" | UN -> "N" | UI -> "I" | UNs -> "Ns" | UIs -> "Is" | UQ -> "Q" | UI2 -> "I2" | UInts -> "Ints"
let gflag_s = function GV -> "I.v" | GIn -> "N.in" | GN -> "N.n" | GK -> "O.k" | GA -> "O.a" | GOin -> "O.in"
                     | GItems -> "O.items" | GQ -> "Q.in"
let placement_s = function PlNone -> "none" | PlRoot -> "root" | PlMember g -> gflag_s g

let free = { chk = (fun _ -> false); eff = (fun _ -> true) }

let () =
  let sub = if Array.length Sys.argv > 1 then Sys.argv.(1) else "run" in
  match sub with
  | "matrix" ->
      List.iter (fun k -> List.iter (fun p ->
        let v pol c = match c with None -> "-" | Some c -> verdict_s (verdict_of pol c) in
        let sc c = match c with None -> "-" | Some c -> script_s c in
        let c1 = scenario true k p and c0 = scenario false k p in
        Printf.printf "CELL\t%s\t%s\t%s\tspec=%s\tmech=%s\t%s\ttwin_spec=%s\ttwin_mech=%s\n" (kind_s k) (path_s p)
          (sc c1) (v spec c1) (v mech c1) (sc c0) (v spec c0) (v mech c0)) all_paths) all_kinds
  | "chains" ->
      let depth i = nat_of_int (int_of_string Sys.argv.(i)) in
      let bs b = if b then "c" else "n" in
      let line fam name c exp =
        Printf.printf "CHAIN\t%s\t%s\t%s\tspec=%s\tmech=%s\texpect=%s\n" fam name (script_s c)
          (verdict_s (verdict_of spec c)) (verdict_s (verdict_of mech c)) (verdict_s exp) in
      let links_s f ls = String.concat "-" (List.map f ls) in
      List.iter (fun ls -> List.iter (fun cst -> List.iter (fun (st, rd) -> List.iter (fun f ->
          line "ref" (Printf.sprintf "%s%s:%s:%s" (bs cst) (if st then (if rd then "structread" else "struct") else "scalar")
                        (links_s (fun (pa, rc) -> (if pa then "P" else "L") ^ bs rc) ls) (dform_s f))
            (ref_chain cst st rd ls f) (chain_expect cst (List.map snd ls)))
        [FAssign; FCompound]) [(false, false); (true, false); (true, true)]) [true; false]) (lists_upto ref_alpha (depth 2));
      List.iter (fun ls -> List.iter (fun cst -> List.iter (fun f ->
          line "alias" (Printf.sprintf "%sarray:%s:%s" (bs cst) (links_s (fun rc -> "P" ^ bs rc) ls)
                          (match f with Some f -> dform_s f | None -> "w"))
            (alias_chain cst ls f) (chain_expect cst ls))
        alias_finals) [true; false]) (lists_upto [false; true] (depth 3));
      let root_s = function RScalar -> "scalar" | RElem -> "elem" | RStructObj -> "struct" | RMemberSlot -> "member" in
      let md_s = function ADecl -> "D" | AAssign -> "A" | AArg -> "P" in
      List.iter (fun ls -> List.iter (fun cst -> List.iter (fun r -> List.iter (fun f ->
          line "ptr" (Printf.sprintf "%s%s:%s:%s" (bs cst) (root_s r) (links_s (fun (md, pc) -> md_s md ^ bs pc) ls) (pform_s f))
            (ptr_chain cst r ls f) (chain_expect cst (List.map snd ls)))
        (proot_forms r)) all_proots) [true; false]) (lists_upto ptr_alpha (depth 4))
  | "psites" ->
      List.iter (fun st ->
        if site_occurs st then begin
          let (s0, ops) = pwitness st in
          let oc pol = poutcome_s (snd (prun pol s0 ops)) in
          Printf.printf "PSITE\t%s\tchk=%s\texec=%s\t%s\tspec=%s\tmech=%s\t%s\n" (psite_s st) (s01 (pmech st))
            (s01 (List.for_all (pop_exec s0) ops)) (pscript_s (s0, ops)) (oc pspec) (oc pmech) (pscript_s (ptwin st))
        end) all_psites
  | "puniverse" ->
      List.iter (fun g -> List.iter (fun pl ->
          let line kind (s0, o) =
            let oc pol = poutcome_s (snd (prun pol s0 [o])) in
            Printf.printf "PCASE\t%s\t%s\t%s\texec=%s\t%s\tspec=%s\tmech=%s\n" (groot_s g) (placement_s pl) kind
              (s01 (pop_exec s0 o)) (pscript_s (s0, [o])) (oc pspec) (oc pmech) in
          List.iter (line "set") (set_cases g pl);
          List.iter (line "sub") (sub_cases g pl)) (placements g)) all_groots
  | "prun" ->
      let obs =
        if Array.length Sys.argv > 2 then
          let cs = split ',' Sys.argv.(2) in [("POBS", (fun st -> List.mem (psite_s st) cs))]
        else [] in
      (try
         while true do
           let line = input_line stdin in
           if String.trim line <> "" then begin
             (try
                let (s0, ops) = pscript_of line in
                List.iter (fun (name, pol) ->
                  let (_, oc) = prun pol s0 ops in
                  print_string (name ^ " " ^ poutcome_s oc);
                  List.iter (fun st -> print_string (" " ^ psnap_s st)) (ptrace pol s0 ops);
                  print_newline ()) ([("PSPEC", pspec); ("PMECH", pmech); ("PFREE", pfree)] @ obs);
                (* the exec flag of each op is judged in the state of the FREE run (shapes never change) *)
                print_endline ("PINFO " ^ psnap_s s0 ^ " " ^ String.concat "" (List.map (fun o -> s01 (pop_exec s0 o)) ops))
              with Failure m -> print_endline ("ERROR " ^ m)
                 | Invalid_argument m -> print_endline ("ERROR " ^ m))
           end
         done
       with End_of_file -> ())
  | "sites" ->
      List.iter (fun st ->
        let w = witness st in
        Printf.printf "SITE\t%s\tchk=%s\teff=%s\t%s\tspec=%s\tmech=%s\tallbut=%s\tbreaks_allbut=%s\tbreaks_mech=%s\n" (site_s st)
          (s01 (mech_chk st)) (s01 (mech_eff st)) (script_s w) (verdict_s (verdict_of spec w)) (verdict_s (verdict_of mech w))
          (verdict_s (verdict_of (all_but st) w)) (s01 (breaks (all_but st) w)) (s01 (breaks mech w))) all_sites
  | _ ->
      (* optional argv.(2) = "<site,site,..>;<site,..>": the sites at which a test was OBSERVED on the implementation and the
         sites whose executor was observed not to write; adds a fourth line OBS per script *)
      let obs =
        if Array.length Sys.argv > 2 then begin
          match split ';' Sys.argv.(2) with
          | [c; ne] ->
              let cs = split ',' c and nes = split ',' ne in
              [("OBS", { chk = (fun st -> List.mem (site_s st) cs); eff = (fun st -> not (List.mem (site_s st) nes)) })]
          | _ -> failwith "policy argument"
        end else [] in
      (try
         while true do
           let line = input_line stdin in
           if String.trim line <> "" then begin
             (try
                let (s, ops) = script_of line in
                List.iter (fun (name, pol) ->
                  let (_, oc) = run pol s ops in
                  print_string (name ^ " " ^ outcome_s oc);
                  List.iter (fun st -> print_string (" " ^ snap_s st)) (trace pol s ops);
                  print_newline ()) ([("SPEC", spec); ("MECH", mech); ("FREE", free)] @ obs);
                print_endline ("INV " ^ s01 (inv_b s) ^ " " ^ snap_s s)
              with Failure m -> print_endline ("ERROR " ^ m))
           end
         done
       with End_of_file -> ())
