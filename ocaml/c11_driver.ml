(* Driver for the extracted C11 model.  Line protocol identical to harness/cpp/c11_driver.cpp
   (KEY / CLONE / SUBST / INST, same tree serialisation), plus
     OUTSIDE  <n> <field>* <node>   -> U <field>*   child members used in the tree and not in the list
     SOUTSIDE <n> <field>* <node>   -> U <field>*   scalar members used in the tree and not in the list
     CACHED <fname-enc> <n> <targ-enc>* <node> ...  see below
     TABLE                          -> C <cloned child fields> / S <subst child fields>
     RESOLVE <k> {<key-enc> <val-enc>}* <name-enc>  -> R <enc>   TypeContext::resolve_complex_type (type_map[key] = val in order)
     TARGS <name-enc>               -> A <base-enc> <n> <arg-enc>* | A -    the type arguments find_impl_for_struct cuts out
     CTX <fuel> <nblocks> {<base> <np> <param>* <nm> {<mname> <nmp> {<pname> <ptype>}* <na> <act>*}*}* <ncalls> {<rty> <m> <n>}*
         act = O <ty> | D <v> <ty> | C <v> <m> | Y <v> <m> (try) | G <fn> | R <k> | F | L <ty> (defer) | Z (end of a void body)
                                    (all names encoded)
                                    -> one group per call from main, separated by " ; ":
                                       <N|R|E> <stack depth after> <observed-name-enc>*
                                       then " || " and the same groups (depth 0) for the hand-specialised copy
                                       (Context.run_calls_mono: every statement under its body's own instance)
   Trees: ( kind nscalars {fname =enc}* nkids {fname node}* ) *)
open C11_model

let explode s = List.init (String.length s) (String.get s)
let implode l = let b = Buffer.create 64 in List.iter (Buffer.add_char b) l; Buffer.contents b

let rec pos_of_int i = if i = 1 then XH else if i land 1 = 1 then XI (pos_of_int (i lsr 1)) else XO (pos_of_int (i lsr 1))
let n_of_int i = if i = 0 then N0 else Npos (pos_of_int i)
let rec int_of_pos = function XH -> 1 | XO p -> 2 * int_of_pos p | XI p -> 2 * int_of_pos p + 1
let int_of_n = function N0 -> 0 | Npos p -> int_of_pos p

let enc s =
  let b = Buffer.create (String.length s + 8) in
  Buffer.add_char b '=';
  String.iter (fun c ->
    let k = Char.code c in
    if k <= 0x20 || c = '%' || c = '(' || c = ')' || k >= 0x7f then Buffer.add_string b (Printf.sprintf "%%%02X" k)
    else Buffer.add_char b c) s;
  Buffer.contents b

let dec t =
  let b = Buffer.create (String.length t) in
  let n = String.length t in
  let i = ref (if n > 0 && t.[0] = '=' then 1 else 0) in
  while !i < n do
    if t.[!i] = '%' && !i + 2 < n then begin
      Buffer.add_char b (Char.chr (int_of_string ("0x" ^ String.sub t (!i + 1) 2))); i := !i + 3
    end else begin Buffer.add_char b t.[!i]; incr i end
  done;
  Buffer.contents b

exception Protocol of string

let toks = ref [||]
let pos = ref 0
let next () = if !pos >= Array.length !toks then raise (Protocol "unexpected end of line");
  let t = !toks.(!pos) in incr pos; t
let num () = int_of_string (next ())

let rec load () =
  if next () <> "(" then raise (Protocol "expected (");
  let kind = num () in
  let ns = num () in
  let sc = List.init ns (fun _ -> let f = next () in let v = dec (next ()) in (explode f, explode v)) in
  let nk = num () in
  let kids = List.init nk (fun _ -> let f = next () in let c = load () in (explode f, c)) in
  if next () <> ")" then raise (Protocol "expected )");
  Node (n_of_int kind, sc, kids)

let rec dump b (Node (k, sc, kids)) =
  Buffer.add_string b (Printf.sprintf "( %d %d" (int_of_n k) (List.length sc));
  List.iter (fun (f, v) -> Buffer.add_char b ' '; Buffer.add_string b (implode f); Buffer.add_char b ' ';
                           Buffer.add_string b (enc (implode v))) sc;
  Buffer.add_string b (Printf.sprintf " %d" (List.length kids));
  List.iter (fun (f, c) -> Buffer.add_char b ' '; Buffer.add_string b (implode f); Buffer.add_char b ' '; dump b c) kids;
  Buffer.add_string b " )"

let show n = let b = Buffer.create 256 in dump b n; Buffer.contents b
let rec nat_of_int i = if i <= 0 then O else S (nat_of_int (i - 1))
let estr () = explode (dec (next ()))
let load_act () =
  match next () with
  | "O" -> AObs (estr ())
  | "D" -> let v = estr () in let ty = estr () in ADecl (v, ty)
  | "C" -> let v = estr () in let m = estr () in ACall (v, m)
  | "Y" -> let v = estr () in let m = estr () in ATry (v, m)
  | "G" -> AFn (estr ())
  | "R" -> ARetIf (nat_of_int (num ()))
  | "F" -> AFail
  | "L" -> ADefer (estr ())
  | "Z" -> AEnd
  | t -> raise (Protocol ("unknown act " ^ t))
let load_method () =
  let name = estr () in
  let np = num () in
  let ps = List.init np (fun _ -> let a = estr () in let b = estr () in (a, b)) in
  let na = num () in
  let body = List.init na (fun _ -> load_act ()) in
  (name, { m_params = ps; m_body = body })
let load_block () =
  let base = estr () in
  let np = num () in
  let ps = List.init np (fun _ -> estr ()) in
  let nm = num () in
  let ms = List.init nm (fun _ -> load_method ()) in
  { b_base = base; b_params = ps; b_methods = ms }
let strs k = List.init k (fun _ -> explode (dec (next ())))

let () =
  (try while true do
    let line = input_line stdin in
    if String.trim line <> "" then begin
      toks := Array.of_list (List.filter (fun s -> s <> "") (String.split_on_char ' ' line));
      pos := 0;
      let out =
        try
          match next () with
          | "KEY" -> let f = explode (dec (next ())) in let n = num () in let a = strs n in
                     "K " ^ enc (implode (generate_cache_key f a))
          | "CLONE" -> "T " ^ show (clone (load ()))
          | "SUBST" -> let k = num () in
                       (* type_map[a] = b in order: a later binding of the same key wins *)
                       let m = List.fold_left (fun m p -> p :: m) []
                                 (List.init k (fun _ -> let a = explode (dec (next ())) in let b = explode (dec (next ())) in (a, b))) in
                       "T " ^ show (subst_node m (load ()))
          | "INST" -> let n = num () in let a = strs n in
                      (match instantiate (load ()) a with Ok t -> "T " ^ show t | Err e -> "E " ^ enc (implode e))
          | "OUTSIDE" -> let n = num () in let a = List.init n (fun _ -> explode (next ())) in
                         "U " ^ String.concat " " (List.map implode (uses_child_outside a (load ())))
          | "SOUTSIDE" -> let n = num () in let a = List.init n (fun _ -> explode (next ())) in
                          "U " ^ String.concat " " (List.map implode (uses_scalar_outside a (load ())))
          | "CACHED" ->
              (* CACHED <m> { <fname-enc> <n> <targ-enc>* <node> }*  : m calls through call_cached, in order,
                 starting from an empty cache; prints the m results separated by " ; " *)
              let m = num () in
              let c = ref [] in
              let outs = List.init m (fun _ ->
                let f = explode (dec (next ())) in let n = num () in let a = strs n in let t = load () in
                let (c', r) = call_cached !c f t a in c := c';
                match r with Ok t -> "T " ^ show t | Err e -> "E " ^ enc (implode e)) in
              String.concat " ; " outs
          | "RESOLVE" ->
              let k = num () in
              let m = List.fold_left (fun m p -> p :: m) []
                        (List.init k (fun _ -> let a = estr () in let b = estr () in (a, b))) in
              "R " ^ enc (implode (resolve_complex_type m (estr ())))
          | "TARGS" ->
              (match impl_type_args (estr ()) with
               | None -> "A -"
               | Some (b, a) -> "A " ^ enc (implode b) ^ " " ^ string_of_int (List.length a) ^
                                String.concat "" (List.map (fun x -> " " ^ enc (implode x)) a))
          | "CTX" ->
              let fuel = nat_of_int (num ()) in
              let nb = num () in
              let prog = List.init nb (fun _ -> load_block ()) in
              let nc = num () in
              let calls = List.init nc (fun _ -> let r = estr () in let m = estr () in let n = nat_of_int (num ()) in ((r, m), n)) in
              let rs = run_calls fuel prog [] calls in
              let ms = run_calls_mono fuel prog [] calls in
              let fl = function FNorm -> "N" | FRet -> "R" | FErr -> "E" in
              let names l = String.concat "" (List.map (fun x -> " " ^ enc (implode x)) l) in
              String.concat " ; " (List.map (fun r ->
                fl r.r_flag ^ " " ^ string_of_int (List.length r.r_stack) ^ names r.r_out) rs)
              ^ " || " ^
              String.concat " ; " (List.map (fun q -> fl q.q_flag ^ " 0" ^ names q.q_out) ms)
          | "TABLE" -> "C " ^ String.concat " " (List.map implode cloned_child_fields) ^ " / S " ^
                       String.concat " " (List.map implode subst_child_fields)
          | c -> "X " ^ enc ("unknown command " ^ c)
        with Protocol m -> "X " ^ enc m | Failure m -> "X " ^ enc m
      in
      print_endline out
    end
  done with End_of_file -> ())
