(* Driver for the extracted C14 model (coq/C14/Model.v, Await.v).
   Sub-command "tasks" (default).  One case per input line, an S-expression
     (case <fuel> <maxsteps> (defs (def s...) ...) (roots (<def> <a0> <a1> <a2>) ...))
   expr: (c z) (v x) (+ a b) (- a b) (< a b) (= a b)
   stmt: (emit k e) (set x e) (await x c e) (yield) (ret e) (blk s...) (if e (s...) (s...))
         (while e (s...)) (for x i c u (s...))
   A task instance of def d has locals v0 v1 v2 = its arguments; `await c<c>(e)` starts an instance of
   def c with arguments (e, 0, 0) and delivers its result (0 when it ends without return).
   Output per case:
     CASE
     I <inst> <def> <parent> <a0> <a1> <a2> auto=<0|1> wf=<0|1>      Mech instance (creation order)
     S <ev> ...                                                      one line per step grant
     D ret=<z|-> stuck=<0|1> done=<0|1>
     Q <inst> <def> <parent> <a0> <a1> <a2> out=<k:v,..> ret=<z|-|fuel>   Spec instance (creation order)
     END
   events: x<i> = exec stmt i, o<k>:<v> = println, y<0|1>:<i> = yield loop=.. stmt=i, r<i> = return.
   Sub-command "await": one line per case  (int z) (long z) (bool z) (enum z) (str s) (none)
     (struct name (f z) ...) (variant etype variant payload-int)   -> prints what await delivers. *)
open C14_model

let rec nat_of_int n = if n <= 0 then O else S (nat_of_int (n - 1))
let rec int_of_nat = function O -> 0 | S n -> 1 + int_of_nat n
let rec pos_of_i64 (n : int64) : positive =
  if n = 1L then XH
  else if Int64.logand n 1L = 0L then XO (pos_of_i64 (Int64.shift_right_logical n 1))
  else XI (pos_of_i64 (Int64.shift_right_logical n 1))
(* Int64.min_int: its negation is itself; shift_right_logical treats it as 2^63 *)
let z_of_i64 (n : int64) : z =
  if n = 0L then Z0 else if n > 0L then Zpos (pos_of_i64 n) else Zneg (pos_of_i64 (Int64.neg n))
let z_of_int n = z_of_i64 (Int64.of_int n)
let rec i64_of_pos = function
  | XH -> 1L | XO p -> Int64.mul 2L (i64_of_pos p) | XI p -> Int64.add (Int64.mul 2L (i64_of_pos p)) 1L
let i64_of_z = function Z0 -> 0L | Zpos p -> i64_of_pos p | Zneg p -> Int64.neg (i64_of_pos p)
let int_of_z z = Int64.to_int (i64_of_z z)
let zs z = Int64.to_string (i64_of_z z)
let explode s = List.init (String.length s) (String.get s)
let implode l = let b = Buffer.create 16 in List.iter (Buffer.add_char b) l; Buffer.contents b

(* ---- S-expressions *)
type sx = A of string | L of sx list
let parse_sx (s : string) : sx =
  let n = String.length s in
  let pos = ref 0 in
  let rec skip () = if !pos < n && (s.[!pos] = ' ' || s.[!pos] = '\t') then (incr pos; skip ()) in
  let rec one () =
    skip ();
    if !pos >= n then failwith "eof"
    else if s.[!pos] = '(' then begin
      incr pos;
      let items = ref [] in
      let rec loop () =
        skip ();
        if !pos >= n then failwith "unclosed"
        else if s.[!pos] = ')' then incr pos
        else (items := one () :: !items; loop ()) in
      loop (); L (List.rev !items)
    end else begin
      let st = !pos in
      while !pos < n && s.[!pos] <> ' ' && s.[!pos] <> '(' && s.[!pos] <> ')' do incr pos done;
      A (String.sub s st (!pos - st))
    end in
  one ()

let atom_int = function A a -> int_of_string a | _ -> failwith "int expected"
let atom_z = function A a -> z_of_i64 (Int64.of_string a) | _ -> failwith "int expected"
let rec expr_of = function
  | L [A "c"; z] -> EConst (atom_z z)
  | L [A "v"; x] -> EVar (nat_of_int (atom_int x))
  | L [A "+"; a; b] -> EAdd (expr_of a, expr_of b)
  | L [A "-"; a; b] -> ESub (expr_of a, expr_of b)
  | L [A "<"; a; b] -> ELt (expr_of a, expr_of b)
  | L [A "="; a; b] -> EEq (expr_of a, expr_of b)
  | _ -> failwith "bad expr"
let rec stmt_of = function
  | L [A "emit"; k; e] -> SEmit (nat_of_int (atom_int k), expr_of e)
  | L [A "set"; x; e] -> SAssign (nat_of_int (atom_int x), expr_of e)
  | L [A "await"; x; c; e] -> SAwait (nat_of_int (atom_int x), nat_of_int (atom_int c), expr_of e)
  | L [A "yield"] -> SYield
  | L [A "ret"; e] -> SReturn (expr_of e)
  | L (A "blk" :: ss) -> SBlock (List.map stmt_of ss)
  | L [A "if"; c; L t; L e] -> SIf (expr_of c, List.map stmt_of t, List.map stmt_of e)
  | L [A "while"; c; L b] -> SWhile (expr_of c, List.map stmt_of b)
  | L [A "for"; x; i; c; u; L b] ->
      SFor (nat_of_int (atom_int x), expr_of i, expr_of c, expr_of u, List.map stmt_of b)
  | _ -> failwith "bad stmt"

let ev_str = function
  | EvExec i -> Printf.sprintf "x%d" (int_of_nat i)
  | EvOut (k, v) -> Printf.sprintf "o%d:%d" (int_of_nat k) (int_of_z v)
  | EvYield (fl, i) -> Printf.sprintf "y%d:%d" (if fl then 1 else 0) (int_of_nat i)
  | EvReturn i -> Printf.sprintf "r%d" (int_of_nat i)

exception Too_deep
exception Overflow

(* the implementation's int is 32 bits and range-checked (property C04); the model computes in Z.
   A case in which a local or an awaited value leaves +-2^24 is rejected (ERR overflow). *)
let big (v : z) = let x = i64_of_z v in Int64.compare (Int64.abs x) 16777216L > 0 || (match v with Zpos p | Zneg p -> (let rec len = function XH -> 1 | XO q | XI q -> 1 + len q in len p > 40) | Z0 -> false)

let params = [O; S O; S (S O)]
let mk_locals a = List.map2 (fun x v -> (x, z_of_int v)) params a

let run_case (sx : sx) =
  match sx with
  | L [A "case"; fuel; maxsteps; L (A "defs" :: defs); L (A "roots" :: roots)] ->
      let fuel = nat_of_int (atom_int fuel) and maxsteps = nat_of_int (atom_int maxsteps) in
      let defs = Array.of_list (List.map (function L (A "def" :: ss) -> List.map stmt_of ss | _ -> failwith "def") defs) in
      let buf = Buffer.create 1024 in
      let counter = ref 0 in
      (* ---- Mech tree *)
      let rec mech_inst depth parent d args : string * int =
        if depth > 12 then raise Too_deep;
        let id = !counter in incr counter;
        let body = defs.(d) in
        let t0 = spawn body (mk_locals args) in
        let mine = Buffer.create 256 in
        Buffer.add_string mine (Printf.sprintf "I %d %d %d %s auto=%d wf=%d\n" id d parent
          (String.concat " " (List.map string_of_int args)) (if t0.t_auto then 1 else 0)
          (if wf_body params body then 1 else 0));
        let kids = Buffer.create 256 in
        let aw c a =
          let (txt, r) = mech_inst (depth + 1) id (int_of_nat c) [int_of_z a; 0; 0] in
          Buffer.add_string kids txt; z_of_int r in
        let aw c a = if big a then raise Overflow else let r = aw c a in if big r then raise Overflow else r in
        let rec go n t acc =
          if n = 0 || t.t_done || t.t_stuck then (t, List.rev acc)
          else begin
            let (t1, ev) = mstep aw fuel t in
            List.iter (fun (_, v) -> if big v then raise Overflow) t1.t_loc;
            go (n - 1) t1 (ev :: acc)
          end in
        let (t1, steps) = go (int_of_nat maxsteps) t0 [] in
        List.iter (fun evs -> Buffer.add_string mine ("S " ^ String.concat " " (List.map ev_str evs) ^ "\n")) steps;
        Buffer.add_string mine (Printf.sprintf "D ret=%s stuck=%d done=%d\n"
          (match t1.t_ret with Some v -> string_of_int (int_of_z v) | None -> "-")
          (if t1.t_stuck then 1 else 0) (if t1.t_done then 1 else 0));
        (Buffer.contents mine ^ Buffer.contents kids,
         (match t1.t_ret with Some v -> int_of_z v | None -> 0)) in
      (* ---- Spec tree *)
      let sbuf = Buffer.create 1024 in
      let scounter = ref 0 in
      let rec spec_inst depth parent d args (out : Buffer.t) : int =
        if depth > 12 then raise Too_deep;
        let id = !scounter in incr scounter;
        let kids = Buffer.create 256 in
        let aw c a = if big a then raise Overflow else z_of_int (spec_inst (depth + 1) id (int_of_nat c) [int_of_z a; 0; 0] kids) in
        let ((_, o), r) = spec_run aw fuel defs.(d) (mk_locals args) in
        let rs, rv = match r with SNormal -> "-", 0 | SReturn_ v -> string_of_int (int_of_z v), int_of_z v | SFuel -> "fuel", 0 in
        Buffer.add_string out (Printf.sprintf "Q %d %d %d %s out=%s ret=%s\n" id d parent
          (String.concat " " (List.map string_of_int args))
          (String.concat "," (List.map (fun (k, v) -> Printf.sprintf "%d:%d" (int_of_nat k) (int_of_z v)) o)) rs);
        Buffer.add_buffer out kids; rv in
      print_endline "CASE";
      (try
        List.iter (function
          | L (d :: args) -> Buffer.add_string buf (fst (mech_inst 0 (-1) (atom_int d) (List.map atom_int args)))
          | _ -> failwith "root") roots;
        print_string (Buffer.contents buf);
        List.iter (function
          | L (d :: args) -> ignore (spec_inst 0 (-1) (atom_int d) (List.map atom_int args) sbuf)
          | _ -> failwith "root") roots;
        print_string (Buffer.contents sbuf)
      with Too_deep -> print_endline "ERR too-deep"
         | Overflow -> print_endline "ERR overflow");
      print_endline "END"
  | _ -> print_endline "CASE"; print_endline "ERR bad-case"; print_endline "END"

(* ---- await data path *)
let tv_str = function
  | TVInt z -> Printf.sprintf "int %s" (zs z)
  | TVString s -> Printf.sprintf "str %s" (implode s)
  | TVFloat (d, _) -> Printf.sprintf "float %s" (zs d)
  | TVStruct (v, tn) ->
      Printf.sprintf "struct type=%s variant=%s value=%s assoc=%s assoc_str=%s members=%s num=%s" (implode tn)
        (implode v.v_enum_variant) (zs v.v_value) (zs v.v_assoc_int) (implode v.v_assoc_str)
        (String.concat "," (List.map (fun (n, m) -> implode n ^ "=" ^ (match m with MInt z -> zs z | MStr s -> implode s)) v.v_members))
        (zs (as_numeric (TVStruct (v, tn))))

let run_await (sx : sx) =
  let mkv ty isst isen sname etype variant members hasassoc ai astr =
    { v_type = ty; v_value = Z0; v_str = []; v_dbl = Z0; v_is_struct = isst; v_is_enum = isen; v_assigned = false;
      v_struct_name = explode sname; v_enum_type = explode etype; v_enum_variant = explode variant;
      v_members = members; v_has_assoc = hasassoc; v_assoc_int = ai; v_assoc_str = explode astr } in
  let e = match sx with
    | L [A "int"; z] -> Some (ret_int (atom_z z) TInt)
    | L [A "long"; z] -> Some (ret_int (atom_z z) TLong)
    | L [A "bool"; z] -> Some (ret_int (atom_z z) TBool)
    | L [A "enum"; z] -> Some (ret_enum (atom_z z))
    | L [A "str"; A s] -> Some (ret_string (explode s))
    | L [A "str"] -> Some (ret_string [])
    | L (A "struct" :: A name :: fields) ->
        let ms = List.map (function L [A f; z] -> (explode f, MInt (atom_z z)) | _ -> failwith "field") fields in
        Some (ret_struct (mkv TStruct true false name "" "" ms false Z0 ""))
    | L [A "variant"; A etype; A variant; z] ->
        Some (ret_struct (mkv TEnum true true etype etype variant [] true (atom_z z) ""))
    | L [A "none"] -> None
    | _ -> failwith "bad await case" in
  match e with
  | Some e -> print_endline (tv_str (await_extract (store_return e fresh_slot)))
  | None -> print_endline (tv_str (await_extract fresh_slot))

let () =
  let sub = if Array.length Sys.argv > 1 then Sys.argv.(1) else "tasks" in
  try while true do
    let l = input_line stdin in
    if String.trim l <> "" then begin
      match (try Some (parse_sx l) with _ -> None) with
      | None -> print_endline "CASE"; print_endline "ERR parse"; print_endline "END"
      | Some sx ->
          (try if sub = "await" then run_await sx else run_case sx
           with Failure m -> print_endline ("ERR " ^ m); if sub <> "await" then print_endline "END")
    end
  done with End_of_file -> ()
