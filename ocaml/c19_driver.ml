(* Driver for the extracted C19 models (Map / Queue / Vector).  Protocol on stdin, many cases per run:
     CASE
     C <idx> map|que|vec            declare container <idx> (idx = 0,1,2,... in declaration order)
     O <idx> <op> <int args...>     one operation
     END
   Output: for every O line
     <res> <size> <height> <events>
   with <res> = u | i<int> | b0 | b1, <height> = - for queue/vector, <events> = comma separated
   M<block> / F<block> (or -).  At END one line per container, last declared first (destructors run
   in reverse order of declaration):  D <idx> <events>, then "END". *)
open C19_model

let rec nat_of_int n = if n <= 0 then O else S (nat_of_int (n - 1))
let rec int_of_nat = function O -> 0 | S n -> 1 + int_of_nat n
let rec pos_of_i64 (x : int64) : positive =
  if Int64.equal x 1L then XH
  else if Int64.equal (Int64.logand x 1L) 0L then XO (pos_of_i64 (Int64.shift_right_logical x 1))
  else XI (pos_of_i64 (Int64.shift_right_logical x 1))
let z_of_i64 (x : int64) : z =
  if Int64.equal x 0L then Z0 else if Int64.compare x 0L > 0 then Zpos (pos_of_i64 x) else Zneg (pos_of_i64 (Int64.neg x))
let rec i64_of_pos = function
  | XH -> 1L
  | XO p -> Int64.shift_left (i64_of_pos p) 1
  | XI p -> Int64.logor (Int64.shift_left (i64_of_pos p) 1) 1L
let i64_of_z = function Z0 -> 0L | Zpos p -> i64_of_pos p | Zneg p -> Int64.neg (i64_of_pos p)
let zs s = z_of_i64 (Int64.of_string s)
let sz z = Int64.to_string (i64_of_z z)

type cont = CM of map0 | CQ of queue | CV of vector

let show_res = function RUnit -> "u" | RInt z -> "i" ^ sz z | RBool b -> if b then "b1" else "b0"
let show_log l =
  if l = [] then "-" else
  String.concat "," (List.map (function Malloc n -> "M" ^ string_of_int (int_of_nat n) | Free n -> "F" ^ string_of_int (int_of_nat n)) l)

let parse_mop op a =
  match op, a with
  | "insert", [k; v] -> MInsert (zs k, zs v)
  | "get", [k; d] -> MGet (zs k, zs d)
  | "contains", [k] -> MContains (zs k)
  | "remove", [k] -> MRemove (zs k)
  | "try_remove", [k] -> MTryRemove (zs k)
  | "size", [] -> MSize
  | "is_empty", [] -> MIsEmpty
  | "clear", [] -> MClear
  | "height", [] -> MHeight
  | _ -> failwith ("bad map op " ^ op)
let parse_qop op a =
  match op, a with
  | "push", [v] -> QPush (zs v)
  | "pop", [] -> QPop
  | "top", [] -> QTop
  | "empty", [] -> QEmpty
  | "size", [] -> QSize
  | "clear", [] -> QClear
  | "is_empty", [] -> QIsEmpty
  | _ -> failwith ("bad queue op " ^ op)
let parse_vop op a =
  match op, a with
  | "push_back", [v] -> VPushBack (zs v)
  | "push_front", [v] -> VPushFront (zs v)
  | "pop_back", [] -> VPopBack
  | "pop_front", [] -> VPopFront
  | "delete_at", [i] -> VDeleteAt (zs i)
  | "at", [i] -> VAt (zs i)
  | "find", [v] -> VFind (zs v)
  | "sort", [] -> VSort
  | "smaller", [] -> VSmaller
  | "greater", [] -> VGreater
  | "get_length", [] -> VLength
  | "is_empty", [] -> VIsEmpty
  | "clear", [] -> VClear
  | _ -> failwith ("bad vector op " ^ op)

let () =
  let tbl : (int, cont) Hashtbl.t = Hashtbl.create 16 in
  let order = ref [] in
  (try while true do
    let l = input_line stdin in
    match String.split_on_char ' ' (String.trim l) with
    | ["CASE"] -> Hashtbl.reset tbl; order := []
    | ["C"; i; kind] ->
        let i = int_of_string i in
        order := i :: !order;
        Hashtbl.replace tbl i (match kind with
          | "map" -> CM map_init | "que" -> CQ queue_init | "vec" -> CV vector_init
          | _ -> failwith "bad kind")
    | "O" :: i :: op :: args ->
        let i = int_of_string i in
        (match Hashtbl.find tbl i with
         | CM m ->
             let o = parse_mop op args in
             let r = m_res m o and lg = m_log m o in
             let m' = m_step m o in
             Hashtbl.replace tbl i (CM m');
             Printf.printf "%s %s %s %s\n" (show_res r) (sz m'.count) (sz (get_height m'.root)) (show_log lg)
         | CQ q ->
             let o = parse_qop op args in
             let r = q_res q o and lg = q_log q o in
             let q' = q_step q o in
             Hashtbl.replace tbl i (CQ q');
             Printf.printf "%s %s - %s\n" (show_res r) (sz q'.qlength) (show_log lg)
         | CV v ->
             let o = parse_vop op args in
             let r = v_res v o and lg = v_log v o in
             let v' = v_step v o in
             Hashtbl.replace tbl i (CV v');
             Printf.printf "%s %s - %s\n" (show_res r) (sz v'.vlength) (show_log lg))
    | ["END"] ->
        List.iter (fun i ->
          let lg = match Hashtbl.find tbl i with
            | CM m -> m_dtor_log m | CQ q -> q_dtor_log q | CV v -> v_dtor_log v in
          Printf.printf "D %d %s\n" i (show_log lg)) !order;
        print_endline "END"
    | [""] | [] -> ()
    | _ -> failwith ("bad line: " ^ l)
  done with End_of_file -> ())
