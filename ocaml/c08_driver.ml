(* Driver for the C08 models: Ref (coq/Lang), Mech = the implementation's dynamic lookup and call
   protocol (coq/C08/Frames.v; blk=false: one scope per activation) and Mech with lexical blocks (blk=true).
   stdin: one program per line as an S-expression (grammar of ocaml/lang_driver.ml, repeated below);
   argv.(1) = fuel (default 4000). For each program prints:
     ===BEGIN / <Cb source text> / ===REF <class> / <stdout> / ===MECH <class> / <stdout> / ===MECHB <class> / <stdout> / ===END
   class := finished|div0|range|bounds|const|arity|unbound|undef|nofuel
   prog  := (P (gdecl ..) (func ..) (stmt ..))
   gdecl := (G cst ty name (dim ..) (int ..))          cst := 0|1   ty := tiny|short|int|long|char|bool|utiny|ushort|uint|ulong|uchar
   func  := (F name ret (param ..) (stmt ..))          ret := ty | void      param := (name ty) | (name ty expr)
   expr  := INT | (v N) | (un OP e) | (bin OP a b) | (and a b) | (or a b) | (cond c a b) | (call F e ..) | (idx A e ..)
   stmt  := (decl cst sta ty x) | (decl cst sta ty x e) | (arr cst ty x (dim ..) (e ..)) | (asg lv e) | (casg OP lv e)
          | (incdec pre inc lv) | (expr e) | (if c (s ..) (s ..)) | (while c (s ..)) | (for (s ..) c (s ..) (s ..))
          | (break) | (continue) | (ret) | (ret e) | (block s ..) | (print nl e ..)                                  *)
open C08_model

type sx = A of string | L of sx list

let parse_sx (s : string) : sx =
  let n = String.length s in
  let pos = ref 0 in
  let rec skip () = while !pos < n && (s.[!pos] = ' ' || s.[!pos] = '\t') do incr pos done
  and item () =
    skip ();
    if !pos >= n then failwith "eof"
    else if s.[!pos] = '(' then begin
      incr pos;
      let items = ref [] in
      skip ();
      while !pos < n && s.[!pos] <> ')' do items := item () :: !items; skip () done;
      if !pos >= n then failwith "unclosed";
      incr pos; L (List.rev !items)
    end else begin
      let st = !pos in
      while !pos < n && s.[!pos] <> ' ' && s.[!pos] <> '(' && s.[!pos] <> ')' && s.[!pos] <> '\t' do incr pos done;
      A (String.sub s st (!pos - st))
    end in
  item ()

let rec nat_of_int n = if n <= 0 then O else S (nat_of_int (n - 1))
let rec int_of_nat = function O -> 0 | S k -> 1 + int_of_nat k
let zsmall n = Z.of_nat (nat_of_int n)
let z_of_string (s : string) : z =
  let neg = String.length s > 0 && s.[0] = '-' in
  let st = if neg then 1 else 0 in
  let acc = ref Z0 in
  let ten = zsmall 10 in
  for i = st to String.length s - 1 do
    let d = Char.code s.[i] - 48 in
    if d < 0 || d > 9 then failwith ("bad int " ^ s);
    acc := Z.add (Z.mul !acc ten) (zsmall d)
  done;
  if neg then Z.opp !acc else !acc

let explode s = List.init (String.length s) (String.get s)
let implode l = let b = Buffer.create 256 in List.iter (Buffer.add_char b) l; Buffer.contents b

let atom = function A s -> s | L _ -> failwith "atom expected"
let nat_a x = nat_of_int (int_of_string (atom x))
let bool_a x = (atom x) = "1"

let ty_of s =
  let mk b u = { base = b; uns = u } in
  match s with
  | "tiny" -> mk TTiny false | "short" -> mk TShort false | "int" -> mk TInt false | "long" -> mk TLong false
  | "char" -> mk TChar false | "bool" -> mk TBool false
  | "utiny" -> mk TTiny true | "ushort" -> mk TShort true | "uint" -> mk TInt true | "ulong" -> mk TLong true
  | "uchar" -> mk TChar true
  | _ -> failwith ("type " ^ s)

let binop_of = function
  | "+" -> Add | "-" -> Sub | "*" -> Mul | "/" -> Div | "%" -> Mod | "&" -> BAnd | "|" -> BOr | "^" -> BXor
  | "<<" -> Shl | ">>" -> Shr | "<" -> Lt0 | "<=" -> Le | ">" -> Gt0 | ">=" -> Ge | "==" -> Eq0 | "!=" -> Ne
  | s -> failwith ("binop " ^ s)
let unop_of = function "-" -> Neg | "!" -> LNot | "~" -> BNot | s -> failwith ("unop " ^ s)

let rec expr_of = function
  | A s -> ENum (z_of_string s)
  | L [A "v"; n] -> EVar (nat_a n)
  | L [A "un"; o; e] -> EUn (unop_of (atom o), expr_of e)
  | L [A "bin"; o; a; b] -> EBin (binop_of (atom o), expr_of a, expr_of b)
  | L [A "and"; a; b] -> EAnd (expr_of a, expr_of b)
  | L [A "or"; a; b] -> EOr (expr_of a, expr_of b)
  | L [A "cond"; c; a; b] -> ECond (expr_of c, expr_of a, expr_of b)
  | L (A "call" :: f :: args) -> ECall (nat_a f, List.map expr_of args)
  | L (A "idx" :: a :: idx) -> EIdx (nat_a a, List.map expr_of idx)
  | _ -> failwith "expr"
let lval_of = function
  | L [A "v"; n] -> LVar (nat_a n)
  | L (A "idx" :: a :: idx) -> LIdx (nat_a a, List.map expr_of idx)
  | _ -> failwith "lval"
let list_of = function L l -> l | A _ -> failwith "list expected"
let rec stmt_of = function
  | L [A "decl"; c; s; t; x] -> SDecl (bool_a c, bool_a s, ty_of (atom t), nat_a x, None)
  | L [A "decl"; c; s; t; x; e] -> SDecl (bool_a c, bool_a s, ty_of (atom t), nat_a x, Some (expr_of e))
  | L [A "arr"; c; t; x; dims; init] ->
      SArr (bool_a c, ty_of (atom t), nat_a x, List.map nat_a (list_of dims), List.map expr_of (list_of init))
  | L [A "asg"; lv; e] -> SAssign (lval_of lv, None, expr_of e)
  | L [A "casg"; o; lv; e] -> SAssign (lval_of lv, Some (binop_of (atom o)), expr_of e)
  | L [A "incdec"; p; i; lv] -> SIncDec (bool_a p, bool_a i, lval_of lv)
  | L [A "expr"; e] -> SExpr (expr_of e)
  | L [A "if"; c; s1; s2] -> SIf (expr_of c, stmts_of s1, stmts_of s2)
  | L [A "while"; c; b] -> SWhile (expr_of c, stmts_of b)
  | L [A "for"; i; c; u; b] -> SFor (stmts_of i, expr_of c, stmts_of u, stmts_of b)
  | L [A "break"] -> SBreak
  | L [A "continue"] -> SContinue
  | L [A "ret"] -> SReturn None
  | L [A "ret"; e] -> SReturn (Some (expr_of e))
  | L (A "block" :: ss) -> SBlock (List.map stmt_of ss)
  | L (A "print" :: n :: args) -> SPrint (bool_a n, List.map expr_of args)
  | _ -> failwith "stmt"
and stmts_of x = List.map stmt_of (list_of x)

let param_of = function
  | L [n; t] -> { pty = ty_of (atom t); pname = nat_a n; pdef = None }
  | L [n; t; d] -> { pty = ty_of (atom t); pname = nat_a n; pdef = Some (expr_of d) }
  | _ -> failwith "param"
let func_of = function
  | L [A "F"; n; r; ps; body] ->
      { fname = nat_a n; fret = (match atom r with "void" -> None | s -> Some (ty_of s));
        fparams = List.map param_of (list_of ps); fbody = stmts_of body }
  | _ -> failwith "func"
let gdecl_of = function
  | L [A "G"; c; t; n; dims; init] ->
      { gcst = bool_a c; gty = ty_of (atom t); gname = nat_a n; gdims = List.map nat_a (list_of dims);
        ginit = List.map (fun x -> z_of_string (atom x)) (list_of init) }
  | _ -> failwith "gdecl"
let prog_of = function
  | L [A "P"; gs; fs; m] ->
      { pglobals = List.map gdecl_of (list_of gs); pfuncs = List.map func_of (list_of fs); pmain = stmts_of m }
  | _ -> failwith "prog"

let err_s = function
  | EDiv0 -> "div0" | ERange -> "range" | EBounds -> "bounds" | EConst -> "const" | EArity -> "arity"
  | EUnbound -> "unbound" | EUndef -> "undef" | ENoFuel -> "nofuel"


(* ------------------------------------------------------------------------------------------------
   CbCall (coq/C08/Kinds.v): programs whose results / parameters / locals are of every kind.
     prog  := (K (glob ..) (func ..) (stmt ..))            glob := (g NAME INT)
     func  := (F NAME kind via (param ..) (stmt ..))       via := 0 plain | 1 method of S0 (param 0 is the receiver `self`)
                                                                  | 2 called through a function pointer q(..) | 3 through ( *q )(..)
     kind  := long|int|bool|str|dbl|flt|quad|struct|arr|ref|void
     param := (NAME kind) | (NAME kind INT)                (default: payload of a literal)
     expr  := INT | (lit kind INT) | (v N) | (get N) | (bin OP a b) | (call F e ..)
     stmt  := (decl STA kind x e) | (asg x e) | (expr e) | (try x e) | (if c (s ..) (s ..)) | (for i n (s ..))
            | (ret) | (ret e) | (print (kind e) ..)
   Surface forms: string "s<z>", double <z>.5, float <z>.5f, quad <z>.5q, struct S0 { long a; long b; } with a = payload,
   array long[2] with [0] = payload, reference `long&` (bound to a global), method call v<r>.f<n>(..), `try (e)` + match. *)
let kind_of_s = function
  | "long" -> KLong | "int" -> KInt | "bool" -> KBool | "str" -> KStr | "dbl" -> KDbl | "flt" -> KFlt | "quad" -> KQuad
  | "struct" -> KStruct | "arr" -> KArr | "ref" -> KRef | "void" -> KVoid | s -> failwith ("kind " ^ s)
let rec kexpr_of = function
  | A s -> KNum (z_of_string s)
  | L [A "lit"; k; z] -> KLit (kind_of_s (atom k), z_of_string (atom z))
  | L [A "v"; n] -> KVar (nat_a n)
  | L [A "get"; n] -> KGet (nat_a n)
  | L [A "bin"; o; a; b] -> KBin (binop_of (atom o), kexpr_of a, kexpr_of b)
  | L (A "call" :: f :: args) -> KCall (nat_a f, List.map kexpr_of args)
  | _ -> failwith "kexpr"
let rec kstmt_of = function
  | L [A "decl"; s; k; x; e] -> KDecl (bool_a s, kind_of_s (atom k), nat_a x, kexpr_of e)
  | L [A "asg"; x; e] -> KAsg (nat_a x, kexpr_of e)
  | L [A "expr"; e] -> KExpr (kexpr_of e)
  | L [A "try"; x; e] -> KTry (nat_a x, kexpr_of e)
  | L [A "if"; c; s1; s2] -> KIf (kexpr_of c, kstmts_of s1, kstmts_of s2)
  | L [A "for"; i; n; b] -> KFor (nat_a i, kexpr_of n, kstmts_of b)
  | L [A "ret"] -> KRet None
  | L [A "ret"; e] -> KRet (Some (kexpr_of e))
  | L (A "print" :: args) -> KPrint (List.map (function L [k; e] -> (kind_of_s (atom k), kexpr_of e) | _ -> failwith "print arg") args)
  | _ -> failwith "kstmt"
and kstmts_of x = List.map kstmt_of (list_of x)
let kparam_of = function
  | L [n; k] -> { kpk = kind_of_s (atom k); kpn = nat_a n; kpd = None }
  | L [n; k; d] -> { kpk = kind_of_s (atom k); kpn = nat_a n; kpd = Some (z_of_string (atom d)) }
  | _ -> failwith "kparam"
let kfunc_of = function
  | L [A "F"; n; r; m; ps; body] ->
      { kfname = nat_a n; kfret = kind_of_s (atom r); kfvia = nat_a m; kfparams = List.map kparam_of (list_of ps); kfbody = kstmts_of body }
  | _ -> failwith "kfunc"
let kprog_of gs fs m =
  { kpglob = List.map (function L [A "g"; n; z] -> (nat_a n, z_of_string (atom z)) | _ -> failwith "kglob") (list_of gs);
    kpfuncs = List.map kfunc_of (list_of fs); kpmain = kstmts_of m }

(* --- integers out of the extracted Z (payloads are small) --- *)
let rec int_of_pos = function XH -> 1 | XO p -> 2 * int_of_pos p | XI p -> 2 * int_of_pos p + 1
let int_of_z = function Z0 -> 0 | Zpos p -> int_of_pos p | Zneg p -> - (int_of_pos p)
let zs z = string_of_int (int_of_z z)

let ktype = function
  | KLong -> "long" | KInt -> "int" | KBool -> "bool" | KStr -> "string" | KDbl -> "double" | KFlt -> "float" | KQuad -> "quad"
  | KStruct -> "S0" | KArr -> "long[2]" | KRef -> "long&" | KVoid -> "void"
let kvar n = let i = int_of_nat n in if i = 0 then "self" else "v" ^ string_of_int i
let kfn n = "f" ^ string_of_int (int_of_nat n)
let binop_s = function
  | Add -> "+" | Sub -> "-" | Mul -> "*" | Div -> "/" | Mod -> "%" | BAnd -> "&" | BOr -> "|" | BXor -> "^"
  | Shl -> "<<" | Shr -> ">>" | Lt0 -> "<" | Le -> "<=" | Gt0 -> ">" | Ge -> ">=" | Eq0 -> "==" | Ne -> "!="

let is_meth fd = int_of_nat fd.kfvia = 1
let via_ptr fd = int_of_nat fd.kfvia >= 2

let print_kprog (p : kprog) : string =
  let b = Buffer.create 1024 in
  let add = Buffer.add_string b in
  let tryn = ref 0 in
  let fd_of f = List.find_opt (fun fd -> int_of_nat fd.kfname = int_of_nat f) p.kpfuncs in
  (* kinds of the names visible in a body: globals (long), parameters, every declaration / loop counter *)
  let env_of (params : kparam list) (body : kstmt list) =
    let h = Hashtbl.create 16 in
    List.iter (fun (g, _) -> Hashtbl.replace h (int_of_nat g) KLong) p.kpglob;
    List.iter (fun pa -> Hashtbl.replace h (int_of_nat pa.kpn) pa.kpk) params;
    let rec scan = function
      | KDecl (_, k, x, _) -> Hashtbl.replace h (int_of_nat x) k
      | KIf (_, a, c) -> List.iter scan a; List.iter scan c
      | KFor (i, _, body) | KLoop (i, _, body) -> Hashtbl.replace h (int_of_nat i) KLong; List.iter scan body
      | _ -> () in
    List.iter scan body; h in
  let kind_of_var env x = match Hashtbl.find_opt env (int_of_nat x) with Some k -> k | None -> KLong in
  let kind_of env = function
    | KNum _ | KGet _ | KBin _ -> KLong
    | KLit (k, _) -> k
    | KVar x -> kind_of_var env x
    | KCall (f, _) -> (match fd_of f with Some fd -> fd.kfret | None -> KLong) in
  let rec pe env = function
    | KNum z -> let i = int_of_z z in if i < 0 then "( 0 - " ^ string_of_int (- i) ^ " )" else string_of_int i
    | KLit (k, z) ->
        (match k with
         | KStr -> "\"s" ^ zs z ^ "\"" | KDbl -> zs z ^ ".5" | KFlt -> zs z ^ ".5f" | KQuad -> zs z ^ ".5q"
         | KBool -> if int_of_z z <> 0 then "true" else "false"
         | _ -> zs z)
    | KVar x -> kvar x
    | KGet x -> (match kind_of_var env x with KArr -> kvar x ^ "[0]" | _ -> kvar x ^ ".a")
    | KBin (o, a, c) -> "( " ^ pe env a ^ " " ^ binop_s o ^ " " ^ pe env c ^ " )"
    | KCall (f, args) ->
        let via = (match fd_of f with Some fd -> int_of_nat fd.kfvia | None -> 0) in
        let al l = "( " ^ String.concat " , " (List.map (pe env) l) ^ " )" in
        (match via, args with
         | 1, r :: rest -> pe env r ^ "." ^ kfn f ^ al rest
         | 2, _ -> "q" ^ string_of_int (int_of_nat f) ^ al args
         | 3, _ -> "( *q" ^ string_of_int (int_of_nat f) ^ " )" ^ al args
         | _ -> kfn f ^ al args) in
  let rec ps env ind st =
    let line s = add ind; add s; add "\n" in
    let block ss = List.iter (ps env (ind ^ "  ")) ss in
    match st with
    | KDecl (sta, k, x, e) ->
        let pre = (if sta then "static " else "") ^ ktype k ^ " " ^ kvar x in
        (match k, kind_of env e with
         | KStruct, KStruct | KArr, KArr -> line (pre ^ " = " ^ pe env e ^ " ;")
         | KStruct, _ -> line (pre ^ " ;"); line (kvar x ^ ".a = " ^ pe env e ^ " ;"); line (kvar x ^ ".b = 7 ;")
         | KArr, _ -> line (pre ^ " = [ " ^ pe env e ^ " , 7 ] ;")
         | _ -> line (pre ^ " = " ^ pe env e ^ " ;"))
    | KAsg (x, e) ->
        (match kind_of_var env x, kind_of env e with
         | KStruct, KStruct | KArr, KArr -> line (kvar x ^ " = " ^ pe env e ^ " ;")
         | KStruct, _ -> line (kvar x ^ ".a = " ^ pe env e ^ " ;")
         | KArr, _ -> line (kvar x ^ "[0] = " ^ pe env e ^ " ;")
         | _ -> line (kvar x ^ " = " ^ pe env e ^ " ;"))
    | KExpr e -> line (pe env e ^ " ;")
    | KTry (x, e) ->
        incr tryn; let n = string_of_int !tryn in
        line ("Result<long, RuntimeError> t" ^ n ^ " = try ( " ^ pe env e ^ " ) ;");
        line ("match ( t" ^ n ^ " ) { Ok(tv" ^ n ^ ") => { " ^ kvar x ^ " = tv" ^ n ^ " ; } Err(te" ^ n ^ ") => { " ^ kvar x ^ " = 0 - 1 ; } }")
    | KIf (c, s1, s2) ->
        line ("if ( " ^ pe env c ^ " ) {"); block s1;
        (match s2 with [] -> line "}" | _ -> line "} else {"; block s2; line "}")
    | KFor (i, n, body) ->
        line ("for ( long " ^ kvar i ^ " = 0 ; " ^ kvar i ^ " < " ^ pe env n ^ " ; " ^ kvar i ^ " = " ^ kvar i ^ " + 1 ) {"); block body; line "}"
    | KLoop (i, n, body) ->
        line ("for ( ; " ^ kvar i ^ " < " ^ pe env n ^ " ; " ^ kvar i ^ " = " ^ kvar i ^ " + 1 ) {"); block body; line "}"
    | KRet None -> line "return ;"
    | KRet (Some e) -> line ("return " ^ pe env e ^ " ;")
    | KPrint args ->
        let one (k, e) = match k, e with
          | KStruct, KVar _ -> pe env e ^ ".a , " ^ pe env e ^ ".b"
          | KStruct, _ -> pe env e ^ ".a , 7"
          | KArr, _ -> pe env e ^ "[0] , " ^ pe env e ^ "[1]"
          | _ -> pe env e in
        line ("println( " ^ String.concat " , " (List.map one args) ^ " ) ;") in
  let pparam defs pa =
    ktype pa.kpk ^ " " ^ kvar pa.kpn ^
    (match (if defs then pa.kpd else None) with Some z -> " = " ^ pe (Hashtbl.create 1) (match pa.kpk with KLong | KInt -> KNum z | k -> KLit (k, z)) | None -> "") in
  let sig_of ?(defs = true) fd = let ps_ = if is_meth fd then List.tl fd.kfparams else fd.kfparams in
    ktype fd.kfret ^ " " ^ kfn fd.kfname ^ "( " ^ String.concat " , " (List.map (pparam defs) ps_) ^ " )" in
  (* the functions a body calls through a pointer: `long* q<n> = &f<n> ;` at the top of that body *)
  let ptr_targets (body : kstmt list) =
    let acc = ref [] in
    let rec ex = function
      | KBin (_, a, c) -> ex a; ex c
      | KCall (f, args) ->
          (match fd_of f with Some fd when via_ptr fd -> let i = int_of_nat f in if not (List.mem i !acc) then acc := i :: !acc | _ -> ());
          List.iter ex args
      | _ -> () in
    let rec st = function
      | KDecl (_, _, _, e) | KAsg (_, e) | KExpr e | KTry (_, e) -> ex e
      | KIf (c, a, d) -> ex c; List.iter st a; List.iter st d
      | KFor (_, n, body) | KLoop (_, n, body) -> ex n; List.iter st body
      | KRet (Some e) -> ex e
      | KRet None -> ()
      | KPrint args -> List.iter (fun (_, e) -> ex e) args in
    List.iter st body; List.sort compare !acc in
  let pptrs ind body =
    List.iter (fun i -> add ind; add ("long* q" ^ string_of_int i ^ " = &f" ^ string_of_int i ^ " ;\n")) (ptr_targets body) in
  let pfunc ind fd =
    add ind; add (sig_of fd); add " {\n";
    let env = env_of fd.kfparams fd.kfbody in
    pptrs (ind ^ "  ") fd.kfbody;
    List.iter (ps env (ind ^ "  ")) fd.kfbody; add ind; add "}\n" in
  add "struct S0 { long a ; long b ; } ;\n";
  List.iter (fun (g, z) -> add ("long " ^ kvar g ^ " = " ^ zs z ^ " ;\n")) p.kpglob;
  let meths = List.filter is_meth p.kpfuncs in
  if meths <> [] then begin
    add "interface I0 {\n"; List.iter (fun fd -> add ("  " ^ sig_of ~defs:false fd ^ " ;\n")) meths; add "} ;\n";
    add "impl I0 for S0 {\n"; List.iter (pfunc "  ") meths; add "} ;\n"
  end;
  List.iter (fun fd -> if not (is_meth fd) then pfunc "" fd) p.kpfuncs;
  add "void main() {\n";
  pptrs "  " p.kpmain;
  let env = env_of [] p.kpmain in
  List.iter (ps env "  ") p.kpmain; add "}\n";
  Buffer.contents b

let render_k (o : kitem list) : string =
  String.concat "" (List.map (function
    | KOSp -> " " | KONl -> "\n"
    | KOVal (k, z) -> (match k with KStr -> "s" ^ zs z | KDbl | KFlt | KQuad -> zs z ^ ".5" | KArr | KStruct -> zs z ^ " 7" | _ -> zs z)) o)

let () =
  let fuel = nat_of_int (if Array.length Sys.argv > 1 then int_of_string Sys.argv.(1) else 4000) in
  let show tag (out, oc) =
    print_endline ("===" ^ tag ^ " " ^ (match oc with Finished -> "finished" | Failed e -> err_s e));
    print_string (implode (render out));
    print_endline "" in
  try
    while true do
      let line = input_line stdin in
      if String.length line > 0 then begin
        (match parse_sx line with
         | L [A "K"; gs; fs; m] ->
             let p = kprog_of gs fs m in
             let showk tag (out, oc) =
               print_endline ("===" ^ tag ^ " " ^ (match oc with Finished -> "finished" | Failed e -> err_s e));
               print_string (render_k out); print_endline "" in
             print_endline "===BEGIN";
             print_string (print_kprog p);
             showk "REF" (kref_run fuel p);
             showk "MECH" (kmech_run fuel p);
             showk "MECHB" (kmech_run fuel p);
             print_endline "===END"
         | sx ->
        let p = prog_of sx in
        print_endline "===BEGIN";
        print_string (implode (print_program p));
        show "REF" (run fuel p);
        show "MECH" (mech_run false fuel p);
        show "MECHB" (mech_run true fuel p);
        print_endline "===END")
      end
    done
  with End_of_file -> ()
