(* Driver for the C03 model: the shared reference interpreter (Ref, coq/Lang) and the Mech evaluator
   of coq/C03/EvalOrder.v (the implementation's evaluation order behind five switches) on the same programs.
   stdin: one program per line as an S-expression (grammar of ocaml/lang_driver.ml, repeated below);
   argv.(1) = fuel (default 4000).
   For each program prints:
     ===BEGIN / <Cb source text>
     ===REF <outcome> / <stdout> / ===MECH <outcome> / <stdout>          (dev_pinned: the switches of today's implementation)
     ===ONLY <switch> <outcome> / <stdout>    for each single switch whose transcript differs from Ref's
     ===END
   outcome := finished|div0|range|bounds|const|arity|unbound|undef|nofuel
   switch  := noshort|rtl|twice|elemcall|retry
   prog  := (P (gdecl ..) (func ..) (stmt ..))
   gdecl := (G cst ty name (dim ..) (int ..))          cst := 0|1   ty := tiny|short|int|long|char|bool|utiny|ushort|uint|ulong|uchar
   func  := (F name ret (param ..) (stmt ..))          ret := ty | void      param := (name ty) | (name ty expr)
   expr  := INT | (v N) | (un OP e) | (bin OP a b) | (and a b) | (or a b) | (cond c a b) | (call F e ..) | (idx A e ..)
   stmt  := (decl cst sta ty x) | (decl cst sta ty x e) | (arr cst ty x (dim ..) (e ..)) | (asg lv e) | (casg OP lv e)
          | (incdec pre inc lv) | (expr e) | (if c (s ..) (s ..)) | (while c (s ..)) | (for (s ..) c (s ..) (s ..))
          | (break) | (continue) | (ret) | (ret e) | (block s ..) | (print nl e ..)                                  *)
open C03_model
type sx = A of string | L of sx list

let parse_sx (s : string) : sx =
  let n = String.length s in
  let pos = ref 0 in
  let rec skip () = while !pos < n && (s.[!pos] = ' ' || s.[!pos] = '\t') do incr pos done
  and item () =
    skip ();
    if !pos >= n then failwith "eof"
    else if s.[!pos] = '(' then begin
      incr pos;
      let items = ref [] in
      skip ();
      while !pos < n && s.[!pos] <> ')' do items := item () :: !items; skip () done;
      if !pos >= n then failwith "unclosed";
      incr pos; L (List.rev !items)
    end else begin
      let st = !pos in
      while !pos < n && s.[!pos] <> ' ' && s.[!pos] <> '(' && s.[!pos] <> ')' && s.[!pos] <> '\t' do incr pos done;
      A (String.sub s st (!pos - st))
    end in
  item ()

let rec nat_of_int n = if n <= 0 then O else S (nat_of_int (n - 1))
let rec int_of_nat = function O -> 0 | S k -> 1 + int_of_nat k
let zsmall n = Z.of_nat (nat_of_int n)
let z_of_string (s : string) : z =
  let neg = String.length s > 0 && s.[0] = '-' in
  let st = if neg then 1 else 0 in
  let acc = ref Z0 in
  let ten = zsmall 10 in
  for i = st to String.length s - 1 do
    let d = Char.code s.[i] - 48 in
    if d < 0 || d > 9 then failwith ("bad int " ^ s);
    acc := Z.add (Z.mul !acc ten) (zsmall d)
  done;
  if neg then Z.opp !acc else !acc

let explode s = List.init (String.length s) (String.get s)
let implode l = let b = Buffer.create 256 in List.iter (Buffer.add_char b) l; Buffer.contents b

let atom = function A s -> s | L _ -> failwith "atom expected"
let nat_a x = nat_of_int (int_of_string (atom x))
let bool_a x = (atom x) = "1"

let ty_of s =
  let mk b u = { base = b; uns = u } in
  match s with
  | "tiny" -> mk TTiny false | "short" -> mk TShort false | "int" -> mk TInt false | "long" -> mk TLong false
  | "char" -> mk TChar false | "bool" -> mk TBool false
  | "utiny" -> mk TTiny true | "ushort" -> mk TShort true | "uint" -> mk TInt true | "ulong" -> mk TLong true
  | "uchar" -> mk TChar true
  | _ -> failwith ("type " ^ s)

let binop_of = function
  | "+" -> Add | "-" -> Sub | "*" -> Mul | "/" -> Div | "%" -> Mod | "&" -> BAnd | "|" -> BOr | "^" -> BXor
  | "<<" -> Shl | ">>" -> Shr | "<" -> Lt0 | "<=" -> Le | ">" -> Gt0 | ">=" -> Ge | "==" -> Eq0 | "!=" -> Ne
  | s -> failwith ("binop " ^ s)
let unop_of = function "-" -> Neg | "!" -> LNot | "~" -> BNot | s -> failwith ("unop " ^ s)

let rec expr_of = function
  | A s -> ENum (z_of_string s)
  | L [A "v"; n] -> EVar (nat_a n)
  | L [A "un"; o; e] -> EUn (unop_of (atom o), expr_of e)
  | L [A "bin"; o; a; b] -> EBin (binop_of (atom o), expr_of a, expr_of b)
  | L [A "and"; a; b] -> EAnd (expr_of a, expr_of b)
  | L [A "or"; a; b] -> EOr (expr_of a, expr_of b)
  | L [A "cond"; c; a; b] -> ECond (expr_of c, expr_of a, expr_of b)
  | L (A "call" :: f :: args) -> ECall (nat_a f, List.map expr_of args)
  | L (A "idx" :: a :: idx) -> EIdx (nat_a a, List.map expr_of idx)
  | _ -> failwith "expr"
let lval_of = function
  | L [A "v"; n] -> LVar (nat_a n)
  | L (A "idx" :: a :: idx) -> LIdx (nat_a a, List.map expr_of idx)
  | _ -> failwith "lval"
let list_of = function L l -> l | A _ -> failwith "list expected"
let rec stmt_of = function
  | L [A "decl"; c; s; t; x] -> SDecl (bool_a c, bool_a s, ty_of (atom t), nat_a x, None)
  | L [A "decl"; c; s; t; x; e] -> SDecl (bool_a c, bool_a s, ty_of (atom t), nat_a x, Some (expr_of e))
  | L [A "arr"; c; t; x; dims; init] ->
      SArr (bool_a c, ty_of (atom t), nat_a x, List.map nat_a (list_of dims), List.map expr_of (list_of init))
  | L [A "asg"; lv; e] -> SAssign (lval_of lv, None, expr_of e)
  | L [A "casg"; o; lv; e] -> SAssign (lval_of lv, Some (binop_of (atom o)), expr_of e)
  | L [A "incdec"; p; i; lv] -> SIncDec (bool_a p, bool_a i, lval_of lv)
  | L [A "expr"; e] -> SExpr (expr_of e)
  | L [A "if"; c; s1; s2] -> SIf (expr_of c, stmts_of s1, stmts_of s2)
  | L [A "while"; c; b] -> SWhile (expr_of c, stmts_of b)
  | L [A "for"; i; c; u; b] -> SFor (stmts_of i, expr_of c, stmts_of u, stmts_of b)
  | L [A "break"] -> SBreak
  | L [A "continue"] -> SContinue
  | L [A "ret"] -> SReturn None
  | L [A "ret"; e] -> SReturn (Some (expr_of e))
  | L (A "block" :: ss) -> SBlock (List.map stmt_of ss)
  | L (A "print" :: n :: args) -> SPrint (bool_a n, List.map expr_of args)
  | _ -> failwith "stmt"
and stmts_of x = List.map stmt_of (list_of x)

let param_of = function
  | L [n; t] -> { pty = ty_of (atom t); pname = nat_a n; pdef = None }
  | L [n; t; d] -> { pty = ty_of (atom t); pname = nat_a n; pdef = Some (expr_of d) }
  | _ -> failwith "param"
let func_of = function
  | L [A "F"; n; r; ps; body] ->
      { fname = nat_a n; fret = (match atom r with "void" -> None | s -> Some (ty_of s));
        fparams = List.map param_of (list_of ps); fbody = stmts_of body }
  | _ -> failwith "func"
let gdecl_of = function
  | L [A "G"; c; t; n; dims; init] ->
      { gcst = bool_a c; gty = ty_of (atom t); gname = nat_a n; gdims = List.map nat_a (list_of dims);
        ginit = List.map (fun x -> z_of_string (atom x)) (list_of init) }
  | _ -> failwith "gdecl"
let prog_of = function
  | L [A "P"; gs; fs; m] ->
      { pglobals = List.map gdecl_of (list_of gs); pfuncs = List.map func_of (list_of fs); pmain = stmts_of m }
  | _ -> failwith "prog"

let err_s = function
  | EDiv0 -> "div0" | ERange -> "range" | EBounds -> "bounds" | EConst -> "const" | EArity -> "arity"
  | EUnbound -> "unbound" | EUndef -> "undef" | ENoFuel -> "nofuel"

let outcome_s = function Finished -> "finished" | Failed e -> err_s e

let dev_of (names : string list) =
  List.fold_left (fun d n ->
    match n with
    | "noshort" -> { d with d_noshort = true }
    | "rtl" -> { d with d_rtl = true }
    | "twice" -> { d with d_twice = true }
    | "elemcall" -> { d with d_elemcall = true }
    | "retry" -> { d with d_retry = true }
    | _ -> d) dev_none names

let switches = ["noshort"; "rtl"; "twice"; "elemcall"; "retry"]
let rec subsets = function
  | [] -> [[]]
  | x :: r -> let s = subsets r in s @ List.map (fun l -> x :: l) s

(* argv.(2) = "subsets": instead of REF/MECH/ONLY print the transcript of every one of the 32 switch
   combinations as  ===DEV <a+b+..|none> <outcome> / <stdout>  (used to name a partial repair) *)
let () =
  let fuel = nat_of_int (if Array.length Sys.argv > 1 then int_of_string Sys.argv.(1) else 4000) in
  let all = Array.length Sys.argv > 2 && Sys.argv.(2) = "subsets" in
  try
    while true do
      let line = input_line stdin in
      if String.length line > 0 then begin
        let p = prog_of (parse_sx line) in
        print_endline "===BEGIN";
        print_string (implode (print_program p));
        if all then
          List.iter (fun names ->
            let (o1, c1) = irun (dev_of names) fuel p in
            print_endline ("===DEV " ^ (if names = [] then "none" else String.concat "+" names) ^ " " ^ outcome_s c1);
            print_string (implode (render o1)); print_endline "") (subsets switches)
        else begin
          let (out, oc) = run fuel p in
          let rtxt = implode (render out) in
          print_endline ("===REF " ^ outcome_s oc);
          print_string rtxt; print_endline "";
          let (mo, moc) = irun dev_pinned fuel p in
          print_endline ("===MECH " ^ outcome_s moc);
          print_string (implode (render mo)); print_endline "";
          List.iter (fun name ->
            let (o1, c1) = irun (dev_of [name]) fuel p in
            let t1 = implode (render o1) in
            if t1 <> rtxt || c1 <> oc then begin
              print_endline ("===ONLY " ^ name ^ " " ^ outcome_s c1);
              print_string t1; print_endline ""
            end) switches
        end;
        print_endline "===END"
      end
    done
  with End_of_file -> ()
