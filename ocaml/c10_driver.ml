(* Driver for the extracted C10 models (coq/C10/Lexer.v, ExprParse.v, Model.v + coq/C17/Model.v).
   One case per stdin line; byte strings are hex-encoded.

   c10_model lex       line: <hex source>
                       out : "T <TOK_NAME> <hex value>" per token of lex_all, "S <activations>", "END"
   c10_model verdict   line: <hex text of E>     (the program is  void main() { println(E); } )
                       out : ACCEPT | REJECT | MORE | UNMODELLED | FUEL
   c10_model preproc   line: <hex file> [<hex define_str> ...]   (define_str = what follows -D)
                       out : "E <number of preprocessor errors>"  or  "EMPTYNAME" when a -D gives an
                             empty macro name (finding C10-empty-macro-name; the model excludes it)
   c10_model scan      line: <hex text of E>     out: "<tokens> <scan_total_b> <scan_total>"  (look-ahead cost of the
                       bounded loop as coded since 98a0163, and of the same loop without the bound)
   c10_model typedefs  line: <decl> <decl> ... | <name>,<name>,...
                       decl = ts:TAG:ALIAS (typedef struct TAG {..} ALIAS;)  ta:ALIAS (typedef struct {..} ALIAS;)  te:ALIAS (typedef enum)
                              tp:TY:ALIAS (typedef int[2] ALIAS;)  tl:BASE:ALIAS (typedef BASE ALIAS;)  tq:ALIAS:PRIM (typedef ALIAS = int;)
                              tu:ALIAS (typedef ALIAS = int | string;)  st:N (struct)  en:N (enum)  fp:N (function pointer typedef)
                              if:N (interface)  gv:TY (TY gv;)
                       out : "ERR -|UT:<name>|UK:<name>", "MAP k=<hex v>;..." (sorted), "SD ..", "ED ..", "UD ..", "ID .." (sorted key
                             sets), "R <name> <hex of resolveTypedefChain(name) or ->" per query name, "END"
                             (Typedefs.td_run / Typedefs.resolved - the same lines harness/cpp/c10_typedefs.cpp prints for the code) *)
open C10_model

let explode s = List.init (String.length s) (String.get s)
let implode l = let b = Buffer.create 64 in List.iter (Buffer.add_char b) l; Buffer.contents b
let rec int_of_nat = function O -> 0 | S n -> 1 + int_of_nat n
let hexval c = if c <= '9' then Char.code c - 48 else (Char.code c lor 32) - 87
let unhex s =
  let n = String.length s / 2 in
  List.init n (fun i -> Char.chr (hexval s.[2 * i] * 16 + hexval s.[2 * i + 1]))
let hex l = let b = Buffer.create 64 in List.iter (fun c -> Buffer.add_string b (Printf.sprintf "%02x" (Char.code c))) l; Buffer.contents b

(* std::getline on the whole file *)
let split_lines (cs : char list) : char list list =
  let rec go cur acc = function
    | [] -> List.rev (if cur = [] then acc else List.rev cur :: acc)
    | '\n' :: r -> go [] (List.rev cur :: acc) r
    | c :: r -> go (c :: cur) acc r in
  go [] [] cs

let words l = List.filter (fun x -> x <> "") (String.split_on_char ' ' l)

let () =
  let sub = if Array.length Sys.argv > 1 then Sys.argv.(1) else "lex" in
  try
    while true do
      let l = input_line stdin in
      (match sub with
       | "lex" ->
           let src = unhex (String.trim l) in
           List.iter (fun t -> Printf.printf "T %s %s\n" (implode t.tname) (hex t.tval)) (lex_all src);
           Printf.printf "S %d\n" (int_of_nat (lex_steps (S (Stdlib.List.fold_left (fun n _ -> S n) O src)) src));
           print_endline "END"
       | "verdict" ->
           let src = unhex (String.trim l) in
           print_endline (match expr_verdict src with
               | VAccept -> "ACCEPT" | VReject -> "REJECT" | VMoreArgs -> "MORE"
               | VUnmodelled -> "UNMODELLED" | VFuel -> "FUEL")
       | "scan" ->
           let src = unhex (String.trim l) in
           let ts = expr_tokens src in
           Printf.printf "%d %d %d\n" (List.length ts) (int_of_nat (scan_total_b ts)) (int_of_nat (scan_total ts))
       | "preproc" ->
           (match words l with
            | [] -> print_endline "E 0"
            | f :: ds ->
                let file = if f = "-" then [] else unhex f in
                let defs = List.map (fun d -> dash_d (unhex d)) ds in
                if List.exists (fun (n, _) -> n = []) defs then print_endline "EMPTYNAME"
                else begin
                  let t = List.fold_left (fun t (n, v) -> define t n v) [] defs in
                  let c = process t (explode "in.cb") (split_lines file) in
                  Printf.printf "E %d\n" (int_of_nat c.nerr)
                end)
       | "typedefs" ->
           let parts = String.split_on_char '|' l in
           let ds = words (List.hd parts) in
           let qs = match parts with _ :: q :: _ -> List.filter (fun x -> x <> "") (String.split_on_char ',' (String.trim q)) | _ -> [] in
           let e = explode in
           let decl_of w = match String.split_on_char ':' w with
             | ["ts"; a; b] -> DTStruct (e a, e b) | ["ta"; a] -> DTAnon (e a) | ["te"; a] -> DTEnum (e a)
             | ["tp"; a; b] -> DTPrim (e a, e b) | ["tl"; a; b] -> DTAlias (e a, e b) | ["tq"; a; b] -> DTEq (e a, e b)
             | ["tu"; a] -> DTUnion (e a) | ["st"; a] -> DStruct (e a) | ["en"; a] -> DEnum (e a) | ["fp"; a] -> DFuncPtr (e a)
             | ["if"; a] -> DIface (e a) | ["gv"; a] -> DGlobal (e a)
             | _ -> failwith ("bad decl " ^ w) in
           let (t, err) = td_run empty_tables (List.map decl_of ds) in
           print_endline ("ERR " ^ (match err with None -> "-" | Some (EUnknownTypedef n) -> "UT:" ^ implode n
                                                   | Some (EUnknownType n) -> "UK:" ^ implode n));
           let hx v = if v = [] then "-" else hex v in
           let m = List.sort compare (List.map (fun (k, v) -> (implode k, v)) t.tm) in
           print_endline ("MAP " ^ String.concat ";" (List.map (fun (k, v) -> k ^ "=" ^ hx v) m));
           let ks tag l = print_endline (tag ^ " " ^ String.concat "," (List.sort compare (List.map implode l))) in
           ks "SD" t.sdefs; ks "ED" t.edefs; ks "UD" t.udefs; ks "ID" t.idefs;
           List.iter (fun q -> Printf.printf "R %s %s\n" q (hx (resolved t (e q)))) qs;
           print_endline "END"
       | "structs" ->
           (* line: sf:N (struct N;)  sd:N:T0.v,T1.p,T2.a (struct N { T0 m0; T1* m1; T2[2] m2; };)  [| X>Y,X>Y,..]
              out: "ERR -|SR|CR", "SD keys", per query X>Y (one cycle check detectCircularReference(X, Y, {}, ..) on the final table)
              "DC X>Y <answer 0|1> <visited set on return, sorted> <activations>", "END" *)
           let e = explode in
           let mem_of w = match String.split_on_char '.' w with
             | [t; "v"] -> (e t, MValue) | [t; "p"] -> (e t, MPtr) | [t; "a"] -> (e t, MArr) | _ -> failwith ("bad member " ^ w) in
           let decl_of w = match String.split_on_char ':' w with
             | ["sf"; n] -> SFwd (e n)
             | ["sd"; n; ms] -> SDef (e n, List.map mem_of (List.filter (fun x -> x <> "") (String.split_on_char ',' ms)))
             | ["sd"; n] -> SDef (e n, [])
             | _ -> failwith ("bad sdecl " ^ w) in
           let parts = String.split_on_char '|' l in
           let qs = match parts with _ :: q :: _ -> List.filter (fun x -> x <> "") (String.split_on_char ',' (String.trim q)) | _ -> [] in
           let (g, err) = sg_run [] (List.map decl_of (words (List.hd parts))) in
           print_endline ("ERR " ^ (match err with None -> "-" | Some (ESelfRec _) -> "SR" | Some (ECircular _) -> "CR"));
           print_endline ("SD " ^ String.concat "," (List.sort compare (List.map (fun (k, _) -> implode k) g)));
           List.iter (fun q -> match String.split_on_char '>' q with
             | [x; y] ->
                 let (ans, vis) = check_query g (e x) (e y) in
                 Printf.printf "DC %s %d %s %d\n" q (if ans then 1 else 0)
                   (let v = List.sort compare (List.map implode vis) in if v = [] then "-" else String.concat "," v)
                   (int_of_nat (detect_calls g (e x) (e y)))
             | _ -> failwith ("bad query " ^ q)) qs;
           print_endline "END"
       | _ -> print_endline "?");
      flush stdout
    done
  with End_of_file -> ()
