(* Driver for the extracted C05 model. One case per line on stdin, one result line per case.
     flat <dims> | <idxs>                      -> "<k>" | "ERR"      all_to_int idxs >>= calc_flat dims
     res <N|M> <R|W> <dims> | <idxs>           -> "OK <k>" | "ERR bounds" | "ERR other"
     ptr <base> <n> <e> <+|-> <k>              -> "<e'>" | "ERR"
     run <plain|checked> <N|M> <dims> <base> | <cells> | <op>;<op>;...
                                               -> "<res>;<res>;...|<cells>|<ptr or ->"
   lists are comma separated decimal integers (arbitrary size); ops:
     R i,j   W i,j=v   A i,j   P+ k   P- k   P++   P--   PR k   PW k=v   D   DW v   DA k
   results: V <n> | U | E bounds | E other *)
open C05_model

let zsmall n =                                  (* 0 <= n, small *)
  let rec pos n = if n = 1 then XH else if n land 1 = 0 then XO (pos (n lsr 1)) else XI (pos (n lsr 1)) in
  if n = 0 then Z0 else Zpos (pos n)
let ten = zsmall 10
let z_of_string s =
  let s = String.trim s in
  let neg = String.length s > 0 && s.[0] = '-' in
  let acc = ref Z0 in
  String.iteri (fun i c -> if not (i = 0 && (c = '-' || c = '+')) then
    acc := Z.add (Z.mul !acc ten) (zsmall (Char.code c - 48))) s;
  if neg then Z.opp !acc else !acc
let rec int_of_pos = function XH -> 1 | XO p -> 2 * int_of_pos p | XI p -> 2 * int_of_pos p + 1
let int_of_z_small = function Z0 -> 0 | Zpos p -> int_of_pos p | Zneg p -> - (int_of_pos p)
let string_of_z z =
  let rec go z acc = if Z.eqb z Z0 then acc
    else go (Z.div z ten) (string_of_int (int_of_z_small (Z.modulo z ten)) ^ acc) in
  match z with
  | Z0 -> "0"
  | Zpos _ -> go z ""
  | Zneg _ -> "-" ^ go (Z.opp z) ""

let split_on c s = List.map String.trim (String.split_on_char c s)
let zlist s = let s = String.trim s in if s = "" then [] else List.map z_of_string (split_on ',' s)
let str_zlist l = String.concat "," (List.map string_of_z l)
let kind = function "N" -> ANamed | "M" -> AMember | k -> failwith ("kind " ^ k)
let mode = function "R" -> Rd | "W" -> Wr | m -> failwith ("mode " ^ m)
let ecls = function EBounds -> "bounds" | EOther -> "other"
let str_res = function RVal v -> "V " ^ string_of_z v | RUnit -> "U" | RErr e -> "E " ^ ecls e

let eqsplit s = match String.index_opt s '=' with
  | Some i -> (String.sub s 0 i, String.sub s (i + 1) (String.length s - i - 1))
  | None -> failwith ("missing = in " ^ s)

let parse_op s =
  let s = String.trim s in
  let arg n = String.sub s n (String.length s - n) in
  if s = "P++" then OPtrInc else if s = "P--" then OPtrDec
  else if s = "D" then ODeref
  else if String.length s >= 3 && String.sub s 0 3 = "PR " then OPtrRead (z_of_string (arg 3))
  else if String.length s >= 3 && String.sub s 0 3 = "PW " then
    (let (k, v) = eqsplit (arg 3) in OPtrWrite (z_of_string k, z_of_string v))
  else if String.length s >= 3 && String.sub s 0 3 = "P+ " then OPtrAdd (z_of_string (arg 3))
  else if String.length s >= 3 && String.sub s 0 3 = "P- " then OPtrSub (z_of_string (arg 3))
  else if String.length s >= 3 && String.sub s 0 3 = "DW " then ODerefWrite (z_of_string (arg 3))
  else if String.length s >= 3 && String.sub s 0 3 = "DA " then ODerefAdd (z_of_string (arg 3))
  else if String.length s >= 2 && String.sub s 0 2 = "R " then ORead (zlist (arg 2))
  else if String.length s >= 2 && String.sub s 0 2 = "A " then OAddr (zlist (arg 2))
  else if String.length s >= 2 && String.sub s 0 2 = "W " then
    (let (i, v) = eqsplit (arg 2) in OWrite (zlist i, z_of_string v))
  else failwith ("op " ^ s)

let words s = List.filter (fun w -> w <> "") (String.split_on_char ' ' (String.trim s))

let handle line =
  match String.index_opt line ' ' with
  | None -> "?"
  | Some i ->
    let cmd = String.sub line 0 i and rest = String.sub line (i + 1) (String.length line - i - 1) in
    let parts = String.split_on_char '|' rest in
    (match cmd, parts with
     | "flat", [d; ix] ->
         (match all_to_int (zlist ix) with
          | None -> "ERR"
          | Some l -> (match calc_flat (zlist d) l with Some k -> string_of_z k | None -> "ERR"))
     | "res", [h; ix] ->
         (match words h with
          | [k; m; d] ->
              let dims = zlist d in
              (match resolve (kind k) (mode m) dims (size dims) (zlist ix) with
               | Inl f -> "OK " ^ string_of_z f
               | Inr e -> "ERR " ^ ecls e)
          | _ -> "?")
     | "ptr", [h] ->
         (match words h with
          | [b; n; e; sg; k] ->
              (match ptr_arith (z_of_string b) (z_of_string n) (z_of_string e) (sg = "+") (z_of_string k) with
               | Some e' -> string_of_z e' | None -> "ERR")
          | _ -> "?")
     | "run", [h; cs; ops] ->
         (match words h with
          | [md; k; d; b] ->
              let dims = zlist d in
              let ops = if String.trim ops = "" then [] else List.map parse_op (String.split_on_char ';' ops) in
              let s0 = { cells = zlist cs; ptr = None } in
              let (rs, s1) = (if md = "checked" then run_checked else run_plain) (kind k) dims (z_of_string b) ops s0 in
              String.concat ";" (List.map str_res rs) ^ "|" ^ str_zlist s1.cells ^ "|" ^
              (match s1.ptr with Some e -> string_of_z e | None -> "-")
          | _ -> "?")
     | _ -> "?")

let () =
  try while true do
    let l = input_line stdin in
    print_endline (try handle l with Failure m -> "FAIL " ^ m)
  done with End_of_file -> ()
