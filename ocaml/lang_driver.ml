(* Driver for the extracted CbCore reference interpreter (coq/Lang).
   stdin: one program per line as an S-expression (grammar below); argv.(1) = fuel (default 20000).
   For each program prints:
     ===BEGIN / <Cb source text> / ===EXPECT <finished|div0|range|bounds|const|arity|unbound|undef|nofuel>
     <expected stdout> / ===END
   prog  := (P (gdecl ..) (func ..) (stmt ..))
   gdecl := (G cst ty name (dim ..) (int ..))          cst := 0|1   ty := tiny|short|int|long|char|bool|utiny|ushort|uint|ulong|uchar
   func  := (F name ret (param ..) (stmt ..))          ret := ty | void      param := (name ty) | (name ty expr)
   expr  := INT | (v N) | (un OP e) | (bin OP a b) | (and a b) | (or a b) | (cond c a b) | (call F e ..) | (idx A e ..)
   stmt  := (decl cst sta ty x) | (decl cst sta ty x e) | (arr cst ty x (dim ..) (e ..)) | (asg lv e) | (casg OP lv e)
          | (incdec pre inc lv) | (expr e) | (if c (s ..) (s ..)) | (while c (s ..)) | (for (s ..) c (s ..) (s ..))
          | (break) | (continue) | (ret) | (ret e) | (block s ..) | (print nl e ..)
          | (struct SN x fld ..) | (copy x y fld ..)      fld := ty | (ty dim ..)
   member j of struct variable x is the cell 1000 + 8*x + j: read (v CELL) / (idx CELL e ..), same as lvalues  *)
open Lang_model

type sx = A of string | L of sx list

let parse_sx (s : string) : sx =
  let n = String.length s in
  let pos = ref 0 in
  let rec skip () = while !pos < n && (s.[!pos] = ' ' || s.[!pos] = '\t') do incr pos done
  and item () =
    skip ();
    if !pos >= n then failwith "eof"
    else if s.[!pos] = '(' then begin
      incr pos;
      let items = ref [] in
      skip ();
      while !pos < n && s.[!pos] <> ')' do items := item () :: !items; skip () done;
      if !pos >= n then failwith "unclosed";
      incr pos; L (List.rev !items)
    end else begin
      let st = !pos in
      while !pos < n && s.[!pos] <> ' ' && s.[!pos] <> '(' && s.[!pos] <> ')' && s.[!pos] <> '\t' do incr pos done;
      A (String.sub s st (!pos - st))
    end in
  item ()

let rec nat_of_int n = if n <= 0 then O else S (nat_of_int (n - 1))
let rec int_of_nat = function O -> 0 | S k -> 1 + int_of_nat k
let zsmall n = Z.of_nat (nat_of_int n)
let z_of_string (s : string) : z =
  let neg = String.length s > 0 && s.[0] = '-' in
  let st = if neg then 1 else 0 in
  let acc = ref Z0 in
  let ten = zsmall 10 in
  for i = st to String.length s - 1 do
    let d = Char.code s.[i] - 48 in
    if d < 0 || d > 9 then failwith ("bad int " ^ s);
    acc := Z.add (Z.mul !acc ten) (zsmall d)
  done;
  if neg then Z.opp !acc else !acc

let explode s = List.init (String.length s) (String.get s)
let implode l = let b = Buffer.create 256 in List.iter (Buffer.add_char b) l; Buffer.contents b

let atom = function A s -> s | L _ -> failwith "atom expected"
let nat_a x = nat_of_int (int_of_string (atom x))
let bool_a x = (atom x) = "1"

let ty_of s =
  let mk b u = { base = b; uns = u } in
  match s with
  | "tiny" -> mk TTiny false | "short" -> mk TShort false | "int" -> mk TInt false | "long" -> mk TLong false
  | "char" -> mk TChar false | "bool" -> mk TBool false
  | "utiny" -> mk TTiny true | "ushort" -> mk TShort true | "uint" -> mk TInt true | "ulong" -> mk TLong true
  | "uchar" -> mk TChar true
  | _ -> failwith ("type " ^ s)

let binop_of = function
  | "+" -> Add | "-" -> Sub | "*" -> Mul | "/" -> Div | "%" -> Mod | "&" -> BAnd | "|" -> BOr | "^" -> BXor
  | "<<" -> Shl | ">>" -> Shr | "<" -> Lt0 | "<=" -> Le | ">" -> Gt0 | ">=" -> Ge | "==" -> Eq0 | "!=" -> Ne
  | s -> failwith ("binop " ^ s)
let unop_of = function "-" -> Neg | "!" -> LNot | "~" -> BNot | s -> failwith ("unop " ^ s)

let rec expr_of = function
  | A s -> ENum (z_of_string s)
  | L [A "v"; n] -> EVar (nat_a n)
  | L [A "un"; o; e] -> EUn (unop_of (atom o), expr_of e)
  | L [A "bin"; o; a; b] -> EBin (binop_of (atom o), expr_of a, expr_of b)
  | L [A "and"; a; b] -> EAnd (expr_of a, expr_of b)
  | L [A "or"; a; b] -> EOr (expr_of a, expr_of b)
  | L [A "cond"; c; a; b] -> ECond (expr_of c, expr_of a, expr_of b)
  | L (A "call" :: f :: args) -> ECall (nat_a f, List.map expr_of args)
  | L (A "idx" :: a :: idx) -> EIdx (nat_a a, List.map expr_of idx)
  | _ -> failwith "expr"
let lval_of = function
  | L [A "v"; n] -> LVar (nat_a n)
  | L (A "idx" :: a :: idx) -> LIdx (nat_a a, List.map expr_of idx)
  | _ -> failwith "lval"
let list_of = function L l -> l | A _ -> failwith "list expected"
let fld_of = function
  | A t -> { fty = ty_of t; fdims = [] }
  | L (A t :: dims) -> { fty = ty_of t; fdims = List.map nat_a dims }
  | _ -> failwith "fld"
let rec stmt_of = function
  | L [A "decl"; c; s; t; x] -> SDecl (bool_a c, bool_a s, ty_of (atom t), nat_a x, None)
  | L [A "decl"; c; s; t; x; e] -> SDecl (bool_a c, bool_a s, ty_of (atom t), nat_a x, Some (expr_of e))
  | L [A "arr"; c; t; x; dims; init] ->
      SArr (bool_a c, ty_of (atom t), nat_a x, List.map nat_a (list_of dims), List.map expr_of (list_of init))
  | L [A "asg"; lv; e] -> SAssign (lval_of lv, None, expr_of e)
  | L [A "casg"; o; lv; e] -> SAssign (lval_of lv, Some (binop_of (atom o)), expr_of e)
  | L [A "incdec"; p; i; lv] -> SIncDec (bool_a p, bool_a i, lval_of lv)
  | L [A "expr"; e] -> SExpr (expr_of e)
  | L [A "if"; c; s1; s2] -> SIf (expr_of c, stmts_of s1, stmts_of s2)
  | L [A "while"; c; b] -> SWhile (expr_of c, stmts_of b)
  | L [A "for"; i; c; u; b] -> SFor (stmts_of i, expr_of c, stmts_of u, stmts_of b)
  | L [A "break"] -> SBreak
  | L [A "continue"] -> SContinue
  | L [A "ret"] -> SReturn None
  | L [A "ret"; e] -> SReturn (Some (expr_of e))
  | L (A "block" :: ss) -> SBlock (List.map stmt_of ss)
  | L (A "print" :: n :: args) -> SPrint (bool_a n, List.map expr_of args)
  | L (A "struct" :: sn :: x :: flds) -> SStruct (nat_a sn, nat_a x, List.map fld_of flds)
  | L (A "copy" :: x :: y :: flds) -> SCopy (nat_a x, nat_a y, List.map fld_of flds)
  | _ -> failwith "stmt"
and stmts_of x = List.map stmt_of (list_of x)

let param_of = function
  | L [n; t] -> { pty = ty_of (atom t); pname = nat_a n; pdef = None }
  | L [n; t; d] -> { pty = ty_of (atom t); pname = nat_a n; pdef = Some (expr_of d) }
  | _ -> failwith "param"
let func_of = function
  | L [A "F"; n; r; ps; body] ->
      { fname = nat_a n; fret = (match atom r with "void" -> None | s -> Some (ty_of s));
        fparams = List.map param_of (list_of ps); fbody = stmts_of body }
  | _ -> failwith "func"
let gdecl_of = function
  | L [A "G"; c; t; n; dims; init] ->
      { gcst = bool_a c; gty = ty_of (atom t); gname = nat_a n; gdims = List.map nat_a (list_of dims);
        ginit = List.map (fun x -> z_of_string (atom x)) (list_of init) }
  | _ -> failwith "gdecl"
let prog_of = function
  | L [A "P"; gs; fs; m] ->
      { pglobals = List.map gdecl_of (list_of gs); pfuncs = List.map func_of (list_of fs); pmain = stmts_of m }
  | _ -> failwith "prog"

let err_s = function
  | EDiv0 -> "div0" | ERange -> "range" | EBounds -> "bounds" | EConst -> "const" | EArity -> "arity"
  | EUnbound -> "unbound" | EUndef -> "undef" | ENoFuel -> "nofuel"

let () =
  let fuel = nat_of_int (if Array.length Sys.argv > 1 then int_of_string Sys.argv.(1) else 20000) in
  try
    while true do
      let line = input_line stdin in
      if String.length line > 0 then begin
        let p = prog_of (parse_sx line) in
        print_endline "===BEGIN";
        print_string (implode (print_program p));
        let (out, oc) = run fuel p in
        print_endline ("===EXPECT " ^ (match oc with Finished -> "finished" | Failed e -> err_s e));
        print_string (implode (render out));
        print_endline "";
        print_endline "===END"
      end
    done
  with End_of_file -> ()
