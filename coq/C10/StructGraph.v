(* C10 - the second table walk of the declaration parsers: the check for cycles of struct VALUE members
   (definitions only).

   RecursiveParser::parseStructDeclaration (recursive_parser.cpp:628) registers the struct in struct_definitions_, rejects a
   member of the struct's own type that is not a pointer ("Self-recursive struct member"), and after the closing brace calls
   TypeUtilityParser::detectCircularReference (parsers/type_utility_parser.cpp:914) for every value member: a depth-first walk
   over struct_definitions_ along value members that reports whether the struct being defined is reached again.  The walk keeps
   the names on the CURRENT PATH in `visited` (inserted on entry, erased on return), so
     - its recursion depth is bounded by the number of struct definitions (StructGraphTotal.detect_total_l): no cycle of
       definitions, through the start or not, makes it run forever;
     - but a struct that is reached along several paths is walked once per path (finding C10-struct-diamond-exponential). *)
From Coq Require Import List Arith Bool Ascii String.
From Cb Require Import C10.Typedefs.
Import ListNotations.
Local Open Scope string_scope.

Inductive mkind := MValue | MPtr | MArr.          (* T m;   T* m;   T[2] m; *)
Definition member := (string * mkind)%type.        (* type name of the member, kind *)
Record sdef := mkS { s_fwd : bool; s_members : list member }.
Definition sgraph := list (string * sdef).        (* struct_definitions_ *)

Fixpoint sg_lookup (g : sgraph) (k : string) : option sdef :=
  match g with
  | [] => None
  | (k', v) :: r => if String.eqb k k' then Some v else sg_lookup r k
  end.

Fixpoint sg_set (g : sgraph) (k : string) (v : sdef) : sgraph :=
  match g with
  | [] => [(k, v)]
  | (k', v') :: r => if String.eqb k k' then (k, v) :: r else (k', v') :: sg_set r k v
  end.

Definition is_value (k : mkind) : bool := match k with MValue => true | _ => false end.
Definition is_ptr (k : mkind) : bool := match k with MPtr => true | _ => false end.

(* the member loop of detectCircularReference: value members in order, early return on `true`; n counts activations *)
Fixpoint walk_members (rec : string -> option bool * nat) (ms : list member) (n : nat) : option bool * nat :=
  match ms with
  | [] => (Some false, n)
  | (mt, k) :: r =>
      if is_value k then
        match rec mt with
        | (None, c) => (None, n + c)
        | (Some true, c) => (Some true, n + c)
        | (Some false, c) => walk_members rec r (n + c)
        end
      else walk_members rec r n                                    (* pointer and array members are skipped *)
  end.

(* detectCircularReference(struct_name = start, member_type = ty, visited, path); fuel = C++ recursion depth.
   Result and number of activations. *)
Fixpoint detectc (fuel : nat) (g : sgraph) (start ty : string) (visited : list string) : option bool * nat :=
  match fuel with
  | 0 => (None, 0)
  | S f =>
      match sg_lookup g ty with
      | None => (Some false, 1)                                    (* not a struct *)
      | Some d =>
          if s_fwd d then (Some false, 1)                          (* forward declaration only *)
          else if String.eqb ty start then (Some true, 1)          (* back at the struct being defined *)
          else if mem visited ty then (Some false, 1)              (* already on the path: a cycle elsewhere *)
          else walk_members (fun mt => detectc f g start mt (ty :: visited)) (s_members d) 1
      end
  end.

Definition detect (fuel : nat) (g : sgraph) (start ty : string) (visited : list string) : option bool :=
  fst (detectc fuel g start ty visited).
Definition detect_calls (g : sgraph) (start ty : string) : nat := snd (detectc (S (List.length g)) g start ty []).

(* ---------------------------------------------------------------- struct declarations *)
Inductive sdecl :=
| SFwd (n : string)                        (* struct N; *)
| SDef (n : string) (ms : list member).    (* struct N { T0 m0; T1* m1; T2[2] m2; }; *)

Inductive serr := ESelfRec (n : string) | ECircular (n : string).

Definition sg_step (g : sgraph) (d : sdecl) : sgraph * option serr :=
  match d with
  | SFwd n => (match sg_lookup g n with Some _ => g | None => sg_set g n (mkS true []) end, None)
  | SDef n ms =>
      (* the name is registered (empty, not forward) before the members are parsed *)
      let g0 := sg_set g n (mkS false []) in
      if existsb (fun m : member => String.eqb (fst m) n && negb (is_ptr (snd m))) ms then (g0, Some (ESelfRec n))
      else
        let g1 := sg_set g n (mkS false ms) in
        if existsb (fun m : member => is_value (snd m) &&
                      match detect (S (List.length g1)) g1 n (fst m) [] with Some true => true | _ => false end) ms
        then (g1, Some (ECircular n)) else (g1, None)
  end.

Fixpoint sg_run (g : sgraph) (ds : list sdecl) : sgraph * option serr :=
  match ds with
  | [] => (g, None)
  | d :: r => match sg_step g d with
              | (g', None) => sg_run g' r
              | (g', Some e) => (g', Some e)
              end
  end.

(* the family of finding C10-struct-diamond-exponential: struct M0 { int v; }; struct M(i+1) { Mi a; Mi b; }; *)
Fixpoint dname (n : nat) : string := match n with 0 => "M" | S k => String "x" (dname k) end.
Fixpoint diamond (n : nat) : list sdecl :=
  match n with
  | 0 => [SDef (dname 0) []]
  | S k => diamond k ++ [SDef (dname (S k)) [(dname k, MValue); (dname k, MValue)]]
  end.
