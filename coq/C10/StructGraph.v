(* C10 - the second table walk of the declaration parsers: the check for cycles of struct VALUE members
   (definitions only).

   RecursiveParser::parseStructDeclaration (recursive_parser.cpp:628) registers the struct in struct_definitions_, rejects a
   member of the struct's own type that is not a pointer ("Self-recursive struct member"), and after the closing brace calls
   TypeUtilityParser::detectCircularReference (parsers/type_utility_parser.cpp:914) for every value member with a FRESH
   `visited` set: a depth-first walk over struct_definitions_ along value members that reports whether the struct being
   defined is reached again.  `visited` is passed by reference; since fix 08b0ce5 a struct that was walked STAYS in it
   (before, it was erased on return, so `visited` held the names of the current path only).  Hence
     - the recursion depth is bounded by the number of struct definitions (StructGraphTotal.detect_total_l): no cycle of
       definitions, through the start or not, makes it run forever;
     - every struct is walked at most once per check, and the number of activations of one check is at most
       1 + (number of value members of the structs walked) (StructGraphTotal.detect_calls_linear_l);
     - [detectu] is the walk as it was before 08b0ce5 (former finding C10-struct-diamond-exponential): a struct reached
       along several paths was walked once per path. *)
From Coq Require Import List Arith Bool Ascii String.
From Cb Require Import C10.Typedefs.
Import ListNotations.
Local Open Scope string_scope.

Inductive mkind := MValue | MPtr | MArr.          (* T m;   T* m;   T[2] m; *)
Definition member := (string * mkind)%type.        (* type name of the member, kind *)
Record sdef := mkS { s_fwd : bool; s_members : list member }.
Definition sgraph := list (string * sdef).        (* struct_definitions_ *)

Fixpoint sg_lookup (g : sgraph) (k : string) : option sdef :=
  match g with
  | [] => None
  | (k', v) :: r => if String.eqb k k' then Some v else sg_lookup r k
  end.

Fixpoint sg_set (g : sgraph) (k : string) (v : sdef) : sgraph :=
  match g with
  | [] => [(k, v)]
  | (k', v') :: r => if String.eqb k k' then (k, v) :: r else (k', v') :: sg_set r k v
  end.

Definition is_value (k : mkind) : bool := match k with MValue => true | _ => false end.
Definition is_ptr (k : mkind) : bool := match k with MPtr => true | _ => false end.

(* result of one activation: the answer (None = out of fuel), the number of activations spent, `visited` afterwards *)
Definition dres := (option bool * nat * list string)%type.
Definition d_ans (r : dres) : option bool := fst (fst r).
Definition d_calls (r : dres) : nat := snd (fst r).
Definition d_vis (r : dres) : list string := snd r.

(* the member loop of detectCircularReference: value members in order, early return on `true`; n counts activations;
   `vis` is the set every recursive call reads AND extends (std::unordered_set<std::string> &visited) *)
Fixpoint walk_members (rec : string -> list string -> dres) (ms : list member) (n : nat) (vis : list string) : dres :=
  match ms with
  | [] => (Some false, n, vis)
  | (mt, k) :: r =>
      if is_value k then
        match rec mt vis with
        | (None, c, v) => (None, n + c, v)
        | (Some true, c, v) => (Some true, n + c, v)
        | (Some false, c, v) => walk_members rec r (n + c) v
        end
      else walk_members rec r n vis                                (* pointer and array members are skipped *)
  end.

(* detectCircularReference(struct_name = start, member_type = ty, visited, path); fuel = C++ recursion depth.
   Answer, number of activations, visited set on return (most recently marked first). *)
Fixpoint detectc (fuel : nat) (g : sgraph) (start ty : string) (visited : list string) : dres :=
  match fuel with
  | 0 => (None, 0, visited)
  | S f =>
      match sg_lookup g ty with
      | None => (Some false, 1, visited)                           (* not a struct *)
      | Some d =>
          if s_fwd d then (Some false, 1, visited)                 (* forward declaration only *)
          else if String.eqb ty start then (Some true, 1, visited) (* back at the struct being defined *)
          else if mem visited ty then (Some false, 1, visited)     (* walked before (or being walked): nothing new *)
          else walk_members (fun mt v => detectc f g start mt v) (s_members d) 1 (ty :: visited)
                                                                   (* marked; NOT unmarked on return (fix 08b0ce5) *)
      end
  end.

Definition detect (fuel : nat) (g : sgraph) (start ty : string) (visited : list string) : option bool :=
  d_ans (detectc fuel g start ty visited).
(* one check as parseStructDeclaration starts it: fresh visited set *)
Definition detect_calls (g : sgraph) (start ty : string) : nat := d_calls (detectc (S (List.length g)) g start ty []).
Definition detect_walked (g : sgraph) (start ty : string) : list string := d_vis (detectc (S (List.length g)) g start ty []).

(* what the leaf driver can observe of one check: the answer and the visited set on return *)
Definition check_query (g : sgraph) (start ty : string) : bool * list string :=
  let r := detectc (S (List.length g)) g start ty [] in
  (match d_ans r with Some true => true | _ => false end, d_vis r).

(* cost measures of a table: value members of one definition / of the structs of a list / of the whole table *)
Definition nvalue (d : sdef) : nat := List.length (filter (fun m : member => is_value (snd m)) (s_members d)).
Definition nv (g : sgraph) (k : string) : nat := match sg_lookup g k with Some d => nvalue d | None => 0 end.
Fixpoint nv_sum (g : sgraph) (l : list string) : nat := match l with [] => 0 | k :: r => nv g k + nv_sum g r end.
Fixpoint value_edges (g : sgraph) : nat := match g with [] => 0 | (_, d) :: r => nvalue d + value_edges r end.
Fixpoint member_edges (g : sgraph) : nat := match g with [] => 0 | (_, d) :: r => List.length (s_members d) + member_edges r end.

(* ---- the walk BEFORE fix 08b0ce5: `visited.erase(normalized_type)` on return, i.e. visited = names on the current path *)
Fixpoint walk_members_u (rec : string -> option bool * nat) (ms : list member) (n : nat) : option bool * nat :=
  match ms with
  | [] => (Some false, n)
  | (mt, k) :: r =>
      if is_value k then
        match rec mt with
        | (None, c) => (None, n + c)
        | (Some true, c) => (Some true, n + c)
        | (Some false, c) => walk_members_u rec r (n + c)
        end
      else walk_members_u rec r n
  end.

Fixpoint detectu (fuel : nat) (g : sgraph) (start ty : string) (path : list string) : option bool * nat :=
  match fuel with
  | 0 => (None, 0)
  | S f =>
      match sg_lookup g ty with
      | None => (Some false, 1)
      | Some d =>
          if s_fwd d then (Some false, 1)
          else if String.eqb ty start then (Some true, 1)
          else if mem path ty then (Some false, 1)
          else walk_members_u (fun mt => detectu f g start mt (ty :: path)) (s_members d) 1
      end
  end.
Definition detectu_calls (g : sgraph) (start ty : string) : nat := snd (detectu (S (List.length g)) g start ty []).

(* ---------------------------------------------------------------- struct declarations *)
Inductive sdecl :=
| SFwd (n : string)                        (* struct N; *)
| SDef (n : string) (ms : list member).    (* struct N { T0 m0; T1* m1; T2[2] m2; }; *)

Inductive serr := ESelfRec (n : string) | ECircular (n : string).

Definition sg_step (g : sgraph) (d : sdecl) : sgraph * option serr :=
  match d with
  | SFwd n => (match sg_lookup g n with Some _ => g | None => sg_set g n (mkS true []) end, None)
  | SDef n ms =>
      (* the name is registered (empty, not forward) before the members are parsed *)
      let g0 := sg_set g n (mkS false []) in
      if existsb (fun m : member => String.eqb (fst m) n && negb (is_ptr (snd m))) ms then (g0, Some (ESelfRec n))
      else
        let g1 := sg_set g n (mkS false ms) in
        if existsb (fun m : member => is_value (snd m) &&
                      match detect (S (List.length g1)) g1 n (fst m) [] with Some true => true | _ => false end) ms
        then (g1, Some (ECircular n)) else (g1, None)
  end.

Fixpoint sg_run (g : sgraph) (ds : list sdecl) : sgraph * option serr :=
  match ds with
  | [] => (g, None)
  | d :: r => match sg_step g d with
              | (g', None) => sg_run g' r
              | (g', Some e) => (g', Some e)
              end
  end.

(* the family of former finding C10-struct-diamond-exponential: struct M0 { int v; }; struct M(i+1) { Mi a; Mi b; }; *)
Fixpoint dname (n : nat) : string := match n with 0 => "M" | S k => String "x" (dname k) end.
Fixpoint diamond (n : nat) : list sdecl :=
  match n with
  | 0 => [SDef (dname 0) []]
  | S k => diamond k ++ [SDef (dname (S k)) [(dname k, MValue); (dname k, MValue)]]
  end.
