(* C10 - front-end totality models.

   The three front-end stages have their models in
     coq/C17/Model.v    (Preprocessor::process / expandMacros, reused unchanged),
     coq/C10/Lexer.v    (RecursiveLexer),
     coq/C10/ExprParse.v (expression ladder of the recursive-descent parser).
   This file adds what the termination statements about the preprocessor need: an instrumented
   copy of the inner search loop of expandMacros that tells "no occurrence" from "the loop is
   still running when the fuel is gone" (coq/C17/Model.v's [search] answers None for both), and
   the -D option parsing of src/frontend/main.cpp (the only way an EMPTY macro name can enter
   the table).  Definitions only. *)
From Coq Require Import List Arith Bool Ascii String.
From Cb Require Import C17.Model.
Import ListNotations.

Inductive s3res := SFound (p : nat) | SNone | SFuel.

(* expandMacros: while ((pos = result.find(name, pos)) != npos) { in string / not a whole word:
   pos += name.length(); continue;  else replace }  - same loop as C17.Model.search *)
Fixpoint search3 (fuel : nat) (name s : str) (rs : ranges) (pos : nat) : s3res :=
  match fuel with
  | 0 => SFuel
  | S f =>
      match find_from name s pos with
      | None => SNone
      | Some p =>
          if in_string p rs then search3 f name s rs (p + List.length name)
          else if start_valid s p && end_valid s p (List.length name) then SFound p
          else search3 f name s rs (p + List.length name)
      end
  end.

(* main.cpp: "-D" + define_str; name = text before the first '=', value = text after it or "1" *)
Definition is_eq_sign (c : ascii) : bool := code c =? 61.
Definition dash_d (define_str : str) : str * str :=
  match find_first is_eq_sign define_str 0 with
  | Some e => (firstn e define_str, skipn (S e) define_str)
  | None => (define_str, one)
  end.

(* all object-like macros of a table have a non-empty name *)
Definition names_nonempty (t : table) : Prop :=
  forall m, In m t -> mfn m = false -> mname m <> [].
