(* C10 - termination of the struct value-member cycle check (proofs about StructGraph.v). *)
From Coq Require Import List Arith Bool Ascii String Lia.
From Cb Require Import C10.Typedefs C10.TypedefsTotal C10.StructGraph.
Import ListNotations.
Local Open Scope string_scope.

Lemma sg_lookup_In_keys : forall g k d, sg_lookup g k = Some d -> In k (map fst g).
Proof.
  induction g as [|[k' v'] r IH]; cbn [sg_lookup map fst]; intros k d H; [discriminate|].
  destruct (String.eqb k k') eqn:E.
  - apply String.eqb_eq in E. subst. left. reflexivity.
  - right. eapply IH. exact H.
Qed.

Lemma walk_members_total : forall rec ms n,
  (forall mt, fst (rec mt) <> None) -> fst (walk_members rec ms n) <> None.
Proof.
  intros rec ms. induction ms as [|[mt k] r IH]; intros n Hrec; cbn [walk_members].
  - cbn. discriminate.
  - destruct (is_value k); [|apply IH; exact Hrec].
    specialize (Hrec mt) as Hm. destruct (rec mt) as [[[|]|] c]; cbn in *.
    + discriminate.
    + apply IH. exact Hrec.
    + congruence.
Qed.

(* the names on the path are distinct struct names, so the recursion is at most |struct_definitions_| + 1 deep -
   whatever cycles the table contains *)
Lemma detectc_total : forall f g start ty visited,
  NoDup visited -> incl visited (map fst g) -> List.length (map fst g) < f + List.length visited ->
  fst (detectc f g start ty visited) <> None.
Proof.
  induction f as [|f IH]; intros g start ty visited Hnd Hincl Hlen.
  - exfalso. pose proof (NoDup_incl_length Hnd Hincl). cbn in Hlen. lia.
  - cbn [detectc].
    destruct (sg_lookup g ty) as [d|] eqn:Hl; [|cbn; discriminate].
    destruct (s_fwd d); [cbn; discriminate|].
    destruct (String.eqb ty start); [cbn; discriminate|].
    destruct (mem visited ty) eqn:Hv; [cbn; discriminate|].
    apply walk_members_total. intros mt. apply IH.
    + constructor; [apply mem_false_notIn; exact Hv|exact Hnd].
    + intros x [Hx|Hx]; [subst; eapply sg_lookup_In_keys; exact Hl|apply Hincl; exact Hx].
    + cbn [List.length]. lia.
Qed.

Lemma detect_total_l : forall g start ty, detect (S (List.length g)) g start ty [] <> None.
Proof.
  intros. unfold detect. apply detectc_total.
  - constructor.
  - intros x [].
  - rewrite map_length. cbn [List.length]. lia.
Qed.

(* every declaration is processed: the step function is total by construction; what the theorem adds is that the
   fuel it passes to the cycle check is never the reason for its answer *)
Lemma sg_step_check_decided : forall (g : sgraph) n ms (m : member),
  let g1 := sg_set g n (mkS false ms) in
  detect (S (List.length g1)) g1 n (fst m) [] = Some true \/ detect (S (List.length g1)) g1 n (fst m) [] = Some false.
Proof.
  intros g n ms m g1. pose proof (detect_total_l g1 n (fst m)) as H.
  destruct (detect (S (List.length g1)) g1 n (fst m) []) as [[|]|]; [left|right|]; try reflexivity. congruence.
Qed.

(* the cost side (finding C10-struct-diamond-exponential): the diamond family is accepted, and checking the last struct
   of diamond n takes 2^(n+1) - 2 activations for 2 value members each - computed for n = 1 .. 10 *)
Definition diamond_calls (n : nat) : nat :=
  let g := fst (sg_run [] (diamond n)) in
  detect_calls g (dname n) (dname (n - 1)) + detect_calls g (dname n) (dname (n - 1)).

Example diamond_accepted : map (fun n => snd (sg_run [] (diamond n))) [1; 2; 5; 9] = [None; None; None; None].
Proof. vm_compute. reflexivity. Qed.

Example diamond_cost_doubles :
  map diamond_calls [1; 2; 3; 4; 5; 6; 7; 8; 9; 10] = [2; 6; 14; 30; 62; 126; 254; 510; 1022; 2046].
Proof. vm_compute. reflexivity. Qed.
