(* C10 - termination and cost of the struct value-member cycle check (proofs about StructGraph.v). *)
From Coq Require Import List Arith Bool Ascii String Lia.
From Cb Require Import C10.Typedefs C10.TypedefsTotal C10.StructGraph.
Import ListNotations.
Local Open Scope string_scope.
Local Open Scope list_scope.

Lemma sg_lookup_In_keys : forall g k d, sg_lookup g k = Some d -> In k (map fst g).
Proof.
  induction g as [|[k' v'] r IH]; cbn [sg_lookup map fst]; intros k d H; [discriminate|].
  destruct (String.eqb k k') eqn:E.
  - apply String.eqb_eq in E. subst. left. reflexivity.
  - right. eapply IH. exact H.
Qed.

(* ---------------------------------------------------------------- invariant of one activation
   [ok g v r base]: the activation that started with visited set v answered (no fuel problem), its visited set on return
   is v extended by distinct struct names (the structs it walked, [new]), and it spent at most base + (value members of
   the walked structs) activations *)
Definition ok (g : sgraph) (v : list string) (r : dres) (base : nat) : Prop :=
  d_ans r <> None /\
  exists new, d_vis r = new ++ v /\ NoDup (d_vis r) /\ incl (d_vis r) (map fst g) /\ d_calls r <= base + nv_sum g new.

Definition nvl (ms : list member) : nat := List.length (filter (fun m : member => is_value (snd m)) ms).

Lemma nv_sum_app : forall g a b, nv_sum g (a ++ b) = nv_sum g a + nv_sum g b.
Proof. induction a as [|k a IH]; intros b; cbn [nv_sum app]; [reflexivity|]. rewrite IH. lia. Qed.

Lemma nvl_cons : forall mt k r, nvl ((mt, k) :: r) = if is_value k then S (nvl r) else nvl r.
Proof. intros. unfold nvl. cbn [filter snd]. destruct (is_value k); reflexivity. Qed.

Lemma walk_members_ok : forall g f rec,
  (forall mt v, NoDup v -> incl v (map fst g) -> List.length (map fst g) < f + List.length v -> ok g v (rec mt v) 1) ->
  forall ms n vis, NoDup vis -> incl vis (map fst g) -> List.length (map fst g) < f + List.length vis ->
  ok g vis (walk_members rec ms n vis) (n + nvl ms).
Proof.
  intros g f rec Hrec ms. induction ms as [|[mt k] r IH]; intros n vis Hnd Hincl Hlen; cbn [walk_members].
  - split; [cbn; discriminate|]. exists []. cbn. repeat split; try assumption. lia.
  - rewrite nvl_cons. destruct (is_value k) eqn:Hk.
    + destruct (Hrec mt vis Hnd Hincl Hlen) as [Hans [new1 [Hv1 [Hnd1 [Hin1 Hc1]]]]].
      destruct (rec mt vis) as [[[[|]|] c] v1]; cbn [d_ans d_calls d_vis fst snd] in *.
      * split; [cbn; discriminate|]. exists new1. cbn [d_vis d_calls fst snd]. repeat split; try assumption. lia.
      * assert (Hlen1 : List.length (map fst g) < f + List.length v1) by (rewrite Hv1, app_length; lia).
        destruct (IH (n + c) v1 Hnd1 Hin1 Hlen1) as [Hans2 [new2 [Hv2 [Hnd2 [Hin2 Hc2]]]]].
        split; [exact Hans2|]. exists (new2 ++ new1). repeat split; try assumption.
        -- rewrite Hv2, Hv1, app_assoc. reflexivity.
        -- rewrite nv_sum_app. lia.
      * congruence.
    + destruct (IH n vis Hnd Hincl Hlen) as [Hans2 [new2 [Hv2 [Hnd2 [Hin2 Hc2]]]]].
      split; [exact Hans2|]. exists new2. repeat split; assumption.
Qed.

(* the names in `visited` are distinct struct names and the set only grows, so the recursion is at most
   |struct_definitions_| + 1 deep - whatever cycles the table contains; and a struct is marked when (and only when) its
   member loop is entered, so it is entered once *)
Lemma detectc_ok : forall f g start ty vis,
  NoDup vis -> incl vis (map fst g) -> List.length (map fst g) < f + List.length vis ->
  ok g vis (detectc f g start ty vis) 1.
Proof.
  induction f as [|f IH]; intros g start ty vis Hnd Hincl Hlen.
  - exfalso. pose proof (NoDup_incl_length Hnd Hincl). cbn in Hlen. lia.
  - assert (Htriv : forall b, ok g vis (Some b, 1, vis) 1).
    { intros b. split; [cbn; discriminate|]. exists []. cbn. repeat split; try assumption. lia. }
    cbn [detectc].
    destruct (sg_lookup g ty) as [d|] eqn:Hl; [|apply Htriv].
    destruct (s_fwd d); [apply Htriv|].
    destruct (String.eqb ty start); [apply Htriv|].
    destruct (mem vis ty) eqn:Hv; [apply Htriv|].
    assert (Hnd' : NoDup (ty :: vis)) by (constructor; [apply mem_false_notIn; exact Hv|exact Hnd]).
    assert (Hincl' : incl (ty :: vis) (map fst g)).
    { intros x [Hx|Hx]; [subst; eapply sg_lookup_In_keys; exact Hl|apply Hincl; exact Hx]. }
    assert (Hlen' : List.length (map fst g) < f + List.length (ty :: vis)) by (cbn [List.length]; lia).
    destruct (walk_members_ok g f (fun mt v => detectc f g start mt v)
                (fun mt v H1 H2 H3 => IH g start mt v H1 H2 H3) (s_members d) 1 (ty :: vis) Hnd' Hincl' Hlen')
      as [Hans [new [Hvis [Hnd2 [Hin2 Hc]]]]].
    split; [exact Hans|]. exists (new ++ [ty]). repeat split; try assumption.
    + rewrite Hvis, <- app_assoc. reflexivity.
    + rewrite nv_sum_app. cbn [nv_sum]. assert (Hty : nv g ty = nvl (s_members d)) by (unfold nv; rewrite Hl; reflexivity).
      rewrite Hty. lia.
Qed.

Lemma detect_top_ok : forall g start ty, ok g [] (detectc (S (List.length g)) g start ty []) 1.
Proof.
  intros. apply detectc_ok.
  - constructor.
  - intros x [].
  - rewrite map_length. cbn [List.length]. lia.
Qed.

Lemma detect_total_l : forall g start ty, detect (S (List.length g)) g start ty [] <> None.
Proof. intros. exact (proj1 (detect_top_ok g start ty)). Qed.

(* every struct is walked at most once per check: the structs whose member loop was entered are pairwise different
   struct names of the table *)
Lemma detect_walked_once_l : forall g start ty,
  NoDup (detect_walked g start ty) /\ incl (detect_walked g start ty) (map fst g).
Proof.
  intros. destruct (detect_top_ok g start ty) as [_ [new [_ [Hnd [Hin _]]]]]. split; assumption.
Qed.

(* ... and every activation is either the first one or the visit of one value member of a walked struct *)
Lemma detect_calls_walked_l : forall g start ty,
  detect_calls g start ty <= 1 + nv_sum g (detect_walked g start ty).
Proof.
  intros. destruct (detect_top_ok g start ty) as [_ [new [Hv [_ [_ Hc]]]]].
  unfold detect_calls, detect_walked. rewrite Hv, app_nil_r. exact Hc.
Qed.

Lemma nv_sum_skip : forall k' d' r t, ~ In k' t -> nv_sum ((k', d') :: r) t = nv_sum r t.
Proof.
  induction t as [|k t IH]; intros Hn; cbn [nv_sum]; [reflexivity|].
  rewrite IH by (intros H; apply Hn; right; exact H).
  unfold nv. cbn [sg_lookup]. destruct (String.eqb k k') eqn:E; [|reflexivity].
  apply String.eqb_eq in E. subst. exfalso. apply Hn. left. reflexivity.
Qed.

Lemma nv_sum_head : forall k' d' r l, NoDup l ->
  exists l', NoDup l' /\ incl l' l /\ nv_sum ((k', d') :: r) l <= nvalue d' + nv_sum r l'.
Proof.
  induction l as [|k t IH]; intros Hnd.
  - exists []. cbn. repeat split; [constructor|intros x []|lia].
  - inversion Hnd as [|? ? Hnk Hndt]; subst. cbn [nv_sum].
    destruct (String.eqb k k') eqn:E.
    + apply String.eqb_eq in E. subst k'. exists t. repeat split; [exact Hndt|intros x Hx; right; exact Hx|].
      rewrite nv_sum_skip by exact Hnk. unfold nv. cbn [sg_lookup]. rewrite String.eqb_refl. lia.
    + destruct (IH Hndt) as [l' [Hnd' [Hin' Hle]]]. exists (k :: l'). repeat split.
      * constructor; [intros H; apply Hnk, Hin', H|exact Hnd'].
      * intros x [Hx|Hx]; [left; exact Hx|right; apply Hin'; exact Hx].
      * cbn [nv_sum]. assert (Hk : nv ((k', d') :: r) k = nv r k) by (unfold nv; cbn [sg_lookup]; rewrite E; reflexivity).
        rewrite Hk. lia.
Qed.

Lemma nv_sum_le_value_edges : forall g l, NoDup l -> nv_sum g l <= value_edges g.
Proof.
  induction g as [|[k' d'] r IH]; intros l Hnd.
  - cbn [value_edges]. induction l as [|k t IHl]; cbn [nv_sum]; [lia|].
    inversion Hnd; subst. unfold nv at 1. cbn [sg_lookup]. apply IHl. assumption.
  - destruct (nv_sum_head k' d' r l Hnd) as [l' [Hnd' [_ Hle]]]. cbn [value_edges]. specialize (IH l' Hnd'). lia.
Qed.

Lemma filter_len_le : forall (A : Type) (p : A -> bool) (l : list A), List.length (filter p l) <= List.length l.
Proof. induction l as [|a l IH]; cbn [filter List.length]; [lia|]. destruct (p a); cbn [List.length]; lia. Qed.

Lemma value_edges_le_member_edges : forall g, value_edges g <= member_edges g.
Proof.
  induction g as [|[k d] r IH]; cbn [value_edges member_edges]; [lia|].
  unfold nvalue. pose proof (filter_len_le _ (fun m : member => is_value (snd m)) (s_members d)). lia.
Qed.

(* the linear bound: one check costs at most one activation per value member of the table, plus the first *)
Lemma detect_calls_linear_l : forall g start ty, detect_calls g start ty <= 1 + value_edges g.
Proof.
  intros. pose proof (detect_calls_walked_l g start ty).
  pose proof (nv_sum_le_value_edges g _ (proj1 (detect_walked_once_l g start ty))). lia.
Qed.

(* in the words of the repair's commit message: the number of RECURSIVE calls (all activations but the first) is at most
   |struct_definitions_| + number of member edges *)
Lemma detect_recursive_calls_l : forall g start ty,
  detect_calls g start ty - 1 <= List.length g + member_edges g.
Proof.
  intros. pose proof (detect_calls_linear_l g start ty). pose proof (value_edges_le_member_edges g). lia.
Qed.

(* ---------------------------------------------------------------- what the check answers
   [reach g start ty]: from struct ty the struct `start` is reached along VALUE members through defined (not merely
   forward-declared) structs - the reference meaning of "defining start with a value member of type ty closes a cycle".
   Marking every walked struct for good (fix 08b0ce5) must not lose an answer: the check still says `true` exactly then. *)
Inductive reach (g : sgraph) (start : string) : string -> Prop :=
| reach_here : forall d, sg_lookup g start = Some d -> s_fwd d = false -> reach g start start
| reach_step : forall ty d mt, sg_lookup g ty = Some d -> s_fwd d = false -> In (mt, MValue) (s_members d) ->
    reach g start mt -> reach g start ty.

Definition live (g : sgraph) (x : string) : Prop := exists d, sg_lookup g x = Some d /\ s_fwd d = false.
Definition handled (g : sgraph) (start : string) (V : list string) (mt : string) : Prop := live g mt -> mt <> start /\ In mt V.
Definition closed (g : sgraph) (start : string) (Vnew V : list string) : Prop :=
  forall x d mt, In x Vnew -> sg_lookup g x = Some d -> In (mt, MValue) (s_members d) -> handled g start V mt.

Lemma is_value_MValue : forall k, is_value k = true <-> k = MValue.
Proof. destruct k; cbn; split; intros H; try reflexivity; discriminate. Qed.

Lemma handled_mono : forall g start V V' mt, incl V V' -> handled g start V mt -> handled g start V' mt.
Proof. intros g start V V' mt Hi H Hl. destruct (H Hl) as [Hn Hin]. split; [exact Hn|apply Hi; exact Hin]. Qed.

Lemma closed_mono : forall g start N V V', incl V V' -> closed g start N V -> closed g start N V'.
Proof. intros g start N V V' Hi H x d mt Hx Hl Hm. eapply handled_mono; [exact Hi|]. eapply H; eassumption. Qed.

Lemma walk_members_false : forall g start rec,
  (forall mt v c v', rec mt v = (Some false, c, v') ->
     exists new, v' = new ++ v /\ handled g start v' mt /\ closed g start new v') ->
  forall ms n vis c vis', walk_members rec ms n vis = (Some false, c, vis') ->
  exists new, vis' = new ++ vis /\ (forall mt, In (mt, MValue) ms -> handled g start vis' mt) /\ closed g start new vis'.
Proof.
  intros g start rec Hrec ms. induction ms as [|[mt k] r IH]; intros n vis c vis' H; cbn [walk_members] in H.
  - inversion H; subst. exists []. split; [reflexivity|split; [intros mt0 []|intros x d mt0 []]].
  - destruct (is_value k) eqn:Hk.
    + destruct (rec mt vis) as [[[[|]|] c1] v1] eqn:Hr; try discriminate.
      destruct (Hrec mt vis c1 v1 Hr) as [new1 [Hv1 [Hh1 Hc1]]].
      destruct (IH _ _ _ _ H) as [new2 [Hv2 [Hh2 Hc2]]].
      assert (Hi : incl v1 vis') by (rewrite Hv2; apply incl_appr, incl_refl).
      exists (new2 ++ new1). split; [|split].
      * rewrite Hv2, Hv1, app_assoc. reflexivity.
      * intros mt' [Hm|Hm]; [inversion Hm; subst; eapply handled_mono; eassumption|apply Hh2; exact Hm].
      * intros x d mt' Hx. apply in_app_or in Hx. destruct Hx as [Hx|Hx].
        -- apply Hc2. exact Hx.
        -- apply (closed_mono g start new1 v1 vis' Hi Hc1). exact Hx.
    + destruct (IH _ _ _ _ H) as [new2 [Hv2 [Hh2 Hc2]]]. exists new2. split; [exact Hv2|split; [|exact Hc2]].
      intros mt' [Hm|Hm]; [|apply Hh2; exact Hm]. inversion Hm; subst. cbn in Hk. discriminate.
Qed.

Lemma detectc_false : forall f g start ty vis c vis',
  detectc f g start ty vis = (Some false, c, vis') ->
  exists new, vis' = new ++ vis /\ handled g start vis' ty /\ closed g start new vis'.
Proof.
  induction f as [|f IH]; intros g start ty vis c vis' H; cbn [detectc] in H; [discriminate|].
  assert (Hnil : closed g start [] vis') by (intros x d mt []).
  destruct (sg_lookup g ty) as [d|] eqn:Hl.
  2:{ inversion H; subst. exists []. split; [reflexivity|split; [|exact Hnil]]. intros [d [Hd _]]. congruence. }
  destruct (s_fwd d) eqn:Hf.
  { inversion H; subst. exists []. split; [reflexivity|split; [|exact Hnil]]. intros [d' [Hd Hf']]. congruence. }
  destruct (String.eqb ty start) eqn:He; [discriminate|].
  assert (Hne : ty <> start) by (intros E; subst; rewrite String.eqb_refl in He; discriminate).
  destruct (mem vis ty) eqn:Hv.
  { inversion H; subst. exists []. split; [reflexivity|split; [|exact Hnil]]. intros _. split; [exact Hne|apply mem_In; exact Hv]. }
  destruct (walk_members_false g start (fun mt v => detectc f g start mt v)
              (fun mt v c0 v0 H0 => IH g start mt v c0 v0 H0) _ _ _ _ _ H) as [new [Hvis [Hh Hc]]].
  exists (new ++ [ty]). split; [|split].
  - rewrite Hvis, <- app_assoc. reflexivity.
  - intros _. split; [exact Hne|]. rewrite Hvis. apply in_or_app. right. left. reflexivity.
  - intros x d' mt Hx Hl' Hm. apply in_app_or in Hx. destruct Hx as [Hx|[Hx|[]]].
    + eapply Hc; eassumption.
    + subst x. rewrite Hl in Hl'. inversion Hl'; subst d'. apply Hh. exact Hm.
Qed.

Lemma detect_false_not_reach : forall f g start ty, detect f g start ty [] = Some false -> ~ reach g start ty.
Proof.
  intros f g start ty H. unfold detect, d_ans in H.
  destruct (detectc f g start ty []) as [[a c] V] eqn:Hd. cbn in H. subst a.
  destruct (detectc_false _ _ _ _ _ _ _ Hd) as [new [HV [Hh Hc]]]. rewrite app_nil_r in HV. subst new. clear Hd.
  intros Hr. revert Hh. induction Hr as [d Hl Hf|x d mt Hl Hf Hm Hr IH]; intros Hh.
  - destruct (Hh (ex_intro _ d (conj Hl Hf))) as [Hn _]. apply Hn. reflexivity.
  - destruct (Hh (ex_intro _ d (conj Hl Hf))) as [_ Hin]. apply IH. eapply Hc; eassumption.
Qed.

Lemma walk_members_true : forall g start rec,
  (forall mt v, d_ans (rec mt v) = Some true -> reach g start mt) ->
  forall ms n vis, d_ans (walk_members rec ms n vis) = Some true -> exists mt, In (mt, MValue) ms /\ reach g start mt.
Proof.
  intros g start rec Hrec ms. induction ms as [|[mt k] r IH]; intros n vis H; cbn [walk_members] in H.
  - cbn in H. discriminate.
  - destruct (is_value k) eqn:Hk.
    + apply is_value_MValue in Hk. subst k. pose proof (Hrec mt vis) as Hm.
      destruct (rec mt vis) as [[[[|]|] c1] v1]; cbn [d_ans fst] in *.
      * exists mt. split; [left; reflexivity|apply Hm; reflexivity].
      * destruct (IH _ _ H) as [mt' [Hi Hr]]. exists mt'. split; [right; exact Hi|exact Hr].
      * discriminate.
    + destruct (IH _ _ H) as [mt' [Hi Hr]]. exists mt'. split; [right; exact Hi|exact Hr].
Qed.

Lemma detectc_true : forall f g start ty vis, d_ans (detectc f g start ty vis) = Some true -> reach g start ty.
Proof.
  induction f as [|f IH]; intros g start ty vis H; cbn [detectc] in H; [cbn in H; discriminate|].
  destruct (sg_lookup g ty) as [d|] eqn:Hl; [|cbn in H; discriminate].
  destruct (s_fwd d) eqn:Hf; [cbn in H; discriminate|].
  destruct (String.eqb ty start) eqn:He.
  { apply String.eqb_eq in He. subst ty. eapply reach_here; eassumption. }
  destruct (mem vis ty); [cbn in H; discriminate|].
  destruct (walk_members_true g start (fun mt v => detectc f g start mt v) (fun mt v H0 => IH g start mt v H0) _ _ _ H)
    as [mt [Hi Hr]].
  eapply reach_step; eassumption.
Qed.

Lemma detect_correct_l : forall g start ty,
  detect (S (List.length g)) g start ty [] = Some true <-> reach g start ty.
Proof.
  intros g start ty. split.
  - apply detectc_true.
  - intros Hr. pose proof (detect_total_l g start ty) as Ht.
    destruct (detect (S (List.length g)) g start ty []) as [[|]|] eqn:Hd; [reflexivity| |congruence].
    exfalso. exact (detect_false_not_reach _ _ _ _ Hd Hr).
Qed.

(* every declaration is processed: the step function is total by construction; what the theorem adds is that the
   fuel it passes to the cycle check is never the reason for its answer *)
Lemma sg_step_check_decided : forall (g : sgraph) n ms (m : member),
  let g1 := sg_set g n (mkS false ms) in
  detect (S (List.length g1)) g1 n (fst m) [] = Some true \/ detect (S (List.length g1)) g1 n (fst m) [] = Some false.
Proof.
  intros g n ms m g1. pose proof (detect_total_l g1 n (fst m)) as H.
  destruct (detect (S (List.length g1)) g1 n (fst m) []) as [[|]|]; [left|right|]; try reflexivity. congruence.
Qed.

(* cost of a whole definition  struct N { .. };  : one check per value member, each linear in the table *)
Definition decl_check_calls (g1 : sgraph) (n : string) (ms : list member) : nat :=
  fold_right (fun (m : member) acc => if is_value (snd m) then detect_calls g1 n (fst m) + acc else acc) 0 ms.

Lemma decl_check_calls_bound_l : forall g1 n ms, decl_check_calls g1 n ms <= nvl ms * (1 + value_edges g1).
Proof.
  intros g1 n ms. induction ms as [|[mt k] r IH]; [cbn; lia|].
  unfold nvl in *. cbn [decl_check_calls fold_right filter snd fst]. fold (decl_check_calls g1 n r).
  destruct (is_value k); [|exact IH]. cbn [List.length]. pose proof (detect_calls_linear_l g1 n mt). lia.
Qed.

(* the cost side (former finding C10-struct-diamond-exponential): the diamond family is accepted; checking the last struct
   of diamond n (2 value members) took 2^(n+1) - 2 activations with the walk as it was before 08b0ce5 ([detectu]) and takes
   4n - 2 now - computed for n = 1 .. 10 *)
Definition diamond_calls (n : nat) : nat :=
  let g := fst (sg_run [] (diamond n)) in
  detect_calls g (dname n) (dname (n - 1)) + detect_calls g (dname n) (dname (n - 1)).
Definition diamond_calls_before_fix (n : nat) : nat :=
  let g := fst (sg_run [] (diamond n)) in
  detectu_calls g (dname n) (dname (n - 1)) + detectu_calls g (dname n) (dname (n - 1)).

Example diamond_accepted : map (fun n => snd (sg_run [] (diamond n))) [1; 2; 5; 9] = [None; None; None; None].
Proof. vm_compute. reflexivity. Qed.
