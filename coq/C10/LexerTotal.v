(* C10 - totality and linear step bound of the lexer model (Lexer.v).

   lex_step_progress : every activation of nextToken consumes at least one byte, unless it
                       delivers TOK_EOF;
   lex_total_linear  : for EVERY byte string, |input|+1 units of fuel are enough: the token list is
                       non-empty, ends in TOK_EOF or TOK_ERROR, has only ordinary tokens before
                       that, and took at most |input|+1 activations;
   lex_fuel_irrelevant : more fuel never changes the answer. *)
From Coq Require Import List Arith Bool Ascii String Lia.
From Cb Require Import C10.Lexer.
Import ListNotations.

Definition len (s : str) : nat := List.length s.
Definition rest_of (st : step) : str := match st with Skip r => r | Tok _ r => r end.

Ltac L := unfold len in *; cbn [List.length] in *; lia.

Lemma drop_while_le f s : len (drop_while f s) <= len s.
Proof. unfold len. induction s as [|c r IH]; simpl; [lia|]. destruct (f c); simpl; lia. Qed.

Lemma tl_le (s : str) : len (tl s) <= len s.
Proof. unfold len. destruct s; simpl; lia. Qed.

Lemma skip_block_le s : len (skip_block s) <= len s.
Proof.
  unfold len. induction s as [|c r IH]; simpl; [lia|].
  destruct (ceq c "*").
  - destruct r as [|d r']; simpl; [lia|]. destruct (ceq d "/"); simpl in *; lia.
  - lia.
Qed.

Lemma skip_line_le s : len (skip_line s) <= len s.
Proof. apply drop_while_le. Qed.

Lemma make_ident_le c r : len (snd (make_ident c r)) <= len r.
Proof. unfold make_ident. simpl. apply drop_while_le. Qed.

Lemma num_frac_le r : len (num_frac r) <= len r.
Proof.
  unfold num_frac. destruct r as [|p [|d r2]]; try lia.
  destruct (ceq p "." && is_digit d); [|lia].
  pose proof (drop_while_le is_digit (d :: r2)). L.
Qed.

Lemma exp_digits_le r r5 : exp_digits r = Some r5 -> len r5 <= len r.
Proof.
  unfold exp_digits. destruct r as [|d r4]; [discriminate|].
  destruct (is_digit d); [|discriminate]. intros [= <-]. exact (drop_while_le is_digit (d :: r4)).
Qed.

Lemma num_exp_le r r5 : num_exp r = Some r5 -> len r5 <= len r.
Proof.
  unfold num_exp. destruct r as [|e [|nx r3]]; try (intros [= <-]; lia).
  destruct (is_e e && (is_digit nx || is_sign nx)); [|intros [= <-]; lia].
  intros H. apply exp_digits_le in H. pose proof (tl_le (nx :: r3)).
  destruct (is_sign nx); L.
Qed.

Lemma make_number_le c r : len (snd (make_number c r)) <= len r.
Proof.
  unfold make_number.
  pose proof (drop_while_le is_digit r) as H1.
  pose proof (num_frac_le (drop_while is_digit r)) as H2.
  destruct (num_exp (num_frac (drop_while is_digit r))) as [r5|] eqn:E.
  - apply num_exp_le in E. destruct r5 as [|x r6]; simpl; [L|].
    destruct (is_suffix x); simpl; L.
  - simpl. lia.
Qed.

Lemma make_string_le r : len (snd (make_string r)) <= len r.
Proof.
  unfold make_string. pose proof (drop_while_le not_dq r) as H.
  destruct (drop_while not_dq r) as [|q r']; simpl; L.
Qed.

Lemma close_char_le c r : len (snd (close_char c r)) <= len r.
Proof. unfold close_char. destruct r as [|q r']; simpl; [lia|]. destruct (ceq q "'"); unfold len; simpl; lia. Qed.

Lemma make_char_le r : len (snd (make_char r)) <= len r.
Proof.
  unfold make_char. destruct r as [|c r1]; simpl; [lia|].
  destruct (ceq c "\").
  - destruct r1 as [|n r2].
    + pose proof (close_char_le c []). L.
    + destruct (char_escape n).
      * pose proof (close_char_le a r2). L.
      * unfold len. simpl. lia.
  - pose proof (close_char_le c r1). L.
Qed.

Lemma two_le x a b r : len (rest_of (two x a b r)) <= len r.
Proof. unfold two. destruct r as [|d r']; simpl; [lia|]. destruct (ceq d x); unfold len; simpl; lia. Qed.

Lemma lex_op_le c r : len (rest_of (lex_op c r)) <= len r.
Proof.
  pose proof (tl_le r) as Htl.
  pose proof (skip_line_le r) as Hsl.
  pose proof (skip_block_le (tl r)) as Hsb.
  pose proof (make_string_le r) as Hms.
  pose proof (make_char_le r) as Hmc.
  unfold lex_op.
  repeat match goal with
         | |- context [if ?b then _ else _] => destruct b
         end;
    try (simpl; lia);
    try (apply two_le);
    try (eapply Nat.le_trans; [apply two_le | exact Htl]).
  - destruct r as [|d1 [|d2 r']]; simpl; try lia.
    destruct (ceq d1 "." && ceq d2 "."); unfold len; simpl; lia.
  - destruct (make_string r); simpl in *; lia.
  - destruct (make_char r); simpl in *; lia.
Qed.

(* every activation of nextToken consumes at least one byte unless it delivers TOK_EOF *)
Lemma lex_step_progress_l s :
  match lex_step s with
  | Skip r => len r < len s
  | Tok t r => (t = tok_eof /\ r = []) \/ len r < len s
  end.
Proof.
  unfold lex_step. pose proof (drop_while_le is_ws s) as H.
  destruct (drop_while is_ws s) as [|c r]; [left; auto|].
  assert (Hr : len r < len s) by (L).
  destruct (is_alpha c || ceq c "_").
  { pose proof (make_ident_le c r). destruct (make_ident c r); simpl in *. right; lia. }
  destruct (is_digit c).
  { pose proof (make_number_le c r). destruct (make_number c r); simpl in *. right; lia. }
  pose proof (lex_op_le c r). destruct (lex_op c r); simpl in *; [lia | right; lia].
Qed.

Definition final_tok (t : token) : Prop := tcls t = CEof \/ tcls t = CErr.
Definition ordinary (t : token) : Prop := tcls t = COrd.

Lemma is_final_spec t : (is_final t = true <-> final_tok t) /\ (is_final t = false <-> ordinary t).
Proof.
  unfold is_final, final_tok, ordinary. destruct (tcls t); split; split; intros; auto; try discriminate;
    try (destruct H; discriminate).
Qed.

Lemma lex_total_l : forall f s, len s < f ->
  exists ts t, lex f s = ts ++ [t] /\ final_tok t /\ Forall ordinary ts /\
               List.length ts <= len s /\ 1 <= lex_steps f s <= len s + 1.
Proof.
  induction f as [|f IH]; intros s Hf; [lia|].
  cbn [lex lex_steps]. pose proof (lex_step_progress_l s) as P.
  destruct (lex_step s) as [r|t r].
  - destruct (IH r ltac:(lia)) as (ts & t & E & Ft & Fo & L1 & L2).
    exists ts, t. rewrite E. split; [reflexivity|]. split; [exact Ft|]. split; [exact Fo|]. lia.
  - destruct (is_final t) eqn:Fin.
    + exists [], t. split; [reflexivity|]. split; [apply is_final_spec; exact Fin|].
      split; [constructor|]. simpl. lia.
    + destruct P as [[-> _]|P]; [discriminate Fin|].
      destruct (IH r ltac:(lia)) as (ts & t' & E & Ft & Fo & L1 & L2).
      exists (t :: ts), t'. rewrite E. split; [reflexivity|]. split; [exact Ft|].
      split; [constructor; [apply is_final_spec; exact Fin|exact Fo]|]. simpl. lia.
Qed.

Lemma lex_fuel_irrelevant_l : forall f g s, len s < f -> len s < g ->
  lex f s = lex g s /\ lex_steps f s = lex_steps g s.
Proof.
  induction f as [|f IH]; intros g s Hf Hg; [lia|].
  destruct g as [|g]; [lia|].
  cbn [lex lex_steps]. pose proof (lex_step_progress_l s) as P.
  destruct (lex_step s) as [r|t r].
  - destruct (IH g r ltac:(lia) ltac:(lia)) as [A B]. rewrite A, B. auto.
  - destruct (is_final t) eqn:Fin; [auto|].
    destruct P as [[-> _]|P]; [discriminate Fin|].
    destruct (IH g r ltac:(lia) ltac:(lia)) as [A B]. rewrite A, B. auto.
Qed.

Theorem lex_total_linear_l : forall s : str,
  exists ts t, lex_all s = ts ++ [t] /\ final_tok t /\ Forall ordinary ts /\
               List.length (lex_all s) <= List.length s + 1 /\
               lex_steps (S (List.length s)) s <= List.length s + 1.
Proof.
  intros s. unfold lex_all.
  destruct (lex_total_l (S (List.length s)) s ltac:(unfold len; lia)) as (ts & t & E & Ft & Fo & L1 & L2).
  exists ts, t. rewrite E. repeat split; auto; unfold len in *; try lia.
  rewrite app_length. simpl. lia.
Qed.

Theorem lex_more_fuel_l : forall s k, lex (S (List.length s) + k) s = lex_all s.
Proof.
  intros. unfold lex_all. apply lex_fuel_irrelevant_l; unfold len; lia.
Qed.
