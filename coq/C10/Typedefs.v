(* C10 - declaration-level tables of the parser and the walks over them (definitions only).

   The recursive-descent parser keeps, besides the token stream, TABLES that every later declaration and every later
   use of a type name consults:
     typedef_map_           alias -> target   (src/frontend/recursive_parser/recursive_parser.h:79)
     struct_definitions_ / enum_definitions_ / union_definitions_ / interface_definitions_   (here: their key sets)
   Loops over these tables do not consume tokens, so the progress argument of the token-driven loops
   (LexerTotal.v, ExprTotal.v) says nothing about them: they need their own termination argument.  The loop that
   walks typedef_map_ is TypeUtilityParser::resolveTypedefChain (parsers/type_utility_parser.cpp:827); it is called for
   every use of a typedef name as a type (variable, parameter, return type, member, base of another typedef).

   This file models
     - the table,  [td_lookup] / [td_set]  = std::unordered_map find / operator[]= ;
     - [resolve_loop] / [resolve]    = resolveTypedefChain AS CODED (visited set, self-mapping of anonymous struct
                                       typedefs, stop at the first target that is not a key);
     - [walk]                        = the reference meaning of a chain (what the loop computes when no name repeats);
     - [startonly_loop]              = the same loop with the visited set replaced by "did the chain come back to the
                                       name it started from" (seeded change C10-3): the hazard variant, refuted in
                                       TypedefsTotal.v;
     - [decl] / [td_step] / [td_run]       = how the declarations of a program build the tables (which registrations are
                                       stored flattened, which are not - only the unflattened ones can close a cycle).
   Everything is tied to /repo on every run: harness/cpp/c10_typedefs.cpp links the repository's parser, parses the same
   declaration sequences and dumps typedef_map_, the key sets and resolveTypedefChain(name) for every name of the pool. *)
From Coq Require Import List Arith Bool Ascii String.
Import ListNotations.
Local Open Scope string_scope.

Definition tmap := list (string * string).

Fixpoint td_lookup (m : tmap) (k : string) : option string :=
  match m with
  | [] => None
  | (k', v) :: r => if String.eqb k k' then Some v else td_lookup r k
  end.

(* typedef_map_[k] = v : overwrite or insert *)
Fixpoint td_set (m : tmap) (k v : string) : tmap :=
  match m with
  | [] => [(k, v)]
  | (k', v') :: r => if String.eqb k k' then (k, v) :: r else (k', v') :: td_set r k v
  end.

Definition mem (l : list string) (k : string) : bool := existsb (String.eqb k) l.
Definition add (l : list string) (k : string) : list string := if mem l k then l else k :: l.

Record tables := mkT {
  tm : tmap;                 (* typedef_map_ *)
  sdefs : list string;       (* keys of struct_definitions_ *)
  edefs : list string;       (* keys of enum_definitions_ *)
  udefs : list string;       (* keys of union_definitions_ *)
  idefs : list string        (* keys of interface_definitions_ *)
}.
Definition empty_tables : tables := mkT [] [] [] [] [].

(* ---------------------------------------------------------------- resolveTypedefChain *)
Definition is_basic (s : string) : bool :=
  mem ["int"; "long"; "short"; "tiny"; "bool"; "string"; "char"; "void"] s.
Definition has_bracket (s : string) : bool :=
  match index 0 "[" s with Some _ => true | None => false end.
Definition struct_prefixed (t : tables) (s : string) : bool :=
  prefix "struct " s && Nat.ltb 7 (length s) && mem (sdefs t) (substring 7 (length s - 7) s).

(* the part after the while loop: the name is not (or no longer) a key of typedef_map_ *)
Definition terminal (t : tables) (cur : string) : string :=
  if is_basic cur then cur
  else if struct_prefixed t cur then cur
  else if mem (sdefs t) cur then cur
  else if mem (edefs t) cur then cur
  else if has_bracket cur then cur
  else if mem (udefs t) cur then cur
  else "".

Inductive rres := RFuel | RDone (r : string).     (* "" = unknown type (the caller reports "Unknown type: ..." ) *)

(* while (typedef_map_.find(current) != end) { if (visited.count(current)) return ""; visited.insert(current);
     next = typedef_map_[current];
     if (next == current) return struct_definitions_.count(current) ? current : "";
     if (typedef_map_.find(next) != end) current = next; else return next; }
   ... terminal checks *)
Fixpoint resolve_loop (fuel : nat) (t : tables) (visited : list string) (cur : string) : rres :=
  match fuel with
  | 0 => RFuel
  | S f =>
      match td_lookup (tm t) cur with
      | None => RDone (terminal t cur)
      | Some next =>
          if mem visited cur then RDone ""
          else if String.eqb next cur then RDone (if mem (sdefs t) cur then cur else "")
          else match td_lookup (tm t) next with
               | Some _ => resolve_loop f t (cur :: visited) next
               | None => RDone next
               end
      end
  end.

(* one unit of fuel per loop iteration; |typedef_map_| + 1 is always enough (TypedefsTotal.resolve_total_l) *)
Definition resolve (t : tables) (s : string) : rres := resolve_loop (S (List.length (tm t))) t [] s.
Definition resolved (t : tables) (s : string) : string :=
  match resolve t s with RDone r => r | RFuel => "" end.

(* the reference meaning: the chain of a name, as long as no cycle is involved; n = number of loop-backs *)
Inductive walk (t : tables) : string -> nat -> string -> Prop :=
| W_term : forall cur, td_lookup (tm t) cur = None -> walk t cur 0 (terminal t cur)
| W_self : forall cur, td_lookup (tm t) cur = Some cur -> walk t cur 0 (if mem (sdefs t) cur then cur else "")
| W_out : forall cur next, td_lookup (tm t) cur = Some next -> next <> cur -> td_lookup (tm t) next = None -> walk t cur 0 next
| W_step : forall cur next v n r, td_lookup (tm t) cur = Some next -> next <> cur -> td_lookup (tm t) next = Some v ->
             walk t next n r -> walk t cur (S n) r.

(* HAZARD VARIANT (seeded change C10-3): no visited set; a cycle is only noticed when the chain comes back to the
   name it STARTED from *)
Fixpoint startonly_loop (fuel : nat) (t : tables) (start cur : string) : rres :=
  match fuel with
  | 0 => RFuel
  | S f =>
      match td_lookup (tm t) cur with
      | None => RDone (terminal t cur)
      | Some next =>
          if String.eqb next cur then RDone (if mem (sdefs t) cur then cur else "")
          else if String.eqb next start then RDone ""
          else match td_lookup (tm t) next with
               | Some _ => startonly_loop f t start next
               | None => RDone next
               end
      end
  end.

(* ---------------------------------------------------------------- declarations that build the tables *)
Inductive decl :=
| DTStruct (tag alias : string)   (* typedef struct TAG { int x; } ALIAS;   recursive_parser.cpp:parseStructTypedefDeclaration *)
| DTAnon (alias : string)         (* typedef struct { int x; } ALIAS; *)
| DTEnum (alias : string)         (* typedef enum { P, Q } ALIAS;           parsers/enum_parser.cpp:parseEnumTypedefDeclaration *)
| DTPrim (ty alias : string)      (* typedef int[2] ALIAS;  ty = primitive type with its array suffixes *)
| DTAlias (base alias : string)   (* typedef BASE ALIAS;  BASE an identifier   parsers/declaration_parser.cpp:782 *)
| DTEq (alias prim : string)      (* typedef ALIAS = int;                      declaration_parser.cpp:689 *)
| DTUnion (alias : string)        (* typedef ALIAS = int | string; *)
| DStruct (n : string)            (* struct N { int x; };  /  struct N; *)
| DEnum (n : string)              (* enum N { R, S }; *)
| DFuncPtr (n : string)           (* typedef int ( *N)(int); *)
| DIface (n : string)             (* interface N { int m(); }; *)
| DGlobal (ty : string).          (* TY gv;   a global variable whose type is the identifier TY *)

Inductive perr := EUnknownTypedef (s : string) | EUnknownType (s : string).

Definition with_tm (t : tables) (m : tmap) : tables := mkT m (sdefs t) (edefs t) (udefs t) (idefs t).
Definition with_sd (t : tables) (l : list string) : tables := mkT (tm t) l (edefs t) (udefs t) (idefs t).
Definition with_ed (t : tables) (l : list string) : tables := mkT (tm t) (sdefs t) l (udefs t) (idefs t).
Definition with_ud (t : tables) (l : list string) : tables := mkT (tm t) (sdefs t) (edefs t) l (idefs t).
Definition with_id (t : tables) (l : list string) : tables := mkT (tm t) (sdefs t) (edefs t) (udefs t) l.

Definition td_step (t : tables) (d : decl) : tables * option perr :=
  match d with
  | DTStruct tag alias =>
      (* struct_definitions_[tag], [alias]; typedef_map_[alias] = tag  - stored UNFLATTENED: tag may be (or become) a key *)
      (with_tm (with_sd t (add (add (sdefs t) tag) alias)) (td_set (tm t) alias tag), None)
  | DTAnon alias => (with_tm (with_sd t (add (sdefs t) alias)) (td_set (tm t) alias alias), None)
  | DTEnum alias => (with_tm (with_ed t (add (edefs t) alias)) (td_set (tm t) alias ("enum " ++ alias)), None)
  | DTPrim ty alias => (with_tm t (td_set (tm t) alias ty), None)
  | DTAlias base alias =>
      (* stored FLATTENED: the value is what the chain of BASE resolves to now *)
      match td_lookup (tm t) base with
      | Some _ =>
          let r := resolved t base in
          if String.eqb r "" then (t, Some (EUnknownTypedef base)) else (with_tm t (td_set (tm t) alias r), None)
      | None =>
          if mem (sdefs t) base || mem (edefs t) base then (with_tm t (td_set (tm t) alias base), None)
          else (t, Some (EUnknownType base))
      end
  | DTEq alias prim => (with_tm t (td_set (tm t) alias prim), None)
  | DTUnion alias => (with_ud t (add (udefs t) alias), None)
  | DStruct n => (with_sd t (add (sdefs t) n), None)
  | DEnum n => (with_ed t (add (edefs t) n), None)
  | DFuncPtr n => (with_tm t (td_set (tm t) n ("function_pointer:" ++ n)), None)
  | DIface n => (with_id t (add (idefs t) n), None)
  | DGlobal ty =>
      (* StatementParser::parseTypedefTypeStatement dispatches on the tables in this order: struct -> parseVariableDeclaration
         (parseType: typedef_map_ first), interface and enum -> their own branches WITHOUT resolving a typedef of the same
         name, anything else (typedef, union, unknown) -> parseVariableDeclaration *)
      if negb (mem (sdefs t) ty) && (mem (idefs t) ty || mem (edefs t) ty) then (t, None)
      else
        match td_lookup (tm t) ty with
        | Some _ => if String.eqb (resolved t ty) "" then (t, Some (EUnknownType ty)) else (t, None)
        | None => (t, None)
        end
  end.

(* parseProgram: declarations in order; the first error ends the parse (RecursiveParser::error throws) *)
Fixpoint td_run (t : tables) (ds : list decl) : tables * option perr :=
  match ds with
  | [] => (t, None)
  | d :: r => match td_step t d with
              | (t', None) => td_run t' r
              | (t', Some e) => (t', Some e)
              end
  end.

(* the program of seeded/C10-3/demo.cb, declarations only *)
Definition rho_program : list decl := [DTStruct "T" "A"; DTAlias "A" "C"; DTStruct "A" "T"].
