(* C10 - termination and correctness of the typedef-chain walk (proofs about Typedefs.v). *)
From Coq Require Import List Arith Bool Ascii String Lia.
From Cb Require Import C10.Typedefs.
Import ListNotations.
Local Open Scope string_scope.

(* ---------------------------------------------------------------- basics *)
Lemma mem_In : forall l k, mem l k = true <-> In k l.
Proof.
  unfold mem. intros l k. rewrite existsb_exists. split.
  - intros [x [Hin He]]. apply String.eqb_eq in He. subst. exact Hin.
  - intros H. exists k. split; [exact H|apply String.eqb_refl].
Qed.

Lemma mem_false_notIn : forall l k, mem l k = false -> ~ In k l.
Proof. intros l k H Hin. apply mem_In in Hin. congruence. Qed.

Lemma lookup_In_keys : forall m k v, td_lookup m k = Some v -> In k (map fst m).
Proof.
  induction m as [|[k' v'] r IH]; cbn [td_lookup map fst]; intros k v H; [discriminate|].
  destruct (String.eqb k k') eqn:E.
  - apply String.eqb_eq in E. subst. left. reflexivity.
  - right. eapply IH. exact H.
Qed.

(* ---------------------------------------------------------------- totality of the loop AS CODED *)
(* invariant: the visited set is duplicate-free and consists of keys; every loop-back adds a key that was not
   in it, so after |typedef_map_| loop-backs the next name is either no key or already visited *)
Lemma resolve_loop_total : forall fuel t visited cur,
  NoDup visited -> incl visited (map fst (tm t)) ->
  List.length (map fst (tm t)) < fuel + List.length visited ->
  resolve_loop fuel t visited cur <> RFuel.
Proof.
  induction fuel as [|f IH]; intros t visited cur Hnd Hincl Hlen.
  - exfalso. pose proof (NoDup_incl_length Hnd Hincl). cbn in Hlen. lia.
  - cbn [resolve_loop].
    destruct (td_lookup (tm t) cur) as [next|] eqn:Hc; [|discriminate].
    destruct (mem visited cur) eqn:Hv; [discriminate|].
    destruct (String.eqb next cur); [discriminate|].
    destruct (td_lookup (tm t) next) as [v|]; [|discriminate].
    apply IH.
    + constructor; [apply mem_false_notIn; exact Hv|exact Hnd].
    + intros x [Hx|Hx]; [subst; eapply lookup_In_keys; exact Hc|apply Hincl; exact Hx].
    + cbn [List.length]. lia.
Qed.

Lemma resolve_total_l : forall t s, resolve t s <> RFuel.
Proof.
  intros t s. unfold resolve. apply resolve_loop_total.
  - constructor.
  - intros x [].
  - rewrite map_length. cbn [List.length]. lia.
Qed.

(* more fuel never changes an answer *)
Lemma resolve_loop_mono : forall f t visited cur k,
  resolve_loop f t visited cur <> RFuel -> resolve_loop (f + k) t visited cur = resolve_loop f t visited cur.
Proof.
  induction f as [|f IH]; intros t visited cur k H; [exfalso; apply H; reflexivity|].
  cbn [resolve_loop Nat.add] in *.
  destruct (td_lookup (tm t) cur) as [next|]; [|reflexivity].
  destruct (mem visited cur); [reflexivity|].
  destruct (String.eqb next cur); [reflexivity|].
  destruct (td_lookup (tm t) next); [|reflexivity].
  apply IH. exact H.
Qed.

Lemma resolve_fuel_irrelevant_l : forall t s k,
  resolve_loop (S (List.length (tm t)) + k) t [] s = resolve t s.
Proof. intros. unfold resolve. apply resolve_loop_mono. apply resolve_total_l. Qed.

(* ---------------------------------------------------------------- the loop computes the chain *)
Lemma walk_deterministic : forall t cur n r, walk t cur n r -> forall n' r', walk t cur n' r' -> n = n' /\ r = r'.
Proof.
  induction 1 as [cur H|cur H|cur next H Hne Hn|cur next v n r H Hne Hn Hw IH]; intros n' r' W'; inversion W'; subst;
    try congruence; try (split; reflexivity).
  - split; [reflexivity|]. congruence.
  - assert (next0 = next) by congruence. subst. destruct (IH _ _ H3) as [-> ->]. split; reflexivity.
Qed.

(* invariant: a visited name that has a chain at all needs MORE loop-backs than the current one *)
Lemma resolve_loop_walk : forall t cur n r, walk t cur n r ->
  forall f visited, n < f ->
  (forall x, In x visited -> forall k r', walk t x k r' -> n < k) ->
  resolve_loop f t visited cur = RDone r.
Proof.
  induction 1 as [cur H|cur H|cur next H Hne Hn|cur next v n r H Hne Hn Hw IH]; intros f visited Hf Hvis;
    (destruct f as [|f]; [lia|]); cbn [resolve_loop]; rewrite H.
  - reflexivity.
  - destruct (mem visited cur) eqn:Hv.
    + apply mem_In in Hv. specialize (Hvis _ Hv _ _ (W_self t cur H)). lia.
    + rewrite String.eqb_refl. reflexivity.
  - destruct (mem visited cur) eqn:Hv.
    + apply mem_In in Hv. specialize (Hvis _ Hv _ _ (W_out t cur next H Hne Hn)). lia.
    + apply String.eqb_neq in Hne. rewrite Hne. rewrite Hn. reflexivity.
  - destruct (mem visited cur) eqn:Hv.
    + apply mem_In in Hv. specialize (Hvis _ Hv _ _ (W_step t cur next v n r H Hne Hn Hw)). lia.
    + pose proof Hne as Hne'. apply String.eqb_neq in Hne'. rewrite Hne'. rewrite Hn.
      apply IH; [lia|].
      intros x [Hx|Hx] k r' Wx.
      * subst x. destruct (walk_deterministic _ _ _ _ (W_step t cur next v n r H Hne Hn Hw) _ _ Wx) as [<- _]. lia.
      * specialize (Hvis _ Hx _ _ Wx). lia.
Qed.

Lemma walk_keys_bound : forall t cur n r, walk t cur n r -> forall seen, NoDup seen -> incl seen (map fst (tm t)) ->
  (forall x, In x seen -> forall k r', walk t x k r' -> n < k) -> n + List.length seen < List.length (tm t) + 1.
Proof.
  induction 1 as [cur H|cur H|cur next H Hne Hn|cur next v n r H Hne Hn Hw IH]; intros seen Hnd Hincl Hs;
    try (pose proof (NoDup_incl_length Hnd Hincl) as L; rewrite map_length in L; lia).
  assert (Hnot : ~ In cur seen).
  { intros Hin. specialize (Hs _ Hin _ _ (W_step t cur next v n r H Hne Hn Hw)). lia. }
  assert (L : n + List.length (cur :: seen) < List.length (tm t) + 1).
  { apply IH.
    - constructor; assumption.
    - intros x [Hx|Hx]; [subst; eapply lookup_In_keys; exact H|apply Hincl; exact Hx].
    - intros x [Hx|Hx] k r' Wx.
      + subst x. destruct (walk_deterministic _ _ _ _ (W_step t cur next v n r H Hne Hn Hw) _ _ Wx) as [<- _]. lia.
      + specialize (Hs _ Hx _ _ Wx). lia. }
  cbn [List.length] in L. lia.
Qed.

(* a chain has fewer loop-backs than the table has entries *)
Lemma walk_short : forall t cur n r, walk t cur n r -> n < List.length (tm t) + 1.
Proof.
  intros t cur n r W. pose proof (walk_keys_bound _ _ _ _ W [] (NoDup_nil _)) as H.
  cbn [List.length] in H. rewrite Nat.add_0_r in H. apply H.
  - intros x [].
  - intros x [].
Qed.

Lemma resolve_walk_l : forall t s n r, walk t s n r -> resolve t s = RDone r.
Proof.
  intros t s n r W. unfold resolve. eapply resolve_loop_walk; [exact W| |intros x []].
  pose proof (walk_short _ _ _ _ W). lia.
Qed.

(* conversely: whatever the loop answers is the chain's value, or "" *)
Lemma resolve_loop_sound : forall f t visited cur r,
  resolve_loop f t visited cur = RDone r -> (exists n, walk t cur n r) \/ r = "".
Proof.
  induction f as [|f IH]; intros t visited cur r H; [discriminate|].
  cbn [resolve_loop] in H.
  destruct (td_lookup (tm t) cur) as [next|] eqn:Hc.
  - destruct (mem visited cur); [right; congruence|].
    destruct (String.eqb next cur) eqn:He.
    + apply String.eqb_eq in He. subst next. inversion H; subst. left. exists 0. apply W_self. exact Hc.
    + apply String.eqb_neq in He.
      destruct (td_lookup (tm t) next) as [v|] eqn:Hn.
      * destruct (IH _ _ _ _ H) as [[n W]|E]; [|right; exact E].
        left. exists (S n). eapply W_step; eassumption.
      * inversion H; subst. left. exists 0. apply W_out; assumption.
  - inversion H; subst. left. exists 0. apply W_term. exact Hc.
Qed.

Lemma resolve_cycle_unknown_l : forall t s, (forall n r, ~ walk t s n r) -> resolve t s = RDone "".
Proof.
  intros t s Hno. destruct (resolve t s) as [|r] eqn:E.
  - exfalso. eapply resolve_total_l. exact E.
  - unfold resolve in E. destruct (resolve_loop_sound _ _ _ _ _ E) as [[n W]| ->]; [|reflexivity].
    exfalso. eapply Hno. exact W.
Qed.

(* ---------------------------------------------------------------- the hazard variant does not terminate *)
Definition rho_tables : tables := fst (td_run empty_tables rho_program).

Example rho_tables_map : tm rho_tables = [("A", "T"); ("C", "T"); ("T", "A")] /\ snd (td_run empty_tables rho_program) = None.
Proof. vm_compute. split; reflexivity. Qed.

(* once inside the cycle T -> A -> T the start name C is never met again *)
Lemma startonly_spins : forall f, startonly_loop f rho_tables "C" "T" = RFuel /\ startonly_loop f rho_tables "C" "A" = RFuel.
Proof.
  induction f as [|f [IHt IHa]]; [split; reflexivity|].
  split.
  - change (startonly_loop (S f) rho_tables "C" "T") with (startonly_loop f rho_tables "C" "A"). exact IHa.
  - change (startonly_loop (S f) rho_tables "C" "A") with (startonly_loop f rho_tables "C" "T"). exact IHt.
Qed.

Lemma startonly_diverges_l : forall f, startonly_loop f rho_tables "C" "C" = RFuel.
Proof.
  intros [|f]; [reflexivity|].
  change (startonly_loop (S f) rho_tables "C" "C") with (startonly_loop f rho_tables "C" "T").
  apply startonly_spins.
Qed.

(* the loop as coded answers "" on the same table, for every name *)
Example resolve_rho : map (resolved rho_tables) ["A"; "C"; "T"; "Z"] = [""; ""; ""; ""].
Proof. vm_compute. reflexivity. Qed.

(* ---------------------------------------------------------------- registration *)
(* an alias registered by  typedef BASE ALIAS;  is stored flattened: its value is the end of BASE's chain at that
   moment, never a name that is itself an alias of something else at that moment (a self-mapped anonymous struct excepted) *)
Lemma lookup_set_same : forall m k v, td_lookup (td_set m k v) k = Some v.
Proof.
  induction m as [|[k' v'] r IH]; intros k v; cbn [td_set td_lookup].
  - rewrite String.eqb_refl. reflexivity.
  - destruct (String.eqb k k') eqn:E; cbn [td_lookup]; [rewrite String.eqb_refl; reflexivity|].
    rewrite E. apply IH.
Qed.

Lemma resolve_loop_result_flat : forall f t visited cur r,
  resolve_loop f t visited cur = RDone r -> r <> "" ->
  td_lookup (tm t) r = None \/ td_lookup (tm t) r = Some r.
Proof.
  induction f as [|f IH]; intros t visited cur r H Hr; [discriminate|].
  cbn [resolve_loop] in H.
  destruct (td_lookup (tm t) cur) as [next|] eqn:Hc.
  - destruct (mem visited cur); [inversion H; subst; congruence|].
    destruct (String.eqb next cur) eqn:He.
    + apply String.eqb_eq in He. subst next.
      destruct (mem (sdefs t) cur); inversion H; subst; [right; exact Hc|congruence].
    + destruct (td_lookup (tm t) next) as [v|] eqn:Hn.
      * eapply IH; eassumption.
      * inversion H; subst. left. exact Hn.
  - inversion H; subst. unfold terminal in *.
    repeat match goal with
           | |- context [if ?b then _ else _] => destruct b
           end; try (left; exact Hc); congruence.
Qed.

Lemma alias_registered_flat_l : forall t base alias t',
  td_step t (DTAlias base alias) = (t', None) ->
  exists v, td_lookup (tm t') alias = Some v /\ (td_lookup (tm t) v = None \/ td_lookup (tm t) v = Some v).
Proof.
  intros t base alias t' H. cbn [td_step] in H.
  destruct (td_lookup (tm t) base) as [x|] eqn:Hb.
  - destruct (String.eqb (resolved t base) "") eqn:Er; [discriminate|].
    inversion H; subst; clear H. exists (resolved t base). cbn [tm with_tm]. split; [apply lookup_set_same|].
    apply String.eqb_neq in Er. unfold resolved in *.
    destruct (resolve t base) as [|r] eqn:E; [congruence|].
    unfold resolve in E. eapply resolve_loop_result_flat; eassumption.
  - destruct (mem (sdefs t) base || mem (edefs t) base); [|discriminate].
    inversion H; subst; clear H. exists base. cbn [tm with_tm]. split; [apply lookup_set_same|left; exact Hb].
Qed.
