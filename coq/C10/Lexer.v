(* C10 - Mech model of src/frontend/recursive_parser/recursive_lexer.cpp (RecursiveLexer),
   function by function.  Source text = list of bytes ([ascii]); the lexer position is the
   remaining suffix.  One [lex_step] = one activation of RecursiveLexer::nextToken up to its
   `return`: a comment makes the C++ function call itself again (`return nextToken();`), which
   is the [Skip] result here; every other path returns a token.  [lex] is the sequence of
   nextToken calls the parser makes until the first TOK_EOF / TOK_ERROR.

   Definitions only (total, computable, extractable).  Proofs: LexerTotal.v.
   Tied to the code on every run by harness/cpp/c10_lexdump.cpp (links recursive_lexer.cpp). *)
From Coq Require Import List Arith Bool Ascii String.
Import ListNotations.
Local Open Scope string_scope.
Local Open Scope nat_scope.

Definition str := list ascii.
Definition s2l (s : string) : str := list_ascii_of_string s.
Definition ceq (a b : ascii) : bool := Ascii.eqb a b.
Definition code (c : ascii) : nat := nat_of_ascii c.

(* RecursiveLexer::isAlpha / isDigit / isAlphaNumeric *)
Definition is_alpha (c : ascii) : bool :=
  let n := code c in ((97 <=? n) && (n <=? 122)) || ((65 <=? n) && (n <=? 90)).
Definition is_digit (c : ascii) : bool := let n := code c in (48 <=? n) && (n <=? 57).
Definition is_alnum (c : ascii) : bool := is_alpha c || is_digit c.
Definition is_identc (c : ascii) : bool := is_alnum c || ceq c "_".
(* skipWhitespace: ' ' '\r' '\t' '\n' *)
Definition is_ws (c : ascii) : bool :=
  let n := code c in (n =? 32) || (n =? 13) || (n =? 9) || (n =? 10).

(* the remaining input after the longest prefix whose bytes satisfy f *)
Fixpoint drop_while (f : ascii -> bool) (s : str) : str :=
  match s with [] => [] | c :: r => if f c then drop_while f r else s end.

(* source_.substr(start, current_ - start): the bytes of [s] consumed to reach the suffix [rest] *)
Definition consumed (s rest : str) : str := firstn (List.length s - List.length rest) s.

Fixpoint str_eqb (a b : str) : bool :=
  match a, b with
  | [], [] => true
  | x :: a', y :: b' => ceq x y && str_eqb a' b'
  | _, _ => false
  end.

(* ---------------- tokens ---------------- *)
Inductive tclass := CEof | CErr | COrd.
Record token := { tcls : tclass; tname : string; tval : str }.
Definition mk (n : string) (v : str) : token := {| tcls := COrd; tname := n; tval := v |}.
Definition mks (n v : string) : token := mk n (s2l v).
Definition tok_eof : token := {| tcls := CEof; tname := "TOK_EOF"; tval := [] |}.
Definition tok_err (v : string) : token := {| tcls := CErr; tname := "TOK_ERROR"; tval := s2l v |}.
Definition tok_errc (c : ascii) : token := {| tcls := CErr; tname := "TOK_ERROR"; tval := [c] |}.

(* RecursiveLexer::getKeywordType *)
Definition keywords : list (string * string) :=
  [("main", "TOK_MAIN"); ("if", "TOK_IF"); ("else", "TOK_ELSE"); ("for", "TOK_FOR"); ("while", "TOK_WHILE");
   ("break", "TOK_BREAK"); ("continue", "TOK_CONTINUE"); ("return", "TOK_RETURN"); ("int", "TOK_INT");
   ("long", "TOK_LONG"); ("short", "TOK_SHORT"); ("tiny", "TOK_TINY"); ("void", "TOK_VOID");
   ("string", "TOK_STRING_TYPE"); ("char", "TOK_CHAR_TYPE"); ("bool", "TOK_BOOL"); ("float", "TOK_FLOAT");
   ("double", "TOK_DOUBLE"); ("big", "TOK_BIG"); ("quad", "TOK_QUAD"); ("true", "TOK_TRUE");
   ("false", "TOK_FALSE"); ("print", "TOK_PRINT"); ("println", "TOK_PRINTLN"); ("printf", "TOK_PRINTF");
   ("typedef", "TOK_TYPEDEF"); ("const", "TOK_CONST"); ("static", "TOK_STATIC"); ("private", "TOK_PRIVATE");
   ("struct", "TOK_STRUCT"); ("enum", "TOK_ENUM"); ("interface", "TOK_INTERFACE"); ("impl", "TOK_IMPL");
   ("self", "TOK_SELF"); ("new", "TOK_NEW"); ("delete", "TOK_DELETE"); ("nullptr", "TOK_NULLPTR");
   ("null", "TOK_NULL"); ("unsigned", "TOK_UNSIGNED"); ("assert", "TOK_ASSERT"); ("defer", "TOK_DEFER");
   ("yield", "TOK_YIELD"); ("default", "TOK_DEFAULT"); ("switch", "TOK_SWITCH"); ("case", "TOK_CASE");
   ("match", "TOK_MATCH"); ("func", "TOK_FUNC"); ("import", "TOK_IMPORT"); ("export", "TOK_EXPORT");
   ("async", "TOK_ASYNC"); ("await", "TOK_AWAIT"); ("try", "TOK_TRY"); ("checked", "TOK_CHECKED");
   ("panic", "TOK_PANIC"); ("unwrap", "TOK_UNWRAP"); ("foreign", "TOK_FOREIGN"); ("use", "TOK_USE")].

Fixpoint kw_lookup (t : str) (l : list (string * string)) : string :=
  match l with
  | [] => "TOK_IDENTIFIER"
  | (k, n) :: r => if str_eqb t (s2l k) then n else kw_lookup t r
  end.

(* ---------------- comments ---------------- *)
(* skipComment: while (peek() != '\n' && !isAtEnd()) advance(); *)
Definition not_nl (c : ascii) : bool := negb (code c =? 10).
Definition skip_line (s : str) : str := drop_while not_nl s.
(* skipBlockComment (slash-star is consumed): up to and including the first star-slash, or to the end *)
Fixpoint skip_block (s : str) : str :=
  match s with
  | [] => []
  | c :: r => if ceq c "*" then match r with
                                | d :: r' => if ceq d "/" then r' else skip_block r
                                | [] => []
                                end
              else skip_block r
  end.

(* ---------------- makeIdentifier (first byte consumed) ---------------- *)
Definition make_ident (c : ascii) (r : str) : token * str :=
  let rest := drop_while is_identc r in
  let text := c :: consumed r rest in
  (if str_eqb text [ "_"%char ] then mk "TOK_UNDERSCORE" text else mk (kw_lookup text keywords) text, rest).

(* ---------------- makeNumber (first digit consumed) ---------------- *)
Definition is_e (c : ascii) : bool := ceq c "e" || ceq c "E".
Definition is_sign (c : ascii) : bool := ceq c "+" || ceq c "-".
Definition is_suffix (c : ascii) : bool :=
  ceq c "f" || ceq c "F" || ceq c "d" || ceq c "D" || ceq c "q" || ceq c "Q".

(* fractional part: peek() == '.' && isDigit(peekNext()) *)
Definition num_frac (r1 : str) : str :=
  match r1 with
  | p :: ((d :: _) as r2) => if ceq p "." && is_digit d then drop_while is_digit r2 else r1
  | _ => r1
  end.
(* exponent part; None = TOK_ERROR "Invalid exponent in number literal" *)
Definition exp_digits (r4 : str) : option str :=
  match r4 with
  | d :: _ => if is_digit d then Some (drop_while is_digit r4) else None
  | [] => None
  end.
Definition num_exp (r2 : str) : option str :=
  match r2 with
  | e :: ((nx :: _) as r3) =>
      if is_e e && (is_digit nx || is_sign nx) then
        exp_digits (if is_sign nx then tl r3 else r3)
      else Some r2
  | _ => Some r2
  end.
Definition make_number (c : ascii) (r : str) : token * str :=
  let r2 := num_frac (drop_while is_digit r) in
  match num_exp r2 with
  | None => (tok_err "Invalid exponent in number literal", r2)
  | Some r5 =>
      let text := c :: consumed r r5 in
      match r5 with
      | x :: r6 => if is_suffix x then (mk "TOK_NUMBER" (text ++ [x])%list, r6) else (mk "TOK_NUMBER" text, r5)
      | [] => (mk "TOK_NUMBER" text, r5)
      end
  end.

(* ---------------- makeString (opening quote consumed) ---------------- *)
(* the look-ahead that decides TOK_INTERPOLATED_STRING: an opening brace not followed by another
   one, before the first unescaped double quote (a backslash skips two bytes) *)
Fixpoint interp_scan (s : str) : bool :=
  match s with
  | [] => false
  | c :: r =>
      if ceq c """" then false
      else if ceq c "\" then match r with [] => false | _ :: r' => interp_scan r' end
      else if ceq c "{" then match r with
                             | [] => false
                             | d :: _ => if ceq d "{" then interp_scan r else true
                             end
      else interp_scan r
  end.
Definition not_dq (c : ascii) : bool := negb (ceq c """").
(* the consuming loop knows no escapes: the string ends at the first double quote *)
Definition make_string (r : str) : token * str :=
  let rest := drop_while not_dq r in
  match rest with
  | [] => (tok_err "Unterminated string", [])
  | _ :: r' =>
      let text := consumed r rest in
      (mk (if interp_scan r then "TOK_INTERPOLATED_STRING" else "TOK_STRING") text, r')
  end.

(* ---------------- makeChar (opening quote consumed) ---------------- *)
Definition char_escape (n : ascii) : option ascii :=
  if ceq n "n" then Some (ascii_of_nat 10) else if ceq n "t" then Some (ascii_of_nat 9)
  else if ceq n "r" then Some (ascii_of_nat 13) else if ceq n "0" then Some zero
  else if ceq n "\" then Some "\"%char else if ceq n "'" then Some "'"%char else if ceq n """" then Some """"%char
  else None.
Definition close_char (c : ascii) (r : str) : token * str :=
  match r with
  | q :: r' => if ceq q "'" then (mk "TOK_CHAR" [c], r') else (tok_err "Unterminated character", r)
  | [] => (tok_err "Unterminated character", r)
  end.
Definition make_char (r : str) : token * str :=
  match r with
  | [] => (tok_err "Unterminated character", [])
  | c :: r1 =>
      if ceq c "\" then
        match r1 with
        | n :: r2 => match char_escape n with
                     | Some v => close_char v r2
                     | None => (tok_err "Invalid escape sequence in character literal", r2)
                     end
        | [] => close_char c r1
        end
      else close_char c r1
  end.

(* ---------------- nextToken ---------------- *)
Inductive step := Skip (rest : str) | Tok (t : token) (rest : str).

(* `if (peek() == x) { advance(); return A; } return B;` *)
Definition two (x : ascii) (a b : string * string) (r : str) : step :=
  match r with
  | d :: r' => if ceq d x then Tok (mks (fst a) (snd a)) r' else Tok (mks (fst b) (snd b)) r
  | [] => Tok (mks (fst b) (snd b)) r
  end.
Definition pk (r : str) (x : ascii) : bool := match r with d :: _ => ceq d x | [] => false end.

(* the switch of nextToken; [c] is the byte returned by advance(), [r] what follows it *)
Definition lex_op (c : ascii) (r : str) : step :=
  let T n v := Tok (mks n v) in
  if ceq c "+" then
    (if pk r "+" then T "TOK_INCR" "++" (tl r) else if pk r "=" then T "TOK_PLUS_ASSIGN" "+=" (tl r)
     else T "TOK_PLUS" "+" r)
  else if ceq c "-" then
    (if pk r "-" then T "TOK_DECR" "--" (tl r) else if pk r ">" then T "TOK_ARROW" "->" (tl r)
     else if pk r "=" then T "TOK_MINUS_ASSIGN" "-=" (tl r) else T "TOK_MINUS" "-" r)
  else if ceq c "*" then two "=" ("TOK_MUL_ASSIGN", "*=") ("TOK_MUL", "*") r
  else if ceq c "/" then
    (if pk r "/" then Skip (skip_line r)
     else if pk r "*" then Skip (skip_block (tl r))
     else if pk r "=" then T "TOK_DIV_ASSIGN" "/=" (tl r) else T "TOK_DIV" "/" r)
  else if ceq c "%" then two "=" ("TOK_MOD_ASSIGN", "%=") ("TOK_MOD", "%") r
  else if ceq c ";" then T "TOK_SEMICOLON" ";" r
  else if ceq c "," then T "TOK_COMMA" "," r
  else if ceq c "(" then T "TOK_LPAREN" "(" r
  else if ceq c ")" then T "TOK_RPAREN" ")" r
  else if ceq c "{" then T "TOK_LBRACE" "{" r
  else if ceq c "}" then T "TOK_RBRACE" "}" r
  else if ceq c "[" then T "TOK_LBRACKET" "[" r
  else if ceq c "]" then T "TOK_RBRACKET" "]" r
  else if ceq c "=" then
    (if pk r "=" then T "TOK_EQ" "==" (tl r) else if pk r ">" then T "TOK_FAT_ARROW" "=>" (tl r)
     else T "TOK_ASSIGN" "=" r)
  else if ceq c "!" then two "=" ("TOK_NE", "!=") ("TOK_NOT", "!") r
  else if ceq c "<" then
    (if pk r "=" then T "TOK_LE" "<=" (tl r)
     else if pk r "<" then two "=" ("TOK_LSHIFT_ASSIGN", "<<=") ("TOK_LEFT_SHIFT", "<<") (tl r)
     else T "TOK_LT" "<" r)
  else if ceq c ">" then
    (if pk r "=" then T "TOK_GE" ">=" (tl r)
     else if pk r ">" then two "=" ("TOK_RSHIFT_ASSIGN", ">>=") ("TOK_RIGHT_SHIFT", ">>") (tl r)
     else T "TOK_GT" ">" r)
  else if ceq c "&" then
    (if pk r "&" then T "TOK_AND" "&&" (tl r) else if pk r "=" then T "TOK_AND_ASSIGN" "&=" (tl r)
     else T "TOK_BIT_AND" "&" r)
  else if ceq c "|" then
    (if pk r "|" then T "TOK_OR" "||" (tl r) else if pk r "=" then T "TOK_OR_ASSIGN" "|=" (tl r)
     else T "TOK_BIT_OR" "|" r)
  else if ceq c "^" then two "=" ("TOK_XOR_ASSIGN", "^=") ("TOK_BIT_XOR", "^") r
  else if ceq c "~" then T "TOK_BIT_NOT" "~" r
  else if ceq c "?" then T "TOK_QUESTION" "?" r
  else if ceq c ":" then two ":" ("TOK_SCOPE", "::") ("TOK_COLON", ":") r
  else if ceq c "." then
    (match r with
     | d1 :: d2 :: r' => if ceq d1 "." && ceq d2 "." then T "TOK_RANGE" "..." r' else T "TOK_DOT" "." r
     | _ => T "TOK_DOT" "." r
     end)
  else if ceq c """" then (let (t, r') := make_string r in Tok t r')
  else if ceq c "'" then (let (t, r') := make_char r in Tok t r')
  else Tok (tok_errc c) r.

Definition lex_step (s : str) : step :=
  match drop_while is_ws s with
  | [] => Tok tok_eof []
  | c :: r =>
      if is_alpha c || ceq c "_" then (let (t, r') := make_ident c r in Tok t r')
      else if is_digit c then (let (t, r') := make_number c r in Tok t r')
      else lex_op c r
  end.

Definition is_final (t : token) : bool := match tcls t with COrd => false | _ => true end.

(* the calls of nextToken() until the first TOK_EOF / TOK_ERROR; [] only when the fuel runs out *)
Fixpoint lex (fuel : nat) (s : str) : list token :=
  match fuel with
  | 0 => []
  | S f => match lex_step s with
           | Skip r => lex f r
           | Tok t r => if is_final t then [t] else t :: lex f r
           end
  end.

Definition lex_all (s : str) : list token := lex (S (List.length s)) s.

(* number of nextToken activations (incl. the re-entries after comments) *)
Fixpoint lex_steps (fuel : nat) (s : str) : nat :=
  match fuel with
  | 0 => 0
  | S f => match lex_step s with
           | Skip r => S (lex_steps f r)
           | Tok t r => if is_final t then 1 else S (lex_steps f r)
           end
  end.
