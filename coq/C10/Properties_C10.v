(* C10 - property theorems (statements only; proofs in LexerTotal.v, ExprTotal.v, ExprGuard.v, PreprocTotal.v).

   C10 demands that the front end ends on every input, in time proportional to the input.  What
   can be a theorem is a statement about the MODELS of the three front-end stages (preprocessor
   model of coq/C17, lexer model, expression-ladder model): termination measures, fuel that
   never runs out, progress of every loop.  Memory safety of the C++ and the statement and
   declaration parsers are outside every theorem here (sanitizer runs in harness/props/c10.py). *)
From Coq Require Import List Arith NArith Bool Ascii String Lia.
From Cb Require Import C17.Model C10.Model C10.Lexer C10.ExprParse C10.LexerTotal C10.ExprTotal C10.ExprGuard C10.PreprocTotal
  C10.Typedefs C10.TypedefsTotal C10.StructGraph C10.StructGraphTotal.
Import ListNotations.

(* ------------------------------------------------------------------ lexer *)
(* every activation of nextToken consumes at least one byte, or delivers TOK_EOF at the end *)
Theorem lex_step_progress : forall s : Lexer.str,
  match lex_step s with
  | Skip r => List.length r < List.length s
  | Tok t r => (t = tok_eof /\ r = []) \/ List.length r < List.length s
  end.
Proof. exact lex_step_progress_l. Qed.
Print Assumptions lex_step_progress.

(* every byte string yields a token list that ends in TOK_EOF or TOK_ERROR, has only ordinary
   tokens before that, within |input|+1 activations of nextToken *)
Theorem lex_total_linear : forall s : Lexer.str,
  exists ts t, lex_all s = ts ++ [t] /\ final_tok t /\ Forall ordinary ts /\
               List.length (lex_all s) <= List.length s + 1 /\
               lex_steps (S (List.length s)) s <= List.length s + 1.
Proof. exact lex_total_linear_l. Qed.
Print Assumptions lex_total_linear.

Theorem lex_fuel_irrelevant : forall (s : Lexer.str) k, lex (S (List.length s) + k) s = lex_all s.
Proof. exact lex_more_fuel_l. Qed.
Print Assumptions lex_fuel_irrelevant.

(* ------------------------------------------------------------------ expression ladder *)
(* recursion depth K*(|tokens|+1), K = 15 (= ladder height 10 + 5), is enough for every token list *)
Theorem parse_expr_total_linear : forall (ts : list tok) f,
  K * (List.length ts + 1) <= f -> p_assign f ts <> Fuel.
Proof. exact parse_total_l. Qed.
Print Assumptions parse_expr_total_linear.

(* a successful parse consumes at least one token: every loop of the ladder advances *)
Theorem parse_expr_progress : forall f (ts : list tok) e r,
  p_assign f ts = Ok (e, r) -> List.length r < List.length ts.
Proof. exact parse_progress_l. Qed.
Print Assumptions parse_expr_progress.

(* lexer and ladder composed: the verdict on println(<any byte string>); is never "out of fuel" *)
Theorem front_end_verdict_total : forall src : Lexer.str, expr_verdict src <> VFuel.
Proof. exact verdict_never_fuel_l. Qed.
Print Assumptions front_end_verdict_total.

(* the generic-call look-ahead of parsePrimary AS CODED since fix 98a0163 (at most 256 loop iterations per
   "identifier <") reads at most 256 * |tokens| tokens on every token list (former finding #38 / C10-lookahead-quadratic) *)
Theorem lookahead_linear : forall ts : list tok, scan_total_b ts <= scan_bound * List.length ts.
Proof. exact scan_total_b_linear_l. Qed.
Print Assumptions lookahead_linear.

(* why the bound is needed: the same loop WITHOUT the iteration bound (the code before 98a0163) is not linear -
   a change that removes the bound re-opens this *)
Theorem lookahead_unbounded_hazard : ~ exists c, forall ts : list tok, scan_total ts <= c * List.length ts.
Proof.
  intros [c H]. destruct (lookahead_quadratic_l c) as [ts Hts]. specialize (H ts). lia.
Qed.
Print Assumptions lookahead_unbounded_hazard.

(* ------------------------------------------------------------------ nesting guard (fuel = C++ stack) *)
(* a stack budget only ever turns an answer into "too deep" (Fuel): a run that fits answers the same with any larger budget *)
Theorem nesting_guard_monotone : forall k f (ts : list tok),
  p_assign f ts <> Fuel -> p_assign (f + k) ts = p_assign f ts.
Proof. exact fuel_mono_l. Qed.
Print Assumptions nesting_guard_monotone.

(* for EVERY budget the guarded parse is "too deep" or it is the parse: the guard cannot change a verdict *)
Theorem nesting_guard_sound : forall b (ts : list tok), p_assign b ts = Fuel \/ p_assign b ts = parse ts.
Proof. exact guard_sound_l. Qed.
Print Assumptions nesting_guard_sound.

(* each of the eight self-recursive prefix productions of parseUnary (await try checked ! - ~ & star) costs a frame per token:
   a chain of n of them, in any mix and whatever follows, exhausts every budget <= n + 13.  The stack needed is unbounded
   in the input on EACH branch, so the stack check has to be on the common path of parseUnary (seeded change C10-1) *)
Theorem prefix_chain_needs_stack : forall (pre rest : list tok) f,
  forallb is_prefix pre = true -> f <= List.length pre + 13 -> p_assign f (pre ++ rest) = Fuel.
Proof. exact prefix_chain_deep_l. Qed.
Print Assumptions prefix_chain_needs_stack.

(* nested parentheses cost the whole ladder (K = 15 frames) per level *)
Theorem paren_chain_needs_stack : forall n (rest : list tok) f,
  f <= K * n -> p_assign f (repeat TLP n ++ rest) = Fuel.
Proof. exact paren_chain_deep_l. Qed.
Print Assumptions paren_chain_needs_stack.

(* ------------------------------------------------------------------ preprocessor (model of coq/C17) *)
(* the find-loop of expandMacros for a NON-EMPTY macro name ends within |line| - pos + 1 iterations *)
Theorem preproc_search_total : forall f name s rs pos, name <> [] ->
  List.length s - pos < f -> search3 f name s rs pos <> SFuel.
Proof. exact search3_total_l. Qed.
Print Assumptions preproc_search_total.

(* search3 is C17.Model.search with the two kinds of "None" told apart *)
Theorem preproc_search3_is_search : forall f name s rs pos,
  match search3 f name s rs pos with
  | SFound p => search f name s rs pos = Some p
  | SNone | SFuel => search f name s rs pos = None
  end.
Proof. intros. pose proof (search3_agrees f name s rs pos) as H. destruct (search3 f name s rs pos); exact H. Qed.
Print Assumptions preproc_search3_is_search.

(* hence the fuel S |line| that C17.Model.pass/sweep pass to search is never the reason for None *)
Theorem preproc_search_fuel_irrelevant : forall name s rs k, name <> [] ->
  search (S (List.length s) + k) name s rs 0 = search (S (List.length s)) name s rs 0.
Proof. intros. apply search_fuel_irrelevant_l; auto; lia. Qed.
Print Assumptions preproc_search_fuel_irrelevant.

(* the per-macro replacement loop ends within |line| + 1 iterations *)
Theorem preproc_sweep_fuel_sufficient : forall limit name body s ch k, name <> [] ->
  sweep (S (List.length s) + k) limit name body s 0 ch = sweep (S (List.length s)) limit name body s 0 ch.
Proof. intros. apply sweep_fuel_sufficient_l; auto; lia. Qed.
Print Assumptions preproc_sweep_fuel_sufficient.

(* the expanded line is at most |line| + 16 KiB + the longest macro body long (growth bound of
   expandMacros, repair 6b05a50 of the former finding C10-selfref-macro-exponential): with at most
   100 passes and at most |text|+1 iterations per macro and pass, expansion work is bounded by a
   polynomial in |line| and the table, never by 2^100 *)
Theorem preproc_expand_size_bounded : forall t line,
  (N.of_nat (List.length (fst (expand t line))) <=
   N.of_nat (List.length line) + max_growth + N.of_nat (max_body t))%N.
Proof. exact expand_size_bounded_l. Qed.
Print Assumptions preproc_expand_size_bounded.

(* #define never creates an object-like macro with an empty name, and process preserves that *)
Theorem preproc_define_name_nonempty : forall line n b,
  classify line = KPlain (PDefine n b false) -> n <> [].
Proof. exact classify_define_nonempty. Qed.
Print Assumptions preproc_define_name_nonempty.

Theorem preproc_table_names_nonempty : forall t file lines,
  names_nonempty t -> names_nonempty (tab (process t file lines)).
Proof. exact process_names_nonempty_l. Qed.
Print Assumptions preproc_table_names_nonempty.

(* why pass must skip a macro with an empty name (it does since e201f6d; before, main -D=5 hung):
   with an empty name the find loop never advances, so termination of the loop itself, without
   the non-emptiness hypothesis of preproc_search_total, is refuted *)
Theorem preproc_search_total_refuted :
  ~ forall name s rs pos, exists f, search3 f name s rs pos <> SFuel.
Proof.
  intros H. destruct (H [] line_a [] 0) as [f Hf]. apply Hf. apply search_empty_name_spins.
Qed.
Print Assumptions preproc_search_total_refuted.

(* ------------------------------------------------------------------ declaration-level tables: typedef chains (Typedefs.v) *)
(* Loops over the parser's TABLES consume no token; their termination is a property of the table walk itself.
   TypeUtilityParser::resolveTypedefChain AS CODED (visited set) ends within |typedef_map_| + 1 iterations on EVERY table -
   cycles of any length, entered from anywhere, included *)
Theorem typedef_resolve_total : forall (t : tables) (s : string), resolve t s <> RFuel.
Proof. exact resolve_total_l. Qed.
Print Assumptions typedef_resolve_total.

Theorem typedef_resolve_fuel_irrelevant : forall (t : tables) (s : string) k,
  resolve_loop (S (List.length (tm t)) + k) t [] s = resolve t s.
Proof. exact resolve_fuel_irrelevant_l. Qed.
Print Assumptions typedef_resolve_fuel_irrelevant.

(* ... and it is not just any terminating function: where the chain of a name ends (reference semantics [walk]:
   follow typedef_map_ until a target that is no key, or a self-mapped anonymous struct), the loop returns the chain's end *)
Theorem typedef_resolve_computes_chain : forall (t : tables) (s : string) n r, walk t s n r -> resolve t s = RDone r.
Proof. exact resolve_walk_l. Qed.
Print Assumptions typedef_resolve_computes_chain.

(* a chain that ends has fewer loop-backs than typedef_map_ has entries *)
Theorem typedef_chain_short : forall (t : tables) (s : string) n r, walk t s n r -> n < List.length (tm t) + 1.
Proof. exact walk_short. Qed.
Print Assumptions typedef_chain_short.

(* where the chain does NOT end (it runs into a cycle, through the start or not), the answer is "" - the caller's
   "Unknown type: ..." diagnostic, exit status 1 *)
Theorem typedef_cycle_is_unknown_type : forall (t : tables) (s : string),
  (forall n r, ~ walk t s n r) -> resolve t s = RDone EmptyString.
Proof. exact resolve_cycle_unknown_l. Qed.
Print Assumptions typedef_cycle_is_unknown_type.

(* typedef BASE ALIAS; stores the END of BASE's chain (flattened): the stored value is no alias of something else at
   that moment.  Only  typedef struct TAG {..} ALIAS;  stores a name unflattened (ALIAS -> TAG) - the one way a cycle
   can be closed, which is what the declaration-level generators of harness/props/c10.py aim at *)
Theorem typedef_alias_registered_flat : forall (t : tables) base alias t',
  td_step t (DTAlias base alias) = (t', None) ->
  exists v, td_lookup (tm t') alias = Some v /\ (td_lookup (tm t) v = None \/ td_lookup (tm t) v = Some v).
Proof. exact alias_registered_flat_l. Qed.
Print Assumptions typedef_alias_registered_flat.

(* why the visited SET is needed (seeded change C10-3 replaced it by "did the chain come back to the name it started
   from"): that loop does not terminate on the tables of a three-line program - typedef struct T {..} A; typedef A C;
   typedef struct A {..} T; - when asked for C: the chain C -> T -> A -> T -> ... never meets C again *)
Theorem typedef_start_only_check_total_refuted :
  ~ forall (prog : list decl) (s : string), exists f, startonly_loop f (fst (td_run empty_tables prog)) s s <> RFuel.
Proof.
  intros H. destruct (H rho_program "C"%string) as [f Hf]. apply Hf. apply startonly_diverges_l.
Qed.
Print Assumptions typedef_start_only_check_total_refuted.

(* ------------------------------------------------------------------ declaration-level tables: struct value-member cycles (StructGraph.v) *)
(* TypeUtilityParser::detectCircularReference AS CODED (since fix 08b0ce5 every walked struct stays in `visited`) recurses at
   most |struct_definitions_| + 1 deep on EVERY table and for every start / member type: no arrangement of struct definitions -
   cycles through the struct being defined or elsewhere - makes the check run forever or overflow the stack by itself *)
Theorem struct_cycle_check_total : forall (g : sgraph) (start ty : string),
  detect (S (List.length g)) g start ty [] <> None.
Proof. exact detect_total_l. Qed.
Print Assumptions struct_cycle_check_total.

(* the check made by  struct N { .. };  for each value member is therefore always decided *)
Theorem struct_decl_check_decided : forall (g : sgraph) n ms (m : member),
  let g1 := sg_set g n (mkS false ms) in
  detect (S (List.length g1)) g1 n (fst m) [] = Some true \/ detect (S (List.length g1)) g1 n (fst m) [] = Some false.
Proof. exact sg_step_check_decided. Qed.
Print Assumptions struct_decl_check_decided.

(* COST of one check (repair of finding C10-struct-diamond-exponential, fix 08b0ce5).  Every struct is walked at most once per
   check: the structs whose member loop was entered ([detect_walked] = `visited` when the check returns) are pairwise
   different names of the table ... *)
Theorem struct_cycle_check_walks_each_struct_once : forall (g : sgraph) (start ty : string),
  NoDup (detect_walked g start ty) /\ incl (detect_walked g start ty) (map fst g).
Proof. exact detect_walked_once_l. Qed.
Print Assumptions struct_cycle_check_walks_each_struct_once.

(* ... every activation of detectCircularReference is the first one or the visit of one value member of a walked struct ... *)
Theorem struct_cycle_check_calls_by_walked : forall (g : sgraph) (start ty : string),
  detect_calls g start ty <= 1 + nv_sum g (detect_walked g start ty).
Proof. exact detect_calls_walked_l. Qed.
Print Assumptions struct_cycle_check_calls_by_walked.

(* ... hence the LINEAR bound, for every table (duplicate-free or not), start and member type: at most one activation per value
   member of the table plus the first; in the words of the repair: the number of recursive calls is at most
   |struct_definitions_| + number of member edges *)
Theorem struct_cycle_check_linear : forall (g : sgraph) (start ty : string),
  detect_calls g start ty <= 1 + value_edges g.
Proof. exact detect_calls_linear_l. Qed.
Print Assumptions struct_cycle_check_linear.

Theorem struct_cycle_check_recursive_calls : forall (g : sgraph) (start ty : string),
  detect_calls g start ty - 1 <= List.length g + member_edges g.
Proof. exact detect_recursive_calls_l. Qed.
Print Assumptions struct_cycle_check_recursive_calls.

(* a whole definition  struct N { m1; ..; mk };  runs one check per value member: at most k * (1 + value members of the table) *)
Theorem struct_decl_check_cost : forall (g1 : sgraph) n (ms : list member),
  decl_check_calls g1 n ms <= nvl ms * (1 + value_edges g1).
Proof. exact decl_check_calls_bound_l. Qed.
Print Assumptions struct_decl_check_cost.

(* keeping the marks loses no answer: the check says `true` exactly when the struct being defined is reached from the member's
   type along value members through defined structs ([reach], the reference meaning of a value-member cycle) *)
Theorem struct_cycle_check_correct : forall (g : sgraph) (start ty : string),
  detect (S (List.length g)) g start ty [] = Some true <-> reach g start ty.
Proof. exact detect_correct_l. Qed.
Print Assumptions struct_cycle_check_correct.

(* the hypotheses are satisfiable / the models compute *)
(* the family of the former finding: struct M0 {int v;}; struct M(i+1) { Mi a; Mi b; };  is accepted; the last definition's two
   checks cost 4n - 2 activations; with the walk as it was before 08b0ce5 ([detectu]: a struct reached along two paths is walked
   twice) they cost 2^(n+1) - 2 *)
Example struct_diamond_cost :
  map (fun n => snd (sg_run [] (diamond n))) [1; 5; 9] = [None; None; None] /\
  map diamond_calls [1; 2; 3; 4; 5; 6; 7; 8; 9; 10] = [2; 6; 10; 14; 18; 22; 26; 30; 34; 38] /\
  map diamond_calls_before_fix [1; 2; 3; 4; 5; 6; 7; 8; 9; 10] = [2; 6; 14; 30; 62; 126; 254; 510; 1022; 2046].
Proof. vm_compute. repeat split; reflexivity. Qed.
Example struct_reach_sample :
  let g := fst (sg_run [] [SDef "A" []; SDef "B" [("A", MValue)]; SDef "A" [("B", MValue)]]%string) in
  reach g "A"%string "B"%string /\ detect_walked g "A"%string "B"%string = ["B"]%string /\ detect_walked g "C"%string "B"%string = ["A"; "B"]%string.
Proof.
  split; [|split; vm_compute; reflexivity].
  eapply reach_step with (d := mkS false [("A", MValue)]%string) (mt := "A"%string); [vm_compute; reflexivity|reflexivity|left; reflexivity|].
  eapply reach_here with (d := mkS false [("B", MValue)]%string); [vm_compute; reflexivity|reflexivity].
Qed.
Example struct_cycle_samples :
  map (fun ds => snd (sg_run [] ds))
    [[SDef "A" [("A", MValue)]]; [SDef "A" [("A", MPtr)]]; [SDef "A" [("A", MArr)]];
     [SDef "A" []; SDef "B" [("A", MValue)]; SDef "A" [("B", MValue)]];
     [SFwd "B"; SDef "A" [("B", MValue)]; SDef "B" [("A", MPtr)]];
     [SFwd "B"; SDef "A" [("B", MValue)]; SDef "B" [("A", MValue)]]]%string =
  [Some (ESelfRec "A"); None; Some (ESelfRec "A"); Some (ECircular "A"); None; Some (ECircular "B")]%string.
Proof. vm_compute. reflexivity. Qed.
Example typedef_rho_tables :
  tm (fst (td_run empty_tables rho_program)) = [("A", "T"); ("C", "T"); ("T", "A")]%string /\
  snd (td_run empty_tables rho_program) = None /\
  map (resolved (fst (td_run empty_tables rho_program))) ["A"; "C"; "T"]%string = [""; ""; ""]%string.
Proof. vm_compute. repeat split; reflexivity. Qed.
Example typedef_chain_sample :
  let t := fst (td_run empty_tables [DTPrim "int[3]" "V"; DTStruct "S" "P"; DTStruct "P" "Q"; DTAlias "Q" "R"; DTAnon "N"]%string) in
  map (resolved t) ["V"; "P"; "Q"; "R"; "N"; "S"; "Z"]%string = ["int[3]"; "S"; "S"; "S"; "N"; "S"; ""]%string /\
  walk t "Q"%string 1 "S"%string.
Proof.
  split; [vm_compute; reflexivity|].
  eapply W_step with (next := "P"%string) (v := "S"%string); [vm_compute; reflexivity|discriminate|vm_compute; reflexivity|].
  apply W_out; [vm_compute; reflexivity|discriminate|vm_compute; reflexivity].
Qed.
Example dash_d_empty_name : fst (dash_d (s2l "=5")) = [] /\ snd (dash_d (s2l "=5")) = s2l "5".
Proof. vm_compute. auto. Qed.
Example dash_d_plain : dash_d (s2l "DEBUG") = (s2l "DEBUG", s2l "1").
Proof. vm_compute. reflexivity. Qed.
Example lex_sample : map tname (lex_all (Lexer.s2l "a<<=1; // c")) =
  ["TOK_IDENTIFIER"; "TOK_LSHIFT_ASSIGN"; "TOK_NUMBER"; "TOK_SEMICOLON"; "TOK_EOF"]%string.
Proof. vm_compute. reflexivity. Qed.
Example verdict_sample :
  map (fun s => expr_verdict (Lexer.s2l s)) ["a + b * 2"; "a +"; "a ? b : c"; "f(a, b)[3].x++"; "((a)) - 1"]%string =
  [VAccept; VReject; VAccept; VAccept; VAccept].
Proof. vm_compute. reflexivity. Qed.
Example verdict_prefix_keywords :
  map (fun s => expr_verdict (Lexer.s2l s)) ["try a"; "await checked try -a"; "try"; "checked ! ~ a + try b"; "a try b"]%string =
  [VAccept; VAccept; VReject; VAccept; VReject].
Proof. vm_compute. reflexivity. Qed.
Example prefix_chain_hypothesis_satisfiable :
  forallb is_prefix [TKw KTry; TKw KChecked; TKw KAwait; TNot; TOp Sub; TTilde; TOp BAnd; TOp Mul] = true.
Proof. reflexivity. Qed.
Example chain_is_accepted : exists e, parse (chain 5 ++ [TRP; TSemi]) = Ok (e, [TRP; TSemi]).
Proof. apply chain_parses. lia. Qed.
