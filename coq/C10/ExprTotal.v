(* C10 - the expression-ladder model (ExprParse.v) is total with LINEAR recursion depth:

   parse_total_l     : with fuel K*(|tokens|+1), K = 15 = L+5 frames per token, none of the eight
                       mutually recursive functions ever answers Fuel - for EVERY token list
                       (well-formed or not, any nesting depth);
   parse_progress_l  : a successful parse consumes at least one token (this is what makes every
                       loop iteration of the ladder, of parsePostfix and of the argument list
                       advance);
   the type-argument look-ahead of parsePrimary returns a suffix of its input (targs_list_le).

   The proof is one induction on the fuel carrying, for each function X, the statement
   "need_X(|ts|) <= fuel -> X fuel ts <> Fuel /\ on Ok the rest is (strictly) shorter". *)
From Coq Require Import List Arith Bool Ascii String Lia.
From Cb Require Import C10.Lexer C10.ExprParse.
Import ListNotations.

Notation ln := (@List.length tok).

(* ---------- one-step unfoldings ---------- *)
Lemma p_assign_S f ts : p_assign (S f) ts =
  bind (p_tern f ts) (fun lr =>
    match lr with
    | (l, TAsg o :: r) =>
        bind (p_assign f r) (fun vr => let (v, r') := vr in
          if valid_target o l then Ok (Asg o l v, r') else Err)
    | _ => Ok lr
    end).
Proof. reflexivity. Qed.

Lemma p_tern_S f ts : p_tern (S f) ts =
  bind (p_bin f 1 ts) (fun cr =>
    match cr with
    | (c, TQ :: r) =>
        if closer r then Ok (EProp c, r)
        else match p_tern f r with
             | Ok (a, TColon :: r2) =>
                 match p_tern f r2 with
                 | Ok (b, r3) => Ok (Tern c a b, r3)
                 | Err => Ok (EProp c, r)
                 | Fuel => Fuel
                 end
             | Ok _ => Ok (EProp c, r)
             | Err => Ok (EProp c, r)
             | Fuel => Fuel
             end
    | _ => Ok cr
    end).
Proof. reflexivity. Qed.

Lemma p_bin_S f l ts : p_bin (S f) l ts =
  if L <? l then p_unary f ts
  else bind (p_bin f (S l) ts) (fun ar => let (a, r) := ar in bin_loop f l a r).
Proof. reflexivity. Qed.

Lemma bin_loop_S f l acc ts : bin_loop (S f) l acc ts =
  match ts with
  | TOp o :: r =>
      if lvl o =? l then
        bind (p_bin f (S l) r) (fun br => let (b, r') := br in bin_loop f l (Bin o acc b) r')
      else Ok (acc, ts)
  | _ => Ok (acc, ts)
  end.
Proof. reflexivity. Qed.

Lemma p_unary_S f ts : p_unary (S f) ts =
  match unary_tok ts with
  | Some (u, r) => bind (p_unary f r) (fun ar => let (a, r') := ar in Ok (u a, r'))
  | None =>
      match ts with
      | TInc :: r =>
          bind (bind (p_primary f r) (fun er => let (e, r1) := er in post_loop f e r1))
               (fun ar => let (a, r') := ar in Ok (Pre true a, r'))
      | TDec :: r =>
          bind (bind (p_primary f r) (fun er => let (e, r1) := er in post_loop f e r1))
               (fun ar => let (a, r') := ar in Ok (Pre false a, r'))
      | _ => bind (p_primary f ts) (fun er => let (e, r1) := er in post_loop f e r1)
      end
  end.
Proof. reflexivity. Qed.

Lemma post_loop_S f e ts : post_loop (S f) e ts =
  match ts with
  | TLB :: r =>
      bind (p_assign f r) (fun ir =>
        match ir with
        | (i, TRB :: r') => post_loop f (Idx e i) r'
        | _ => Err
        end)
  | TDot :: TId m :: r => if starts_lp r then Err else post_loop f (Mem e m) r
  | TDot :: _ => Err
  | TArrow :: TId m :: r => if starts_lp r then Err else post_loop f (Arrow e m) r
  | TArrow :: _ => Err
  | TInc :: r => Ok (Post true e, r)
  | TDec :: r => Ok (Post false e, r)
  | TLP :: _ => match e with Un Deref _ => Err | _ => Ok (e, ts) end
  | _ => Ok (e, ts)
  end.
Proof. reflexivity. Qed.

Lemma p_primary_S f ts : p_primary (S f) ts =
  match ts with
  | TNum n :: r => Ok (Num n, r)
  | TId x :: TOp LtO :: r1 =>
      if generic_scan_b scan_bound 1 r1 then
        match targs_list (S (List.length r1)) 0 r1 with
        | Some (n, TLP :: r2) =>
            bind (p_args f r2) (fun ar =>
              let (args, r3) := ar in
              if starts_lp r3 then Err else Ok (Generic n (Call x args), r3))
        | Some (_, r2) => Ok (Var x, r2)
        | None => Err
        end
      else Ok (Var x, TOp LtO :: r1)
  | TId x :: TLP :: r1 =>
      bind (p_args f r1) (fun ar =>
        let (args, r2) := ar in
        if starts_lp r2 then Err else Ok (Call x args, r2))
  | TId x :: r => Ok (Var x, r)
  | TLP :: r =>
      bind (p_assign f r) (fun er =>
        match er with
        | (e, TRP :: r') => Ok (e, r')
        | _ => Err
        end)
  | _ => Err
  end.
Proof. reflexivity. Qed.

Lemma p_args_S f ts : p_args (S f) ts =
  match ts with
  | TRP :: r => Ok ([], r)
  | _ =>
      bind (p_assign f ts) (fun ar =>
        match ar with
        | (a, TComma :: r) =>
            match r with
            | TRP :: _ => Err
            | _ => bind (p_args f r) (fun asr => let (l, r') := asr in Ok (a :: l, r'))
            end
        | (a, TRP :: r) => Ok ([a], r)
        | _ => Err
        end)
  end.
Proof. reflexivity. Qed.

(* ---------- the look-aheads return suffixes ---------- *)
Lemma targs_one_le : forall ts d ne b r, targs_one d ne ts = Some (b, r) -> ln r <= ln ts.
Proof.
  induction ts as [|t ts IH]; intros d ne b r H; simpl in H; [discriminate|].
  destruct t; try discriminate;
    try (apply IH in H; simpl; lia).
  - destruct o; try discriminate; try (apply IH in H; simpl; lia).
    destruct d; [inversion H; subst; simpl; lia | apply IH in H; simpl; lia].
  - destruct d; [inversion H; subst; simpl; lia | discriminate].
Qed.

Lemma targs_list_le : forall fuel n ts m r, targs_list fuel n ts = Some (m, r) -> ln r < ln ts.
Proof.
  induction fuel as [|f IH]; intros n ts m r H; simpl in H; [discriminate|].
  destruct (targs_one 0 false ts) as [[ne r0]|] eqn:E; [|discriminate].
  apply targs_one_le in E.
  destruct r0 as [|t r0']; [discriminate|].
  destruct t; try discriminate.
  - destruct o; try discriminate. inversion H; subst. simpl in E. lia.
  - apply IH in H. simpl in E. lia.
Qed.

Lemma unary_tok_len : forall ts u r, unary_tok ts = Some (u, r) -> ln ts = S (ln r).
Proof.
  intros ts u r H. destruct ts as [|t ts]; [discriminate|].
  destruct t; try discriminate; try (inversion H; subst; reflexivity).
  destruct o; try discriminate; inversion H; subst; reflexivity.
Qed.

(* ---------- fuel needed by each function on n tokens ---------- *)
Definition n_prim (n : nat) := 1 + K * n.
Definition n_post (n : nat) := 1 + K * n.
Definition n_unary (n : nat) := 2 + K * n.
Definition n_bin (l n : nat) := 3 + (11 - l) + K * n.
Definition n_tern (n : nat) := 14 + K * n.
Definition n_assign (n : nat) := 15 + K * n.
Definition n_args (n : nat) := 16 + K * n.

(* [good x n d]: x is not Fuel and, when it is Ok, at most n - d tokens are left *)
Definition good {A} (x : res (A * list tok)) (n d : nat) : Prop :=
  match x with
  | Fuel => False
  | Err => True
  | Ok (_, r) => ln r + d <= n
  end.

Definition inv (f : nat) : Prop :=
  (forall ts, n_assign (ln ts) <= f -> good (p_assign f ts) (ln ts) 1) /\
  (forall ts, n_tern (ln ts) <= f -> good (p_tern f ts) (ln ts) 1) /\
  (forall l ts, n_bin l (ln ts) <= f -> good (p_bin f l ts) (ln ts) 1) /\
  (forall l acc ts, n_bin l (ln ts) <= f -> good (bin_loop f l acc ts) (ln ts) 0) /\
  (forall ts, n_unary (ln ts) <= f -> good (p_unary f ts) (ln ts) 1) /\
  (forall e ts, n_post (ln ts) <= f -> good (post_loop f e ts) (ln ts) 0) /\
  (forall ts, n_prim (ln ts) <= f -> good (p_primary f ts) (ln ts) 1) /\
  (forall ts, n_args (ln ts) <= f -> good (p_args f ts) (ln ts) 1).

Ltac unfold_needs := unfold n_prim, n_post, n_unary, n_bin, n_tern, n_assign, n_args, K in *.

(* use an induction hypothesis [H : forall args, need <= f -> good (X f args) n d] on a call *)
Ltac use_ih H args :=
  let G := fresh "G" in
  assert (G := H args); cbn [List.length] in G;
  let G' := fresh "G" in
  assert (G' := G ltac:(unfold_needs; cbn [List.length] in *; lia)); clear G.

Lemma inv_all : forall f, inv f.
Proof.
  induction f as [|f IH].
  { unfold inv. unfold_needs. repeat split; intros; lia. }
  destruct IH as (IHa & IHt & IHb & IHl & IHu & IHp & IHpr & IHar).
  unfold inv. repeat split.
  - (* p_assign *)
    intros ts Hn. rewrite p_assign_S.
    assert (G := IHt ts ltac:(unfold_needs; lia)).
    destruct (p_tern f ts) as [[l r]| |]; cbn [bind good] in *; auto.
    destruct r as [|t r]; cbn [good]; try lia.
    destruct t; cbn [good]; try lia.
    cbn [List.length] in G.
    assert (G2 := IHa r ltac:(unfold_needs; lia)).
    destruct (p_assign f r) as [[v r']| |]; cbn [bind good] in *; auto.
    destruct (valid_target o l); cbn [good]; auto; try lia.
  - (* p_tern *)
    intros ts Hn. rewrite p_tern_S.
    assert (G := IHb 1 ts ltac:(unfold_needs; lia)).
    destruct (p_bin f 1 ts) as [[c r]| |]; cbn [bind good] in *; auto.
    destruct r as [|t r]; cbn [good]; try lia.
    destruct t; cbn [good]; try lia.
    cbn [List.length] in G.
    destruct (closer r); cbn [good]; [lia|].
    assert (G2 := IHt r ltac:(unfold_needs; lia)).
    destruct (p_tern f r) as [[a r2]| |]; cbn [good] in *; try lia.
    destruct r2 as [|t2 r2]; cbn [good]; try lia.
    destruct t2; cbn [good]; try lia.
    cbn [List.length] in G2.
    assert (G3 := IHt r2 ltac:(unfold_needs; lia)).
    destruct (p_tern f r2) as [[b r3]| |]; cbn [good] in *; try lia.
  - (* p_bin *)
    intros l ts Hn. rewrite p_bin_S.
    destruct (L <? l) eqn:El.
    + assert (G := IHu ts ltac:(unfold_needs; lia)). exact G.
    + apply Nat.ltb_ge in El. unfold L in El.
      assert (G := IHb (S l) ts ltac:(unfold_needs; lia)).
      destruct (p_bin f (S l) ts) as [[a r]| |]; cbn [bind good] in *; auto.
      assert (G2 := IHl l a r ltac:(unfold_needs; lia)).
      destruct (bin_loop f l a r) as [[a' r']| |]; cbn [good] in *; auto; try lia.
  - (* bin_loop *)
    intros l acc ts Hn. rewrite bin_loop_S.
    destruct ts as [|t r]; cbn [good List.length]; try lia.
    destruct t; cbn [good List.length]; try lia.
    destruct (lvl o =? l); cbn [good List.length]; try lia.
    cbn [List.length] in Hn.
    assert (G := IHb (S l) r ltac:(unfold_needs; lia)).
    destruct (p_bin f (S l) r) as [[b r']| |]; cbn [bind good] in *; auto.
    assert (G2 := IHl l (Bin o acc b) r' ltac:(unfold_needs; lia)).
    destruct (bin_loop f l (Bin o acc b) r') as [[a' r'']| |]; cbn [good] in *; auto; try lia.
  - (* p_unary *)
    intros ts Hn. rewrite p_unary_S.
    destruct (unary_tok ts) as [[u r]|] eqn:Eu.
    + apply unary_tok_len in Eu.
      assert (G := IHu r ltac:(unfold_needs; lia)).
      destruct (p_unary f r) as [[a r']| |]; cbn [bind good] in *; auto; try lia.
    + assert (Hgen : forall ts0, ln ts0 <= ln ts ->
                good (bind (p_primary f ts0) (fun er => let (e, r1) := er in post_loop f e r1)) (ln ts0) 1).
      { intros ts0 Hle.
        assert (G := IHpr ts0 ltac:(unfold_needs; lia)).
        destruct (p_primary f ts0) as [[e r1]| |]; cbn [bind good] in *; auto.
        assert (G2 := IHp e r1 ltac:(unfold_needs; lia)).
        destruct (post_loop f e r1) as [[a r']| |]; cbn [good] in *; auto; try lia. }
      assert (Hincdec : forall (b : bool) r, ln ts = S (ln r) ->
                good (bind (bind (p_primary f r) (fun er => let (e, r1) := er in post_loop f e r1))
                           (fun ar => let (a, r') := ar in Ok (Pre b a, r'))) (ln ts) 1).
      { intros b r Hl. assert (G := Hgen r ltac:(lia)).
        destruct (bind (p_primary f r) (fun er => let (e, r1) := er in post_loop f e r1)) as [[a r']| |];
          cbn [bind good] in *; auto; try lia. }
      destruct ts as [|t r]; [apply Hgen; lia|].
      destruct t; try (apply Hgen; lia); apply Hincdec; reflexivity.
  - (* post_loop *)
    intros e ts Hn. rewrite post_loop_S.
    destruct ts as [|t r]; cbn [good List.length]; try lia.
    cbn [List.length] in Hn.
    destruct t; cbn [good List.length]; try lia.
    + (* TLP *) destruct e; cbn [good List.length]; try lia. destruct u; cbn [good List.length]; try lia.
    + (* TLB *)
      assert (G := IHa r ltac:(unfold_needs; lia)).
      destruct (p_assign f r) as [[i r']| |]; cbn [bind good] in *; auto.
      destruct r' as [|t2 r']; cbn [good]; auto.
      destruct t2; cbn [good]; auto.
      cbn [List.length] in G.
      assert (G2 := IHp (Idx e i) r' ltac:(unfold_needs; lia)).
      destruct (post_loop f (Idx e i) r') as [[a r'']| |]; cbn [good] in *; auto; try lia.
    + (* TDot *)
      destruct r as [|t2 r]; cbn [good]; auto.
      destruct t2; cbn [good]; auto.
      destruct (starts_lp r); cbn [good]; auto.
      cbn [List.length] in Hn.
      assert (G2 := IHp (Mem e s) r ltac:(unfold_needs; lia)).
      destruct (post_loop f (Mem e s) r) as [[a r'']| |]; cbn [good List.length] in *; auto; try lia.
    + (* TArrow *)
      destruct r as [|t2 r]; cbn [good]; auto.
      destruct t2; cbn [good]; auto.
      destruct (starts_lp r); cbn [good]; auto.
      cbn [List.length] in Hn.
      assert (G2 := IHp (Arrow e s) r ltac:(unfold_needs; lia)).
      destruct (post_loop f (Arrow e s) r) as [[a r'']| |]; cbn [good List.length] in *; auto; try lia.
  - (* p_primary *)
    intros ts Hn. rewrite p_primary_S.
    destruct ts as [|t r]; cbn [good]; auto.
    cbn [List.length] in Hn.
    destruct t; cbn [good List.length]; auto; try lia.
    + (* TId *)
      destruct r as [|t2 r1]; cbn [good List.length]; try lia.
      cbn [List.length] in Hn.
      destruct t2; cbn [good List.length]; try lia.
      * (* TOp *)
        destruct o; cbn [good List.length]; try lia.
        destruct (generic_scan_b scan_bound 1 r1); cbn [good List.length]; try lia.
        destruct (targs_list (S (List.length r1)) 0 r1) as [[n r2]|] eqn:Et; cbn [good]; auto.
        apply targs_list_le in Et.
        destruct r2 as [|t3 r2]; cbn [good List.length] in *; try lia.
        destruct t3; cbn [good List.length] in *; try lia.
        assert (G := IHar r2 ltac:(unfold_needs; lia)).
        destruct (p_args f r2) as [[args r3]| |]; cbn [bind good] in *; auto.
        destruct (starts_lp r3); cbn [good]; auto; try lia.
      * (* TLP: call *)
        assert (G := IHar r1 ltac:(unfold_needs; lia)).
        destruct (p_args f r1) as [[args r2]| |]; cbn [bind good] in *; auto.
        destruct (starts_lp r2); cbn [good]; auto; try lia.
    + (* TLP *)
      assert (G := IHa r ltac:(unfold_needs; lia)).
      destruct (p_assign f r) as [[e r']| |]; cbn [bind good] in *; auto.
      destruct r' as [|t2 r']; cbn [good]; auto.
      destruct t2; cbn [good]; auto. cbn [List.length] in G. lia.
  - (* p_args *)
    intros ts Hn. rewrite p_args_S.
    assert (Hgen : good (bind (p_assign f ts) (fun ar =>
        match ar with
        | (a, TComma :: r) =>
            match r with
            | TRP :: _ => Err
            | _ => bind (p_args f r) (fun asr => let (l, r') := asr in Ok (a :: l, r'))
            end
        | (a, TRP :: r) => Ok ([a], r)
        | _ => Err
        end)) (ln ts) 1).
    { assert (G := IHa ts ltac:(unfold_needs; lia)).
      destruct (p_assign f ts) as [[a r]| |]; cbn [bind good] in *; auto.
      destruct r as [|t2 r]; cbn [good]; auto.
      destruct t2; cbn [good]; auto; cbn [List.length] in G; try lia.
      assert (G2 := IHar r ltac:(unfold_needs; lia)).
      assert (Hb : good (bind (p_args f r) (fun asr => let (l, r') := asr in Ok (a :: l, r'))) (ln ts) 1).
      { destruct (p_args f r) as [[l r']| |]; cbn [bind good] in *; auto; try lia. }
      destruct r as [|t3 r]; [exact Hb|]. destruct t3; try exact Hb. cbn [good]. auto. }
    destruct ts as [|t r]; [exact Hgen|].
    destruct t; try exact Hgen. cbn [good List.length]. lia.
Qed.

Theorem parse_total_l : forall ts f, need (ln ts) <= f -> p_assign f ts <> Fuel.
Proof.
  intros ts f Hf. destruct (inv_all f) as (IHa & _).
  assert (G := IHa ts ltac:(unfold need, n_assign, K in *; lia)).
  intros E. rewrite E in G. exact G.
Qed.

Theorem parse_progress_l : forall f ts e r, p_assign f ts = Ok (e, r) -> ln r < ln ts.
Proof.
  (* with little fuel the call may be Fuel/Err; when it is Ok the bound comes from a run with
     enough fuel only if results are fuel-independent - so prove it directly by the same
     induction without the fuel premise *)
  assert (P : forall f,
    (forall ts e r, p_assign f ts = Ok (e, r) -> ln r < ln ts) /\
    (forall ts e r, p_tern f ts = Ok (e, r) -> ln r < ln ts) /\
    (forall l ts e r, p_bin f l ts = Ok (e, r) -> ln r < ln ts) /\
    (forall l acc ts e r, bin_loop f l acc ts = Ok (e, r) -> ln r <= ln ts) /\
    (forall ts e r, p_unary f ts = Ok (e, r) -> ln r < ln ts) /\
    (forall e0 ts e r, post_loop f e0 ts = Ok (e, r) -> ln r <= ln ts) /\
    (forall ts e r, p_primary f ts = Ok (e, r) -> ln r < ln ts) /\
    (forall ts e r, p_args f ts = Ok (e, r) -> ln r < ln ts)).
  { induction f as [|f IH].
    { repeat split; intros; discriminate. }
    destruct IH as (IHa & IHt & IHb & IHl & IHu & IHp & IHpr & IHar).
    repeat split.
    - intros ts e r. rewrite p_assign_S.
      destruct (p_tern f ts) as [[l r0]| |] eqn:E1; cbn [bind]; try discriminate.
      apply IHt in E1.
      destruct r0 as [|t r0]; [intros [= <- <-]; exact E1|].
      destruct t; try (intros [= <- <-]; exact E1).
      destruct (p_assign f r0) as [[v r']| |] eqn:E2; cbn [bind]; try discriminate.
      apply IHa in E2. destruct (valid_target o l); try discriminate.
      intros [= <- <-]. cbn [List.length] in *. lia.
    - intros ts e r. rewrite p_tern_S.
      destruct (p_bin f 1 ts) as [[c r0]| |] eqn:E1; cbn [bind]; try discriminate.
      apply IHb in E1.
      destruct r0 as [|t r0]; [intros [= <- <-]; exact E1|].
      destruct t; try (intros [= <- <-]; exact E1).
      cbn [List.length] in E1.
      destruct (closer r0); [intros [= <- <-]; lia|].
      destruct (p_tern f r0) as [[a r2]| |] eqn:E2; try discriminate; try (intros [= <- <-]; lia).
      apply IHt in E2.
      destruct r2 as [|t2 r2]; try (intros [= <- <-]; lia).
      destruct t2; try (intros [= <- <-]; lia).
      cbn [List.length] in E2.
      destruct (p_tern f r2) as [[b r3]| |] eqn:E3; try discriminate; try (intros [= <- <-]; lia).
      apply IHt in E3. intros [= <- <-]. lia.
    - intros l ts e r. rewrite p_bin_S.
      destruct (L <? l); [apply IHu|].
      destruct (p_bin f (S l) ts) as [[a r0]| |] eqn:E1; cbn [bind]; try discriminate.
      apply IHb in E1. intros E2. apply IHl in E2. lia.
    - intros l acc ts e r. rewrite bin_loop_S.
      destruct ts as [|t r0]; [intros [= <- <-]; lia|].
      destruct t; try (intros [= <- <-]; lia).
      destruct (lvl o =? l); [|intros [= <- <-]; lia].
      destruct (p_bin f (S l) r0) as [[b r']| |] eqn:E1; cbn [bind]; try discriminate.
      apply IHb in E1. intros E2. apply IHl in E2. cbn [List.length]. lia.
    - intros ts e r. rewrite p_unary_S.
      assert (Hgen : forall ts0 e r, bind (p_primary f ts0) (fun er => let (e, r1) := er in post_loop f e r1) = Ok (e, r) ->
                     ln r < ln ts0).
      { intros ts0 e1 r1.
        destruct (p_primary f ts0) as [[e0 r0]| |] eqn:E1; cbn [bind]; try discriminate.
        apply IHpr in E1. intros E2. apply IHp in E2. lia. }
      destruct (unary_tok ts) as [[u r0]|] eqn:Eu.
      + apply unary_tok_len in Eu.
        destruct (p_unary f r0) as [[a r']| |] eqn:E1; cbn [bind]; try discriminate.
        apply IHu in E1. intros [= <- <-]. lia.
      + destruct ts as [|t r0]; [apply Hgen|].
        destruct t; try apply Hgen.
        * destruct (bind (p_primary f r0) (fun er => let (e, r1) := er in post_loop f e r1)) as [[a r']| |] eqn:E1;
            cbn [bind]; try discriminate.
          apply Hgen in E1. intros [= <- <-]. cbn [List.length]. lia.
        * destruct (bind (p_primary f r0) (fun er => let (e, r1) := er in post_loop f e r1)) as [[a r']| |] eqn:E1;
            cbn [bind]; try discriminate.
          apply Hgen in E1. intros [= <- <-]. cbn [List.length]. lia.
    - intros e0 ts e r. rewrite post_loop_S.
      destruct ts as [|t r0]; [intros [= <- <-]; lia|].
      destruct t; try (intros [= <- <-]; cbn [List.length]; lia).
      + destruct e0; try (intros [= <- <-]; cbn [List.length]; lia).
        destruct u; try (intros [= <- <-]; cbn [List.length]; lia).
      + destruct (p_assign f r0) as [[i r']| |] eqn:E1; cbn [bind]; try discriminate.
        apply IHa in E1. destruct r' as [|t2 r']; try discriminate.
        destruct t2; try discriminate. intros E2. apply IHp in E2. cbn [List.length] in *. lia.
      + destruct r0 as [|t2 r0]; try discriminate. destruct t2; try discriminate.
        destruct (starts_lp r0); try discriminate. intros E2. apply IHp in E2. cbn [List.length]. lia.
      + destruct r0 as [|t2 r0]; try discriminate. destruct t2; try discriminate.
        destruct (starts_lp r0); try discriminate. intros E2. apply IHp in E2. cbn [List.length]. lia.
    - intros ts e r. rewrite p_primary_S.
      destruct ts as [|t r0]; try discriminate.
      destruct t; try discriminate; try (intros [= <- <-]; cbn [List.length]; lia).
      + destruct r0 as [|t2 r1]; [intros [= <- <-]; cbn [List.length]; lia|].
        destruct t2; try (intros [= <- <-]; cbn [List.length]; lia).
        * destruct o; try (intros [= <- <-]; cbn [List.length]; lia).
          destruct (generic_scan_b scan_bound 1 r1); [|intros [= <- <-]; cbn [List.length]; lia].
          destruct (targs_list (S (List.length r1)) 0 r1) as [[n r2]|] eqn:Et; try discriminate.
          apply targs_list_le in Et.
          destruct r2 as [|t3 r2]; [intros [= <- <-]; cbn [List.length] in *; lia|].
          destruct t3; try (intros [= <- <-]; cbn [List.length] in *; lia).
          destruct (p_args f r2) as [[args r3]| |] eqn:E1; cbn [bind]; try discriminate.
          apply IHar in E1. destruct (starts_lp r3); try discriminate.
          intros [= <- <-]. cbn [List.length] in *. lia.
        * destruct (p_args f r1) as [[args r2]| |] eqn:E1; cbn [bind]; try discriminate.
          apply IHar in E1. destruct (starts_lp r2); try discriminate.
          intros [= <- <-]. cbn [List.length] in *. lia.
      + destruct (p_assign f r0) as [[e1 r']| |] eqn:E1; cbn [bind]; try discriminate.
        apply IHa in E1. destruct r' as [|t2 r']; try discriminate.
        destruct t2; try discriminate. intros [= <- <-]. cbn [List.length] in *. lia.
    - intros ts e r. rewrite p_args_S.
      assert (Hgen : bind (p_assign f ts) (fun ar =>
        match ar with
        | (a, TComma :: r) =>
            match r with
            | TRP :: _ => Err
            | _ => bind (p_args f r) (fun asr => let (l, r') := asr in Ok (a :: l, r'))
            end
        | (a, TRP :: r) => Ok ([a], r)
        | _ => Err
        end) = Ok (e, r) -> ln r < ln ts).
      { destruct (p_assign f ts) as [[a r0]| |] eqn:E1; cbn [bind]; try discriminate.
        apply IHa in E1. destruct r0 as [|t2 r0]; try discriminate.
        destruct t2; try discriminate.
        - intros [= <- <-]. cbn [List.length] in *. lia.
        - assert (Hb : bind (p_args f r0) (fun asr => let (l, r') := asr in Ok (a :: l, r')) = Ok (e, r) -> ln r < ln ts).
          { destruct (p_args f r0) as [[l r']| |] eqn:E2; cbn [bind]; try discriminate.
            apply IHar in E2. intros [= <- <-]. cbn [List.length] in *. lia. }
          destruct r0 as [|t3 r0]; [exact Hb|]. destruct t3; try exact Hb. discriminate. }
      destruct ts as [|t r0]; [exact Hgen|].
      destruct t; try exact Hgen. intros [= <- <-]. cbn [List.length]. lia. }
  intros f. exact (proj1 (P f)).
Qed.

(* ---------- the generic-call look-ahead is not linear (finding #38) ---------- *)
Definition id_a : tok := TId (s2l "a").
(* a < a < ... < a  with n comparisons: a valid comparison chain without any > *)
Fixpoint chain (n : nat) : list tok :=
  match n with 0 => [id_a] | S k => id_a :: TOp LtO :: chain k end.

Lemma chain_len n : ln (chain n) = 2 * n + 1.
Proof. induction n as [|n IH]; simpl in *; lia. Qed.

Lemma chain_cost : forall n d, generic_scan_cost d (chain n) = ln (chain n).
Proof.
  induction n as [|n IH]; intros d; [reflexivity|].
  cbn [chain generic_scan_cost id_a List.length]. rewrite IH. reflexivity.
Qed.

Lemma chain_scan_total n : scan_total (chain n) = n * n.
Proof.
  induction n as [|n IH]; [reflexivity|].
  cbn [chain scan_total id_a]. fold id_a. rewrite chain_cost, chain_len.
  destruct n as [|m]; [reflexivity|].
  rewrite IH. lia.
Qed.

Lemma chain_parses : forall n, n <= 6 ->
  exists e, parse (chain n ++ [TRP; TSemi]) = Ok (e, [TRP; TSemi]).
Proof.
  intros n H. do 7 (destruct n as [|n]; [eexists; vm_compute; reflexivity|]). lia.
Qed.

Theorem lookahead_quadratic_l : forall c, exists ts, c * ln ts < scan_total ts.
Proof.
  intros c. exists (chain (3 * c + 3)). rewrite chain_scan_total, chain_len. nia.
Qed.

(* ---------- lexer + ladder: the verdict function never runs out of fuel ---------- *)
Theorem parse_never_fuel_l : forall ts, parse ts <> Fuel.
Proof. intros ts. unfold parse. apply parse_total_l. lia. Qed.

Theorem verdict_never_fuel_l : forall src, expr_verdict src <> VFuel.
Proof.
  intros src. unfold expr_verdict.
  destruct (negb (ends_in_eof (lex_all src)) || existsb is_other (expr_tokens src)); [discriminate|].
  pose proof (parse_never_fuel_l (expr_tokens src)) as H.
  destruct (parse (expr_tokens src)) as [[e r]| |]; try discriminate; [|congruence].
  destruct r as [|t r]; try discriminate.
  destruct t; try discriminate.
  destruct r as [|t r]; try discriminate.
  destruct t; try discriminate.
  destruct r; discriminate.
Qed.
