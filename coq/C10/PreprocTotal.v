(* C10 - termination measures of the preprocessor model (coq/C17/Model.v).

   search3_total_l         : for a non-empty macro name the inner find-loop of expandMacros makes at
                             most |line| - pos + 1 iterations (search3 never answers SFuel), and the
                             fuel-collapsed C17.search is the same function for every larger fuel;
   sweep_fuel_sufficient_l : the per-macro replacement loop makes at most |line| - pos + 1
                             iterations, so the fuel S |line| used by C17.Model.pass is never the
                             reason it stops;
   expand_size_bounded_l   : the expanded line is at most |line| + max_growth + longest body long
                             (growth bound of expandMacros, fix 6b05a50);
   search_empty_name_spins : with an EMPTY name the loop never advances (pos += 0): on the line
                             "a" it is still running after any number of iterations - the reason
                             why pass skips empty names (fix e201f6d);
   classify_define_nonempty, process_names_nonempty_l : a #define directive never yields an
                             object-like macro with an empty name, and process keeps the table
                             free of them - an empty name can only come from -D (dash_d "=5"). *)
From Coq Require Import List Arith NArith Bool Ascii String Lia.
From Cb Require Import C17.Model C17.Expand C10.Model.
Import ListNotations.

Lemma is_prefix_len : forall n t, is_prefix n t = true -> List.length n <= List.length t.
Proof.
  induction n as [|x n IH]; intros t H; simpl; [lia|].
  destruct t as [|y t]; [discriminate|]. simpl in H. apply andb_true_iff in H as [_ H].
  apply IH in H. simpl. lia.
Qed.

Lemma find_from_bounds name s pos p : name <> [] -> find_from name s pos = Some p ->
  pos <= p /\ p + List.length name <= List.length s /\ 1 <= List.length name.
Proof.
  intros Hn H. apply find_from_sound in H as [H1 H2]. apply is_prefix_len in H2.
  rewrite skipn_length in H2. destruct name as [|c name]; [congruence|]. simpl in *. lia.
Qed.

Lemma search3_total_l : forall f name s rs pos, name <> [] ->
  List.length s - pos < f -> search3 f name s rs pos <> SFuel.
Proof.
  induction f as [|f IH]; intros name s rs pos Hn Hf; [lia|].
  cbn [search3]. destruct (find_from name s pos) as [p|] eqn:F; [|discriminate].
  apply find_from_bounds in F as (F1 & F2 & F3); auto.
  destruct (in_string p rs); [apply IH; auto; lia|].
  destruct (start_valid s p && end_valid s p (List.length name)); [discriminate|].
  apply IH; auto; lia.
Qed.

Lemma search3_agrees : forall f name s rs pos,
  match search3 f name s rs pos with
  | SFound p => search f name s rs pos = Some p
  | SNone => search f name s rs pos = None
  | SFuel => search f name s rs pos = None
  end.
Proof.
  induction f as [|f IH]; intros name s rs pos; cbn [search3 search]; [reflexivity|].
  destruct (find_from name s pos) as [p|]; [|reflexivity].
  destruct (in_string p rs); [apply IH|].
  destruct (start_valid s p && end_valid s p (List.length name)); [reflexivity|apply IH].
Qed.

Lemma search_fuel_irrelevant_l : forall f g name s rs pos, name <> [] ->
  List.length s - pos < f -> List.length s - pos < g ->
  search f name s rs pos = search g name s rs pos.
Proof.
  induction f as [|f IH]; intros g name s rs pos Hn Hf Hg; [lia|].
  destruct g as [|g]; [lia|].
  cbn [search]. destruct (find_from name s pos) as [p|] eqn:F; [|reflexivity].
  apply find_from_bounds in F as (F1 & F2 & F3); auto.
  destruct (in_string p rs); [apply IH; auto; lia|].
  destruct (start_valid s p && end_valid s p (List.length name)); [reflexivity|].
  apply IH; auto; lia.
Qed.

Lemma search_found_bounds f name s rs pos p : name <> [] -> search f name s rs pos = Some p ->
  pos <= p /\ p + List.length name <= List.length s /\ 1 <= List.length name.
Proof.
  intros Hn H. apply search_sound in H as (H1 & H2 & _). apply is_prefix_len in H2.
  rewrite skipn_length in H2. destruct name as [|c name]; [congruence|]. simpl in *. lia.
Qed.

Lemma replace_at_length s p n body : p + n <= List.length s ->
  List.length (replace_at s p n body) = List.length s - n + List.length body.
Proof.
  intros H. unfold replace_at. rewrite !app_length, firstn_length, skipn_length. lia.
Qed.

Lemma sweep_fuel_sufficient_l : forall f g limit name body s pos ch, name <> [] ->
  List.length s - pos < f -> List.length s - pos < g ->
  sweep f limit name body s pos ch = sweep g limit name body s pos ch.
Proof.
  induction f as [|f IH]; intros g limit name body s pos ch Hn Hf Hg; [lia|].
  destruct g as [|g]; [lia|].
  cbn [sweep].
  destruct (search (S (List.length s)) name s (string_ranges s) pos) as [p|] eqn:E; [|reflexivity].
  apply search_found_bounds in E as (E1 & E2 & E3); auto.
  destruct (too_large limit (replace_at s p (List.length name) body)); [reflexivity|].
  apply IH; auto; rewrite replace_at_length by lia; lia.
Qed.

(* ---------- size of the expansion: the growth bound of expandMacros ---------- *)
Lemma replace_at_le s p n body : List.length (replace_at s p n body) <= List.length s + List.length body.
Proof.
  unfold replace_at. rewrite !app_length, firstn_length, skipn_length. lia.
Qed.

Definition fits (limit : N) (s : str) : Prop := (N.of_nat (List.length s) <= limit)%N.
Definition sres_ok (limit : N) (b : nat) (r : C17.Model.sres) : Prop :=
  match r with
  | SGo s _ => fits limit s
  | SOver s => (N.of_nat (List.length s) <= limit + N.of_nat b)%N
  end.

Lemma too_large_false limit s : too_large limit s = false -> fits limit s.
Proof. unfold too_large, fits. intros H. apply N.ltb_ge in H. exact H. Qed.

Lemma sweep_size : forall f limit name body s pos ch, fits limit s ->
  sres_ok limit (List.length body) (sweep f limit name body s pos ch).
Proof.
  induction f as [|f IH]; intros limit name body s pos ch Hs; cbn [sweep sres_ok]; [exact Hs|].
  destruct (search (S (List.length s)) name s (string_ranges s) pos) as [p|]; [|exact Hs].
  destruct (too_large limit (replace_at s p (List.length name) body)) eqn:T.
  - cbn [sres_ok]. pose proof (replace_at_le s p (List.length name) body). unfold fits in Hs. lia.
  - apply IH. apply too_large_false. exact T.
Qed.

Fixpoint max_body (t : table) : nat :=
  match t with [] => 0 | m :: r => Nat.max (List.length (mbody m)) (max_body r) end.

Lemma sres_ok_mono limit a b r : a <= b -> sres_ok limit a r -> sres_ok limit b r.
Proof. intros H. destruct r; cbn [sres_ok]; [auto|lia]. Qed.

Lemma pass_size : forall t limit s ch, fits limit s -> sres_ok limit (max_body t) (pass limit t s ch).
Proof.
  induction t as [|m r IH]; intros limit s ch Hs; cbn [pass max_body]; [exact Hs|].
  destruct (mfn m).
  { eapply sres_ok_mono; [|apply IH; exact Hs]. lia. }
  destruct (mname m) as [|c nm] eqn:En.
  { eapply sres_ok_mono; [|apply IH; exact Hs]. lia. }
  pose proof (sweep_size (S (List.length s)) limit (c :: nm) (mbody m) s 0 ch Hs) as W.
  destruct (sweep (S (List.length s)) limit (c :: nm) (mbody m) s 0 ch) as [s' ch'|s'].
  - eapply sres_ok_mono; [|apply IH; exact W]. lia.
  - cbn [sres_ok] in *. lia.
Qed.

Lemma passes_size : forall n limit t s, fits limit s ->
  (N.of_nat (List.length (fst (passes n limit t s))) <= limit + N.of_nat (max_body t))%N.
Proof.
  induction n as [|n IH]; intros limit t s Hs; cbn [passes]; [unfold fits in Hs; cbn [fst]; lia|].
  pose proof (pass_size t limit s false Hs) as P.
  destruct (pass limit t s false) as [s' ch|s']; cbn [sres_ok] in P.
  - destruct ch; [apply IH; exact P | unfold fits in P; cbn [fst]; lia].
  - cbn [fst]. exact P.
Qed.

Theorem expand_size_bounded_l : forall t line,
  (N.of_nat (List.length (fst (expand t line))) <=
   N.of_nat (List.length line) + max_growth + N.of_nat (max_body t))%N.
Proof.
  intros t line. unfold expand.
  apply (passes_size max_iterations (N.of_nat (List.length line) + max_growth)%N t line).
  unfold fits, max_growth. lia.
Qed.

(* the empty name: find("", pos) = pos and pos += 0 *)
Definition line_a : str := s2l "a".
Lemma search_empty_name_spins : forall f, search3 f [] line_a [] 0 = SFuel.
Proof. induction f as [|f IH]; [reflexivity|]. cbn [search3]. exact IH. Qed.

(* ---------- a #define directive never creates an object-like macro with an empty name ---------- *)
Lemma drop_while_split f (l : str) : exists pre, l = pre ++ drop_while f l.
Proof.
  induction l as [|c r [pre IH]]; [exists []; reflexivity|].
  cbn [drop_while]. destruct (f c); [exists (c :: pre); simpl; f_equal; exact IH | exists []; reflexivity].
Qed.

Lemma drop_while_head f (l : str) : match drop_while f l with [] => True | c :: _ => f c = false end.
Proof.
  induction l as [|c r IH]; [exact I|]. cbn [drop_while]. destruct (f c) eqn:E; [exact IH|exact E].
Qed.

Lemma trim_head s : match trim s with [] => True | c :: _ => is_space c = false end.
Proof.
  unfold trim. set (t := drop_while is_space s).
  destruct (drop_while_split is_space (rev t)) as [pre Hp].
  assert (Ht : t = rev (drop_while is_space (rev t)) ++ rev pre).
  { rewrite <- (rev_involutive t) at 1. rewrite Hp at 1. rewrite rev_app_distr. reflexivity. }
  destruct (rev (drop_while is_space (rev t))) as [|c r] eqn:E; [exact I|].
  pose proof (drop_while_head is_space s) as H. fold t in H. rewrite Ht in H. exact H.
Qed.

Lemma find_first_pos f : forall s i p, find_first f s i = Some p ->
  i <= p /\ f (nth (p - i) s zero) = true /\ (p = i -> match s with c :: _ => f c = true | [] => False end).
Proof.
  induction s as [|c r IH]; intros i p H; [discriminate|].
  cbn [find_first] in H. destruct (f c) eqn:E.
  - inversion H; subst. rewrite Nat.sub_diag. simpl. auto.
  - apply IH in H as (H1 & H2 & H3). split; [lia|]. split.
    + replace (p - i) with (S (p - S i)) by lia. exact H2.
    + intros ->. lia.
Qed.

Lemma is_blank_space c : is_blank c = true -> is_space c = true.
Proof.
  unfold is_blank, is_space. intros H. apply orb_true_iff in H as [H|H]; apply Nat.eqb_eq in H; rewrite H; reflexivity.
Qed.

Lemma parse_define_name_nonempty content n b :
  (match content with [] => True | c :: _ => is_space c = false end) ->
  parse_define content = PDefine n b false -> n <> [].
Proof.
  intros Hh. unfold parse_define. destruct content as [|c0 content]; [discriminate|].
  destruct (find_first is_blank_or_paren (c0 :: content) 0) as [sp|] eqn:F.
  - destruct (code (nth sp (c0 :: content) zero) =? 40) eqn:E40.
    + destruct (find_first (fun c : ascii => code c =? 41) (skipn sp (c0 :: content)) sp); intros HH; inversion HH.
    + intros [= <- _]. apply find_first_pos in F as (_ & F2 & F3).
      destruct sp as [|sp]; [|simpl; discriminate].
      exfalso. specialize (F3 eq_refl). cbn in F3. simpl in E40.
      unfold is_blank_or_paren in F3. rewrite E40, orb_false_r in F3.
      apply is_blank_space in F3. congruence.
  - intros [= <- _]. discriminate.
Qed.

Lemma classify_define_nonempty line n b : classify line = KPlain (PDefine n b false) -> n <> [].
Proof.
  unfold classify. destruct (trim line) as [|c rest]; [discriminate|].
  destruct (code c =? 35); [|discriminate].
  destruct (trim rest) as [|t0 t] eqn:Et; [discriminate|].
  set (tt := t0 :: t).
  repeat match goal with
         | |- context [if ?b then _ else _] => destruct b
         | |- context [match ?x with [] => _ | _ :: _ => _ end] => destruct x
         end; try discriminate.
  destruct (find_first is_blank tt 0) as [p|]; intros H; injection H as H.
  - revert H. apply parse_define_name_nonempty. apply trim_head.
  - discriminate H.
Qed.

(* ---------- process keeps the macro table free of empty object-like names ---------- *)
Lemma In_insert m x t : In x (insert m t) -> x = m \/ In x t.
Proof.
  induction t as [|y r IH]; cbn [insert]; [intros [H|[]]; auto|].
  destruct (str_eqb (mname m) (mname y)).
  - intros [H|H]; [left; auto | right; right; exact H].
  - destruct (str_ltb (mname m) (mname y)).
    + intros [H|H]; [left; auto | right; exact H].
    + intros [H|H]; [right; left; exact H|]. apply IH in H as [H|H]; [left; exact H | right; right; exact H].
Qed.

Lemma In_erase n x t : In x (erase n t) -> In x t.
Proof.
  induction t as [|y r IH]; cbn [erase]; [auto|].
  destruct (str_eqb n (mname y)); [intros H; right; exact H|].
  intros [H|H]; [left; exact H | right; apply IH; exact H].
Qed.

Lemma nonempty_insert m t : (mfn m = false -> mname m <> []) -> names_nonempty t -> names_nonempty (insert m t).
Proof. intros Hm Ht x Hx. apply In_insert in Hx as [->|Hx]; [exact Hm | apply Ht; exact Hx]. Qed.

Lemma nonempty_erase n t : names_nonempty t -> names_nonempty (erase n t).
Proof. intros Ht x Hx. apply In_erase in Hx. apply Ht; exact Hx. Qed.

Lemma tab_fail_line live c raw : tab (fail_line live c raw) = tab c.
Proof. unfold fail_line. destruct live; reflexivity. Qed.

Lemma nonempty_tick c : names_nonempty (tab c) -> names_nonempty (tab (tick c)).
Proof.
  intros H. unfold tick. cbn [tab].
  apply nonempty_insert; [intros _; discriminate|].
  apply nonempty_insert; [intros _; discriminate|exact H].
Qed.

Lemma nonempty_plain_step live c raw k :
  (forall n b, k = PDefine n b false -> n <> []) ->
  names_nonempty (tab c) -> names_nonempty (tab (plain_step live c raw k)).
Proof.
  intros Hk H. destruct k; cbn [plain_step]; destruct live; rewrite ?tab_fail_line; cbn [tab add_err add_warn emit]; auto.
  - (* PText *) destruct (expand (tab c) raw) as [e [|]]; cbn [tab add_err emit]; exact H.
  - (* PDefine *) unfold with_tab. cbn [tab]. destruct fn; cbn [tab add_warn].
    + apply nonempty_insert; [cbn; discriminate | exact H].
    + apply nonempty_insert; [cbn; intros _; eapply Hk; reflexivity | exact H].
  - (* PUndef *) unfold with_tab. cbn [tab]. apply nonempty_erase. exact H.
Qed.

Ltac fin := unfold mkp; cbn [cor]; rewrite ?tab_fail_line; match goal with H : _ |- _ => exact H end.

Lemma nonempty_step p raw :
  names_nonempty (tab (cor p)) -> names_nonempty (tab (cor (step p (raw, classify raw)))).
Proof.
  intros H. unfold step. cbn [fst snd].
  pose proof (nonempty_tick _ H) as Ht.
  destruct (classify raw) as [k| | | | |] eqn:Ek; cbn [mkp cor stack].
  - apply nonempty_plain_step; [|exact Ht]. intros n b ->. eapply classify_define_nonempty. exact Ek.
  - fin.
  - fin.
  - destruct (stack p) as [|x r]; [fin|]. destruct (else_seen x); [fin|]. destruct (taken x); fin.
  - destruct (stack p) as [|x r]; [fin|]. destruct (else_seen x); fin.
  - destruct (stack p) as [|x r]; fin.
Qed.

Lemma nonempty_run : forall lines p,
  names_nonempty (tab (cor p)) ->
  names_nonempty (tab (cor (run (map (fun l => (l, classify l)) lines) p))).
Proof.
  induction lines as [|l r IH]; intros p H; [exact H|].
  cbn [map run fold_left]. apply IH. apply nonempty_step. exact H.
Qed.

Theorem process_names_nonempty_l : forall t file lines,
  names_nonempty t -> names_nonempty (tab (process t file lines)).
Proof.
  intros t file lines H. unfold process, finish.
  pose proof (nonempty_run lines (mkp [] (init_core t file)) H) as R.
  destruct (stack (run _ _)); [exact R | exact R].
Qed.
