From Coq Require Import Extraction ExtrOcamlBasic ExtrOcamlString.
From Cb Require Import C17.Model C10.Model C10.Lexer C10.ExprParse C10.Typedefs C10.StructGraph.
Extraction "C10/c10_model.ml" lex_all lex_steps expr_verdict expr_tokens parse process define dash_d search3 string_ranges expand scan_total scan_total_b td_run td_step td_lookup resolved empty_tables sg_run check_query detect_calls.
