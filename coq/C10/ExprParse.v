(* C10 - Mech model of the expression ladder of the recursive-descent parser, one Gallina
   function per C++ function (fuel = recursion depth):

     src/frontend/recursive_parser/parsers/expression_parser.cpp
        parseAssignment, parseLogicalOr ... parseMultiplicative (nine ladder functions, the
        pinned token sets), parseUnary, parsePostfix
     src/frontend/recursive_parser/recursive_parser.cpp : parseTernary (with its save/restore
        backtracking for the error-propagation form e?)
     src/frontend/recursive_parser/parsers/primary_expression_parser.cpp : parsePrimary
        (number, identifier with the generic-call look-ahead ident < ... > ( , call,
         parenthesised expression; the cast look-ahead of "( identifier" needs an identifier that
         names a type since fix 34a2124 and is outside the modelled fragment)

   The parser part has the shape of coq/C02/Model.v (which is tied to the code at AST level by
   the C02 check); this copy is owned by C10, fixes the pinned level table and is fed by the
   lexer model (Lexer.v) so that the text of a println(<expr>); program yields a verdict that
   is compared with the real front end.  Definitions only; proofs in ExprTotal.v. *)
From Coq Require Import List Arith Bool Ascii String.
From Cb Require Import C10.Lexer.
Import ListNotations.
Local Open Scope string_scope.
Local Open Scope nat_scope.

Inductive binop :=
| Or | And | BOr | BXor | BAnd | EqO | NeO | LtO | LeO | GtO | GeO | Shl | Shr
| Add | Sub | Mul | Div | Mod.
Inductive unop := Not | Neg | BNot | Addr | Deref.
(* the prefix KEYWORDS of parseUnary (expression_parser.cpp: `await e` since v0.12.0, `try e` / `checked e` since
   v0.13.1): like the five prefix operators each of them calls parseUnary again, one C++ frame per keyword *)
Inductive kwop := KAwait | KTry | KChecked.

Inductive tok :=
| TNum (s : str) | TId (s : str) | TOp (o : binop)
| TNot | TTilde | TInc | TDec
| TKw (k : kwop)
| TLP | TRP | TLB | TRB | TDot | TArrow | TQ | TColon | TComma
| TAsg (o : option binop)
| TSemi | TRBrace | TOther.

Inductive expr :=
| Num (s : str) | Var (x : str)
| Bin (o : binop) (a b : expr) | Un (u : unop) (a : expr) | Kw (k : kwop) (a : expr)
| Pre (inc : bool) (a : expr) | Post (inc : bool) (a : expr)
| Idx (a i : expr) | Mem (a : expr) (m : str) | Arrow (a : expr) (m : str)
| Call (f : str) (args : list expr)
| Tern (c a b : expr) | Asg (o : option binop) (l r : expr)
| EProp (a : expr)
| Generic (n : nat) (call : expr).

Inductive res (A : Type) := Ok (a : A) | Err | Fuel.
Arguments Ok {A} a.
Arguments Err {A}.
Arguments Fuel {A}.
Definition bind {A B} (x : res A) (k : A -> res B) : res B :=
  match x with Ok a => k a | Err => Err | Fuel => Fuel end.

(* index of the ladder function whose while-loop accepts the operator (1 = parseLogicalOr ...
   6 = parseComparison (== !=), 7 = parseRelational (< <= > >=, since fix 4d0a4b7) ...
   10 = parseMultiplicative): the token sets of the current tree *)
Definition lvl (o : binop) : nat :=
  match o with
  | Or => 1 | And => 2 | BOr => 3 | BXor => 4 | BAnd => 5
  | EqO | NeO => 6 | LtO | LeO | GtO | GeO => 7
  | Shl | Shr => 8 | Add | Sub => 9 | Mul | Div | Mod => 10
  end.
Definition L := 10.

(* primary_expression_parser.cpp: after ident <, skip to the matching > counting only < and >;
   since fix 9bd33cd the scan stops at a token that cannot occur in a type-argument list
   ( ; ( ) { } = + - && || ); a generic call iff the token after the matching > is ( *)
Definition scan_stop (t : tok) : bool :=
  match t with
  | TSemi | TLP | TRP | TRBrace | TAsg None | TOp Add | TOp Sub | TOp And | TOp Or => true
  | _ => false
  end.
Fixpoint generic_scan (depth : nat) (ts : list tok) : bool :=
  match ts with
  | [] => false
  | t :: r =>
      if scan_stop t then false
      else match t with
           | TOp LtO => generic_scan (S depth) r
           | TOp GtO =>
               match depth with
               | S (S d) => generic_scan (S d) r
               | _ => match r with TLP :: _ => true | _ => false end
               end
           | _ => generic_scan depth r
           end
  end.
(* since fix 98a0163 the look-ahead reads at most [scan_bound] tokens (`if (++scanned_tokens > 256) break;` is the
   first statement of the loop body): [generic_scan_b n] is the loop as coded, [n] = iterations it may still make;
   when they run out `<` is the comparison operator.  [generic_scan] above is the bound-free loop of the code before
   the fix; it stays as the hazard that [lookahead_unbounded_quadratic] is about. *)
Fixpoint generic_scan_b (n depth : nat) (ts : list tok) {struct ts} : bool :=
  match ts with
  | [] => false
  | t :: r =>
      match n with
      | O => false
      | S n =>
          if scan_stop t then false
          else match t with
               | TOp LtO => generic_scan_b n (S depth) r
               | TOp GtO =>
                   match depth with
                   | S (S d) => generic_scan_b n (S d) r
                   | _ => match r with TLP :: _ => true | _ => false end
                   end
               | _ => generic_scan_b n depth r
               end
      end
  end.
Definition scan_bound : nat := 256.
(* tokens the bounded loop examines *)
Fixpoint generic_scan_b_cost (n depth : nat) (ts : list tok) {struct ts} : nat :=
  match ts with
  | [] => 0
  | t :: r =>
      match n with
      | O => 0
      | S n =>
          if scan_stop t then 1
          else match t with
               | TOp LtO => S (generic_scan_b_cost n (S depth) r)
               | TOp GtO =>
                   match depth with
                   | S (S d) => S (generic_scan_b_cost n (S d) r)
                   | _ => 1
                   end
               | _ => S (generic_scan_b_cost n depth r)
               end
      end
  end.
(* tokens read by all look-aheads of the CURRENT code on a token list: one bounded scan per "identifier <" *)
Fixpoint scan_total_b (ts : list tok) : nat :=
  match ts with
  | [] => 0
  | TId _ :: r => match r with
                  | TOp LtO :: r1 => generic_scan_b_cost scan_bound 1 r1 + scan_total_b r
                  | _ => scan_total_b r
                  end
  | _ :: r => scan_total_b r
  end.

(* number of tokens the bound-free look-ahead reads *)
Fixpoint generic_scan_cost (depth : nat) (ts : list tok) : nat :=
  match ts with
  | [] => 0
  | t :: r =>
      if scan_stop t then 1
      else match t with
           | TOp LtO => S (generic_scan_cost (S depth) r)
           | TOp GtO =>
               match depth with
               | S (S d) => S (generic_scan_cost (S d) r)
               | _ => 1
               end
           | _ => S (generic_scan_cost depth r)
           end
  end.

(* tokens read by all look-aheads that parsePrimary starts on a token list: one scan per
   position "identifier <" *)
Fixpoint scan_total (ts : list tok) : nat :=
  match ts with
  | [] => 0
  | TId _ :: r => match r with
                  | TOp LtO :: r1 => generic_scan_cost 1 r1 + scan_total r
                  | _ => scan_total r
                  end
  | _ :: r => scan_total r
  end.

(* the type-argument list of a generic call *)
Fixpoint targs_one (d : nat) (ne : bool) (ts : list tok) : option (bool * list tok) :=
  match ts with
  | [] => None
  | t :: r =>
      match t with
      | TOp GtO => match d with O => Some (ne, ts) | S d' => targs_one d' true r end
      | TComma => match d with O => Some (ne, ts) | S _ => None end
      | TOp LtO => targs_one (S d) true r
      | TId _ | TOp Mul | TLB | TRB | TNum _ => targs_one d true r
      | _ => None
      end
  end.
Fixpoint targs_list (fuel : nat) (n : nat) (ts : list tok) : option (nat * list tok) :=
  match fuel with
  | O => None
  | S f =>
      match targs_one 0 false ts with
      | None => None
      | Some (ne, r) =>
          let n' := if ne then S n else n in
          match r with
          | TComma :: r' => targs_list f n' r'
          | TOp GtO :: r' => Some (n', r')
          | _ => None
          end
      end
  end.

Definition closer (ts : list tok) : bool :=
  match ts with
  | [] => true
  | (TSemi | TComma | TRP | TRBrace | TRB) :: _ => true
  | _ => false
  end.
(* the eight self-recursive prefix productions of parseUnary: `await`, `try`, `checked` (keyword branches, tested
   first) and ! - ~ & * (operator branch); the result is the AST constructor and the rest *)
Definition unary_tok (ts : list tok) : option ((expr -> expr) * list tok) :=
  match ts with
  | TKw k :: r => Some (Kw k, r)
  | TNot :: r => Some (Un Not, r)
  | TOp Sub :: r => Some (Un Neg, r)
  | TTilde :: r => Some (Un BNot, r)
  | TOp BAnd :: r => Some (Un Addr, r)
  | TOp Mul :: r => Some (Un Deref, r)
  | _ => None
  end.
Definition valid_target (o : option binop) (l : expr) : bool :=
  match l with
  | Var _ | Idx _ _ | Mem _ _ | Arrow _ _ => true
  | Un Deref _ => match o with None => true | Some _ => false end
  | _ => false
  end.
Definition starts_lp (ts : list tok) : bool := match ts with TLP :: _ => true | _ => false end.

Fixpoint p_assign (f : nat) (ts : list tok) {struct f} : res (expr * list tok) :=
  match f with
  | O => Fuel
  | S f =>
      bind (p_tern f ts) (fun lr =>
        match lr with
        | (l, TAsg o :: r) =>
            bind (p_assign f r) (fun vr =>
              let (v, r') := vr in
              if valid_target o l then Ok (Asg o l v, r') else Err)
        | _ => Ok lr
        end)
  end
with p_tern (f : nat) (ts : list tok) {struct f} : res (expr * list tok) :=
  match f with
  | O => Fuel
  | S f =>
      bind (p_bin f 1 ts) (fun cr =>
        match cr with
        | (c, TQ :: r) =>
            if closer r then Ok (EProp c, r)
            else
              match p_tern f r with
              | Ok (a, TColon :: r2) =>
                  match p_tern f r2 with
                  | Ok (b, r3) => Ok (Tern c a b, r3)
                  | Err => Ok (EProp c, r)          (* catch (...): back to just after ? *)
                  | Fuel => Fuel
                  end
              | Ok _ => Ok (EProp c, r)             (* no colon: backtrack *)
              | Err => Ok (EProp c, r)              (* catch (...) *)
              | Fuel => Fuel
              end
        | _ => Ok cr
        end)
  end
with p_bin (f : nat) (l : nat) (ts : list tok) {struct f} : res (expr * list tok) :=
  match f with
  | O => Fuel
  | S f =>
      if L <? l then p_unary f ts
      else bind (p_bin f (S l) ts) (fun ar => let (a, r) := ar in bin_loop f l a r)
  end
with bin_loop (f : nat) (l : nat) (acc : expr) (ts : list tok) {struct f} : res (expr * list tok) :=
  match f with
  | O => Fuel
  | S f =>
      match ts with
      | TOp o :: r =>
          if lvl o =? l then
            bind (p_bin f (S l) r) (fun br => let (b, r') := br in bin_loop f l (Bin o acc b) r')
          else Ok (acc, ts)
      | _ => Ok (acc, ts)
      end
  end
with p_unary (f : nat) (ts : list tok) {struct f} : res (expr * list tok) :=
  match f with
  | O => Fuel
  | S f =>
      match unary_tok ts with
      | Some (u, r) => bind (p_unary f r) (fun ar => let (a, r') := ar in Ok (u a, r'))
      | None =>
          match ts with
          | TInc :: r =>
              bind (bind (p_primary f r) (fun er => let (e, r1) := er in post_loop f e r1))
                   (fun ar => let (a, r') := ar in Ok (Pre true a, r'))
          | TDec :: r =>
              bind (bind (p_primary f r) (fun er => let (e, r1) := er in post_loop f e r1))
                   (fun ar => let (a, r') := ar in Ok (Pre false a, r'))
          | _ => bind (p_primary f ts) (fun er => let (e, r1) := er in post_loop f e r1)
          end
      end
  end
with post_loop (f : nat) (e : expr) (ts : list tok) {struct f} : res (expr * list tok) :=
  match f with
  | O => Fuel
  | S f =>
      match ts with
      | TLB :: r =>
          bind (p_assign f r) (fun ir =>
            match ir with
            | (i, TRB :: r') => post_loop f (Idx e i) r'
            | _ => Err
            end)
      | TDot :: TId m :: r => if starts_lp r then Err (* method call: not modelled *)
                              else post_loop f (Mem e m) r
      | TDot :: _ => Err
      | TArrow :: TId m :: r => if starts_lp r then Err else post_loop f (Arrow e m) r
      | TArrow :: _ => Err
      | TInc :: r => Ok (Post true e, r)
      | TDec :: r => Ok (Post false e, r)
      | TLP :: _ => match e with Un Deref _ => Err (* call through *p: not modelled *) | _ => Ok (e, ts) end
      | _ => Ok (e, ts)
      end
  end
with p_primary (f : nat) (ts : list tok) {struct f} : res (expr * list tok) :=
  match f with
  | O => Fuel
  | S f =>
      match ts with
      | TNum n :: r => Ok (Num n, r)
      | TId x :: TOp LtO :: r1 =>
          if generic_scan_b scan_bound 1 r1 then
            match targs_list (S (List.length r1)) 0 r1 with
            | Some (n, TLP :: r2) =>
                bind (p_args f r2) (fun ar =>
                  let (args, r3) := ar in
                  if starts_lp r3 then Err (* chained call: not modelled *)
                  else Ok (Generic n (Call x args), r3))
            | Some (_, r2) => Ok (Var x, r2)
            | None => Err
            end
          else Ok (Var x, TOp LtO :: r1)
      | TId x :: TLP :: r1 =>
          bind (p_args f r1) (fun ar =>
            let (args, r2) := ar in
            if starts_lp r2 then Err (* chained call f(x)(y): not modelled *)
            else Ok (Call x args, r2))
      | TId x :: r => Ok (Var x, r)
      | TLP :: r =>
          (* since fix 34a2124 "( identifier" is tried as a cast only when the identifier names a
             type (typedef / struct / enum / union / interface / type parameter); the identifiers
             of this model are plain variables, so this is always a parenthesised expression *)
          bind (p_assign f r) (fun er =>
            match er with
            | (e, TRP :: r') => Ok (e, r')
            | _ => Err
            end)
      | _ => Err
      end
  end
with p_args (f : nat) (ts : list tok) {struct f} : res (list expr * list tok) :=
  match f with
  | O => Fuel
  | S f =>
      match ts with
      | TRP :: r => Ok ([], r)
      | _ =>
          bind (p_assign f ts) (fun ar =>
            match ar with
            | (a, TComma :: r) =>
                match r with
                | TRP :: _ => Err
                | _ => bind (p_args f r) (fun asr => let (l, r') := asr in Ok (a :: l, r'))
                end
            | (a, TRP :: r) => Ok ([a], r)
            | _ => Err
            end)
      end
  end.

(* recursion depth that is always enough: K = L+5 frames per token (ExprTotal.parse_total_l) *)
Definition K := 15.
Definition need (n : nat) : nat := K * (n + 1).
Definition parse (ts : list tok) : res (expr * list tok) := p_assign (need (List.length ts)) ts.

(* ---------------- from lexer tokens to parser tokens ---------------- *)
Definition binop_names : list (string * binop) :=
  [("TOK_OR", Or); ("TOK_AND", And); ("TOK_BIT_OR", BOr); ("TOK_BIT_XOR", BXor); ("TOK_BIT_AND", BAnd);
   ("TOK_EQ", EqO); ("TOK_NE", NeO); ("TOK_LT", LtO); ("TOK_LE", LeO); ("TOK_GT", GtO); ("TOK_GE", GeO);
   ("TOK_LEFT_SHIFT", Shl); ("TOK_RIGHT_SHIFT", Shr); ("TOK_PLUS", Add); ("TOK_MINUS", Sub);
   ("TOK_MUL", Mul); ("TOK_DIV", Div); ("TOK_MOD", Mod)].
Definition asg_names : list (string * option binop) :=
  [("TOK_ASSIGN", None); ("TOK_PLUS_ASSIGN", Some Add); ("TOK_MINUS_ASSIGN", Some Sub);
   ("TOK_MUL_ASSIGN", Some Mul); ("TOK_DIV_ASSIGN", Some Div); ("TOK_MOD_ASSIGN", Some Mod);
   ("TOK_AND_ASSIGN", Some BAnd); ("TOK_OR_ASSIGN", Some BOr); ("TOK_XOR_ASSIGN", Some BXor);
   ("TOK_LSHIFT_ASSIGN", Some Shl); ("TOK_RSHIFT_ASSIGN", Some Shr)].
Definition punct_names : list (string * tok) :=
  [("TOK_NOT", TNot); ("TOK_BIT_NOT", TTilde); ("TOK_INCR", TInc); ("TOK_DECR", TDec);
   ("TOK_LPAREN", TLP); ("TOK_RPAREN", TRP); ("TOK_LBRACKET", TLB); ("TOK_RBRACKET", TRB);
   ("TOK_DOT", TDot); ("TOK_ARROW", TArrow); ("TOK_QUESTION", TQ); ("TOK_COLON", TColon);
   ("TOK_COMMA", TComma); ("TOK_SEMICOLON", TSemi); ("TOK_RBRACE", TRBrace);
   ("TOK_AWAIT", TKw KAwait); ("TOK_TRY", TKw KTry); ("TOK_CHECKED", TKw KChecked)].
Fixpoint assoc {A} (k : string) (l : list (string * A)) : option A :=
  match l with
  | [] => None
  | (k', v) :: r => if String.eqb k k' then Some v else assoc k r
  end.
(* identifiers the expression model speaks about: lower-case first letter (no type names) *)
Definition lower_start (s : str) : bool :=
  match s with c :: _ => let n := code c in (97 <=? n) && (n <=? 122) | [] => false end.
Definition of_token (t : token) : tok :=
  let n := tname t in
  if String.eqb n "TOK_NUMBER" then (if forallb is_digit (tval t) then TNum (tval t) else TOther)
  else if String.eqb n "TOK_IDENTIFIER" then (if lower_start (tval t) then TId (tval t) else TOther)
  else match assoc n binop_names with
       | Some o => TOp o
       | None => match assoc n asg_names with
                 | Some a => TAsg a
                 | None => match assoc n punct_names with Some p => p | None => TOther end
                 end
       end.
Definition is_other (t : tok) : bool := match t with TOther => true | _ => false end.

(* verdict of the front end on the program  void main() { println(<src>); }  *)
Inductive verdict := VAccept | VReject | VMoreArgs | VUnmodelled | VFuel.
Definition strip_final (ts : list token) : list token := filter (fun t => negb (is_final t)) ts.
Definition ends_in_eof (ts : list token) : bool :=
  match rev ts with t :: _ => match tcls t with CEof => true | _ => false end | [] => false end.
Definition expr_tokens (src : str) : list tok := map of_token (strip_final (lex_all src)) ++ [TRP; TSemi].
Definition expr_verdict (src : str) : verdict :=
  let lx := lex_all src in
  let pts := expr_tokens src in
  if negb (ends_in_eof lx) || existsb is_other pts then VUnmodelled
  else match parse pts with
       | Ok (_, [TRP; TSemi]) => VAccept
       | Ok (_, TComma :: _) => VMoreArgs
       | Ok _ => VReject
       | Err => VReject
       | Fuel => VFuel
       end.
