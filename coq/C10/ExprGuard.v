(* C10 - the nesting guard of the parser, read on the expression-ladder model (ExprParse.v).

   The fuel of the model IS the C++ stack: one unit per frame.  RecursiveParser::checkNesting
   (fix a7f38de; called at the top of parseAssignment, parseTernary, parseUnary, parseStatement,
   parseType) turns "no stack left" into the diagnostic "Nesting too deep" - in the model that is
   the answer [Fuel] of a run with fuel = the budget.  This file proves what such a guard may and
   may not do:

   fuel_mono_l        : a run that did not answer Fuel answers the same with ANY larger budget
                        (all eight functions) - the guard never changes a verdict, it only ever
                        replaces one by "too deep";
   guard_sound_l      : for every budget the guarded parse is "too deep" or IS the parse;
   prefix_chain_deep_l: every one of the eight self-recursive prefix productions of parseUnary
                        (await, try, checked, ! - ~ & star) costs one frame per token: a chain of n of
                        them answers Fuel for every budget <= n + 12, whatever follows.  The stack
                        a prefix chain needs is therefore unbounded in the input, for EACH of the
                        eight productions: a guard that is only on some of the branches leaves
                        the others to overflow the real stack (seeded change C10-1);
   paren_chain_deep_l : the same for nested parentheses (K frames per level);
   scan_b_cost_le, scan_total_b_linear_l : the bounded generic-call look-ahead of fix 98a0163
                        reads at most 256 tokens per start, <= 256 * |tokens| in total. *)
From Coq Require Import List Arith Bool Ascii String Lia.
From Cb Require Import C10.Lexer C10.ExprParse C10.ExprTotal.
Import ListNotations.

Notation ln := (@List.length tok).

Lemma bind_nf {A B} (x : res A) (k : A -> res B) : bind x k <> Fuel -> x <> Fuel.
Proof. destruct x; cbn; congruence. Qed.

(* ---------- monotonicity in the fuel ---------- *)
Definition mono (f : nat) : Prop :=
  (forall ts, p_assign f ts <> Fuel -> p_assign (S f) ts = p_assign f ts) /\
  (forall ts, p_tern f ts <> Fuel -> p_tern (S f) ts = p_tern f ts) /\
  (forall l ts, p_bin f l ts <> Fuel -> p_bin (S f) l ts = p_bin f l ts) /\
  (forall l acc ts, bin_loop f l acc ts <> Fuel -> bin_loop (S f) l acc ts = bin_loop f l acc ts) /\
  (forall ts, p_unary f ts <> Fuel -> p_unary (S f) ts = p_unary f ts) /\
  (forall e ts, post_loop f e ts <> Fuel -> post_loop (S f) e ts = post_loop f e ts) /\
  (forall ts, p_primary f ts <> Fuel -> p_primary (S f) ts = p_primary f ts) /\
  (forall ts, p_args f ts <> Fuel -> p_args (S f) ts = p_args f ts).

(* [H : body <> Fuel] where [body] computes with the call [c]; [c] at one more unit of fuel is rewritten *)
Ltac nofuel H c :=
  let N := fresh "N" in
  assert (N : c <> Fuel) by (let E := fresh "E" in intro E; rewrite E in H; cbn in H; congruence).

Lemma mono_all : forall f, mono f.
Proof.
  induction f as [|f IH].
  { unfold mono. repeat split; intros; exfalso; cbn in *; congruence. }
  destruct IH as (IHa & IHt & IHb & IHl & IHu & IHp & IHpr & IHar).
  unfold mono. repeat split.
  - (* p_assign *)
    intros ts H. rewrite (p_assign_S (S f) ts). rewrite (p_assign_S f ts) in H |- *.
    nofuel H (p_tern f ts). rewrite (IHt ts N).
    destruct (p_tern f ts) as [[l r]| |]; cbn [bind] in *; try reflexivity.
    destruct r as [|t r]; try reflexivity. destruct t; try reflexivity.
    nofuel H (p_assign f r). rewrite (IHa r N0). reflexivity.
  - (* p_tern *)
    intros ts H. rewrite (p_tern_S (S f) ts). rewrite (p_tern_S f ts) in H |- *.
    nofuel H (p_bin f 1 ts). rewrite (IHb 1 ts N).
    destruct (p_bin f 1 ts) as [[c r]| |]; cbn [bind] in *; try reflexivity.
    destruct r as [|t r]; try reflexivity. destruct t; try reflexivity.
    destruct (closer r); try reflexivity.
    nofuel H (p_tern f r). rewrite (IHt r N0).
    destruct (p_tern f r) as [[a r2]| |]; try reflexivity.
    destruct r2 as [|t2 r2]; try reflexivity. destruct t2; try reflexivity.
    nofuel H (p_tern f r2). rewrite (IHt r2 N1). reflexivity.
  - (* p_bin *)
    intros l ts H. rewrite (p_bin_S (S f) l ts). rewrite (p_bin_S f l ts) in H |- *.
    destruct (L <? l).
    + apply IHu. exact H.
    + nofuel H (p_bin f (S l) ts). rewrite (IHb (S l) ts N).
      destruct (p_bin f (S l) ts) as [[a r]| |]; cbn [bind] in *; try reflexivity.
      apply IHl. exact H.
  - (* bin_loop *)
    intros l acc ts H. rewrite (bin_loop_S (S f) l acc ts). rewrite (bin_loop_S f l acc ts) in H |- *.
    destruct ts as [|t r]; try reflexivity. destruct t; try reflexivity.
    destruct (lvl o =? l); try reflexivity.
    nofuel H (p_bin f (S l) r). rewrite (IHb (S l) r N).
    destruct (p_bin f (S l) r) as [[b r']| |]; cbn [bind] in *; try reflexivity.
    apply IHl. exact H.
  - (* p_unary *)
    intros ts H. rewrite (p_unary_S (S f) ts). rewrite (p_unary_S f ts) in H |- *.
    assert (Hgen : forall ts0,
      bind (p_primary f ts0) (fun er => let (e, r1) := er in post_loop f e r1) <> Fuel ->
      bind (p_primary (S f) ts0) (fun er => let (e, r1) := er in post_loop (S f) e r1) =
      bind (p_primary f ts0) (fun er => let (e, r1) := er in post_loop f e r1)).
    { intros ts0 H0. nofuel H0 (p_primary f ts0). rewrite (IHpr ts0 N).
      destruct (p_primary f ts0) as [[e r1]| |]; cbn [bind] in *; try reflexivity.
      apply IHp. exact H0. }
    destruct (unary_tok ts) as [[u r]|].
    + nofuel H (p_unary f r). rewrite (IHu r N). reflexivity.
    + destruct ts as [|t r]; [apply Hgen; exact H|].
      destruct t; try (apply Hgen; exact H);
        (rewrite Hgen; [reflexivity | eapply bind_nf; exact H]).
  - (* post_loop *)
    intros e ts H. rewrite (post_loop_S (S f) e ts). rewrite (post_loop_S f e ts) in H |- *.
    destruct ts as [|t r]; try reflexivity. destruct t; try reflexivity.
    + nofuel H (p_assign f r). rewrite (IHa r N).
      destruct (p_assign f r) as [[i r']| |]; cbn [bind] in *; try reflexivity.
      destruct r' as [|t2 r']; try reflexivity. destruct t2; try reflexivity.
      apply IHp. exact H.
    + destruct r as [|t2 r]; try reflexivity. destruct t2; try reflexivity.
      destruct (starts_lp r); try reflexivity. apply IHp. exact H.
    + destruct r as [|t2 r]; try reflexivity. destruct t2; try reflexivity.
      destruct (starts_lp r); try reflexivity. apply IHp. exact H.
  - (* p_primary *)
    intros ts H. rewrite (p_primary_S (S f) ts). rewrite (p_primary_S f ts) in H |- *.
    destruct ts as [|t r]; try reflexivity. destruct t; try reflexivity.
    + destruct r as [|t2 r1]; try reflexivity. destruct t2; try reflexivity.
      * destruct o; try reflexivity.
        destruct (generic_scan_b scan_bound 1 r1); try reflexivity.
        destruct (targs_list (S (List.length r1)) 0 r1) as [[n r2]|]; try reflexivity.
        destruct r2 as [|t3 r2]; try reflexivity. destruct t3; try reflexivity.
        nofuel H (p_args f r2). rewrite (IHar r2 N). reflexivity.
      * nofuel H (p_args f r1). rewrite (IHar r1 N). reflexivity.
    + nofuel H (p_assign f r). rewrite (IHa r N). reflexivity.
  - (* p_args *)
    intros ts H. rewrite (p_args_S (S f) ts). rewrite (p_args_S f ts) in H |- *.
    assert (Hgen : bind (p_assign f ts) (fun ar =>
        match ar with
        | (a, TComma :: r) =>
            match r with
            | TRP :: _ => Err
            | _ => bind (p_args f r) (fun asr => let (l, r') := asr in Ok (a :: l, r'))
            end
        | (a, TRP :: r) => Ok ([a], r)
        | _ => Err
        end) <> Fuel ->
      bind (p_assign (S f) ts) (fun ar =>
        match ar with
        | (a, TComma :: r) =>
            match r with
            | TRP :: _ => Err
            | _ => bind (p_args (S f) r) (fun asr => let (l, r') := asr in Ok (a :: l, r'))
            end
        | (a, TRP :: r) => Ok ([a], r)
        | _ => Err
        end) =
      bind (p_assign f ts) (fun ar =>
        match ar with
        | (a, TComma :: r) =>
            match r with
            | TRP :: _ => Err
            | _ => bind (p_args f r) (fun asr => let (l, r') := asr in Ok (a :: l, r'))
            end
        | (a, TRP :: r) => Ok ([a], r)
        | _ => Err
        end)).
    { intros H0. nofuel H0 (p_assign f ts). rewrite (IHa ts N).
      destruct (p_assign f ts) as [[a r]| |]; cbn [bind] in *; try reflexivity.
      destruct r as [|t2 r]; try reflexivity. destruct t2; try reflexivity.
      assert (Hb : bind (p_args f r) (fun asr => let (l, r') := asr in Ok (a :: l, r')) <> Fuel ->
                   bind (p_args (S f) r) (fun asr => let (l, r') := asr in Ok (a :: l, r')) =
                   bind (p_args f r) (fun asr => let (l, r') := asr in Ok (a :: l, r'))).
      { intros H1. nofuel H1 (p_args f r). rewrite (IHar r N0). reflexivity. }
      destruct r as [|t3 r]; [apply Hb; exact H0|].
      destruct t3; try (apply Hb; exact H0). reflexivity. }
    destruct ts as [|t r]; [apply Hgen; exact H|].
    destruct t; try (apply Hgen; exact H). reflexivity.
Qed.

Theorem fuel_mono_l : forall k f ts, p_assign f ts <> Fuel -> p_assign (f + k) ts = p_assign f ts.
Proof.
  induction k as [|k IH]; intros f ts H.
  - rewrite Nat.add_0_r. reflexivity.
  - rewrite Nat.add_succ_r.
    assert (E := IH f ts H).
    destruct (mono_all (f + k)) as (Ma & _).
    rewrite Ma; [exact E | rewrite E; exact H].
Qed.

(* the guarded parser with stack budget [b] is [p_assign b]; its "too deep" is Fuel *)
Theorem guard_sound_l : forall b ts, p_assign b ts = Fuel \/ p_assign b ts = parse ts.
Proof.
  intros b ts.
  destruct (p_assign b ts) as [[e r]| |] eqn:E; [right | right | left; reflexivity].
  - unfold parse.
    destruct (Nat.le_ge_cases b (need (ln ts))) as [Hle|Hge].
    + replace (need (ln ts)) with (b + (need (ln ts) - b)) by lia.
      rewrite fuel_mono_l; [symmetry; exact E | rewrite E; discriminate].
    + assert (N : p_assign (need (ln ts)) ts <> Fuel) by (apply parse_total_l; lia).
      rewrite <- E. replace b with (need (ln ts) + (b - need (ln ts))) by lia.
      apply fuel_mono_l. exact N.
  - unfold parse.
    destruct (Nat.le_ge_cases b (need (ln ts))) as [Hle|Hge].
    + replace (need (ln ts)) with (b + (need (ln ts) - b)) by lia.
      rewrite fuel_mono_l; [symmetry; exact E | rewrite E; discriminate].
    + assert (N : p_assign (need (ln ts)) ts <> Fuel) by (apply parse_total_l; lia).
      rewrite <- E. replace b with (need (ln ts) + (b - need (ln ts))) by lia.
      apply fuel_mono_l. exact N.
Qed.

(* ---------- every prefix production consumes stack ---------- *)
Definition is_prefix (t : tok) : bool :=
  match t with
  | TKw _ | TNot | TTilde | TOp Sub | TOp BAnd | TOp Mul => true
  | _ => false
  end.

Lemma is_prefix_unary_tok : forall t r, is_prefix t = true -> exists u, unary_tok (t :: r) = Some (u, r).
Proof.
  intros t r H. destruct t; try discriminate; try (eexists; reflexivity).
  destruct o; try discriminate; eexists; reflexivity.
Qed.

Lemma prefix_chain_unary : forall pre rest f,
  forallb is_prefix pre = true -> f <= ln pre -> p_unary f (pre ++ rest) = Fuel.
Proof.
  induction pre as [|t pre IH]; intros rest f Hp Hf.
  - cbn in Hf. replace f with 0 by lia. reflexivity.
  - destruct f as [|f]; [reflexivity|].
    cbn [forallb] in Hp. apply andb_prop in Hp. destruct Hp as [Ht Hp].
    rewrite p_unary_S. cbn [app].
    destruct (is_prefix_unary_tok t (pre ++ rest) Ht) as [u Eu]. rewrite Eu.
    rewrite (IH rest f Hp); [reflexivity | cbn in Hf; lia].
Qed.

(* from the ladder: p_bin reaches p_unary after (L + 1 - l) + 1 frames *)
Lemma p_bin_to_unary : forall d l f ts, l + d = S L ->
  p_unary f ts = Fuel -> p_bin (S d + f) l ts = Fuel.
Proof.
  induction d as [|d IH]; intros l f ts Hl Hu.
  - cbn [plus]. rewrite p_bin_S.
    assert (E : (L <? l) = true) by (apply Nat.ltb_lt; lia). rewrite E. exact Hu.
  - replace (S (S d) + f) with (S (S d + f)) by lia. rewrite p_bin_S.
    assert (E : (L <? l) = false) by (apply Nat.ltb_ge; lia). rewrite E.
    rewrite (IH (S l) f ts); [reflexivity | lia | exact Hu].
Qed.

Lemma p_bin_small : forall d l f ts, l + d = S L -> f <= d -> p_bin f l ts = Fuel.
Proof.
  induction d as [|d IH]; intros l f ts Hl Hf.
  - replace f with 0 by lia. reflexivity.
  - destruct f as [|f]; [reflexivity|]. rewrite p_bin_S.
    assert (E : (L <? l) = false) by (apply Nat.ltb_ge; lia). rewrite E.
    rewrite (IH (S l) f ts); [reflexivity | lia | lia].
Qed.

(* p_assign -> p_tern -> p_bin 1 .. p_bin 11 -> p_unary: 13 frames above the chain *)
Theorem prefix_chain_deep_l : forall pre rest f,
  forallb is_prefix pre = true -> f <= ln pre + 13 -> p_assign f (pre ++ rest) = Fuel.
Proof.
  intros pre rest f Hp Hf.
  destruct f as [|f]; [reflexivity|]. rewrite p_assign_S.
  destruct f as [|f]; [reflexivity|]. rewrite p_tern_S.
  assert (E : p_bin f 1 (pre ++ rest) = Fuel).
  { destruct (Nat.le_gt_cases f 10) as [Hs|Hb].
    - apply (p_bin_small 10); [reflexivity | exact Hs].
    - replace f with (S 10 + (f - 11)) by lia.
      apply p_bin_to_unary; [reflexivity|].
      apply prefix_chain_unary; [exact Hp | lia]. }
  rewrite E. reflexivity.
Qed.

(* nested parentheses: each level costs the whole ladder (K = 15 frames: p_assign, p_tern, eleven p_bin, p_unary,
   p_primary); n levels answer Fuel for every budget <= K * n *)
Lemma paren_chain_deep_l : forall n rest f, f <= K * n -> p_assign f (repeat TLP n ++ rest) = Fuel.
Proof.
  induction n as [|n IH]; intros rest f Hf.
  - replace f with 0 by (unfold K in Hf; lia). reflexivity.
  - cbn [repeat app].
    destruct f as [|f]; [reflexivity|]. rewrite p_assign_S.
    destruct f as [|f]; [reflexivity|]. rewrite p_tern_S.
    assert (E : p_bin f 1 (TLP :: repeat TLP n ++ rest) = Fuel).
    { destruct (Nat.le_gt_cases f 10) as [Hs|Hb].
      - apply (p_bin_small 10); [reflexivity | exact Hs].
      - replace f with (S 10 + (f - 11)) by lia.
        apply p_bin_to_unary; [reflexivity|].
        destruct (f - 11) as [|g] eqn:Eg; [reflexivity|].
        rewrite p_unary_S. cbn [unary_tok].
        destruct g as [|g]; [reflexivity|]. rewrite p_primary_S.
        rewrite (IH rest g); [reflexivity | unfold K in *; lia]. }
    rewrite E. reflexivity.
Qed.

(* ---------- the bounded look-ahead is linear ---------- *)
Lemma scan_b_cost_le : forall ts n d, generic_scan_b_cost n d ts <= n.
Proof.
  induction ts as [|t ts IH]; intros n d; cbn [generic_scan_b_cost]; [lia|].
  destruct n as [|n]; [lia|].
  destruct (scan_stop t); [lia|].
  destruct t; try (specialize (IH n d); lia).
  destruct o; try (specialize (IH n d); lia).
  - specialize (IH n (S d)). lia.
  - destruct d as [|[|d]]; try lia. specialize (IH n (S d)). lia.
Qed.

Theorem scan_total_b_linear_l : forall ts, scan_total_b ts <= scan_bound * ln ts.
Proof.
  induction ts as [|t ts IH]; [cbn; lia|].
  cbn [scan_total_b List.length].
  destruct t; try lia.
  destruct ts as [|t2 r1]; [cbn in *; lia|].
  destruct t2; try lia.
  destruct o; try lia.
  pose proof (scan_b_cost_le r1 scan_bound 1). lia.
Qed.
