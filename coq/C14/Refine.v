(* C14 - the resumable executor refines the sequential run for bodies whose yields and loops sit at
   the top level (wf_body): simulation statement by statement, loops iteration by iteration. *)
From Coq Require Import List ZArith Bool Arith Lia.
From Cb Require Import C14.Model C14.Lemmas C14.Quiet.
Import ListNotations.
Local Open Scope Z_scope.

Section R.
Variable aw : nat -> Z -> Z.
Variable fuel : nat.

Notation SX := (sexec aw fuel).
Notation MX := (mexec aw fuel true).
Notation mstep' := (mstep aw fuel).
Notation mrun' := (mrun aw fuel).

(* a live task of the fragment between two steps: empty resume table, auto-yield on *)
Definition T (body : list stmt) (idx : nat) (lm : locals) (dn : bool) (ret : option Z) : task :=
  mkT body idx lm [] true dn ret false.

Definition done_after (body : list stmt) (idx : nat) : bool := negb (Nat.ltb (S idx) (length body)).

(* ------------------------------------------------------------------ events and runs *)
Lemma outputs_of_app : forall a b, outputs_of (a ++ b) = outputs_of a ++ outputs_of b.
Proof.
  induction a as [| e a IH]; intros b; cbn; [reflexivity |].
  destruct e; cbn; rewrite ?IH; reflexivity.
Qed.

Lemma outputs_of_out_events : forall o, outputs_of (out_events o) = o.
Proof. unfold out_events. induction o as [| [k v] o IH]; cbn; [reflexivity |]. now rewrite IH. Qed.

Lemma mrun_S : forall n t t1 e1 t2 e2,
  mstep' t = (t1, e1) -> mrun' n t1 = (t2, e2) -> mrun' (S n) t = (t2, e1 ++ e2).
Proof. intros. cbn. rewrite H, H0. reflexivity. Qed.

Lemma mrun_1 : forall t t1 e1, mstep' t = (t1, e1) -> mrun' 1 t = (t1, e1).
Proof. intros. cbn. rewrite H. now rewrite app_nil_r. Qed.

Lemma mstep_done : forall t, t_done t = true -> mstep' t = (t, []).
Proof. intros t H. unfold mstep. now rewrite H. Qed.

Lemma mrun_done : forall n t, t_done t = true -> mrun' n t = (t, []).
Proof.
  induction n; intros t H; [reflexivity |]. cbn. rewrite mstep_done by assumption. now rewrite IHn.
Qed.

(* one step of a live task at statement s *)
Lemma mstep_at : forall body idx lm ret s,
  nth_error body idx = Some s ->
  mstep' (T body idx lm false ret) =
  match MX [idx] s (mkM lm [] []) with
  | (st, ONormal) =>
      (mkT body (S idx) (m_loc st) (m_pos st) true (done_after body idx) ret false,
       EvExec idx :: out_events (m_out st))
  | (st, OYield fl) =>
      (mkT body (if fl then idx else S idx) (m_loc st) (m_pos st) true false ret false,
       EvExec idx :: out_events (m_out st) ++ [EvYield fl idx])
  | (st, OReturn v) =>
      (mkT body idx (m_loc st) (m_pos st) true true (Some v) false,
       EvExec idx :: out_events (m_out st) ++ [EvReturn idx])
  | (st, OFuel) =>
      (mkT body idx (m_loc st) (m_pos st) true false ret true,
       EvExec idx :: out_events (m_out st))
  end.
Proof. intros. unfold mstep, T. cbn. rewrite H. reflexivity. Qed.

Definition ret_of (r : sres) (ret0 : option Z) : option Z :=
  match r with SReturn_ v => Some v | _ => ret0 end.

(* ------------------------------------------------------------------ one quiet top-level statement *)
Lemma step_quiet : forall body idx s ret (P : var -> Prop) lm ls,
  nth_error body idx = Some s -> quiet s = true ->
  (forall y, In y (mentions s) -> P y) -> agree P lm ls ->
  exists lm' ls' o r,
    SX s ls = (ls', o, r) /\ r <> SFuel /\ agree P lm' ls' /\ same_dom lm lm' /\
    exists ev, outputs_of ev = o /\
      mstep' (T body idx lm false ret) =
      (match r with
       | SReturn_ v => T body idx lm' true (Some v)
       | _ => T body (S idx) lm' (done_after body idx) ret
       end, ev).
Proof.
  intros body idx s ret P lm ls Hn Hq HP Ha.
  destruct (quiet_sim aw fuel s Hq [idx] lm ls [] [] P (fresh_nil _) Ha HP)
    as (lm' & ls' & o & r & E & N & M & A & D & _).
  exists lm', ls', o, r. repeat (split; [assumption |]).
  rewrite (mstep_at body idx lm ret s Hn), M. cbn [app].
  destruct r as [| v |]; [| | congruence]; cbn [out_of m_loc m_pos m_out].
  - eexists. split; [| reflexivity]. cbn. apply outputs_of_out_events.
  - eexists. split; [| reflexivity]. cbn. rewrite outputs_of_app, outputs_of_out_events. cbn. apply app_nil_r.
Qed.

(* ------------------------------------------------------------------ a top-level while loop *)
Lemma while_sim : forall body idx c b ret (P : var -> Prop),
  nth_error body idx = Some (SWhile c b) -> forallb quiet b = true ->
  (forall y, In y (mentions (SWhile c b)) -> P y) -> (1 <= fuel)%nat ->
  forall k lm ls ls' o r,
    agree P lm ls ->
    sloop (fun l => truthy (eval c l)) (sblock_with SX b) (fun l => l) k ls = (ls', o, r) -> r <> SFuel ->
    exists n t' ev, mrun' n (T body idx lm false ret) = (t', ev) /\ outputs_of ev = o /\
      match r with
      | SReturn_ v => exists lm', t' = T body idx lm' true (Some v)
      | _ => exists lm', t' = T body (S idx) lm' (done_after body idx) ret /\ agree P lm' ls' /\ same_dom lm lm'
      end.
Proof.
  intros body idx c b ret P Hn Hq HP Hfuel.
  destruct fuel as [| f] eqn:Ef; [lia |].
  induction k as [| k IH]; intros lm ls ls' o r Ha E N; cbn [sloop] in E.
  - inversion E; subst. congruence.
  - assert (Ev : eval c lm = eval c ls).
    { apply (eval_agree P); auto. intros y Hy. apply HP. cbn. apply in_or_app. now left. }
    pose proof (mstep_at body idx lm ret _ Hn) as Hst. rewrite Ef in Hst.
    cbn [mexec mwhile m_loc] in Hst. rewrite Ev in Hst.
    destruct (truthy (eval c ls)).
    + (* one iteration *)
      destruct (quiet_block_sim aw (S f) b Hq (O :: [idx]) lm ls [] [] P) as (lm1 & ls1 & o1 & r1 & E1 & N1 & M1 & A1 & D1 & _).
      { apply fresh_nil. } { assumption. }
      { intros y Hy. apply HP. cbn. apply in_or_app. now right. }
      rewrite E1 in E. rewrite M1 in Hst. cbn [app] in Hst.
      destruct r1 as [| v |]; [| | congruence]; cbn [out_of m_loc m_pos m_out] in Hst.
      * destruct (sloop _ _ _ k ls1) as [[l2 o2] r2] eqn:E2. inversion E; subst ls' o r.
        destruct (IH lm1 ls1 l2 o2 r2 A1 E2 N) as (n & t' & ev & R & O & F).
        exists (S n), t'; eexists. split; [| split].
        -- eapply mrun_S; [exact Hst | exact R].
        -- cbn. rewrite !outputs_of_app, outputs_of_out_events, O. cbn. reflexivity.
        -- destruct r2; try assumption.
           ++ destruct F as (lm' & -> & A' & D'). exists lm'. repeat split; auto. eapply same_dom_trans; eauto.
           ++ destruct F as (lm' & -> & A' & D'). exists lm'. repeat split; auto. eapply same_dom_trans; eauto.
      * inversion E; subst ls' o r. exists 1%nat; do 2 eexists. split; [| split].
        -- apply mrun_1. exact Hst.
        -- cbn. rewrite outputs_of_app, outputs_of_out_events. cbn. apply app_nil_r.
        -- exists lm1. reflexivity.
    + inversion E; subst ls' o r. exists 1%nat; do 2 eexists. split; [| split].
      * apply mrun_1. exact Hst.
      * reflexivity.
      * exists lm. repeat split; auto. apply same_dom_refl.
Qed.

End R.
