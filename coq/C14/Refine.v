(* C14 - the resumable executor refines the sequential run for bodies whose yields and loops sit at
   the top level (wf_body): simulation statement by statement, loops iteration by iteration. *)
From Coq Require Import List ZArith Bool Arith Lia.
From Cb Require Import C14.Model C14.Lemmas C14.Quiet.
Import ListNotations.
Local Open Scope Z_scope.

Section R.
Variable aw : nat -> Z -> Z.
Variable fuel : nat.

Notation SX := (sexec aw fuel).
Notation MX := (mexec aw fuel true).
Notation mstep' := (mstep aw fuel).
Notation mrun' := (mrun aw fuel).

(* a live task of the fragment between two steps: empty resume table, auto-yield on *)
Definition T (body : list stmt) (idx : nat) (lm : locals) (m : posmap) (dn : bool) (ret : option Z) : task :=
  mkT body idx lm m true dn ret false.

(* the resume table between two steps of a fragment body holds only stale entries of compound nodes
   that belong to top-level statements already passed *)
Definition stale (idx : nat) (m : posmap) : Prop :=
  forall k, pos_get k m <> None -> exists j l, (j < idx)%nat /\ k = l ++ [j].

Lemma stale_fresh : forall idx m, stale idx m -> fresh [idx] m.
Proof.
  intros idx m H k [l ->]. destruct (pos_get (l ++ [idx]) m) eqn:E; [| reflexivity].
  destruct (H (l ++ [idx])) as (j & l' & Hj & He); [congruence |].
  apply app_inj_tail in He as [_ He]. lia.
Qed.

Lemma stale_S : forall idx m, stale idx m -> stale (S idx) m.
Proof. intros idx m H k Hk. destruct (H k Hk) as (j & l & Hj & ->). exists j, l. split; [lia | reflexivity]. Qed.

Lemma stale_nil : forall idx, stale idx [].
Proof. intros idx k H. cbn in H. congruence. Qed.

Lemma pos_get_set_same : forall k v m, pos_get k (pos_set k v m) = Some v.
Proof.
  induction m as [| [k' w] m IH]; cbn.
  - now rewrite path_eqb_refl.
  - destruct (path_eqb k k') eqn:E; cbn; rewrite E; [reflexivity | assumption].
Qed.

Lemma stale_set : forall idx m v, stale idx m -> stale (S idx) (pos_set [O; idx] v m).
Proof.
  intros idx m v H k Hk. destruct (list_eq_dec Nat.eq_dec k [O; idx]) as [-> | Hne].
  - exists idx, [O]. split; [lia | reflexivity].
  - rewrite pos_get_set_other in Hk by congruence. destruct (H k Hk) as (j & l & Hj & ->).
    exists j, l. split; [lia | reflexivity].
Qed.

Definition done_after (body : list stmt) (idx : nat) : bool := negb (Nat.ltb (S idx) (length body)).

(* ------------------------------------------------------------------ events and runs *)
Lemma outputs_of_app : forall a b, outputs_of (a ++ b) = outputs_of a ++ outputs_of b.
Proof.
  induction a as [| e a IH]; intros b; cbn; [reflexivity |].
  destruct e; cbn; rewrite ?IH; reflexivity.
Qed.

Lemma outputs_of_out_events : forall o, outputs_of (out_events o) = o.
Proof. unfold out_events. induction o as [| [k v] o IH]; cbn; [reflexivity |]. now rewrite IH. Qed.

Lemma mrun_S : forall n t t1 e1 t2 e2,
  mstep' t = (t1, e1) -> mrun' n t1 = (t2, e2) -> mrun' (S n) t = (t2, e1 ++ e2).
Proof. intros. cbn. rewrite H, H0. reflexivity. Qed.

Lemma mrun_1 : forall t t1 e1, mstep' t = (t1, e1) -> mrun' 1 t = (t1, e1).
Proof. intros. cbn. rewrite H. now rewrite app_nil_r. Qed.

Lemma mrun_app : forall n1 n2 t t1 e1 t2 e2,
  mrun' n1 t = (t1, e1) -> mrun' n2 t1 = (t2, e2) -> mrun' (n1 + n2) t = (t2, e1 ++ e2).
Proof.
  induction n1 as [| n1 IH]; intros n2 t t1 e1 t2 e2 H1 H2; cbn in *.
  - inversion H1; subst. exact H2.
  - destruct (mstep' t) as [ta ea]. destruct (mrun' n1 ta) as [tb eb] eqn:Eb.
    inversion H1; subst. rewrite (IH n2 ta t1 eb t2 e2 Eb H2). now rewrite app_assoc.
Qed.

Lemma mstep_done : forall t, t_done t = true -> mstep' t = (t, []).
Proof. intros t H. unfold mstep. now rewrite H. Qed.

Lemma mrun_done : forall n t, t_done t = true -> mrun' n t = (t, []).
Proof.
  induction n; intros t H; [reflexivity |]. cbn. rewrite mstep_done by assumption. now rewrite IHn.
Qed.

(* one step of a live task at statement s *)
Lemma mstep_at : forall body idx lm m ret s,
  nth_error body idx = Some s ->
  mstep' (T body idx lm m false ret) =
  match MX [idx] s (mkM lm m []) with
  | (st, ONormal) =>
      (mkT body (S idx) (m_loc st) (m_pos st) true (done_after body idx) ret false,
       EvExec idx :: out_events (m_out st))
  | (st, OYield fl) =>
      (mkT body (if fl then idx else S idx) (m_loc st) (m_pos st) true false ret false,
       EvExec idx :: out_events (m_out st) ++ [EvYield fl idx])
  | (st, OReturn v) =>
      (mkT body idx (m_loc st) (m_pos st) true true (Some v) false,
       EvExec idx :: out_events (m_out st) ++ [EvReturn idx])
  | (st, OFuel) =>
      (mkT body idx (m_loc st) (m_pos st) true false ret true,
       EvExec idx :: out_events (m_out st))
  end.
Proof. intros. unfold mstep, T. cbn. rewrite H. reflexivity. Qed.

Definition ret_of (r : sres) (ret0 : option Z) : option Z :=
  match r with SReturn_ v => Some v | _ => ret0 end.

(* ------------------------------------------------------------------ one quiet top-level statement *)
Lemma step_quiet : forall body idx s ret (P : var -> Prop) lm ls m,
  nth_error body idx = Some s -> quiet s = true -> fresh [idx] m ->
  (forall y, In y (mentions s) -> P y) -> agree P lm ls ->
  exists lm' ls' o r,
    SX s ls = (ls', o, r) /\ r <> SFuel /\ agree P lm' ls' /\ same_dom lm lm' /\
    exists ev, outputs_of ev = o /\
      mstep' (T body idx lm m false ret) =
      (match r with
       | SReturn_ v => T body idx lm' m true (Some v)
       | _ => T body (S idx) lm' m (done_after body idx) ret
       end, ev).
Proof.
  intros body idx s ret P lm ls m Hn Hq Hfr HP Ha.
  destruct (quiet_sim aw fuel s Hq [idx] lm ls m [] P Hfr Ha HP)
    as (lm' & ls' & o & r & E & N & M & A & D & _).
  exists lm', ls', o, r. repeat (split; [assumption |]).
  rewrite (mstep_at body idx lm m ret s Hn), M. cbn [app].
  destruct r as [| v |]; [| | congruence]; cbn [out_of m_loc m_pos m_out].
  - eexists. split; [| reflexivity]. cbn. apply outputs_of_out_events.
  - eexists. split; [| reflexivity]. cbn. rewrite outputs_of_app, outputs_of_out_events. cbn. apply app_nil_r.
Qed.

(* with auto-yield on, one activation of a loop runs at most one iteration *)
Lemma mwhile_auto : forall cond bodyf k st, (1 <= k)%nat ->
  mwhile true cond bodyf k st =
  if cond (m_loc st) then
    match bodyf st with
    | (st1, ONormal) => (st1, OYield true)
    | (st1, OYield _) => (st1, OYield true)
    | r => r
    end
  else (st, ONormal).
Proof. intros cond bodyf k st H. destruct k; [lia | reflexivity]. Qed.

Lemma mfor_auto : forall cond bodyf upd k st, (1 <= k)%nat ->
  mfor true cond bodyf upd k st =
  if cond (m_loc st) then
    match bodyf st with
    | (st1, ONormal) => (with_loc st1 (upd (m_loc st1)), OYield true)
    | (st1, OYield true) => (with_loc st1 (upd (m_loc st1)), OYield true)
    | (st1, OYield false) => (st1, OYield true)
    | r => r
    end
  else (st, ONormal).
Proof. intros cond bodyf upd k st H. destruct k; [lia | reflexivity]. Qed.

(* ------------------------------------------------------------------ a top-level while loop *)
Lemma while_sim : forall body idx c b ret (P : var -> Prop) m,
  nth_error body idx = Some (SWhile c b) -> forallb quiet b = true -> fresh [idx] m ->
  (forall y, In y (mentions (SWhile c b)) -> P y) -> (1 <= fuel)%nat ->
  forall k lm ls ls' o r,
    agree P lm ls ->
    sloop (fun l => truthy (eval c l)) (sblock_with SX b) (fun l => l) k ls = (ls', o, r) -> r <> SFuel ->
    exists n t' ev, mrun' n (T body idx lm m false ret) = (t', ev) /\ outputs_of ev = o /\
      match r with
      | SReturn_ v => exists lm', t' = T body idx lm' m true (Some v)
      | _ => exists lm', t' = T body (S idx) lm' m (done_after body idx) ret /\ agree P lm' ls' /\ same_dom lm lm'
      end.
Proof.
  intros body idx c b ret P m Hn Hq Hfr HP Hfuel.
  induction k as [| k IH]; intros lm ls ls' o r Ha E N; cbn [sloop] in E.
  - inversion E; subst. congruence.
  - assert (Ev : eval c lm = eval c ls).
    { apply (eval_agree P); auto. intros y Hy. apply HP. cbn. apply in_or_app. now left. }
    pose proof (mstep_at body idx lm m ret _ Hn) as Hst.
    cbn [mexec] in Hst. rewrite mwhile_auto in Hst by assumption. cbn [m_loc] in Hst. rewrite Ev in Hst.
    destruct (truthy (eval c ls)).
    + (* one iteration *)
      destruct (quiet_block_sim aw fuel b Hq (O :: [idx]) lm ls m [] P) as (lm1 & ls1 & o1 & r1 & E1 & N1 & M1 & A1 & D1 & _).
      { apply fresh_cons, Hfr. } { assumption. }
      { intros y Hy. apply HP. cbn. apply in_or_app. now right. }
      rewrite E1 in E. rewrite M1 in Hst. cbn [app] in Hst.
      destruct r1 as [| v |]; [| | congruence]; cbn [out_of m_loc m_pos m_out] in Hst.
      * destruct (sloop _ _ _ k ls1) as [[l2 o2] r2] eqn:E2. inversion E; subst ls' o r.
        destruct (IH lm1 ls1 l2 o2 r2 A1 E2 N) as (n & t' & ev & R & O & F).
        exists (S n), t'; eexists. split; [| split].
        -- eapply mrun_S; [exact Hst | exact R].
        -- cbn. rewrite !outputs_of_app, outputs_of_out_events, O. cbn. now rewrite app_nil_r.
        -- destruct r2; try assumption.
           ++ destruct F as (lm' & -> & A' & D'). exists lm'. split; [reflexivity | split; [assumption | eapply same_dom_trans; eauto]].
           ++ destruct F as (lm' & -> & A' & D'). exists lm'. split; [reflexivity | split; [assumption | eapply same_dom_trans; eauto]].
      * inversion E; subst ls' o r. exists 1%nat; do 2 eexists. split; [| split].
        -- apply mrun_1. exact Hst.
        -- cbn. rewrite outputs_of_app, outputs_of_out_events. cbn. apply app_nil_r.
        -- exists lm1. reflexivity.
    + inversion E; subst ls' o r. exists 1%nat; do 2 eexists. split; [| split].
      * apply mrun_1. exact Hst.
      * reflexivity.
      * exists lm. split; [reflexivity | split; [assumption | apply same_dom_refl]].
Qed.


(* ------------------------------------------------------------------ a top-level for loop *)
Lemma exists_in_true : forall x l, lookup x l <> None -> exists_in x l = true.
Proof. intros x l H. unfold exists_in. destruct (lookup x l); congruence. Qed.

Lemma exists_in_false : forall x l, lookup x l = None -> exists_in x l = false.
Proof. intros x l H. unfold exists_in. now rewrite H. Qed.

Definition fkey (idx : nat) : path := [2%nat; idx].

Lemma fresh_under_marker : forall idx v m, fresh [idx] m -> fresh [O; idx] (pos_set (fkey idx) v m).
Proof.
  intros idx v m H k Hk. rewrite pos_get_set_other.
  - apply H. eapply below_cons; eauto.
  - intros E. destruct Hk as [l Hl]. rewrite <- E in Hl. unfold fkey in Hl.
    destruct l as [| a l]; [discriminate |]. apply (f_equal (@length nat)) in Hl.
    cbn in Hl. rewrite app_length in Hl. cbn in Hl. lia.
Qed.

(* re-entered activation: the variable exists and the declaration record is there *)
Lemma mexec_for_present : forall p x i c u b st,
  exists_in x (m_loc st) = true -> pos_get (2%nat :: p) (m_pos st) <> None ->
  MX p (SFor x i c u b) st =
  match mfor true (fun l => truthy (eval c l)) (compound_with MX (O :: p) b)
             (fun l => assign x (eval u l) l) fuel st with
  | (st', ONormal) => (mkM (remove x (m_loc st')) (pos_del (2%nat :: p) (m_pos st')) (m_out st'), ONormal)
  | r => r
  end.
Proof.
  intros. cbn [mexec]. rewrite H. cbn [negb orb]. destruct (pos_get (2%nat :: p) (m_pos st)); [reflexivity | congruence].
Qed.

Lemma mexec_for_absent : forall p x i c u b st,
  exists_in x (m_loc st) = false ->
  MX p (SFor x i c u b) st =
  match mfor true (fun l => truthy (eval c l)) (compound_with MX (O :: p) b)
             (fun l => assign x (eval u l) l) fuel
             (mkM (declare x (eval i (m_loc st)) (m_loc st)) (pos_set (2%nat :: p) 1%nat (m_pos st)) (m_out st)) with
  | (st', ONormal) => (mkM (remove x (m_loc st')) (pos_del (2%nat :: p) (m_pos st')) (m_out st'), ONormal)
  | r => r
  end.
Proof. intros. cbn [mexec]. rewrite H. reflexivity. Qed.

Lemma for_reentry_sim : forall body idx x i c u b ret (P : var -> Prop) m,
  nth_error body idx = Some (SFor x i c u b) -> forallb quiet b = true -> fresh [idx] m ->
  (forall y, In y (mentions (SFor x i c u b)) -> P y) -> (1 <= fuel)%nat ->
  forall k lm ls ls' o r,
    agree P lm ls -> lookup x lm <> None ->
    sloop (fun l => truthy (eval c l)) (sblock_with SX b) (fun l => assign x (eval u l) l) k ls = (ls', o, r) ->
    r <> SFuel ->
    exists n t' ev, mrun' n (T body idx lm (pos_set (fkey idx) 1%nat m) false ret) = (t', ev) /\ outputs_of ev = o /\
      match r with
      | SReturn_ v => exists lm' m', t' = T body idx lm' m' true (Some v)
      | _ => exists lmL, t' = T body (S idx) (remove x lmL) m (done_after body idx) ret /\
                         agree P lmL ls' /\ same_dom lm lmL
      end.
Proof.
  intros body idx x i c u b ret P m Hn Hq Hfr HP Hfuel.
  assert (HfrF : fresh [O; idx] (pos_set (fkey idx) 1%nat m)) by (apply fresh_under_marker, Hfr).
  assert (Hdel : pos_del (fkey idx) (pos_set (fkey idx) 1%nat m) = m).
  { apply pos_del_set_absent, Hfr. exists [2%nat]. reflexivity. }
  assert (Hown : pos_get (2%nat :: [idx]) (pos_set (fkey idx) 1%nat m) <> None).
  { unfold fkey. rewrite pos_get_set_same. discriminate. }
  assert (HPc : forall y, In y (evars c) -> P y).
  { intros y Hy. apply HP. cbn. right. apply in_or_app. right. apply in_or_app. now left. }
  assert (HPu : forall y, In y (evars u) -> P y).
  { intros y Hy. apply HP. cbn. right. apply in_or_app. right. apply in_or_app. right. apply in_or_app. now left. }
  assert (HPb : forall y, In y (flat_map mentions b) -> P y).
  { intros y Hy. apply HP. cbn. right. apply in_or_app. right. apply in_or_app. right. apply in_or_app. now right. }
  induction k as [| k IH]; intros lm ls ls' o r Ha Hx E N; cbn [sloop] in E.
  - inversion E; subst. congruence.
  - assert (Ev : eval c lm = eval c ls) by (apply (eval_agree P); auto).
    pose proof (mstep_at body idx lm (pos_set (fkey idx) 1%nat m) ret _ Hn) as Hst.
    rewrite mexec_for_present in Hst; [| cbn [m_loc]; apply exists_in_true; assumption | cbn [m_pos]; exact Hown].
    rewrite mfor_auto in Hst by assumption. cbn [m_loc] in Hst. rewrite Ev in Hst.
    destruct (truthy (eval c ls)).
    + destruct (quiet_block_sim aw fuel b Hq (O :: [idx]) lm ls (pos_set (fkey idx) 1%nat m) [] P) as (lm1 & ls1 & o1 & r1 & E1 & N1 & M1 & A1 & D1 & _);
        [exact HfrF | assumption | assumption |].
      rewrite E1 in E. rewrite M1 in Hst. cbn [app] in Hst.
      destruct r1 as [| v |]; [| | congruence]; cbn [out_of m_loc m_pos m_out with_loc] in Hst.
      * destruct (sloop _ _ _ k _) as [[l2 o2] r2] eqn:E2. inversion E; subst ls' o r.
        assert (Eu : eval u lm1 = eval u ls1) by (apply (eval_agree P); auto).
        destruct (IH (assign x (eval u lm1) lm1) (assign x (eval u ls1) ls1) l2 o2 r2) as (n & t' & ev & R & O & F); auto.
        { rewrite Eu. now apply agree_assign. }
        { intros H0. apply (same_dom_assign x (eval u lm1) lm1) in H0. apply D1 in H0. contradiction. }
        exists (S n), t'; eexists. split; [| split].
        -- eapply mrun_S; [exact Hst | exact R].
        -- cbn. rewrite !outputs_of_app, outputs_of_out_events, O. cbn. now rewrite app_nil_r.
        -- assert (DD : same_dom lm (assign x (eval u lm1) lm1)).
           { eapply same_dom_trans; [exact D1 | apply same_dom_assign]. }
           destruct r2; try assumption.
           ++ destruct F as (lmL & -> & A' & D'). exists lmL.
              split; [reflexivity | split; [assumption | eapply same_dom_trans; eauto]].
           ++ destruct F as (lmL & -> & A' & D'). exists lmL.
              split; [reflexivity | split; [assumption | eapply same_dom_trans; eauto]].
      * inversion E; subst ls' o r. exists 1%nat; do 2 eexists. split; [| split].
        -- apply mrun_1. exact Hst.
        -- cbn. rewrite outputs_of_app, outputs_of_out_events. cbn. apply app_nil_r.
        -- exists lm1, (pos_set (fkey idx) 1%nat m). reflexivity.
    + inversion E; subst ls' o r. cbn [m_loc m_pos m_out] in Hst. fold (fkey idx) in Hst. rewrite Hdel in Hst.
      exists 1%nat; do 2 eexists. split; [| split].
      * apply mrun_1. exact Hst.
      * reflexivity.
      * exists lm. split; [reflexivity | split; [assumption | apply same_dom_refl]].
Qed.

Lemma sloop_unfold : forall cond bodyf upd k l, (1 <= k)%nat ->
  sloop cond bodyf upd k l =
  if cond l then
    match bodyf l with
    | (l1, o1, SNormal) => match sloop cond bodyf upd (Nat.pred k) (upd l1) with (l2, o2, r) => (l2, o1 ++ o2, r) end
    | r => r
    end
  else (l, [], SNormal).
Proof. intros. destruct k; [lia | reflexivity]. Qed.

Lemma for_first_sim : forall body idx x i c u b ret (P : var -> Prop) m,
  nth_error body idx = Some (SFor x i c u b) -> forallb quiet b = true -> fresh [idx] m ->
  (forall y, In y (mentions (SFor x i c u b)) -> P y) -> (1 <= fuel)%nat ->
  forall lm ls ls' o r,
    agree P lm ls -> lookup x lm = None ->
    SX (SFor x i c u b) ls = (ls', o, r) -> r <> SFuel ->
    exists n t' ev, mrun' n (T body idx lm m false ret) = (t', ev) /\ outputs_of ev = o /\
      match r with
      | SReturn_ v => exists lm' m', t' = T body idx lm' m' true (Some v)
      | _ => exists lm', t' = T body (S idx) lm' m (done_after body idx) ret /\
                         agree P lm' ls' /\ same_dom lm lm'
      end.
Proof.
  intros body idx x i c u b ret P m Hn Hq Hfr HP Hfuel lm ls ls' o r Ha Hx E N.
  set (mF := pos_set (fkey idx) 1%nat m).
  assert (HfrF : fresh [O; idx] mF) by (apply fresh_under_marker, Hfr).
  assert (HPi : forall y, In y (evars i) -> P y).
  { intros y Hy. apply HP. cbn. right. apply in_or_app. now left. }
  assert (HPc : forall y, In y (evars c) -> P y).
  { intros y Hy. apply HP. cbn. right. apply in_or_app. right. apply in_or_app. now left. }
  assert (HPu : forall y, In y (evars u) -> P y).
  { intros y Hy. apply HP. cbn. right. apply in_or_app. right. apply in_or_app. right. apply in_or_app. now left. }
  assert (HPb : forall y, In y (flat_map mentions b) -> P y).
  { intros y Hy. apply HP. cbn. right. apply in_or_app. right. apply in_or_app. right. apply in_or_app. now right. }
  assert (HPx : P x) by (apply HP; cbn; now left).
  assert (Ei : eval i lm = eval i ls) by (apply (eval_agree P); auto).
  set (lm0 := declare x (eval i lm) lm). set (ls0 := declare x (eval i ls) ls).
  assert (A0 : agree P lm0 ls0).
  { intros y Hy. unfold lm0, ls0. rewrite !lookup_declare, Ei. destruct (Nat.eqb y x); auto. }
  assert (Hdom0 : forall z, z <> x -> lookup z lm0 = lookup z lm).
  { intros z Hz. unfold lm0. rewrite lookup_declare. apply Nat.eqb_neq in Hz. now rewrite Hz. }
  assert (Hx0 : lookup x lm0 <> None).
  { unfold lm0. rewrite lookup_declare, Nat.eqb_refl. discriminate. }
  (* removing the variable again gives back the domain of lm *)
  assert (Hrem : forall lmL, same_dom lm0 lmL -> same_dom lm (remove x lmL)).
  { intros lmL D z. rewrite lookup_remove. destruct (Nat.eqb z x) eqn:Ez.
    - apply Nat.eqb_eq in Ez. subst z. tauto.
    - apply Nat.eqb_neq in Ez. rewrite <- (Hdom0 z Ez). apply D. }
  assert (Hagr : forall lmL lsL, agree P lmL lsL -> agree P (remove x lmL) (remove x lsL)).
  { intros lmL lsL A y Hy. rewrite !lookup_remove. destruct (Nat.eqb y x); auto. }
  cbn [sexec] in E. fold ls0 in E. rewrite sloop_unfold in E by assumption.
  assert (Ev : eval c lm0 = eval c ls0) by (apply (eval_agree P); auto).
  pose proof (mstep_at body idx lm m ret _ Hn) as Hst.
  rewrite mexec_for_absent in Hst by (apply exists_in_false; assumption).
  cbn [m_loc m_pos m_out] in Hst. fold lm0 in Hst. fold (fkey idx) in Hst. fold mF in Hst.
  rewrite mfor_auto in Hst by assumption. cbn [m_loc] in Hst. rewrite Ev in Hst.
  destruct (truthy (eval c ls0)).
  - destruct (quiet_block_sim aw fuel b Hq (O :: [idx]) lm0 ls0 mF [] P) as (lm1 & ls1 & o1 & r1 & E1 & N1 & M1 & A1 & D1 & _);
      [exact HfrF | assumption | assumption |].
    rewrite E1 in E. rewrite M1 in Hst. cbn [app] in Hst.
    destruct r1 as [| v |]; [| | congruence]; cbn [out_of m_loc m_pos m_out with_loc] in Hst.
    + destruct (sloop _ _ _ (Nat.pred fuel) _) as [[l2 o2] r2] eqn:E2.
      assert (Eu : eval u lm1 = eval u ls1) by (apply (eval_agree P); auto).
      assert (N2 : r2 <> SFuel).
      { intros ->. inversion E; subst. congruence. }
      destruct (for_reentry_sim body idx x i c u b ret P m Hn Hq Hfr HP Hfuel (Nat.pred fuel)
                  (assign x (eval u lm1) lm1) (assign x (eval u ls1) ls1) l2 o2 r2) as (n & t' & ev & R & O & F); auto.
      { rewrite Eu. now apply agree_assign. }
      { intros H0. apply (same_dom_assign x (eval u lm1) lm1) in H0. apply D1 in H0. contradiction. }
      assert (DD : same_dom lm0 (assign x (eval u lm1) lm1)).
      { eapply same_dom_trans; [exact D1 | apply same_dom_assign]. }
      exists (S n), t'; eexists. split; [| split].
      * eapply mrun_S; [exact Hst | exact R].
      * cbn. rewrite !outputs_of_app, outputs_of_out_events, O. cbn. rewrite app_nil_r.
        destruct r2; inversion E; subst; reflexivity.
      * destruct r2; inversion E; subst; try congruence; try exact F.
        destruct F as (lmL & -> & A' & D'). exists (remove x lmL). split; [reflexivity | split].
        -- now apply Hagr.
        -- apply Hrem. eapply same_dom_trans; eauto.
    + inversion E; subst ls' o r. exists 1%nat; do 2 eexists. split; [| split].
      * apply mrun_1. exact Hst.
      * cbn. rewrite outputs_of_app, outputs_of_out_events. cbn. apply app_nil_r.
      * exists lm1, mF. reflexivity.
  - inversion E; subst ls' o r. cbn [m_loc m_pos m_out] in Hst. fold (fkey idx) in Hst. unfold mF in Hst.
    rewrite pos_del_set_absent in Hst by (apply Hfr; exists [2%nat]; reflexivity).
    exists 1%nat; do 2 eexists. split; [| split].
    + apply mrun_1. exact Hst.
    + reflexivity.
    + exists (remove x lm0). split; [reflexivity | split].
      * now apply Hagr.
      * apply Hrem, same_dom_refl.
Qed.

(* ------------------------------------------------------------------ while (c) { quiet...; yield; } *)
Lemma quiet_yield_last_split : forall b, quiet_yield_last b = true ->
  exists b0, b = b0 ++ [SYield] /\ forallb quiet b0 = true.
Proof.
  induction b as [| s r IH]; intros H; [discriminate |].
  destruct r as [| s' r'].
  - destruct s; try discriminate. exists []. split; reflexivity.
  - cbn [quiet_yield_last] in H. apply andb_true_iff in H as [H1 H2].
    destruct (IH H2) as (b0 & E & Q). exists (s :: b0). split.
    + cbn [app]. now rewrite <- E.
    + cbn [forallb]. now rewrite H1, Q.
Qed.

Lemma sblock_app_yield : forall b0 ls,
  sblock_with SX (b0 ++ [SYield]) ls =
  match sblock_with SX b0 ls with (l1, o1, SNormal) => (l1, o1, SNormal) | r => r end.
Proof.
  induction b0 as [| s b0 IH]; intros ls; [reflexivity |].
  cbn [app sblock_with]. fold (sblock_with SX). destruct (SX s ls) as [[l1 o1] r1].
  destruct r1; try reflexivity. rewrite IH. destruct (sblock_with SX b0 l1) as [[l2 o2] r2].
  destruct r2; reflexivity.
Qed.

Lemma cgo_prefix : forall b0, Forall (QS aw fuel) b0 ->
  forall rest key i lm ls m mcur o0 (P : var -> Prop),
    fresh key m -> (mcur = m \/ exists j, mcur = pos_set key j m) ->
    agree P lm ls -> (forall y, In y (flat_map mentions b0) -> P y) ->
    exists lm' ls' o r,
      sblock_with SX b0 ls = (ls', o, r) /\ r <> SFuel /\ agree P lm' ls' /\ same_dom lm lm' /\
      match r with
      | SReturn_ v => cgo MX key 0 (b0 ++ rest) i (mkM lm mcur o0) = (mkM lm' m (o0 ++ o), OReturn v)
      | _ => exists mcur', (mcur' = m \/ exists j, mcur' = pos_set key j m) /\
             cgo MX key 0 (b0 ++ rest) i (mkM lm mcur o0) =
             cgo MX key 0 rest (i + length b0) (mkM lm' mcur' (o0 ++ o))
      end.
Proof.
  induction 1 as [| s b0 Hs Hb IH]; intros rest key i lm ls m mcur o0 P Hf Hcur Ha HP.
  - exists lm, ls, [], SNormal. cbn [sblock_with app length]. rewrite Nat.add_0_r, app_nil_r.
    split; [reflexivity |]. split; [discriminate |]. split; [assumption |]. split; [apply same_dom_refl |].
    exists mcur. split; [assumption | reflexivity].
  - assert (Hset : pos_set key i mcur = pos_set key i m).
    { destruct Hcur as [-> | [j ->]]; [reflexivity | apply pos_set_set]. }
    cbn [app cgo]. rewrite ltb_0. unfold with_pos. cbn [m_loc m_pos m_out]. rewrite Hset.
    destruct (Hs (i :: key) lm ls (pos_set key i m) o0 P) as (lm1 & ls1 & o1 & r1 & E1 & N1 & M1 & A1 & D1 & _).
    { apply fresh_child, Hf. }
    { assumption. }
    { intros y Hy. apply HP. cbn [flat_map]. apply in_or_app. now left. }
    rewrite M1. destruct r1 as [| v |]; [| | congruence]; cbn [out_of].
    + unfold with_pos. cbn [m_loc m_pos m_out]. rewrite pos_set_set.
      destruct (IH rest key (S i) lm1 ls1 m (pos_set key (S i) m) (o0 ++ o1) P)
        as (lm2 & ls2 & o2 & r2 & E2 & N2 & A2 & D2 & F2); try assumption.
      { right. now exists (S i). }
      { intros y Hy. apply HP. cbn [flat_map]. apply in_or_app. now right. }
      exists lm2, ls2, (o1 ++ o2), r2. cbn [sblock_with]. rewrite E1. fold (sblock_with SX). rewrite E2.
      split; [reflexivity |]. split; [assumption |]. split; [assumption |].
      split; [eapply same_dom_trans; eassumption |].
      rewrite app_assoc. cbn [length]. rewrite Nat.add_succ_r. exact F2.
    + unfold with_pos. cbn [m_loc m_pos m_out]. rewrite pos_del_set_absent by (apply Hf, below_refl).
      exists lm1, ls1, o1, (SReturn_ v). cbn [sblock_with]. rewrite E1.
      split; [reflexivity |]. split; [discriminate |]. split; [assumption |]. split; [assumption |]. reflexivity.
Qed.

Lemma cgo_yield_last : forall key i lm m mcur o0,
  (mcur = m \/ exists j, mcur = pos_set key j m) ->
  cgo MX key 0 [SYield] i (mkM lm mcur o0) = (mkM lm (pos_set key (S i) m) o0, OYield false).
Proof.
  intros key i lm m mcur o0 Hcur.
  assert (Hset : pos_set key i mcur = pos_set key i m).
  { destruct Hcur as [-> | [j ->]]; [reflexivity | apply pos_set_set]. }
  cbn [cgo]. rewrite ltb_0. unfold with_pos. cbn [m_loc m_pos m_out mexec]. rewrite Hset, pos_set_set. reflexivity.
Qed.

Lemma cgo_skip : forall ss key start i st, (i + length ss <= start)%nat ->
  cgo MX key start ss i st = (with_pos st (pos_del key (m_pos st)), ONormal).
Proof.
  induction ss as [| s ss IH]; intros key start i st H; [reflexivity |].
  cbn [cgo]. cbn [length] in H. replace (Nat.ltb i start) with true by (symmetry; apply Nat.ltb_lt; lia).
  apply IH. lia.
Qed.

Lemma while_ty_sim : forall body idx c b0 ret (P : var -> Prop) m,
  nth_error body idx = Some (SWhile c (b0 ++ [SYield])) -> forallb quiet b0 = true -> fresh [idx] m ->
  (forall y, In y (mentions (SWhile c (b0 ++ [SYield]))) -> P y) -> (1 <= fuel)%nat ->
  forall k lm ls ls' o r mcur,
    agree P lm ls -> (mcur = m \/ mcur = pos_set [O; idx] (S (length b0)) m) ->
    sloop (fun l => truthy (eval c l)) (sblock_with SX (b0 ++ [SYield])) (fun l => l) k ls = (ls', o, r) ->
    r <> SFuel ->
    exists n t' ev, mrun' n (T body idx lm mcur false ret) = (t', ev) /\ outputs_of ev = o /\
      match r with
      | SReturn_ v => exists lm' m', t' = T body idx lm' m' true (Some v)
      | _ => exists lm' m', t' = T body (S idx) lm' m' (done_after body idx) ret /\
                            (m' = m \/ m' = pos_set [O; idx] (S (length b0)) m) /\
                            agree P lm' ls' /\ same_dom lm lm'
      end.
Proof.
  intros body idx c b0 ret P m Hn Hq Hfr HP Hfuel.
  set (key := [O; idx]). set (mB := pos_set key (S (length b0)) m).
  assert (Hkey : fresh key m) by (apply fresh_cons, Hfr).
  assert (HQ : Forall (QS aw fuel) b0).
  { rewrite forallb_forall in Hq. apply Forall_forall. intros s Hs. apply quiet_sim, Hq, Hs. }
  assert (HPb : forall y, In y (flat_map mentions b0) -> P y).
  { intros y Hy. apply HP. cbn [mentions]. apply in_or_app. right.
    apply in_flat_map in Hy as (s & Hs & Hy). apply in_flat_map. exists s. split; [apply in_or_app; now left | assumption]. }
  induction k as [| k IH]; intros lm ls ls' o r mcur Ha Hcur E N; cbn [sloop] in E.
  - inversion E; subst. congruence.
  - assert (Ev : eval c lm = eval c ls).
    { apply (eval_agree P); auto. intros y Hy. apply HP. cbn. apply in_or_app. now left. }
    destruct (truthy (eval c ls)) eqn:Ec.
    + (* the loop continues; first from a state without resume entry *)
      assert (HA : exists n t' ev, mrun' n (T body idx lm m false ret) = (t', ev) /\ outputs_of ev = o /\
        match r with
        | SReturn_ v => exists lm' m', t' = T body idx lm' m' true (Some v)
        | _ => exists lm' m', t' = T body (S idx) lm' m' (done_after body idx) ret /\
                              (m' = m \/ m' = mB) /\ agree P lm' ls' /\ same_dom lm lm'
        end).
      { pose proof (mstep_at body idx lm m ret _ Hn) as Hst.
        cbn [mexec] in Hst. rewrite mwhile_auto in Hst by assumption. cbn [m_loc] in Hst. rewrite Ev, Ec in Hst.
        unfold compound_with in Hst. cbn [m_pos] in Hst. fold key in Hst.
        rewrite (Hkey key (below_refl key)) in Hst.
        destruct (cgo_prefix b0 HQ [SYield] key 0 lm ls m m [] P Hkey (or_introl eq_refl) Ha HPb)
          as (lm1 & ls1 & o1 & r1 & E1 & N1 & A1 & D1 & F1).
        rewrite sblock_app_yield, E1 in E.
        destruct r1 as [| v |]; [| | congruence].
        - destruct F1 as (mc & Hmc & F1). rewrite F1 in Hst. cbn [Nat.add] in Hst.
          rewrite (cgo_yield_last key (length b0) lm1 m mc ([] ++ o1) Hmc) in Hst. cbn [app] in Hst.
          cbn [m_loc m_pos m_out] in Hst. fold mB in Hst.
          destruct (sloop _ _ _ k ls1) as [[l2 o2] r2] eqn:E2. inversion E; subst ls' o r.
          destruct (IH lm1 ls1 l2 o2 r2 mB A1 (or_intror eq_refl) E2 N) as (n & t' & ev & R & O & F).
          exists (S n), t'; eexists. split; [| split].
          + eapply mrun_S; [exact Hst | exact R].
          + cbn. rewrite !outputs_of_app, outputs_of_out_events, O. cbn. now rewrite app_nil_r.
          + destruct r2; try assumption.
            * destruct F as (lm' & m' & -> & Hm' & A' & D'). exists lm', m'.
              split; [reflexivity | split; [assumption | split; [assumption | eapply same_dom_trans; eauto]]].
            * destruct F as (lm' & m' & -> & Hm' & A' & D'). exists lm', m'.
              split; [reflexivity | split; [assumption | split; [assumption | eapply same_dom_trans; eauto]]].
        - rewrite F1 in Hst. cbn [app m_loc m_pos m_out] in Hst. inversion E; subst ls' o r.
          exists 1%nat; do 2 eexists. split; [| split].
          + apply mrun_1. exact Hst.
          + cbn. rewrite outputs_of_app, outputs_of_out_events. cbn. apply app_nil_r.
          + exists lm1, m. reflexivity. }
      destruct Hcur as [-> | ->]; [exact HA |].
      (* from the state left by the trailing yield: one empty step, then as above *)
      destruct HA as (n & t' & ev & R & O & F).
      pose proof (mstep_at body idx lm mB ret _ Hn) as Hst.
      cbn [mexec] in Hst. rewrite mwhile_auto in Hst by assumption. cbn [m_loc] in Hst. rewrite Ev, Ec in Hst.
      unfold compound_with in Hst. cbn [m_pos] in Hst. fold key in Hst. unfold mB in Hst at 2.
      rewrite pos_get_set_same in Hst.
      rewrite cgo_skip in Hst by (rewrite app_length; cbn; lia).
      unfold with_pos in Hst. cbn [m_loc m_pos m_out] in Hst. unfold mB in Hst.
      rewrite pos_del_set_absent in Hst by (apply Hkey, below_refl).
      exists (S n), t'; eexists. split; [| split].
      * eapply mrun_S; [exact Hst | exact R].
      * cbn. exact O.
      * exact F.
    + inversion E; subst ls' o r.
      pose proof (mstep_at body idx lm mcur ret _ Hn) as Hst.
      cbn [mexec] in Hst. rewrite mwhile_auto in Hst by assumption. cbn [m_loc] in Hst. rewrite Ev, Ec in Hst.
      exists 1%nat; do 2 eexists. split; [| split].
      * apply mrun_1. exact Hst.
      * reflexivity.
      * exists lm, mcur. split; [reflexivity | split; [assumption | split; [assumption | apply same_dom_refl]]].
Qed.

(* ------------------------------------------------------------------ the whole body *)
Lemma top_ok_cases : forall s, top_ok s = true ->
  s = SYield \/ quiet s = true \/
  (exists c b, s = SWhile c b /\ forallb quiet b = true) \/
  (exists c b0, s = SWhile c (b0 ++ [SYield]) /\ forallb quiet b0 = true) \/
  (exists x i c u b, s = SFor x i c u b /\ forallb quiet b = true).
Proof.
  intros s H. destruct s; cbn in H |- *; auto.
  - apply orb_true_iff in H as [H | H].
    + right; right; left; eauto.
    + right; right; right; left. destruct (quiet_yield_last_split b H) as (b0 & -> & Q). eauto.
  - right; right; right; right. do 5 eexists. eauto.
Qed.

Lemma nth_error_mid : forall (pre : list stmt) s rest, nth_error (pre ++ s :: rest) (length pre) = Some s.
Proof. intros. rewrite nth_error_app2 by lia. now rewrite Nat.sub_diag. Qed.

Lemma done_after_mid : forall (pre : list stmt) s rest,
  done_after (pre ++ s :: rest) (length pre) = true -> rest = [].
Proof.
  intros pre s rest H. unfold done_after in H. apply negb_true_iff, Nat.ltb_ge in H.
  rewrite app_length in H. cbn in H. destruct rest; [reflexivity | cbn in H; lia].
Qed.

Lemma app_cons_assoc : forall (pre : list stmt) s rest, pre ++ s :: rest = (pre ++ [s]) ++ rest.
Proof. intros. now rewrite <- app_assoc. Qed.

Lemma fuel_pos_of_loop : forall cond bodyf upd l r, sloop cond bodyf upd fuel l = r -> snd r <> SFuel -> (1 <= fuel)%nat.
Proof. intros cond bodyf upd l r H N. destruct fuel; [| lia]. cbn in H. subst r. cbn in N. congruence. Qed.

Definition PT : var -> Prop := fun _ => True.

Lemma tail_sim : forall rest pre lm ls ret0 dn m (FV : list var),
  forallb top_ok rest = true ->
  (forall z, In z (flat_map for_var rest) -> In z FV) ->
  (forall z, In z FV -> lookup z lm = None) ->
  agree PT lm ls ->
  (dn = true -> rest = []) ->
  stale (length pre) m ->
  forall ls' out r, sblock_with SX rest ls = (ls', out, r) -> r <> SFuel ->
  exists n t' ev, mrun' n (T (pre ++ rest) (length pre) lm m dn ret0) = (t', ev) /\
    t_done t' = true /\ t_stuck t' = false /\ outputs_of ev = out /\ t_ret t' = ret_of r ret0 /\
    (r = SNormal -> agree PT (t_loc t') ls').
Proof.
  induction rest as [| s rest IH]; intros pre lm ls ret0 dn m FV Htop Hfv Habs Ha Hdn Hst ls' out r E N.
  - cbn in E. inversion E; subst ls' out r. destruct dn.
    + exists 0%nat; do 2 eexists. cbn. repeat split; auto.
    + exists 1%nat; do 2 eexists. split.
      { apply mrun_1. unfold mstep, T. cbn [t_done t_stuck orb t_body t_idx].
        rewrite app_nil_r. rewrite (proj2 (nth_error_None pre (length pre))) by lia. reflexivity. }
      cbn. repeat split; auto.
  - assert (dn = false) as -> by (destruct dn; [specialize (Hdn eq_refl); discriminate | reflexivity]).
    cbn [forallb] in Htop. apply andb_true_iff in Htop as [Hs Htop].
    assert (HP : forall y, In y (mentions s) -> PT y) by (intros; exact I).
    assert (Hfv' : forall z, In z (flat_map for_var rest) -> In z FV).
    { intros z Hz. apply Hfv. cbn [flat_map]. apply in_or_app. now right. }
    pose proof (nth_error_mid pre s rest) as Hn.
    pose proof (stale_fresh _ _ Hst) as Hfr.
    cbn [sblock_with] in E. fold (sblock_with SX) in E.
    set (body := pre ++ s :: rest) in *.
    assert (Hbody : body = (pre ++ [s]) ++ rest) by apply app_cons_assoc.
    assert (Hlen : length (pre ++ [s]) = S (length pre)) by (rewrite app_length; cbn; lia).
    assert (HstS : forall m', stale (S (length pre)) m' -> stale (length (pre ++ [s])) m') by (intros; now rewrite Hlen).
    destruct (top_ok_cases s Hs) as [-> | [Hq | [(c & b & -> & Hq) | [(c & b0 & -> & Hq) | (x & i & c & u & b & -> & Hq)]]]].
    + (* yield *)
      cbn [sexec] in E.
      destruct (sblock_with SX rest ls) as [[l2 o2] r2] eqn:E2. inversion E; subst ls' out r.
      destruct (IH (pre ++ [SYield]) lm ls ret0 false m FV Htop Hfv' Habs Ha) with (ls' := l2) (out := o2) (r := r2)
        as (n & t' & ev & R & F); auto.
      { discriminate. }
      { apply HstS, stale_S, Hst. }
      rewrite Hlen, <- Hbody in R.
      exists (S n), t'; eexists. split.
      { eapply mrun_S; [| exact R]. rewrite (mstep_at body (length pre) lm m ret0 _ Hn). cbn. reflexivity. }
      destruct F as (F1 & F2 & F3 & F4 & F5). repeat split; auto.
    + (* quiet statement *)
      destruct (step_quiet body (length pre) s ret0 PT lm ls m Hn Hq Hfr HP Ha)
        as (lm1 & ls1 & o1 & r1 & E1 & N1 & A1 & D1 & ev1 & O1 & St1).
      rewrite E1 in E.
      destruct r1 as [| v |]; [| | congruence].
      * destruct (sblock_with SX rest ls1) as [[l2 o2] r2] eqn:E2. inversion E; subst ls' out r.
        destruct (IH (pre ++ [s]) lm1 ls1 ret0 (done_after body (length pre)) m FV Htop Hfv') with (ls' := l2) (out := o2) (r := r2)
          as (n & t' & ev & R & F); auto.
        { intros z Hz. apply D1. now apply Habs. }
        { apply done_after_mid. }
        { apply HstS, stale_S, Hst. }
        rewrite Hlen, <- Hbody in R.
        exists (S n), t'; eexists. split.
        { eapply mrun_S; [exact St1 | exact R]. }
        destruct F as (F1 & F2 & F3 & F4 & F5). repeat split; auto.
        rewrite outputs_of_app, O1, F3. reflexivity.
      * inversion E; subst ls' out r. exists 1%nat; do 2 eexists. split.
        { apply mrun_1. exact St1. }
        cbn. repeat split; auto; try discriminate.
    + (* while, quiet body *)
      cbn [sexec] in E.
      destruct (sloop _ _ _ fuel ls) as [[l1 o1] r1] eqn:E1.
      assert (N1 : r1 <> SFuel) by (intros ->; inversion E; subst; congruence).
      assert (Hfuel : (1 <= fuel)%nat) by (eapply fuel_pos_of_loop; [exact E1 | exact N1]).
      destruct (while_sim body (length pre) c b ret0 PT m Hn Hq Hfr HP Hfuel fuel lm ls l1 o1 r1 Ha E1 N1)
        as (n1 & t1 & ev1 & R1 & O1 & F1).
      destruct r1 as [| v |]; [| | congruence].
      * destruct F1 as (lm1 & -> & A1 & D1).
        destruct (sblock_with SX rest l1) as [[l2 o2] r2] eqn:E2. inversion E; subst ls' out r.
        destruct (IH (pre ++ [SWhile c b]) lm1 l1 ret0 (done_after body (length pre)) m FV Htop Hfv') with (ls' := l2) (out := o2) (r := r2)
          as (n & t' & ev & R & F); auto.
        { intros z Hz. apply D1. now apply Habs. }
        { apply done_after_mid. }
        { apply HstS, stale_S, Hst. }
        rewrite Hlen, <- Hbody in R.
        exists (n1 + n)%nat, t'; eexists. split.
        { apply mrun_app with (t1 := T body (S (length pre)) lm1 m (done_after body (length pre)) ret0); eassumption. }
        destruct F as (F1 & F2 & F3 & F4 & F5). repeat split; auto.
        rewrite outputs_of_app, O1, F3. reflexivity.
      * destruct F1 as (lm1 & ->). inversion E; subst ls' out r. exists n1; do 2 eexists. split; [exact R1 |].
        cbn. repeat split; auto; try discriminate.
    + (* while, quiet body with a trailing yield *)
      cbn [sexec] in E.
      destruct (sloop _ _ _ fuel ls) as [[l1 o1] r1] eqn:E1.
      assert (N1 : r1 <> SFuel) by (intros ->; inversion E; subst; congruence).
      assert (Hfuel : (1 <= fuel)%nat) by (eapply fuel_pos_of_loop; [exact E1 | exact N1]).
      destruct (while_ty_sim body (length pre) c b0 ret0 PT m Hn Hq Hfr HP Hfuel fuel lm ls l1 o1 r1 m
                  Ha (or_introl eq_refl) E1 N1)
        as (n1 & t1 & ev1 & R1 & O1 & F1).
      destruct r1 as [| v |]; [| | congruence].
      * destruct F1 as (lm1 & m1 & -> & Hm1 & A1 & D1).
        destruct (sblock_with SX rest l1) as [[l2 o2] r2] eqn:E2. inversion E; subst ls' out r.
        destruct (IH (pre ++ [SWhile c (b0 ++ [SYield])]) lm1 l1 ret0 (done_after body (length pre)) m1 FV Htop Hfv') with (ls' := l2) (out := o2) (r := r2)
          as (n & t' & ev & R & F); auto.
        { intros z Hz. apply D1. now apply Habs. }
        { apply done_after_mid. }
        { apply HstS. destruct Hm1 as [-> | ->]; [apply stale_S, Hst | apply stale_set, Hst]. }
        rewrite Hlen, <- Hbody in R.
        exists (n1 + n)%nat, t'; eexists. split.
        { apply mrun_app with (t1 := T body (S (length pre)) lm1 m1 (done_after body (length pre)) ret0); eassumption. }
        destruct F as (F1 & F2 & F3 & F4 & F5). repeat split; auto.
        rewrite outputs_of_app, O1, F3. reflexivity.
      * destruct F1 as (lm1 & m1 & ->). inversion E; subst ls' out r. exists n1; do 2 eexists. split; [exact R1 |].
        cbn. repeat split; auto; try discriminate.
    + (* for *)
      destruct (SX (SFor x i c u b) ls) as [[l1 o1] r1] eqn:E1.
      assert (N1 : r1 <> SFuel) by (intros ->; inversion E; subst; congruence).
      assert (Hfuel : (1 <= fuel)%nat).
      { destruct fuel; [| lia]. cbn in E1. inversion E1; subst. congruence. }
      assert (Hx : lookup x lm = None).
      { apply Habs, Hfv. cbn. now left. }
      destruct (for_first_sim body (length pre) x i c u b ret0 PT m Hn Hq Hfr HP Hfuel lm ls l1 o1 r1 Ha Hx E1 N1)
        as (n1 & t1 & ev1 & R1 & O1 & F1).
      destruct r1 as [| v |]; [| | congruence].
      * destruct F1 as (lm1 & -> & A1 & D1).
        destruct (sblock_with SX rest l1) as [[l2 o2] r2] eqn:E2. inversion E; subst ls' out r.
        destruct (IH (pre ++ [SFor x i c u b]) lm1 l1 ret0 (done_after body (length pre)) m FV Htop Hfv') with (ls' := l2) (out := o2) (r := r2)
          as (n & t' & ev & R & F); auto.
        { intros z Hz. apply D1. now apply Habs. }
        { apply done_after_mid. }
        { apply HstS, stale_S, Hst. }
        rewrite Hlen, <- Hbody in R.
        exists (n1 + n)%nat, t'; eexists. split.
        { apply mrun_app with (t1 := T body (S (length pre)) lm1 m (done_after body (length pre)) ret0); eassumption. }
        destruct F as (F1 & F2 & F3 & F4 & F5). repeat split; auto.
        rewrite outputs_of_app, O1, F3. reflexivity.
      * destruct F1 as (lm1 & m1 & ->). inversion E; subst ls' out r. exists n1; do 2 eexists. split; [exact R1 |].
        cbn. repeat split; auto; try discriminate.
Qed.

Lemma register_auto_true : forall body, register_auto body = true.
Proof. intros body. unfold register_auto. destruct (negb (existsb has_yield body)); reflexivity. Qed.

Lemma lookup_not_in : forall z (l : locals), ~ In z (map fst l) -> lookup z l = None.
Proof.
  induction l as [| [y v] l IH]; cbn; intros H; [reflexivity |].
  destruct (Nat.eqb z y) eqn:E.
  - apply Nat.eqb_eq in E. subst. exfalso. apply H. now left.
  - apply IH. intros Hin. apply H. now right.
Qed.

(* Main refinement: for every body of the fragment, every argument list, every await oracle: if the
   body run alone ends (normally or by return) then after finitely many step grants the task is
   complete, and for every larger number of grants the concatenated output of the steps, the result
   and ALL locals are those of the body run alone. *)
Theorem resume_refines_sequential_l : forall body args ls' out r,
  wf_body (map fst args) body = true ->
  spec_run aw fuel body args = (ls', out, r) -> r <> SFuel ->
  exists n t' ev,
    (forall m, (n <= m)%nat -> mrun' m (spawn body args) = (t', ev)) /\
    t_done t' = true /\ t_stuck t' = false /\ outputs_of ev = out /\
    t_ret t' = ret_of r None /\
    (r = SNormal -> forall y, lookup y (t_loc t') = lookup y ls').
Proof.
  intros body args ls' out r Hwf E N. unfold wf_body in Hwf.
  apply andb_true_iff in Hwf as [Ht Hd].
  destruct (tail_sim body [] args args None false [] (flat_map for_var body) Ht) with (ls' := ls') (out := out) (r := r)
    as (n & t' & ev & R & F1 & F2 & F3 & F4 & F5); auto.
  - intros z Hz. apply lookup_not_in. rewrite disjointb_spec in Hd. now apply Hd.
  - apply agree_refl.
  - discriminate.
  - apply stale_nil.
  - exists n, t', ev. split; [| split; [assumption | split; [assumption | split; [assumption | split; [assumption |]]]]].
    + intros m Hm. unfold spawn. rewrite register_auto_true.
      replace m with (n + (m - n))%nat by lia.
      cbn [app length] in R. unfold T in R.
      rewrite (mrun_app n (m - n) _ t' ev t' []); [now rewrite app_nil_r | exact R | now apply mrun_done].
    + intros Hr y. apply (F5 Hr). exact I.
Qed.

(* one step on a statement without yields and loops = that statement run sequentially on the saved locals *)
Lemma locals_survive_l : forall body idx s ret lm m,
  nth_error body idx = Some s -> quiet s = true -> fresh [idx] m ->
  exists lm' ls' o r,
    SX s lm = (ls', o, r) /\ r <> SFuel /\ (forall y, lookup y lm' = lookup y ls') /\
    exists ev, outputs_of ev = o /\
      mstep' (T body idx lm m false ret) =
      (match r with
       | SReturn_ v => T body idx lm' m true (Some v)
       | _ => T body (S idx) lm' m (done_after body idx) ret
       end, ev).
Proof.
  intros body idx s ret lm m Hn Hq Hfr.
  destruct (step_quiet body idx s ret (fun _ => True) lm lm m Hn Hq Hfr (fun _ _ => I) (agree_refl _ lm))
    as (lm' & ls' & o & r & E & N & A & D & ev & O & St).
  exists lm', ls', o, r. split; [exact E |]. split; [exact N |]. split.
  - intros y. now apply A.
  - exists ev. split; [exact O | exact St].
Qed.

End R.
