(* C14 - invariants of execute_one_step that hold for EVERY body (also outside the fragment). *)
From Coq Require Import List ZArith Bool Arith Lia.
From Cb Require Import C14.Model.
Import ListNotations.

Section I.
Variable aw : nat -> Z -> Z.
Variable fuel : nat.

Ltac step_cases t :=
  unfold mstep; destruct (t_done t || t_stuck t) eqn:?; [cbn; auto |];
  destruct (nth_error (t_body t) (t_idx t)) eqn:?; [| cbn; auto];
  match goal with |- context [mexec ?a ?f ?b ?p ?s ?st] => destruct (mexec a f b p s st) as [? []] end; cbn; auto.

(* current_statement_index never decreases and moves by at most one per step *)
Lemma idx_step : forall t, let t' := fst (mstep aw fuel t) in t_idx t' = t_idx t \/ t_idx t' = S (t_idx t).
Proof. intros t. step_cases t. destruct from_loop; auto. Qed.

Lemma idx_run : forall n t, let t' := fst (mrun aw fuel n t) in (t_idx t <= t_idx t' <= t_idx t + n)%nat.
Proof.
  induction n as [| n IH]; intros t; cbn; [lia |].
  pose proof (idx_step t) as H. destruct (mstep aw fuel t) as [t1 e1]. cbn in H.
  specialize (IH t1). destruct (mrun aw fuel n t1) as [t2 e2]. cbn in *. lia.
Qed.

(* the body and the auto-yield flag of a task never change *)
Lemma body_step : forall t, t_body (fst (mstep aw fuel t)) = t_body t /\ t_auto (fst (mstep aw fuel t)) = t_auto t.
Proof. intros t. step_cases t. Qed.

(* a completed task is never executed again, and produces nothing *)
Lemma done_final : forall t, t_done t = true -> forall n, mrun aw fuel n t = (t, []).
Proof.
  intros t H. induction n; [reflexivity |]. cbn. unfold mstep at 1. rewrite H. cbn. now rewrite IHn.
Qed.

(* a step either does nothing or starts by executing the statement at the saved index *)
Lemma events_shape : forall t, snd (mstep aw fuel t) = [] \/ exists r, snd (mstep aw fuel t) = EvExec (t_idx t) :: r.
Proof. intros t. step_cases t; right; eexists; reflexivity. Qed.

(* a result is recorded only by a return, and then the task is complete *)
Lemma ret_step : forall t, t_ret (fst (mstep aw fuel t)) = t_ret t \/
  (t_done (fst (mstep aw fuel t)) = true /\ exists i, In (EvReturn i) (snd (mstep aw fuel t))).
Proof.
  intros t. step_cases t. right. split; [reflexivity |]. eexists. right. apply in_or_app. right. now left.
Qed.

End I.
