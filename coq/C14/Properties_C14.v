(* C14 - property theorems only. Statements are about the Mech model of execute_one_step /
   execute_compound_statement / execute_if|while|for_statement (Model.v) and of the await data path
   (Await.v); the proofs are in Quiet.v, Refine.v, Invariants.v, Witness.v, Await.v. *)
From Coq Require Import List ZArith Bool Arith String.
From Cb Require Import C14.Model C14.Lemmas C14.Quiet C14.Refine C14.Invariants C14.Witness C14.Await.
Import ListNotations.

(* The refinement, for the fragment "yields and loops at the top level of the body" (wf_body: every
   top-level statement is a yield, a statement free of yields and loops, a while/for loop whose
   body is free of yields and loops, or a while loop whose body is free of yields and loops up to
   one trailing yield - the idiom `while (c) { ...; yield; }`; loop variables are not parameters;
   since fix 4fa4431 they may be reused by later loops).  For every such body, every argument list, every await oracle aw and every loop
   bound: if the body run alone ends, there is a number n of step grants after which the task is
   complete, and for EVERY number m >= n of grants the concatenated output of the steps, the result,
   and all locals (as a map) are exactly those of the body run alone.
   Missing for the full law (all bodies): yield inside a block / branch, yield inside a loop body
   other than as the last statement of a while body, a loop inside a branch or inside another loop
   - each refuted below. *)
Theorem resume_refines_sequential_partial :
  forall (aw : nat -> Z -> Z) (fuel : nat) body args ls' out r,
    wf_body (map fst args) body = true ->
    spec_run aw fuel body args = (ls', out, r) -> r <> SFuel ->
    exists n t' ev,
      (forall m, n <= m -> mrun aw fuel m (spawn body args) = (t', ev)) /\
      t_done t' = true /\ t_stuck t' = false /\ outputs_of ev = out /\
      t_ret t' = ret_of r None /\
      (r = SNormal -> forall y, lookup y (t_loc t') = lookup y ls').
Proof. exact resume_refines_sequential_l. Qed.
Print Assumptions resume_refines_sequential_partial.

(* Locals survive suspension, one statement at a time, at ANY index of ANY body and for any resume
   table without an entry at or below that statement: a step whose statement is free of yields and
   loops runs that statement exactly as the sequential semantics does on the locals saved by the
   previous step, saves the resulting locals back (equal as maps), leaves the resume table as it
   was and moves to the next statement (or completes with the returned value). *)
Theorem locals_survive_suspension :
  forall (aw : nat -> Z -> Z) (fuel : nat) body idx s ret lm m,
    nth_error body idx = Some s -> quiet s = true -> fresh [idx] m ->
    exists lm' ls' o r,
      sexec aw fuel s lm = (ls', o, r) /\ r <> SFuel /\ (forall y, lookup y lm' = lookup y ls') /\
      exists ev, outputs_of ev = o /\
        mstep aw fuel (T body idx lm m false ret) =
        (match r with
         | SReturn_ v => T body idx lm' m true (Some v)
         | _ => T body (S idx) lm' m (done_after body idx) ret
         end, ev).
Proof. exact locals_survive_l. Qed.
Print Assumptions locals_survive_suspension.

(* For EVERY body and task state: the statement index never decreases and advances by at most one
   per step; after n grants it lies between the old index and the old index + n. *)
Theorem statement_index_monotone :
  forall aw fuel t, let t' := fst (mstep aw fuel t) in t_idx t' = t_idx t \/ t_idx t' = S (t_idx t).
Proof. exact idx_step. Qed.
Print Assumptions statement_index_monotone.

Theorem statement_index_bounded_by_grants :
  forall aw fuel n t, let t' := fst (mrun aw fuel n t) in t_idx t <= t_idx t' <= t_idx t + n.
Proof. exact idx_run. Qed.
Print Assumptions statement_index_bounded_by_grants.

(* every step that does anything starts by executing the statement at the saved index *)
Theorem step_starts_at_saved_index :
  forall aw fuel t, snd (mstep aw fuel t) = [] \/ exists r, snd (mstep aw fuel t) = EvExec (t_idx t) :: r.
Proof. exact events_shape. Qed.
Print Assumptions step_starts_at_saved_index.

(* a completed task is never executed again, whatever the number of further grants *)
Theorem completed_task_is_final :
  forall aw fuel t, t_done t = true -> forall n, mrun aw fuel n t = (t, []).
Proof. exact done_final. Qed.
Print Assumptions completed_task_is_final.

(* a result is recorded only by a return statement, and the task is then complete *)
Theorem result_only_by_return :
  forall aw fuel t, t_ret (fst (mstep aw fuel t)) = t_ret t \/
    (t_done (fst (mstep aw fuel t)) = true /\ exists i, In (EvReturn i) (snd (mstep aw fuel t))).
Proof. exact ret_step. Qed.
Print Assumptions result_only_by_return.

(* register_task: every task runs in auto-yield mode, whether or not its body contains a yield
   (AsyncTask() defaults auto_yield to true and register_task only ever sets it to true) *)
Theorem every_task_is_auto_yield : forall body, register_auto body = true.
Proof. exact register_auto_true. Qed.
Print Assumptions every_task_is_auto_yield.

(* ---- await delivers exactly the returned value (data path ReturnException -> Future.value ->
   TypedValue; first or repeated await, task finished before or during the await) *)
Theorem await_returns_result_int : forall z t,
  t = TInt \/ t = TLong \/ t = TBool -> as_numeric (await_of (ret_int z t)) = z.
Proof. exact await_int_l. Qed.
Print Assumptions await_returns_result_int.

Theorem await_returns_result_string : forall s, await_of (ret_string s) = TVString s.
Proof. exact await_string_l. Qed.
Print Assumptions await_returns_result_string.

(* struct, Option<T>, Result<T,E>: the whole Variable (members, variant, payload) arrives; only
   is_assigned is set *)
Theorem await_returns_result_struct : forall v,
  v_type v <> TString -> is_floating (v_type v) = false -> (v_is_struct v || v_is_enum v)%bool = true ->
  as_struct (await_of (ret_struct v)) = Some (set_assigned v) /\
  v_members (set_assigned v) = v_members v /\ v_enum_variant (set_assigned v) = v_enum_variant v /\
  v_assoc_int (set_assigned v) = v_assoc_int v /\ v_assoc_str (set_assigned v) = v_assoc_str v.
Proof.
  intros v H1 H2 H3. split; [exact (await_struct_l v H1 H2 H3) |].
  destruct (set_assigned_payload v) as (A & B & C & D & _). auto.
Qed.
Print Assumptions await_returns_result_struct.

(* a task that ends without return delivers 0 *)
Theorem await_without_return_is_zero : as_numeric await_of_no_return = 0%Z.
Proof. exact await_no_return_l. Qed.
Print Assumptions await_without_return_is_zero.

(* ---- refutations of the full law on the faithful model (known findings) *)
(* DESIGN section 7 #26: a yield inside an if-block (or bare block) skips the rest of that block *)
Theorem resume_refuted_yield_in_block : violates w_yield_in_block [(O, 1%Z)].
Proof. exact w_yield_in_block_l. Qed.
Print Assumptions resume_refuted_yield_in_block.

(* #45: a yield inside a loop body makes the loop re-test its condition before the body resumes *)
Theorem resume_refuted_yield_in_loop : violates w_yield_in_loop [(O, 2%Z)].
Proof. exact w_yield_in_loop_l. Qed.
Print Assumptions resume_refuted_yield_in_loop.

(* new: a loop inside an if branch re-evaluates the if condition after every iteration *)
Theorem resume_refuted_loop_in_branch : violates w_loop_in_branch [(O, 0%Z)].
Proof. exact w_loop_in_branch_l. Qed.
Print Assumptions resume_refuted_loop_in_branch.

(* new: nested for loops - the outer update runs after every inner iteration *)
Theorem resume_refuted_nested_loops : violates w_nested_loops [(O, 0%Z)].
Proof. exact w_nested_loops_l. Qed.
Print Assumptions resume_refuted_nested_loops.

(* new: an old-style enum result (ReturnException of TYPE_ENUM) is not delivered: await yields a
   struct-kind value whose numeric reading is 0, and value 1 is relabelled Option::None *)
Theorem await_enum_refuted :
  as_numeric (await_of (ret_enum 2)) <> 2%Z /\
  (exists v, as_struct (await_of (ret_enum 1)) = Some v /\ v_enum_variant v = "None"%string /\ v_enum_type v = "Option"%string).
Proof. exact await_enum_refuted_l. Qed.
Print Assumptions await_enum_refuted.

(* non-vacuity: a body with yields, a while loop with a branch, a for loop with an await, a return
   satisfies the hypothesis of the refinement theorem and runs as expected *)
Example fragment_example :
  wf_body [O; 1; 2] ex_fragment = true /\
  let aw := fun (_ : nat) (a : Z) => (a + 100)%Z in
  let '(t, ev) := mrun aw 10 30 (spawn ex_fragment [(O, 5%Z); (1, 2%Z); (2, 2%Z)]) in
  let '(l, o, r) := spec_run aw 10 ex_fragment [(O, 5%Z); (1, 2%Z); (2, 2%Z)] in
  t_done t = true /\ outputs_of ev = o /\ t_ret t = Some 108%Z /\ r = SReturn_ 108%Z /\
  o = [(0, 5%Z); (1, 1%Z); (2, 5%Z); (3, 100%Z); (3, 101%Z); (5, 0%Z); (4, 1%Z); (4, 0%Z)].
Proof. vm_compute. repeat split; reflexivity. Qed.
