(* C14 - statements without yield and without loops ("quiet"): the resumable executor runs them
   exactly like the sequential one, leaves the resume table as it found it, and does so uniformly
   for two variable maps that agree on the variables the statement mentions. *)
From Coq Require Import List ZArith Bool Arith Lia.
From Cb Require Import C14.Model C14.Lemmas.
Import ListNotations.
Local Open Scope Z_scope.

Definition out_of (r : sres) : outcome :=
  match r with SNormal => ONormal | SReturn_ v => OReturn v | SFuel => OFuel end.

Section Q.
Variable aw : nat -> Z -> Z.
Variable fuel : nat.

Notation SX := (sexec aw fuel).
Notation MX := (mexec aw fuel true).

Definition QS (s : stmt) : Prop :=
  forall p lm ls m o0 (P : var -> Prop),
    fresh p m -> agree P lm ls -> (forall y, In y (mentions s) -> P y) ->
    exists lm' ls' o r,
      SX s ls = (ls', o, r) /\ r <> SFuel /\
      MX p s (mkM lm m o0) = (mkM lm' m (o0 ++ o), out_of r) /\
      agree P lm' ls' /\ same_dom lm lm' /\ same_dom ls ls'.

Definition QB (b : list stmt) : Prop :=
  forall key lm ls m o0 (P : var -> Prop),
    fresh key m -> agree P lm ls -> (forall y, In y (flat_map mentions b) -> P y) ->
    exists lm' ls' o r,
      sblock_with SX b ls = (ls', o, r) /\ r <> SFuel /\
      compound_with MX key b (mkM lm m o0) = (mkM lm' m (o0 ++ o), out_of r) /\
      agree P lm' ls' /\ same_dom lm lm' /\ same_dom ls ls'.

Ltac split6 := split; [| split; [| split; [| split; [| split]]]].

Lemma ltb_0 : forall i, Nat.ltb i 0 = false.
Proof. intros i. apply Nat.ltb_ge. lia. Qed.

Lemma cgo_quiet : forall ss, Forall QS ss ->
  forall key i lm ls m mcur o0 (P : var -> Prop),
    fresh key m -> (mcur = m \/ exists j, mcur = pos_set key j m) ->
    agree P lm ls -> (forall y, In y (flat_map mentions ss) -> P y) ->
    exists lm' ls' o r,
      sblock_with SX ss ls = (ls', o, r) /\ r <> SFuel /\
      cgo MX key 0 ss i (mkM lm mcur o0) = (mkM lm' m (o0 ++ o), out_of r) /\
      agree P lm' ls' /\ same_dom lm lm' /\ same_dom ls ls'.
Proof.
  induction 1 as [| s ss Hs Hss IH]; intros key i lm ls m mcur o0 P Hf Hcur Ha HP.
  - exists lm, ls, [], SNormal. cbn. rewrite app_nil_r.
    assert (pos_del key mcur = m) as ->.
    { destruct Hcur as [-> | [j ->]].
      - apply pos_del_absent, Hf, below_refl.
      - apply pos_del_set_absent, Hf, below_refl. }
    split6; try assumption; try discriminate; try reflexivity; apply same_dom_refl.
  - assert (Hset : pos_set key i mcur = pos_set key i m).
    { destruct Hcur as [-> | [j ->]]; [reflexivity | apply pos_set_set]. }
    cbn [cgo]. rewrite ltb_0. unfold with_pos at 1. cbn [m_loc m_pos m_out]. rewrite Hset.
    destruct (Hs (i :: key) lm ls (pos_set key i m) o0 P) as (lm1 & ls1 & o1 & r1 & E1 & N1 & M1 & A1 & D1 & D1').
    { apply fresh_child, Hf. }
    { assumption. }
    { intros y Hy. apply HP. cbn [flat_map]. apply in_or_app. now left. }
    rewrite M1. destruct r1 as [| v |]; [| | congruence]; cbn [out_of].
    + unfold with_pos. cbn [m_loc m_pos m_out]. rewrite pos_set_set.
      destruct (IH key (S i) lm1 ls1 m (pos_set key (S i) m) (o0 ++ o1) P)
        as (lm2 & ls2 & o2 & r2 & E2 & N2 & M2 & A2 & D2 & D2'); try assumption.
      { right. now exists (S i). }
      { intros y Hy. apply HP. cbn [flat_map]. apply in_or_app. now right. }
      exists lm2, ls2, (o1 ++ o2), r2. cbn [sblock_with]. rewrite E1.
      fold (sblock_with SX). rewrite E2. rewrite M2, app_assoc.
      split6; try assumption; try reflexivity; eapply same_dom_trans; eassumption.
    + unfold with_pos. cbn [m_loc m_pos m_out]. rewrite pos_del_set_absent by (apply Hf, below_refl).
      exists lm1, ls1, o1, (SReturn_ v). cbn [sblock_with]. rewrite E1.
      split6; try assumption; try discriminate; reflexivity.
Qed.

Lemma QB_of_Forall : forall b, Forall QS b -> QB b.
Proof.
  intros b H key lm ls m o0 P Hf Ha HP. unfold compound_with. cbn [m_pos].
  rewrite (Hf key (below_refl key)).
  eapply cgo_quiet; eauto.
Qed.

Lemma Forall_quiet : forall (b : list stmt),
  Forall (fun s => quiet s = true -> QS s) b -> forallb quiet b = true -> Forall QS b.
Proof.
  induction 1 as [| s b Hs Hb IH]; cbn; intros H; constructor.
  - apply Hs. now apply andb_true_iff in H as [H _].
  - apply IH. now apply andb_true_iff in H as [_ H].
Qed.

Lemma quiet_sim : forall s, quiet s = true -> QS s.
Proof.
  induction s using stmt_ind'; intros Hq; try discriminate.
  - (* emit *)
    intros p lm ls m o0 P Hf Ha HP. exists lm, ls, [(k, eval e ls)], SNormal. cbn.
    unfold emit. cbn. rewrite (eval_agree P lm ls e Ha HP).
    split6; try assumption; try discriminate; try reflexivity; apply same_dom_refl.
  - (* assign *)
    intros p lm ls m o0 P Hf Ha HP.
    assert (Ev : eval e lm = eval e ls).
    { apply (eval_agree P); auto. intros y Hy. apply HP. cbn. now right. }
    exists (assign x (eval e lm) lm), (assign x (eval e ls) ls), [], SNormal. cbn. unfold with_loc. cbn.
    rewrite app_nil_r.
    split6; try discriminate; try reflexivity; try apply same_dom_assign.
    rewrite Ev. now apply agree_assign.
  - (* await *)
    intros p lm ls m o0 P Hf Ha HP.
    assert (Ev : eval e lm = eval e ls).
    { apply (eval_agree P); auto. intros y Hy. apply HP. cbn. now right. }
    exists (assign x (aw c (eval e lm)) lm), (assign x (aw c (eval e ls)) ls), [], SNormal. cbn. unfold with_loc. cbn.
    rewrite app_nil_r.
    split6; try discriminate; try reflexivity; try apply same_dom_assign.
    rewrite Ev. now apply agree_assign.
  - (* return *)
    intros p lm ls m o0 P Hf Ha HP. exists lm, ls, [], (SReturn_ (eval e ls)). cbn.
    rewrite app_nil_r. rewrite (eval_agree P lm ls e Ha HP).
    split6; try assumption; try discriminate; try reflexivity; apply same_dom_refl.
  - (* block *)
    cbn in Hq. pose proof (QB_of_Forall b (Forall_quiet b H Hq)) as HB.
    intros p lm ls m o0 P Hf Ha HP.
    destruct (HB (O :: p) lm ls m o0 P) as (lm' & ls' & o & r & E & N & M & A & D & D'); auto.
    { now apply fresh_cons. }
    exists lm', ls', o, r. cbn [sexec mexec]. auto 10.
  - (* if *)
    cbn in Hq. apply andb_true_iff in Hq as [Hq1 Hq2].
    pose proof (QB_of_Forall t (Forall_quiet t H Hq1)) as HT.
    pose proof (QB_of_Forall e (Forall_quiet e H0 Hq2)) as HE.
    intros p lm ls m o0 P Hf Ha HP.
    assert (Ev : eval c lm = eval c ls).
    { apply (eval_agree P); auto. intros y Hy. apply HP. cbn. apply in_or_app. now left. }
    cbn [sexec mexec m_loc]. rewrite Ev. destruct (truthy (eval c ls)).
    + destruct (HT (O :: p) lm ls m o0 P) as (lm' & ls' & o & r & E & N & M & A & D & D'); auto.
      { now apply fresh_cons. }
      { intros y Hy. apply HP. cbn. apply in_or_app. right. apply in_or_app. now left. }
      exists lm', ls', o, r. auto 10.
    + destruct e as [| s0 e0].
      * exists lm, ls, [], SNormal. cbn. rewrite app_nil_r.
        split6; try assumption; try discriminate; try reflexivity; apply same_dom_refl.
      * destruct (HE (1%nat :: p) lm ls m o0 P) as (lm' & ls' & o & r & E & N & M & A & D & D'); auto.
        { now apply fresh_cons. }
        { intros y Hy. apply HP. cbn [mentions]. apply in_or_app. right. apply in_or_app. now right. }
        exists lm', ls', o, r. auto 10.
Qed.

Lemma quiet_block_sim : forall b, forallb quiet b = true -> QB b.
Proof.
  intros b H. apply QB_of_Forall. rewrite forallb_forall in H. apply Forall_forall.
  intros s Hs. apply quiet_sim, H, Hs.
Qed.

End Q.
