(* C14 - model of the resumable task executor of the Cb interpreter (definitions only).

   Mech mirrors, function by function,
     src/backend/interpreter/event_loop/simple_event_loop.cpp
         SimpleEventLoop::register_task, ::execute_one_step (one top-level statement per step,
         scope copy-in / copy-out, YieldException / ReturnException handling)
     src/backend/interpreter/executors/statement_list_executor.cpp
         StatementListExecutor::execute_compound_statement (resume index per AST node in
         statement_positions)
     src/backend/interpreter/executors/control_flow_executor.cpp
         ControlFlowExecutor::execute_if_statement, ::execute_while_statement,
         ::execute_for_statement (auto-yield after every iteration, explicit yield turned into
         YieldException(true), init skipped when the loop variable exists, variable removed by the
         activation that declared it or that finds the declaration record in statement_positions)
   Spec is the body run alone as an ordinary sequential program (yield = no-op).

   Task bodies are over int locals:  emit / assign / x = await child(e) / yield / return / block /
   if-else / while / for.  The value an await delivers is a parameter [aw] (child index, argument);
   the data path of that value through ReturnException -> Future.value -> TypedValue is modelled
   separately in Await.v. *)
From Coq Require Import List ZArith Bool Arith.
Import ListNotations.
Local Open Scope Z_scope.

Definition var := nat.

Inductive expr :=
| EConst (z : Z)
| EVar (x : var)
| EAdd (a b : expr)
| ESub (a b : expr)
| ELt (a b : expr)
| EEq (a b : expr).

Inductive stmt :=
| SEmit (k : nat) (e : expr)                 (* println("T<d>", t, k, e); *)
| SAssign (x : var) (e : expr)               (* x = e; *)
| SAwait (x : var) (c : nat) (e : expr)      (* x = await c<c>(.., e); *)
| SYield                                     (* yield; *)
| SReturn (e : expr)                         (* return e; *)
| SBlock (b : list stmt)                     (* { ... } *)
| SIf (c : expr) (t : list stmt) (e : list stmt)   (* if (c) { t } [else { e }]   (e = [] : no else) *)
| SWhile (c : expr) (b : list stmt)          (* while (c) { b } *)
| SFor (x : var) (i c u : expr) (b : list stmt).   (* for (int x = i; c; x = u) { b } *)

(* ------------------------------------------------------------------ locals: Scope::variables *)
Definition locals := list (var * Z).

Fixpoint lookup (x : var) (l : locals) : option Z :=
  match l with
  | [] => None
  | (y, v) :: l' => if Nat.eqb x y then Some v else lookup x l'
  end.

(* assignment to an existing variable (an unknown name is an error in the interpreter; no-op here) *)
Fixpoint assign (x : var) (v : Z) (l : locals) : locals :=
  match l with
  | [] => []
  | (y, w) :: l' => if Nat.eqb x y then (y, v) :: l' else (y, w) :: assign x v l'
  end.

(* declaration: variables[x] = v *)
Definition declare (x : var) (v : Z) (l : locals) : locals :=
  match lookup x l with
  | Some _ => assign x v l
  | None => l ++ [(x, v)]
  end.

(* remove_variable_from_current_scope *)
Fixpoint remove (x : var) (l : locals) : locals :=
  match l with
  | [] => []
  | (y, w) :: l' => if Nat.eqb x y then remove x l' else (y, w) :: remove x l'
  end.

Definition exists_in (x : var) (l : locals) : bool :=
  match lookup x l with Some _ => true | None => false end.

Definition b2z (b : bool) : Z := if b then 1 else 0.

Fixpoint eval (e : expr) (l : locals) : Z :=
  match e with
  | EConst z => z
  | EVar x => match lookup x l with Some v => v | None => 0 end
  | EAdd a b => eval a l + eval b l
  | ESub a b => eval a l - eval b l
  | ELt a b => b2z (eval a l <? eval b l)
  | EEq a b => b2z (eval a l =? eval b l)
  end.

Definition truthy (z : Z) : bool := negb (z =? 0).

Definition line := (nat * Z)%type.            (* (k, value) of one println *)

(* ------------------------------------------------------------------ Spec: the body run alone *)
Inductive sres := SNormal | SReturn_ (v : Z) | SFuel.

Section WithAwait.
Variable aw : nat -> Z -> Z.        (* value delivered by `await c<c>(.., a)` *)
Variable fuel : nat.                (* bound on the iterations of one loop activation *)

Definition sblock_with (ex : stmt -> locals -> locals * list line * sres)
  : list stmt -> locals -> locals * list line * sres :=
  fix go (ss : list stmt) (l : locals) :=
    match ss with
    | [] => (l, [], SNormal)
    | s :: ss' =>
        match ex s l with
        | (l1, o1, SNormal) =>
            match go ss' l1 with (l2, o2, r) => (l2, o1 ++ o2, r) end
        | r => r
        end
    end.

(* a loop: condition, body, update (identity for while) *)
Section SLoop.
  Variable cond : locals -> bool.
  Variable bodyf : locals -> locals * list line * sres.
  Variable upd : locals -> locals.
  Fixpoint sloop (k : nat) (l : locals) {struct k} : locals * list line * sres :=
    match k with
    | O => (l, [], SFuel)
    | S k' =>
        if cond l then
          match bodyf l with
          | (l1, o1, SNormal) => match sloop k' (upd l1) with (l2, o2, r) => (l2, o1 ++ o2, r) end
          | r => r
          end
        else (l, [], SNormal)
    end.
End SLoop.

Fixpoint sexec (s : stmt) (l : locals) {struct s} : locals * list line * sres :=
  match s with
  | SEmit k e => (l, [(k, eval e l)], SNormal)
  | SAssign x e => (assign x (eval e l) l, [], SNormal)
  | SAwait x c e => (assign x (aw c (eval e l)) l, [], SNormal)
  | SYield => (l, [], SNormal)
  | SReturn e => (l, [], SReturn_ (eval e l))
  | SBlock b => sblock_with sexec b l
  | SIf c t e => if truthy (eval c l) then sblock_with sexec t l else sblock_with sexec e l
  | SWhile c b =>
      sloop (fun l => truthy (eval c l)) (sblock_with sexec b) (fun l => l) fuel l
  | SFor x i c u b =>
      match sloop (fun l => truthy (eval c l)) (sblock_with sexec b)
                  (fun l => assign x (eval u l) l) fuel (declare x (eval i l) l) with
      | (l', o, SNormal) => (remove x l', o, SNormal)
      | r => r
      end
  end.

Definition sblock := sblock_with sexec.

(* the whole body, alone: output, final locals, result (None = fell off the end) *)
Definition spec_run (body : list stmt) (l : locals) : locals * list line * sres := sblock body l.

(* ------------------------------------------------------------------ Mech *)
Definition path := list nat.   (* innermost index first *)

Fixpoint path_eqb (a b : path) : bool :=
  match a, b with
  | [], [] => true
  | x :: a', y :: b' => Nat.eqb x y && path_eqb a' b'
  | _, _ => false
  end.

(* std::map<const ASTNode*, size_t>: compound node (identified by its path) -> resume index *)
Definition posmap := list (path * nat).

Fixpoint pos_get (k : path) (m : posmap) : option nat :=
  match m with
  | [] => None
  | (k', v) :: m' => if path_eqb k k' then Some v else pos_get k m'
  end.

Fixpoint pos_set (k : path) (v : nat) (m : posmap) : posmap :=
  match m with
  | [] => [(k, v)]
  | (k', w) :: m' => if path_eqb k k' then (k', v) :: m' else (k', w) :: pos_set k v m'
  end.

Fixpoint pos_del (k : path) (m : posmap) : posmap :=
  match m with
  | [] => []
  | (k', w) :: m' => if path_eqb k k' then pos_del k m' else (k', w) :: pos_del k m'
  end.

Inductive outcome :=
| ONormal
| OYield (from_loop : bool)     (* YieldException.is_from_loop *)
| OReturn (v : Z)               (* ReturnException *)
| OFuel.

Record mstate := mkM { m_loc : locals; m_pos : posmap; m_out : list line }.

Definition with_pos (st : mstate) (m : posmap) : mstate := mkM (m_loc st) m (m_out st).
Definition with_loc (st : mstate) (l : locals) : mstate := mkM l (m_pos st) (m_out st).
Definition emit (st : mstate) (k : nat) (v : Z) : mstate := mkM (m_loc st) (m_pos st) (m_out st ++ [(k, v)]).

(* StatementListExecutor::execute_compound_statement *)
Section Compound.
  Variable ex : path -> stmt -> mstate -> mstate * outcome.
  Variable key : path.
  Variable start : nat.
  Fixpoint cgo (ss : list stmt) (i : nat) (st : mstate) {struct ss} : mstate * outcome :=
    match ss with
    | [] => (with_pos st (pos_del key (m_pos st)), ONormal)                (* clear_entry() *)
    | s :: ss' =>
        if Nat.ltb i start then cgo ss' (S i) st
        else
          let st0 := with_pos st (pos_set key i (m_pos st)) in             (* positions[node] = i *)
          match ex (i :: key) s st0 with
          | (st1, ONormal) => cgo ss' (S i) (with_pos st1 (pos_set key (S i) (m_pos st1)))
          | (st1, OYield fl) =>                                            (* is_from_loop ? i : i+1 *)
              (with_pos st1 (pos_set key (if fl then i else S i) (m_pos st1)), OYield fl)
          | (st1, OReturn v) => (with_pos st1 (pos_del key (m_pos st1)), OReturn v)
          | (st1, OFuel) => (st1, OFuel)
          end
    end.
End Compound.

Definition compound_with (ex : path -> stmt -> mstate -> mstate * outcome)
           (key : path) (b : list stmt) (st : mstate) : mstate * outcome :=
  cgo ex key (match pos_get key (m_pos st) with Some i => i | None => O end) b O st.

(* the iteration part of execute_while_statement / execute_for_statement *)
Section MLoop.
  Variable auto : bool.               (* Interpreter::is_in_auto_yield_mode() during the step *)
  Variable cond : locals -> bool.
  Variable bodyf : mstate -> mstate * outcome.
  Section While.
    Fixpoint mwhile (k : nat) (st : mstate) {struct k} : mstate * outcome :=
      match k with
      | O => (st, OFuel)
      | S k' =>
          if cond (m_loc st) then
            match bodyf st with
            | (st1, ONormal) => if auto then (st1, OYield true) else mwhile k' st1
            | (st1, OYield _) => (st1, OYield true)            (* rethrown / YieldException(true) *)
            | r => r
            end
          else (st, ONormal)
      end.
  End While.
  Section For.
    Variable upd : locals -> locals.
    Fixpoint mfor (k : nat) (st : mstate) {struct k} : mstate * outcome :=
      match k with
      | O => (st, OFuel)
      | S k' =>
          if cond (m_loc st) then
            match bodyf st with
            | (st1, ONormal) =>
                let st2 := with_loc st1 (upd (m_loc st1)) in
                if auto then (st2, OYield true) else mfor k' st2
            | (st1, OYield true) => (with_loc st1 (upd (m_loc st1)), OYield true)   (* update, rethrow *)
            | (st1, OYield false) => (st1, OYield true)                            (* no update *)
            | r => r
            end
          else (st, ONormal)
      end.
  End For.
End MLoop.

Section MechExec.
Variable auto : bool.

Fixpoint mexec (p : path) (s : stmt) (st : mstate) {struct s} : mstate * outcome :=
  match s with
  | SEmit k e => (emit st k (eval e (m_loc st)), ONormal)
  | SAssign x e => (with_loc st (assign x (eval e (m_loc st)) (m_loc st)), ONormal)
  | SAwait x c e => (with_loc st (assign x (aw c (eval e (m_loc st))) (m_loc st)), ONormal)
  | SYield => (st, OYield false)                                  (* throw YieldException() *)
  | SReturn e => (st, OReturn (eval e (m_loc st)))
  | SBlock b => compound_with mexec (O :: p) b st
  | SIf c t e =>                                                  (* execute_if_statement *)
      if truthy (eval c (m_loc st)) then compound_with mexec (O :: p) t st
      else match e with
           | [] => (st, ONormal)
           | _ => compound_with mexec (1%nat :: p) e st
           end
  | SWhile c b =>                                                 (* execute_while_statement *)
      mwhile auto (fun l => truthy (eval c l)) (compound_with mexec (O :: p) b) fuel st
  | SFor x i c u b =>                                             (* execute_for_statement *)
      (* fix 4fa4431: the activation that declares the variable records it in statement_positions
         under the init node (key 2 :: p); a re-entered activation that finds the record owns it too *)
      let fresh_decl := negb (exists_in x (m_loc st)) in          (* should_execute_init *)
      let owned := match pos_get (2%nat :: p) (m_pos st) with Some _ => true | None => false end in
      let declared := fresh_decl || owned in                      (* init_var_declared *)
      let st0 := if fresh_decl
                 then mkM (declare x (eval i (m_loc st)) (m_loc st)) (pos_set (2%nat :: p) 1%nat (m_pos st)) (m_out st)
                 else st in
      match mfor auto (fun l => truthy (eval c l)) (compound_with mexec (O :: p) b)
                 (fun l => assign x (eval u l) l) fuel st0 with
      | (st', ONormal) =>                                         (* loop left normally *)
          (if declared then mkM (remove x (m_loc st')) (pos_del (2%nat :: p) (m_pos st')) (m_out st') else st', ONormal)
      | r => r
      end
  end.

Definition mcompound := compound_with mexec.

End MechExec.

(* ------------------------------------------------------------------ AsyncTask + execute_one_step *)
Record task := mkT {
  t_body : list stmt;
  t_idx : nat;                 (* current_statement_index *)
  t_loc : locals;              (* task_scope->variables *)
  t_pos : posmap;              (* statement_positions *)
  t_auto : bool;               (* auto_yield *)
  t_done : bool;               (* is_executed *)
  t_ret : option Z;            (* has_return_value / return_value *)
  t_stuck : bool               (* model only: ran out of fuel *)
}.

Fixpoint has_yield (s : stmt) : bool :=
  match s with
  | SYield => true
  | SBlock b => existsb has_yield b
  | SIf _ t e => existsb has_yield t || existsb has_yield e
  | SWhile _ b => existsb has_yield b
  | SFor _ _ _ _ b => existsb has_yield b
  | _ => false
  end.

(* AsyncTask() sets auto_yield(true); register_task: if (!has_yield_statement(f)) auto_yield = true *)
Definition register_auto (body : list stmt) : bool :=
  let dflt := true in
  if negb (existsb has_yield body) then true else dflt.

Definition spawn (body : list stmt) (args : locals) : task :=
  mkT body O args [] (register_auto body) false None false.

Inductive event :=
| EvExec (i : nat)                 (* CBV exec <t> stmt=<i> *)
| EvOut (k : nat) (v : Z)          (* a println of the task *)
| EvYield (fl : bool) (i : nat)    (* CBV yield <t> loop=<fl> stmt=<i> *)
| EvReturn (i : nat).              (* CBV return <t> stmt=<i> *)

Definition out_events (o : list line) : list event := map (fun kv => EvOut (fst kv) (snd kv)) o.

(* SimpleEventLoop::execute_one_step for a task that is neither waiting nor sleeping.
   Returns the new task and the events of the step. *)
Definition mstep (t : task) : task * list event :=
  if t_done t || t_stuck t then (t, [])
  else
    match nth_error (t_body t) (t_idx t) with
    | None =>            (* "already executed all statements": is_executed = true, return false *)
        (mkT (t_body t) (t_idx t) (t_loc t) (t_pos t) (t_auto t) true (t_ret t) false, [])
    | Some s =>
        match mexec (t_auto t) [t_idx t] s (mkM (t_loc t) (t_pos t) []) with
        | (st, ONormal) =>
            let i' := S (t_idx t) in
            (mkT (t_body t) i' (m_loc st) (m_pos st) (t_auto t)
                 (negb (Nat.ltb i' (length (t_body t)))) (t_ret t) false,
             EvExec (t_idx t) :: out_events (m_out st))
        | (st, OYield fl) =>
            (mkT (t_body t) (if fl then t_idx t else S (t_idx t)) (m_loc st) (m_pos st) (t_auto t)
                 false (t_ret t) false,
             EvExec (t_idx t) :: out_events (m_out st) ++ [EvYield fl (t_idx t)])
        | (st, OReturn v) =>
            (mkT (t_body t) (t_idx t) (m_loc st) (m_pos st) (t_auto t) true (Some v) false,
             EvExec (t_idx t) :: out_events (m_out st) ++ [EvReturn (t_idx t)])
        | (st, OFuel) =>
            (mkT (t_body t) (t_idx t) (m_loc st) (m_pos st) (t_auto t) false (t_ret t) true,
             EvExec (t_idx t) :: out_events (m_out st))
        end
    end.

(* n step grants; events of all steps, concatenated *)
Fixpoint mrun (n : nat) (t : task) : task * list event :=
  match n with
  | O => (t, [])
  | S n' => let (t1, e1) := mstep t in let (t2, e2) := mrun n' t1 in (t2, e1 ++ e2)
  end.

(* steps, one list of events per step, until the task is done (at most n steps) *)
Fixpoint msteps (n : nat) (t : task) : task * list (list event) :=
  match n with
  | O => (t, [])
  | S n' =>
      if t_done t || t_stuck t then (t, [])
      else let (t1, e1) := mstep t in let (t2, e2) := msteps n' t1 in (t2, e1 :: e2)
  end.

Fixpoint outputs_of (ev : list event) : list line :=
  match ev with
  | [] => []
  | EvOut k v :: r => (k, v) :: outputs_of r
  | _ :: r => outputs_of r
  end.

End WithAwait.

(* ------------------------------------------------------------------ the fragment of the theorem *)
(* quiet: no yield and no loop anywhere inside *)
Fixpoint quiet (s : stmt) : bool :=
  match s with
  | SYield => false
  | SWhile _ _ => false
  | SFor _ _ _ _ _ => false
  | SBlock b => forallb quiet b
  | SIf _ t e => forallb quiet t && forallb quiet e
  | _ => true
  end.

(* quiet statements followed by exactly one trailing yield:  while (c) { ...; yield; } *)
Fixpoint quiet_yield_last (b : list stmt) : bool :=
  match b with
  | [] => false
  | s :: r =>
      match r with
      | [] => match s with SYield => true | _ => false end
      | _ => quiet s && quiet_yield_last r
      end
  end.

(* a top-level statement: yield, a quiet statement, a loop whose body is quiet, or a while loop
   whose body is quiet up to a trailing yield *)
Definition top_ok (s : stmt) : bool :=
  match s with
  | SYield => true
  | SWhile _ b => forallb quiet b || quiet_yield_last b
  | SFor _ _ _ _ b => forallb quiet b
  | _ => quiet s
  end.

Fixpoint evars (e : expr) : list var :=
  match e with
  | EConst _ => []
  | EVar x => [x]
  | EAdd a b | ESub a b | ELt a b | EEq a b => evars a ++ evars b
  end.

(* every variable a statement reads or writes *)
Fixpoint mentions (s : stmt) : list var :=
  match s with
  | SEmit _ e => evars e
  | SAssign x e => x :: evars e
  | SAwait x _ e => x :: evars e
  | SYield => []
  | SReturn e => evars e
  | SBlock b => flat_map mentions b
  | SIf c t e => evars c ++ flat_map mentions t ++ flat_map mentions e
  | SWhile c b => evars c ++ flat_map mentions b
  | SFor x i c u b => x :: evars i ++ evars c ++ evars u ++ flat_map mentions b
  end.

Definition for_var (s : stmt) : list var :=
  match s with SFor x _ _ _ _ => [x] | _ => [] end.

Definition memb (x : var) (l : list var) : bool := existsb (Nat.eqb x) l.
Definition disjointb (a b : list var) : bool := forallb (fun x => negb (memb x b)) a.

Fixpoint nodupb (l : list var) : bool :=
  match l with [] => true | x :: r => negb (memb x r) && nodupb r end.

(* the fragment: yields and loops only at the top level of the body, loop bodies and branches quiet
   (a while body may end with one yield), loop variables are not task parameters (they may be
   reused by later loops: since fix 4fa4431 a suspended for loop still removes its variable) *)
Definition wf_body (params : list var) (body : list stmt) : bool :=
  forallb top_ok body && disjointb (flat_map for_var body) params.
