(* C14 - data path of a task result:  ReturnException  ->  AsyncTask.return_* / internal_future.value
   (SimpleEventLoop::execute_one_step, catch (const ReturnException &e), simple_event_loop.cpp)
   ->  TypedValue returned by `await`  (BinaryAndUnaryOperators::evaluate_await, binary_unary.cpp;
   both the "not ready" and the "is_ready" branch read task->internal_future["value"] through the
   same if-chain)  ->  what the awaiting code receives (TypedValue::as_numeric / as_string /
   struct_data, type_inference.h).  Definitions and their lemmas (pure data, no recursion). *)
From Coq Require Import List ZArith Bool String.
Import ListNotations.
Local Open Scope Z_scope.
Local Open Scope string_scope.

Inductive tinfo := TUnknown | TInt | TLong | TBool | TString | TFloat | TDouble | TQuad | TStruct | TEnum.

Definition tinfo_eqb (a b : tinfo) : bool :=
  match a, b with
  | TUnknown, TUnknown | TInt, TInt | TLong, TLong | TBool, TBool | TString, TString
  | TFloat, TFloat | TDouble, TDouble | TQuad, TQuad | TStruct, TStruct | TEnum, TEnum => true
  | _, _ => false
  end.

Definition is_floating (t : tinfo) : bool :=
  match t with TFloat | TDouble | TQuad => true | _ => false end.

Inductive mval := MInt (z : Z) | MStr (s : string).

(* the part of `struct Variable` that the path touches *)
Record variable := mkV {
  v_type : tinfo;
  v_value : Z;
  v_str : string;
  v_dbl : Z;                         (* stands for double_value (never compared as a float) *)
  v_is_struct : bool;
  v_is_enum : bool;
  v_assigned : bool;
  v_struct_name : string;            (* struct_type_name *)
  v_enum_type : string;              (* enum_type_name *)
  v_enum_variant : string;
  v_members : list (string * mval);  (* struct_members, flattened *)
  v_has_assoc : bool;                (* has_associated_value *)
  v_assoc_int : Z;
  v_assoc_str : string
}.

(* Future.value as created at the async call (call_impl.cpp): type UNKNOWN, value 0, assigned *)
Definition fresh_slot : variable :=
  mkV TUnknown 0 "" 0 false false true "" "" "" [] false 0 "".

Record retexc := mkR {
  r_type : tinfo; r_value : Z; r_str : string; r_dbl : Z; r_is_struct : bool; r_struct : variable
}.

(* the ReturnException constructors used by `return e;` *)
Definition ret_int (z : Z) (t : tinfo) : retexc := mkR t z "" z false fresh_slot.
Definition ret_string (s : string) : retexc := mkR TString 0 s 0 false fresh_slot.
Definition ret_struct (v : variable) : retexc := mkR (v_type v) 0 "" 0 true v.
Definition ret_enum (z : Z) : retexc := mkR TEnum z "" z false fresh_slot.   (* old-style enum value *)

(* Variable enum_var built for e.type == TYPE_ENUM *)
Definition enum_var (z : Z) : variable :=
  if Z.eqb z 1
  then mkV TEnum z "" 0 true true true "Option" "Option" "None" [] false 0 ""
  else mkV TEnum z "" 0 true true true "UnknownEnum" "UnknownEnum" "" [] false 0 "".

Definition starts_with_Future (s : string) : bool := String.prefix "Future" s.

(* task.return_is_struct / task.return_struct_value after the first if-chain *)
Definition task_ret_struct (e : retexc) : bool * variable :=
  if r_is_struct e then (true, r_struct e)
  else if tinfo_eqb (r_type e) TString then (false, fresh_slot)
  else if tinfo_eqb (r_type e) TEnum then (true, enum_var (r_value e))
  else (false, fresh_slot).

Definition set_assigned (v : variable) : variable :=
  mkV (v_type v) (v_value v) (v_str v) (v_dbl v) (v_is_struct v) (v_is_enum v) true
      (v_struct_name v) (v_enum_type v) (v_enum_variant v) (v_members v) (v_has_assoc v)
      (v_assoc_int v) (v_assoc_str v).

(* internal_future.struct_members["value"] after the ReturnException handler ("normal" branch:
   the returned value is not itself a Future) *)
Definition store_return (e : retexc) (slot : variable) : variable :=
  let (ris, rsv) := task_ret_struct e in
  set_assigned
    (if tinfo_eqb (r_type e) TString then
       mkV TString (v_value slot) (r_str e) (v_dbl slot) (v_is_struct slot) (v_is_enum slot)
           (v_assigned slot) (v_struct_name slot) (v_enum_type slot) (v_enum_variant slot)
           (v_members slot) (v_has_assoc slot) (v_assoc_int slot) (v_assoc_str slot)
     else if is_floating (r_type e) then
       mkV (r_type e) (v_value slot) (v_str slot) (r_dbl e) (v_is_struct slot) (v_is_enum slot)
           (v_assigned slot) (v_struct_name slot) (v_enum_type slot) (v_enum_variant slot)
           (v_members slot) (v_has_assoc slot) (v_assoc_int slot) (v_assoc_str slot)
     else if r_is_struct e || ris then (if ris then rsv else r_struct e)
     else
       mkV TInt (r_value e) (v_str slot) (v_dbl slot) (v_is_struct slot) (v_is_enum slot)
           (v_assigned slot) (v_struct_name slot) (v_enum_type slot) (v_enum_variant slot)
           (v_members slot) (v_has_assoc slot) (v_assoc_int slot) (v_assoc_str slot)).

(* TypedValue, reduced to what the four constructors used by evaluate_await set *)
Inductive typed_value :=
| TVStruct (v : variable) (tname : string)      (* TypedValue(const Variable&, InferredType) *)
| TVString (s : string)
| TVFloat (d : Z) (t : tinfo)
| TVInt (z : Z).

Definition await_extract (value_member : variable) : typed_value :=
  if v_is_enum value_member || v_is_struct value_member then
    TVStruct value_member (if v_is_enum value_member then v_enum_type value_member
                           else v_struct_name value_member)
  else if tinfo_eqb (v_type value_member) TString then TVString (v_str value_member)
  else if is_floating (v_type value_member) then TVFloat (v_dbl value_member) (v_type value_member)
  else TVInt (v_value value_member).

(* TypedValue::as_numeric: 0 unless is_numeric() *)
Definition as_numeric (tv : typed_value) : Z :=
  match tv with TVInt z => z | TVFloat d _ => d | _ => 0 end.

Definition as_string (tv : typed_value) : string :=
  match tv with TVString s => s | _ => "" end.

Definition as_struct (tv : typed_value) : option variable :=
  match tv with TVStruct v _ => Some v | _ => None end.

(* what `await` yields for a task that returned with exception e (first or repeated await, task
   finished before or during the await: every branch reads the same member) *)
Definition await_of (e : retexc) : typed_value := await_extract (store_return e fresh_slot).

(* a task that ended without `return`: Future.value is still the fresh slot *)
Definition await_of_no_return : typed_value := await_extract fresh_slot.

(* ------------------------------------------------------------------ lemmas *)
Lemma await_int_l : forall z t,
  t = TInt \/ t = TLong \/ t = TBool -> as_numeric (await_of (ret_int z t)) = z.
Proof. intros z t [H | [H | H]]; subst; reflexivity. Qed.

Lemma await_string_l : forall s, await_of (ret_string s) = TVString s.
Proof. reflexivity. Qed.

(* a struct / Option / Result value (any Variable marked is_struct or is_enum whose own type tag is
   not string or floating) arrives unchanged except for is_assigned = true *)
Lemma await_struct_l : forall v,
  v_type v <> TString -> is_floating (v_type v) = false ->
  v_is_struct v || v_is_enum v = true ->
  as_struct (await_of (ret_struct v)) = Some (set_assigned v).
Proof.
  intros v Hs Hf Hk. unfold await_of, store_return, ret_struct, task_ret_struct. cbn.
  destruct (tinfo_eqb (v_type v) TString) eqn:E.
  - destruct (v_type v); try discriminate. congruence.
  - rewrite Hf. unfold await_extract. cbn.
    destruct (v_is_enum v), (v_is_struct v); try discriminate; reflexivity.
Qed.

Lemma set_assigned_payload : forall v,
  v_members (set_assigned v) = v_members v /\ v_enum_variant (set_assigned v) = v_enum_variant v /\
  v_assoc_int (set_assigned v) = v_assoc_int v /\ v_assoc_str (set_assigned v) = v_assoc_str v /\
  v_struct_name (set_assigned v) = v_struct_name v /\ v_has_assoc (set_assigned v) = v_has_assoc v /\
  v_value (set_assigned v) = v_value v /\ v_type (set_assigned v) = v_type v.
Proof. intros; repeat split. Qed.

Lemma await_no_return_l : as_numeric await_of_no_return = 0.
Proof. reflexivity. Qed.

(* an old-style enum value (ReturnException of TYPE_ENUM) does NOT arrive: it is wrapped into a
   struct-kind TypedValue whose numeric reading is 0, and value 1 is relabelled Option::None *)
Lemma await_enum_refuted_l :
  as_numeric (await_of (ret_enum 2)) <> 2 /\
  (exists v, as_struct (await_of (ret_enum 1)) = Some v /\ v_enum_variant v = "None" /\ v_enum_type v = "Option").
Proof. split. - vm_compute. discriminate. - eexists. vm_compute. repeat split. Qed.
