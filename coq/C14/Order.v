(* C14 - "each task runs its body once, in order", as a statement about the whole event trace of a task,
   for EVERY body (also outside the fragment of the refinement theorem), every await oracle, every number
   of step grants: top-level statements are entered in index order without gaps; a statement is entered a
   second time only when the step before ended with a yield taken inside a loop of that very statement
   (the resume point); nothing is entered after a return. Proofs only; restated in Properties_C14_order.v *)
From Coq Require Import List ZArith Bool Arith Lia.
From Cb Require Import C14.Model C14.Invariants.
Import ListNotations.

Definition no_exec (evs : list event) : bool :=
  forallb (fun e => match e with EvExec _ => false | _ => true end) evs.

(* [in_order nxt evs]: nxt is the only top-level statement index that may be entered next *)
Fixpoint in_order (nxt : nat) (evs : list event) : bool :=
  match evs with
  | [] => true
  | EvExec i :: r => (i =? nxt) && in_order (S i) r
  | EvYield true i :: r => (S i =? nxt) && in_order i r          (* suspended inside a loop: resume statement i *)
  | EvYield false i :: r => (S i =? nxt) && in_order nxt r       (* suspended between statements *)
  | EvReturn i :: r => (S i =? nxt) && no_exec r
  | EvOut _ _ :: r => in_order nxt r
  end.

Section O.
Variable aw : nat -> Z -> Z.
Variable fuel : nat.

Lemma in_order_outs k o r : in_order k (out_events o ++ r) = in_order k r.
Proof. induction o as [|x o IH]; cbn; auto. Qed.

Lemma stuck_final : forall t, t_stuck t = true -> forall n, mrun aw fuel n t = (t, []).
Proof.
  intros t H. induction n; [reflexivity |]. cbn. unfold mstep at 1. rewrite H, orb_true_r. cbn. now rewrite IHn.
Qed.

Lemma trace_in_order : forall n t, in_order (t_idx t) (snd (mrun aw fuel n t)) = true.
Proof.
  induction n as [|n IH]; intro t; [reflexivity|].
  cbn [mrun]. unfold mstep.
  destruct (t_done t || t_stuck t) eqn:Hd.
  - specialize (IH t). destruct (mrun aw fuel n t) as [t2 e2]. exact IH.
  - destruct (nth_error (t_body t) (t_idx t)) as [s|] eqn:Hn.
    + destruct (mexec aw fuel (t_auto t) [t_idx t] s (mkM (t_loc t) (t_pos t) [])) as [st o].
      destruct o as [| fl | v | ].
      * match goal with |- context [mrun aw fuel n ?t1] => specialize (IH t1); destruct (mrun aw fuel n t1) as [t2 e2] end.
        cbn [snd t_idx] in *. cbn [app in_order]. rewrite Nat.eqb_refl, in_order_outs. exact IH.
      * match goal with |- context [mrun aw fuel n ?t1] => specialize (IH t1); destruct (mrun aw fuel n t1) as [t2 e2] end.
        cbn [snd t_idx] in *. cbn [app in_order]. rewrite Nat.eqb_refl, <- app_assoc, in_order_outs.
        cbn [app in_order]. destruct fl; rewrite Nat.eqb_refl; exact IH.
      * match goal with |- context [mrun aw fuel n ?t1] => rewrite (done_final aw fuel t1 eq_refl n) end.
        cbn [snd]. cbn [app in_order]. rewrite Nat.eqb_refl, app_nil_r, in_order_outs.
        cbn [in_order no_exec forallb]. now rewrite Nat.eqb_refl.
      * match goal with |- context [mrun aw fuel n ?t1] => rewrite (stuck_final t1 eq_refl n) end.
        cbn [snd]. cbn [app in_order]. rewrite Nat.eqb_refl, app_nil_r.
        rewrite <- (app_nil_r (out_events (m_out st))), in_order_outs. reflexivity.
    + match goal with |- context [mrun aw fuel n ?t1] => rewrite (done_final aw fuel t1 eq_refl n) end.
      reflexivity.
Qed.

End O.

(* the predicate is not trivially true: it rejects a statement entered twice, a skipped statement, a step
   backwards, a statement entered after a return, a resume without a loop yield *)
Lemma in_order_rejects :
  in_order 0 [EvExec 0; EvExec 0] = false /\ in_order 0 [EvExec 0; EvExec 2] = false /\
  in_order 0 [EvExec 0; EvExec 1; EvExec 0] = false /\ in_order 0 [EvExec 0; EvReturn 0; EvExec 1] = false /\
  in_order 0 [EvExec 0; EvYield false 0; EvExec 0] = false /\ in_order 0 [EvExec 1] = false /\
  in_order 0 [EvExec 0; EvOut 0 1%Z; EvYield true 0; EvExec 0; EvYield false 0; EvExec 1; EvReturn 1] = true.
Proof. repeat split. Qed.
