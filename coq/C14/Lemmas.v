(* C14 - basic lemmas about locals, the resume table and statement induction. *)
From Coq Require Import List ZArith Bool Arith Lia.
From Cb Require Import C14.Model.
Import ListNotations.
Local Open Scope Z_scope.

(* ------------------------------------------------------------------ induction over nested statements *)
Section StmtInd.
  Variable P : stmt -> Prop.
  Hypothesis HEmit : forall k e, P (SEmit k e).
  Hypothesis HAssign : forall x e, P (SAssign x e).
  Hypothesis HAwait : forall x c e, P (SAwait x c e).
  Hypothesis HYield : P SYield.
  Hypothesis HReturn : forall e, P (SReturn e).
  Hypothesis HBlock : forall b, Forall P b -> P (SBlock b).
  Hypothesis HIf : forall c t e, Forall P t -> Forall P e -> P (SIf c t e).
  Hypothesis HWhile : forall c b, Forall P b -> P (SWhile c b).
  Hypothesis HFor : forall x i c u b, Forall P b -> P (SFor x i c u b).

  Fixpoint stmt_ind' (s : stmt) : P s :=
    let go := fix go (l : list stmt) : Forall P l :=
                match l with
                | [] => Forall_nil P
                | x :: r => Forall_cons x (stmt_ind' x) (go r)
                end in
    match s with
    | SEmit k e => HEmit k e
    | SAssign x e => HAssign x e
    | SAwait x c e => HAwait x c e
    | SYield => HYield
    | SReturn e => HReturn e
    | SBlock b => HBlock b (go b)
    | SIf c t e => HIf c t e (go t) (go e)
    | SWhile c b => HWhile c b (go b)
    | SFor x i c u b => HFor x i c u b (go b)
    end.
End StmtInd.

(* ------------------------------------------------------------------ locals *)
Lemma lookup_assign : forall x v l y,
  lookup y (assign x v l) =
  if Nat.eqb y x then match lookup x l with Some _ => Some v | None => None end else lookup y l.
Proof.
  induction l as [| [z w] l IH]; intros y; cbn [assign lookup].
  - destruct (Nat.eqb y x); reflexivity.
  - destruct (Nat.eqb x z) eqn:E.
    + apply Nat.eqb_eq in E; subst z. cbn [lookup].
      destruct (Nat.eqb y x) eqn:F; reflexivity.
    + cbn [lookup]. destruct (Nat.eqb y z) eqn:F.
      * destruct (Nat.eqb y x) eqn:G; [| reflexivity].
        apply Nat.eqb_eq in F, G. subst. rewrite Nat.eqb_refl in E. discriminate.
      * apply IH.
Qed.

Lemma lookup_app_none : forall y l l', lookup y l = None -> lookup y (l ++ l') = lookup y l'.
Proof.
  induction l as [| [z w] l IH]; intros l' H; cbn in *; [reflexivity |].
  destruct (Nat.eqb y z); [discriminate | auto].
Qed.

Lemma lookup_app_some : forall y l l' v, lookup y l = Some v -> lookup y (l ++ l') = Some v.
Proof.
  induction l as [| [z w] l IH]; intros l' v H; cbn in *; [discriminate |].
  destruct (Nat.eqb y z); auto.
Qed.

Lemma lookup_declare : forall x v l y,
  lookup y (declare x v l) = if Nat.eqb y x then Some v else lookup y l.
Proof.
  intros. unfold declare. destruct (lookup x l) eqn:E.
  - rewrite lookup_assign, E. reflexivity.
  - destruct (Nat.eqb y x) eqn:F.
    + apply Nat.eqb_eq in F; subst. rewrite lookup_app_none by assumption. cbn. now rewrite Nat.eqb_refl.
    + destruct (lookup y l) eqn:G.
      * erewrite lookup_app_some; eauto.
      * rewrite lookup_app_none by assumption. cbn. now rewrite F.
Qed.

Lemma lookup_remove : forall x l y,
  lookup y (remove x l) = if Nat.eqb y x then None else lookup y l.
Proof.
  induction l as [| [z w] l IH]; intros y; cbn [remove lookup].
  - destruct (Nat.eqb y x); reflexivity.
  - destruct (Nat.eqb x z) eqn:E.
    + apply Nat.eqb_eq in E; subst z. rewrite IH. destruct (Nat.eqb y x); reflexivity.
    + cbn [lookup]. destruct (Nat.eqb y z) eqn:F; [| apply IH].
      destruct (Nat.eqb y x) eqn:G; [| reflexivity].
      apply Nat.eqb_eq in F, G. subst. rewrite Nat.eqb_refl in E. discriminate.
Qed.

Definition agree (P : var -> Prop) (l1 l2 : locals) : Prop :=
  forall y, P y -> lookup y l1 = lookup y l2.

Definition same_dom (l l' : locals) : Prop :=
  forall y, lookup y l' = None <-> lookup y l = None.

Lemma same_dom_refl : forall l, same_dom l l.
Proof. intros l y; tauto. Qed.

Lemma same_dom_trans : forall a b c, same_dom a b -> same_dom b c -> same_dom a c.
Proof. intros a b c H1 H2 y. specialize (H1 y). specialize (H2 y). tauto. Qed.

Lemma same_dom_assign : forall x v l, same_dom l (assign x v l).
Proof.
  intros x v l y. rewrite lookup_assign. destruct (Nat.eqb y x) eqn:E; [| tauto].
  apply Nat.eqb_eq in E; subst. destruct (lookup x l); split; congruence.
Qed.

Lemma eval_agree : forall P l1 l2 e,
  agree P l1 l2 -> (forall y, In y (evars e) -> P y) -> eval e l1 = eval e l2.
Proof.
  intros P l1 l2 e H. induction e; cbn [eval evars]; intros HP; try reflexivity.
  - rewrite (H x); [reflexivity | apply HP; now left].
  - rewrite IHe1, IHe2; auto; intros; apply HP; apply in_or_app; auto.
  - rewrite IHe1, IHe2; auto; intros; apply HP; apply in_or_app; auto.
  - rewrite IHe1, IHe2; auto; intros; apply HP; apply in_or_app; auto.
  - rewrite IHe1, IHe2; auto; intros; apply HP; apply in_or_app; auto.
Qed.

Lemma agree_assign : forall P l1 l2 x v, agree P l1 l2 -> agree P (assign x v l1) (assign x v l2).
Proof.
  intros P l1 l2 x v H y Hy. rewrite !lookup_assign. destruct (Nat.eqb y x) eqn:E.
  - apply Nat.eqb_eq in E; subst. rewrite (H x Hy). reflexivity.
  - auto.
Qed.

Lemma agree_refl : forall P l, agree P l l.
Proof. intros P l y _. reflexivity. Qed.

Lemma agree_weaken : forall (P Q : var -> Prop) l1 l2,
  (forall y, Q y -> P y) -> agree P l1 l2 -> agree Q l1 l2.
Proof. intros P Q l1 l2 H A y Hy. apply A, H, Hy. Qed.

(* ------------------------------------------------------------------ resume table *)
Lemma path_eqb_refl : forall k, path_eqb k k = true.
Proof. induction k; cbn; [reflexivity |]. now rewrite Nat.eqb_refl. Qed.

Lemma path_eqb_eq : forall a b, path_eqb a b = true <-> a = b.
Proof.
  induction a as [| x a IH]; destruct b as [| y b]; cbn; split; intros H; try discriminate; try reflexivity.
  - apply andb_true_iff in H as [H1 H2]. apply Nat.eqb_eq in H1. apply IH in H2. congruence.
  - inversion H; subst. rewrite Nat.eqb_refl. apply IH. reflexivity.
Qed.

Lemma path_eqb_neq : forall a b, a <> b -> path_eqb a b = false.
Proof. intros a b H. destruct (path_eqb a b) eqn:E; [| reflexivity]. apply path_eqb_eq in E. contradiction. Qed.

Lemma pos_del_absent : forall k m, pos_get k m = None -> pos_del k m = m.
Proof.
  induction m as [| [k' v] m IH]; cbn; intros H; [reflexivity |].
  destruct (path_eqb k k'); [discriminate |]. now rewrite IH.
Qed.

Lemma pos_del_set_absent : forall k v m, pos_get k m = None -> pos_del k (pos_set k v m) = m.
Proof.
  induction m as [| [k' w] m IH]; cbn; intros H.
  - now rewrite path_eqb_refl.
  - destruct (path_eqb k k') eqn:E; [discriminate |]. cbn. rewrite E. now rewrite IH.
Qed.

Lemma pos_set_set : forall k v w m, pos_set k w (pos_set k v m) = pos_set k w m.
Proof.
  induction m as [| [k' u] m IH]; cbn.
  - now rewrite path_eqb_refl.
  - destruct (path_eqb k k') eqn:E; cbn; rewrite E; [reflexivity | now rewrite IH].
Qed.

Lemma pos_get_set_other : forall k k' v m, k <> k' -> pos_get k' (pos_set k v m) = pos_get k' m.
Proof.
  induction m as [| [k2 u] m IH]; cbn; intros H.
  - rewrite path_eqb_neq; auto.
  - destruct (path_eqb k k2) eqn:E; cbn.
    + apply path_eqb_eq in E; subst k2. rewrite path_eqb_neq; auto.
    + destruct (path_eqb k' k2); auto.
Qed.

Definition below (p k : path) : Prop := exists l, k = l ++ p.

(* no entry at or below p *)
Definition fresh (p : path) (m : posmap) : Prop := forall k, below p k -> pos_get k m = None.

Lemma below_cons : forall i p k, below (i :: p) k -> below p k.
Proof. intros i p k [l ->]. exists (l ++ [i]). now rewrite <- app_assoc. Qed.

Lemma below_refl : forall p, below p p.
Proof. intros p. now exists []. Qed.

Lemma below_cons_neq : forall i p k, below (i :: p) k -> k <> p.
Proof.
  intros i p k [l ->] H. apply (f_equal (@length nat)) in H. rewrite app_length in H. cbn in H. lia.
Qed.

Lemma fresh_cons : forall i p m, fresh p m -> fresh (i :: p) m.
Proof. intros i p m H k Hk. apply H. eapply below_cons; eauto. Qed.

Lemma fresh_child : forall i key j m, fresh key m -> fresh (i :: key) (pos_set key j m).
Proof.
  intros i key j m H k Hk. rewrite pos_get_set_other.
  - apply H. eapply below_cons; eauto.
  - intros E. symmetry in E. revert E. eapply below_cons_neq; eauto.
Qed.

Lemma fresh_nil : forall p, fresh p [].
Proof. intros p k _. reflexivity. Qed.

(* ------------------------------------------------------------------ boolean helpers *)
Lemma memb_In : forall x l, memb x l = true <-> In x l.
Proof.
  intros x l. unfold memb. rewrite existsb_exists. split.
  - intros [y [H1 H2]]. apply Nat.eqb_eq in H2. now subst.
  - intros H. exists x. split; [assumption | apply Nat.eqb_refl].
Qed.

Lemma memb_false : forall x l, memb x l = false <-> ~ In x l.
Proof.
  intros x l. rewrite <- memb_In. destruct (memb x l); split; intros H; try congruence; try reflexivity.
  all: try (exfalso; apply H; reflexivity).
Qed.

Lemma disjointb_spec : forall a b, disjointb a b = true <-> (forall x, In x a -> ~ In x b).
Proof.
  intros a b. unfold disjointb. rewrite forallb_forall. split; intros H x Hx.
  - apply memb_false. specialize (H x Hx). now apply negb_true_iff in H.
  - apply negb_true_iff. apply memb_false. auto.
Qed.

Lemma nodupb_spec : forall l, nodupb l = true -> NoDup l.
Proof.
  induction l as [| x l IH]; cbn; intros H; constructor.
  - apply andb_true_iff in H as [H _]. apply negb_true_iff in H. now apply memb_false.
  - apply IH. now apply andb_true_iff in H as [_ H].
Qed.
