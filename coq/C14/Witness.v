(* C14 - concrete bodies on which the faithful model of the pinned code does NOT run the body as it
   runs alone (each is replayed on the real interpreter: known_findings/C14.json). *)
From Coq Require Import List ZArith Bool Arith Lia.
From Cb Require Import C14.Model.
Import ListNotations.

Definition aw0 : nat -> Z -> Z := fun _ _ => 0%Z.

(* the task completes, the body alone terminates, and the two outputs differ *)
Definition violates (body : list stmt) (args : locals) : Prop :=
  exists n t ev o l r,
    mrun aw0 10 n (spawn body args) = (t, ev) /\ t_done t = true /\ t_stuck t = false /\
    spec_run aw0 10 body args = (l, o, r) /\ r <> SFuel /\ outputs_of ev <> o.

Ltac witness k :=
  unfold violates; exists k; do 5 eexists;
  split; [vm_compute; reflexivity |];
  split; [reflexivity |]; split; [reflexivity |];
  split; [vm_compute; reflexivity |];
  split; [discriminate | discriminate].

Definition v0 := EVar 0.
Definition lt0 (e : expr) := ELt (EConst 0) e.
Definition forloop (x : var) (n : Z) (b : list stmt) :=
  SFor x (EConst 0) (ELt (EVar x) (EConst n)) (EAdd (EVar x) (EConst 1)) b.

(* #26: if (0 < v0) { emit; yield; emit } emit *)
Definition w_yield_in_block : list stmt :=
  [SIf (lt0 v0) [SEmit 0 v0; SYield; SEmit 1 v0] []; SEmit 2 v0].
Lemma w_yield_in_block_l : violates w_yield_in_block [(O, 1%Z)].
Proof. witness 10. Qed.

(* #45: while (0 < v0) { v0 = v0 - 1; emit; yield; emit } return 99 *)
Definition w_yield_in_loop : list stmt :=
  [SWhile (lt0 v0) [SAssign 0 (ESub v0 (EConst 1)); SEmit 0 v0; SYield; SEmit 1 v0]; SReturn (EConst 99)].
Lemma w_yield_in_loop_l : violates w_yield_in_loop [(O, 2%Z)].
Proof. witness 10. Qed.

(* if (v0 == 0) { for (..3) { v0 = v0 + 1; emit } } else { emit } emit : no yield statement at all *)
Definition w_loop_in_branch : list stmt :=
  [SIf (EEq v0 (EConst 0)) [forloop 100 3 [SAssign 0 (EAdd v0 (EConst 1)); SEmit 0 v0]] [SEmit 1 v0]; SEmit 2 v0].
Lemma w_loop_in_branch_l : violates w_loop_in_branch [(O, 0%Z)].
Proof. witness 10. Qed.

(* for (i..2) { for (j..2) { emit 2i+j } } : no yield statement at all *)
Definition w_nested_loops : list stmt :=
  [forloop 100 2 [forloop 101 2 [SEmit 0 (EAdd (EAdd (EVar 100) (EVar 100)) (EVar 101))]]].
Lemma w_nested_loops_l : violates w_nested_loops [(O, 0%Z)].
Proof. witness 10. Qed.

(* for (i..2) { emit } for (i..2) { emit } : before fix 4fa4431 the second loop never ran; the body is
   now inside the proved fragment (corpus/c14.json keeps it as a regression input) *)
Definition w_for_var_reuse : list stmt :=
  [forloop 100 2 [SEmit 0 (EVar 100)]; forloop 100 2 [SEmit 1 (EVar 100)]].
Example w_for_var_reuse_fixed :
  wf_body [O; 1; 2] w_for_var_reuse = true /\
  outputs_of (snd (mrun aw0 10 10 (spawn w_for_var_reuse [(O, 0%Z)]))) = [(0, 0%Z); (0, 1%Z); (1, 0%Z); (1, 1%Z)].
Proof. vm_compute. split; reflexivity. Qed.

(* the outputs, for the record *)
Example w_yield_in_block_out :
  outputs_of (snd (mrun aw0 10 10 (spawn w_yield_in_block [(O, 1%Z)]))) = [(0, 1%Z); (2, 1%Z)] /\
  snd (fst (spec_run aw0 10 w_yield_in_block [(O, 1%Z)])) = [(0, 1%Z); (1, 1%Z); (2, 1%Z)].
Proof. vm_compute. split; reflexivity. Qed.

Example w_yield_in_loop_out :
  outputs_of (snd (mrun aw0 10 10 (spawn w_yield_in_loop [(O, 2%Z)]))) = [(0, 1%Z); (1, 1%Z); (0, 0%Z)] /\
  snd (fst (spec_run aw0 10 w_yield_in_loop [(O, 2%Z)])) = [(0, 1%Z); (1, 1%Z); (0, 0%Z); (1, 0%Z)].
Proof. vm_compute. split; reflexivity. Qed.

Example w_nested_loops_out :
  outputs_of (snd (mrun aw0 10 10 (spawn w_nested_loops [(O, 0%Z)]))) = [(0, 0%Z); (0, 3%Z)] /\
  snd (fst (spec_run aw0 10 w_nested_loops [(O, 0%Z)])) = [(0, 0%Z); (0, 1%Z); (0, 2%Z); (0, 3%Z)].
Proof. vm_compute. split; reflexivity. Qed.

(* a body of the fragment (hypotheses of the refinement theorem are satisfiable) *)
Definition ex_fragment : list stmt :=
  [SEmit 0 v0; SYield;
   SWhile (lt0 (EVar 1)) [SAssign 1 (ESub (EVar 1) (EConst 1)); SIf (EEq (EVar 1) (EConst 1)) [SEmit 1 (EVar 1)] [SEmit 2 v0]];
   forloop 100 2 [SAwait 0 0 (EVar 100); SEmit 3 v0];
   forloop 100 1 [SEmit 5 (EVar 100)];
   SWhile (lt0 (EVar 2)) [SAssign 2 (ESub (EVar 2) (EConst 1)); SEmit 4 (EVar 2); SYield];
   SYield; SReturn (EAdd v0 (EConst 7))].
Example ex_fragment_wf : wf_body [O; 1%nat; 2%nat] ex_fragment = true.
Proof. vm_compute. reflexivity. Qed.
