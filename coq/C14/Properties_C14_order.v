(* C14 - property theorems only: "each task runs its body once, in order" as a statement about the whole
   event trace of one task, for EVERY body (also outside the fragment of resume_refines_sequential_partial,
   including the bodies of the refuted witnesses), every await oracle, every loop bound, every number of
   step grants. Statements are about the Mech model of execute_one_step (Model.v); proofs in Order.v. *)
From Coq Require Import List ZArith Bool Arith.
From Cb Require Import C14.Model C14.Invariants C14.Witness C14.Order.
Import ListNotations.

(* The trace of a task obeys [in_order] from its saved statement index: top-level statements are entered in
   index order without gaps; a statement is entered a second time only when the step before ended with a
   yield taken inside a loop of that very statement (EvYield true i: the resume point); after a yield
   between statements the next one follows; nothing is entered after a return. *)
Theorem task_trace_in_order : forall aw fuel n t, in_order (t_idx t) (snd (mrun aw fuel n t)) = true.
Proof. exact trace_in_order. Qed.
Print Assumptions task_trace_in_order.

(* for a freshly spawned task: from statement 0 *)
Theorem spawned_task_trace_in_order : forall aw fuel n body args,
  in_order 0 (snd (mrun aw fuel n (spawn body args))) = true.
Proof. intros aw fuel n body args. exact (trace_in_order aw fuel n (spawn body args)). Qed.
Print Assumptions spawned_task_trace_in_order.

(* a task that ran out of loop fuel is never executed again (the model's error value is final too) *)
Theorem stuck_task_is_final : forall aw fuel t, t_stuck t = true -> forall n, mrun aw fuel n t = (t, []).
Proof. exact stuck_final. Qed.
Print Assumptions stuck_task_is_final.

(* the predicate discriminates: statement entered twice / skipped / backwards / after a return / resumed
   without a loop yield / wrong start are all rejected; a trace with a loop resume is accepted *)
Theorem in_order_is_not_trivial :
  in_order 0 [EvExec 0; EvExec 0] = false /\ in_order 0 [EvExec 0; EvExec 2] = false /\
  in_order 0 [EvExec 0; EvExec 1; EvExec 0] = false /\ in_order 0 [EvExec 0; EvReturn 0; EvExec 1] = false /\
  in_order 0 [EvExec 0; EvYield false 0; EvExec 0] = false /\ in_order 0 [EvExec 1] = false /\
  in_order 0 [EvExec 0; EvOut 0 1%Z; EvYield true 0; EvExec 0; EvYield false 0; EvExec 1; EvReturn 1] = true.
Proof. exact in_order_rejects. Qed.
Print Assumptions in_order_is_not_trivial.

(* non-vacuity: the trace of the yield-in-loop witness (a body outside the refinement fragment) has a loop
   resume and a return, and is in order *)
Example trace_somewhere :
  let ev := snd (mrun aw0 10 10 (spawn w_yield_in_loop [(O, 2%Z)])) in
  In (EvYield true 0) ev /\ In (EvReturn 1) ev /\ in_order 0 ev = true.
Proof. vm_compute. repeat split; auto 20. Qed.
