(* Extraction of the C14 model to OCaml (ExtrOcamlBasic + ExtrOcamlString only; nat/Z stay inductive). *)
From Coq Require Import Extraction ExtrOcamlBasic ExtrOcamlString.
From Cb Require Import C14.Model C14.Await.
Extraction Language OCaml.
Extraction "C14/c14_model.ml" spawn mstep msteps spec_run wf_body register_auto has_yield quiet top_ok
  store_return await_extract as_numeric as_string ret_int ret_string ret_struct ret_enum fresh_slot.
