(* Lang - BigStep: the documented semantics of CbCore once more, as inference rules.

   A declarative reading of docs/spec.md and of the property texts C01 (sequential core), C03 (operands once,
   left to right, short-circuit && || ?:), C04 (every store is range-checked), C05 (per-dimension bounds),
   C08 (private frames, positional arguments, defaults, statics) and C09 (const): no fuel, no monad, no
   interpreter.  A judgement

       beval  e  s c s'        expression e, started in state s, ends with control outcome c in state s'
       bexec  st s c s'        the same for a statement

   holds iff it has a finite derivation, so a diverging program has NO judgement (the fuelled interpreter
   answers [Fail ENoFuel] for every fuel instead; no rule below concludes [Fail ENoFuel], see
   [BigStepEquiv.bigstep_never_out_of_fuel]).

   The store / arithmetic layer of [Sem.v] ([m_read], [m_write], [m_declare], [m_out], [m_push_scope],
   [m_push_frame], [pop_scope_st], [pop_frame_st], [arith], [unarith], [coerce], [call_result]) is used as
   plain functions on states and numbers; that layer is characterised by its own theorems (C04 C05 C08 C09).
   Definitions only; the equivalence with the interpreter is in [BigStepEquiv.v]. *)
From Coq Require Import List ZArith Bool Arith Lia.
From Cb Require Import Lang.Syntax Lang.Sem.
Import ListNotations.
Local Open Scope Z_scope.

(* ---------- outcomes ---------- *)
(* "the construct ends with the outcome its sub-part ended with": break, continue, return and errors pass
   unchanged through every enclosing construct (which may have another value type) *)
Inductive propagates {A B : Type} : ctl A -> ctl B -> Prop :=
| P_Brk : propagates Brk Brk
| P_Cnt : propagates Cnt Cnt
| P_Ret v : propagates (Ret v) (Ret v)
| P_Fail e : propagates (Fail e) (Fail e).

(* outcome of a loop body after which the loop goes on (normal end, `continue`) ... *)
Inductive goes_on : ctl unit -> Prop :=
| GO_Val : goes_on (Val tt)
| GO_Cnt : goes_on Cnt.
(* ... and after which it is left: `break` ends the loop normally, `return` and errors pass through *)
Inductive loop_exit : ctl unit -> ctl unit -> Prop :=
| LX_Brk : loop_exit Brk (Val tt)
| LX_Ret v : loop_exit (Ret v) (Ret v)
| LX_Fail e : loop_exit (Fail e) (Fail e).

(* the value of `a && b` / `a || b` is 0 or 1 *)
Definition truth (y : Z) : Z := if y =? 0 then 0 else 1.

(* an lvalue is a cell name and a (possibly empty) list of index expressions *)
Definition lv_name (lv : lval) : ident := match lv with LVar x => x | LIdx a _ => a end.
Definition lv_idx (lv : lval) : list expr := match lv with LVar _ => [] | LIdx _ idx => idx end.

(* state functions read off the primitives *)
Definition static_known (x : ident) (s : state) : bool :=
  match assoc x (statics_of (cur_fn s) s) with Some _ => true | None => false end.
Definition push_frame_st (fn : ident) (s : state) : state := snd (m_push_frame fn s).
Definition out_st (o : oitem) (s : state) : state := snd (m_out o s).
(* `println(a, b)`: a blank before every argument but the first *)
Definition sep_st (first : bool) (s : state) : state := if first then s else out_st OSp s.

(* a call supplies at least the parameters without default and at most all of them *)
Definition arity_ok (fd : func) (n : nat) : Prop :=
  (required (fparams fd) <= n)%nat /\ (n <= List.length (fparams fd))%nat.

(* ---------- plain structs (no expression is evaluated) ---------- *)
(* `S v;` declares the member cells in order, each zero-initialised *)
Inductive bdeclm (x : ident) : nat -> list fld -> state -> ctl unit -> state -> Prop :=
| BDM_nil j s : bdeclm x j [] s (Val tt) s
| BDM_cons j f r s s1 c s2 :
    m_declare false false (fty f) (mkey x j) (fdims f) [] s = (Val tt, s1) ->
    bdeclm x (S j) r s1 c s2 ->
    bdeclm x j (f :: r) s c s2
| BDM_fail j f r s c0 s1 c :
    m_declare false false (fty f) (mkey x j) (fdims f) [] s = (c0, s1) -> propagates c0 c ->
    bdeclm x j (f :: r) s c s1.

(* copy the cells of one member, in row-major order: read the source cell, store it into the target cell *)
Inductive bcopyc (dst src : ident) : list (list Z) -> state -> ctl unit -> state -> Prop :=
| BCC_nil s : bcopyc dst src [] s (Val tt) s
| BCC_cons i r s v s1 s2 c s3 :
    m_read src i s = (Val v, s1) -> m_write dst i v s1 = (Val tt, s2) ->
    bcopyc dst src r s2 c s3 ->
    bcopyc dst src (i :: r) s c s3
| BCC_read_fail i r s c0 s1 c :
    m_read src i s = (c0, s1) -> propagates c0 c ->
    bcopyc dst src (i :: r) s c s1
| BCC_write_fail i r s v s1 c0 s2 c :
    m_read src i s = (Val v, s1) -> m_write dst i v s1 = (c0, s2) -> propagates c0 c ->
    bcopyc dst src (i :: r) s c s2.

(* `v<x> = v<y>;` member by member *)
Inductive bcopym (x y : ident) : nat -> list fld -> state -> ctl unit -> state -> Prop :=
| BCM_nil j s : bcopym x y j [] s (Val tt) s
| BCM_cons j f r s s1 c s2 :
    bcopyc (mkey x j) (mkey y j) (all_idx (fdims f)) s (Val tt) s1 ->
    bcopym x y (S j) r s1 c s2 ->
    bcopym x y j (f :: r) s c s2
| BCM_fail j f r s c0 s1 c :
    bcopyc (mkey x j) (mkey y j) (all_idx (fdims f)) s c0 s1 -> propagates c0 c ->
    bcopym x y j (f :: r) s c s1.

Section BigStep.
Variable funcs : list func.

Inductive beval : expr -> state -> ctl Z -> state -> Prop :=
(* literals and variables *)
| BE_Num z s : beval (ENum z) s (Val z) s
| BE_Var x s c s' :                                     (* value, or unbound name *)
    m_read x [] s = (c, s') ->
    beval (EVar x) s c s'
(* unary and binary operators: operands once, left to right (C03); exact 64-bit arithmetic (C01) *)
| BE_Un o a s v s1 :
    beval a s (Val v) s1 ->
    beval (EUn o a) s (unarith o v) s1
| BE_Un_abn o a s c0 s1 c :
    beval a s c0 s1 -> propagates c0 c ->
    beval (EUn o a) s c s1
| BE_Bin o a b s x s1 y s2 :
    beval a s (Val x) s1 -> beval b s1 (Val y) s2 ->
    beval (EBin o a b) s (arith o x y) s2                (* value, division by zero, undefined *)
| BE_Bin_abn_l o a b s c0 s1 c :
    beval a s c0 s1 -> propagates c0 c ->
    beval (EBin o a b) s c s1                            (* b is not evaluated *)
| BE_Bin_abn_r o a b s x s1 c0 s2 c :
    beval a s (Val x) s1 -> beval b s1 c0 s2 -> propagates c0 c ->
    beval (EBin o a b) s c s2
(* a && b: b is not evaluated when a is false *)
| BE_And_false a b s s1 :
    beval a s (Val 0) s1 ->
    beval (EAnd a b) s (Val 0) s1
| BE_And_true a b s x s1 y s2 :
    beval a s (Val x) s1 -> x <> 0 -> beval b s1 (Val y) s2 ->
    beval (EAnd a b) s (Val (truth y)) s2
| BE_And_abn_l a b s c0 s1 c :
    beval a s c0 s1 -> propagates c0 c ->
    beval (EAnd a b) s c s1
| BE_And_abn_r a b s x s1 c0 s2 c :
    beval a s (Val x) s1 -> x <> 0 -> beval b s1 c0 s2 -> propagates c0 c ->
    beval (EAnd a b) s c s2
(* a || b: b is not evaluated when a is true *)
| BE_Or_true a b s x s1 :
    beval a s (Val x) s1 -> x <> 0 ->
    beval (EOr a b) s (Val 1) s1
| BE_Or_false a b s s1 y s2 :
    beval a s (Val 0) s1 -> beval b s1 (Val y) s2 ->
    beval (EOr a b) s (Val (truth y)) s2
| BE_Or_abn_l a b s c0 s1 c :
    beval a s c0 s1 -> propagates c0 c ->
    beval (EOr a b) s c s1
| BE_Or_abn_r a b s s1 c0 s2 c :
    beval a s (Val 0) s1 -> beval b s1 c0 s2 -> propagates c0 c ->
    beval (EOr a b) s c s2
(* c ? a : b: only the selected branch is evaluated; its outcome is the outcome *)
| BE_Cond_true c a b s x s1 r s2 :
    beval c s (Val x) s1 -> x <> 0 -> beval a s1 r s2 ->
    beval (ECond c a b) s r s2
| BE_Cond_false c a b s s1 r s2 :
    beval c s (Val 0) s1 -> beval b s1 r s2 ->
    beval (ECond c a b) s r s2
| BE_Cond_abn c a b s c0 s1 r :
    beval c s c0 s1 -> propagates c0 r ->
    beval (ECond c a b) s r s1
(* a[i][j]: the indices left to right, then the checked read (C05: every index inside its dimension) *)
| BE_Idx a idx s is_ s1 c s2 :
    bevals idx s (Val is_) s1 -> m_read a is_ s1 = (c, s2) ->
    beval (EIdx a idx) s c s2
| BE_Idx_abn a idx s c0 s1 c :
    bevals idx s c0 s1 -> propagates c0 c ->
    beval (EIdx a idx) s c s1
(* f(args) (C08): the function must exist, the argument count must fit; arguments left to right, each converted
   to its parameter's type; a fresh frame for f; parameters bound, omitted ones from their defaults (evaluated
   in the new frame); the body; the result converted to the declared result type; the frame is popped on
   EVERY outcome of binding and body *)
| BE_Call_unbound f args s :
    find_func f funcs = None ->
    beval (ECall f args) s (Fail EUnbound) s
| BE_Call_arity f args fd s :
    find_func f funcs = Some fd -> ~ arity_ok fd (List.length args) ->
    beval (ECall f args) s (Fail EArity) s
| BE_Call_args_abn f args fd s c0 s1 c :
    find_func f funcs = Some fd -> arity_ok fd (List.length args) ->
    bargs (fparams fd) args s c0 s1 -> propagates c0 c ->
    beval (ECall f args) s c s1
| BE_Call f args fd s vs s1 s2 cb s3 :
    find_func f funcs = Some fd -> arity_ok fd (List.length args) ->
    bargs (fparams fd) args s (Val vs) s1 ->
    bbind (fparams fd) vs (push_frame_st f s1) (Val tt) s2 ->
    bexecs (fbody fd) s2 cb s3 ->
    beval (ECall f args) s (call_result (fret fd) cb) (pop_frame_st s3)
| BE_Call_bind_abn f args fd s vs s1 c0 s2 cb :
    find_func f funcs = Some fd -> arity_ok fd (List.length args) ->
    bargs (fparams fd) args s (Val vs) s1 ->
    bbind (fparams fd) vs (push_frame_st f s1) c0 s2 -> propagates c0 cb ->
    beval (ECall f args) s (call_result (fret fd) cb) (pop_frame_st s2)

(* expression lists (indices, array initialisers): left to right, stop at the first abnormal one *)
with bevals : list expr -> state -> ctl (list Z) -> state -> Prop :=
| BL_nil s : bevals [] s (Val []) s
| BL_cons e r s v s1 vs s2 :
    beval e s (Val v) s1 -> bevals r s1 (Val vs) s2 ->
    bevals (e :: r) s (Val (v :: vs)) s2
| BL_abn_hd e r s c0 s1 c :
    beval e s c0 s1 -> propagates c0 c ->
    bevals (e :: r) s c s1
| BL_abn_tl e r s v s1 c0 s2 c :
    beval e s (Val v) s1 -> bevals r s1 c0 s2 -> propagates c0 c ->
    bevals (e :: r) s c s2

(* call arguments: left to right; each value is converted to its parameter's type (range error, C04) BEFORE
   the next argument is evaluated *)
with bargs : list param -> list expr -> state -> ctl (list Z) -> state -> Prop :=
| BA_nil ps s : bargs ps [] s (Val []) s
| BA_cons p pr e r s v s1 v' vs s2 :
    beval e s (Val v) s1 -> coerce (pty p) v = Val v' -> bargs pr r s1 (Val vs) s2 ->
    bargs (p :: pr) (e :: r) s (Val (v' :: vs)) s2
| BA_abn_hd p pr e r s c0 s1 c :
    beval e s c0 s1 -> propagates c0 c ->
    bargs (p :: pr) (e :: r) s c s1
| BA_range p pr e r s v s1 c0 c :
    beval e s (Val v) s1 -> coerce (pty p) v = c0 -> propagates c0 c ->
    bargs (p :: pr) (e :: r) s c s1
| BA_abn_tl p pr e r s v s1 v' c0 s2 c :
    beval e s (Val v) s1 -> coerce (pty p) v = Val v' -> bargs pr r s1 c0 s2 -> propagates c0 c ->
    bargs (p :: pr) (e :: r) s c s2

(* binding the parameters in the callee's frame: supplied values positionally, then the declared defaults *)
with bbind : list param -> list Z -> state -> ctl unit -> state -> Prop :=
| BB_nil vs s : bbind [] vs s (Val tt) s
| BB_arg p pr v vr s s1 c s2 :
    m_declare false false (pty p) (pname p) [] [v] s = (Val tt, s1) -> bbind pr vr s1 c s2 ->
    bbind (p :: pr) (v :: vr) s c s2
| BB_arg_fail p pr v vr s c0 s1 c :
    m_declare false false (pty p) (pname p) [] [v] s = (c0, s1) -> propagates c0 c ->
    bbind (p :: pr) (v :: vr) s c s1
| BB_default p pr d s v s1 s2 c s3 :
    pdef p = Some d -> beval d s (Val v) s1 ->
    m_declare false false (pty p) (pname p) [] [v] s1 = (Val tt, s2) -> bbind pr [] s2 c s3 ->
    bbind (p :: pr) [] s c s3
| BB_default_abn p pr d s c0 s1 c :
    pdef p = Some d -> beval d s c0 s1 -> propagates c0 c ->
    bbind (p :: pr) [] s c s1
| BB_default_fail p pr d s v s1 c0 s2 c :
    pdef p = Some d -> beval d s (Val v) s1 ->
    m_declare false false (pty p) (pname p) [] [v] s1 = (c0, s2) -> propagates c0 c ->
    bbind (p :: pr) [] s c s2
| BB_missing p pr s :
    pdef p = None ->
    bbind (p :: pr) [] s (Fail EArity) s

(* optional initialiser: none means 0 *)
with binit : option expr -> state -> ctl Z -> state -> Prop :=
| BI_none s : binit None s (Val 0) s
| BI_some e s c s' : beval e s c s' -> binit (Some e) s c s'

with bexec : stmt -> state -> ctl unit -> state -> Prop :=
(* declarations: the initial value goes through the range-checked declaration (C04); a `static` is initialised
   by the first execution only and keeps its value (C08) *)
| BX_Decl_static_again cst t x init s :
    static_known x s = true ->
    bexec (SDecl cst true t x init) s (Val tt) s
| BX_Decl cst sta t x init s v s1 c s2 :
    sta = false \/ static_known x s = false ->
    binit init s (Val v) s1 -> m_declare sta cst t x [] [v] s1 = (c, s2) ->
    bexec (SDecl cst sta t x init) s c s2
| BX_Decl_abn cst sta t x init s c0 s1 c :
    sta = false \/ static_known x s = false ->
    binit init s c0 s1 -> propagates c0 c ->
    bexec (SDecl cst sta t x init) s c s1
| BX_Arr cst t x dims init s vs s1 c s2 :
    bevals init s (Val vs) s1 -> m_declare false cst t x dims vs s1 = (c, s2) ->
    bexec (SArr cst t x dims init) s c s2
| BX_Arr_abn cst t x dims init s c0 s1 c :
    bevals init s c0 s1 -> propagates c0 c ->
    bexec (SArr cst t x dims init) s c s1
(* lv = e: the value, then the target's indices, then the checked store (const C09, bounds C05, range C04) *)
| BX_Assign lv e s v s1 is_ s2 c s3 :
    beval e s (Val v) s1 -> bevals (lv_idx lv) s1 (Val is_) s2 ->
    m_write (lv_name lv) is_ v s2 = (c, s3) ->
    bexec (SAssign lv None e) s c s3
| BX_Assign_abn_value lv e s c0 s1 c :
    beval e s c0 s1 -> propagates c0 c ->
    bexec (SAssign lv None e) s c s1
| BX_Assign_abn_index lv e s v s1 c0 s2 c :
    beval e s (Val v) s1 -> bevals (lv_idx lv) s1 c0 s2 -> propagates c0 c ->
    bexec (SAssign lv None e) s c s2
(* lv op= e means lv = lv op e with lv's indices evaluated once: indices, old value, e, operation, store *)
| BX_Compound lv o e s is_ s1 old s2 v s3 r c s4 :
    bevals (lv_idx lv) s (Val is_) s1 -> m_read (lv_name lv) is_ s1 = (Val old, s2) ->
    beval e s2 (Val v) s3 -> arith o old v = Val r ->
    m_write (lv_name lv) is_ r s3 = (c, s4) ->
    bexec (SAssign lv (Some o) e) s c s4
| BX_Compound_abn_index lv o e s c0 s1 c :
    bevals (lv_idx lv) s c0 s1 -> propagates c0 c ->
    bexec (SAssign lv (Some o) e) s c s1
| BX_Compound_abn_read lv o e s is_ s1 c0 s2 c :
    bevals (lv_idx lv) s (Val is_) s1 -> m_read (lv_name lv) is_ s1 = (c0, s2) -> propagates c0 c ->
    bexec (SAssign lv (Some o) e) s c s2
| BX_Compound_abn_value lv o e s is_ s1 old s2 c0 s3 c :
    bevals (lv_idx lv) s (Val is_) s1 -> m_read (lv_name lv) is_ s1 = (Val old, s2) ->
    beval e s2 c0 s3 -> propagates c0 c ->
    bexec (SAssign lv (Some o) e) s c s3
| BX_Compound_abn_arith lv o e s is_ s1 old s2 v s3 c0 c :
    bevals (lv_idx lv) s (Val is_) s1 -> m_read (lv_name lv) is_ s1 = (Val old, s2) ->
    beval e s2 (Val v) s3 -> arith o old v = c0 -> propagates c0 c ->
    bexec (SAssign lv (Some o) e) s c s3
(* lv++ / lv-- / ++lv / --lv as statements: lv = lv +- 1 through the checked store *)
| BX_IncDec pre (inc : bool) lv s is_ s1 old s2 r c s3 :
    bevals (lv_idx lv) s (Val is_) s1 -> m_read (lv_name lv) is_ s1 = (Val old, s2) ->
    arith (if inc then Add else Sub) old 1 = Val r ->
    m_write (lv_name lv) is_ r s2 = (c, s3) ->
    bexec (SIncDec pre inc lv) s c s3
| BX_IncDec_abn_index pre inc lv s c0 s1 c :
    bevals (lv_idx lv) s c0 s1 -> propagates c0 c ->
    bexec (SIncDec pre inc lv) s c s1
| BX_IncDec_abn_read pre inc lv s is_ s1 c0 s2 c :
    bevals (lv_idx lv) s (Val is_) s1 -> m_read (lv_name lv) is_ s1 = (c0, s2) -> propagates c0 c ->
    bexec (SIncDec pre inc lv) s c s2
| BX_IncDec_abn_arith pre (inc : bool) lv s is_ s1 old s2 c0 c :
    bevals (lv_idx lv) s (Val is_) s1 -> m_read (lv_name lv) is_ s1 = (Val old, s2) ->
    arith (if inc then Add else Sub) old 1 = c0 -> propagates c0 c ->
    bexec (SIncDec pre inc lv) s c s2
(* expression statement: the value is dropped *)
| BX_Expr e s v s1 :
    beval e s (Val v) s1 ->
    bexec (SExpr e) s (Val tt) s1
| BX_Expr_abn e s c0 s1 c :
    beval e s c0 s1 -> propagates c0 c ->
    bexec (SExpr e) s c s1
(* if: the condition, then exactly one branch as a block *)
| BX_If_true c s1_ s2_ s x s1 r s2 :
    beval c s (Val x) s1 -> x <> 0 -> bblock s1_ s1 r s2 ->
    bexec (SIf c s1_ s2_) s r s2
| BX_If_false c s1_ s2_ s s1 r s2 :
    beval c s (Val 0) s1 -> bblock s2_ s1 r s2 ->
    bexec (SIf c s1_ s2_) s r s2
| BX_If_abn c s1_ s2_ s c0 s1 r :
    beval c s c0 s1 -> propagates c0 r ->
    bexec (SIf c s1_ s2_) s r s1
(* while: unfold one iteration; `continue` and a normal end of the body go on, `break` ends the loop *)
| BX_While_done c body s s1 :
    beval c s (Val 0) s1 ->
    bexec (SWhile c body) s (Val tt) s1
| BX_While_abn c body s c0 s1 r :
    beval c s c0 s1 -> propagates c0 r ->
    bexec (SWhile c body) s r s1
| BX_While_iter c body s x s1 cb s2 r s3 :
    beval c s (Val x) s1 -> x <> 0 -> bblock body s1 cb s2 -> goes_on cb ->
    bexec (SWhile c body) s2 r s3 ->
    bexec (SWhile c body) s r s3
| BX_While_exit c body s x s1 cb s2 r :
    beval c s (Val x) s1 -> x <> 0 -> bblock body s1 cb s2 -> loop_exit cb r ->
    bexec (SWhile c body) s r s2
(* for: the header has its own scope, left on EVERY outcome *)
| BX_For init c upd body s s1 r s2 :
    m_push_scope s = (Val tt, s1) -> bforin init c upd body s1 r s2 ->
    bexec (SFor init c upd body) s r (pop_scope_st s2)
| BX_For_noscope init c upd body s c0 s1 r :
    m_push_scope s = (c0, s1) -> propagates c0 r ->
    bexec (SFor init c upd body) s r s1
| BX_Break s : bexec SBreak s Brk s
| BX_Continue s : bexec SContinue s Cnt s
| BX_Return_void s : bexec (SReturn None) s (Ret None) s
| BX_Return e s v s1 :
    beval e s (Val v) s1 ->
    bexec (SReturn (Some e)) s (Ret (Some v)) s1
| BX_Return_abn e s c0 s1 c :
    beval e s c0 s1 -> propagates c0 c ->
    bexec (SReturn (Some e)) s c s1
| BX_Block ss s c s' :
    bblock ss s c s' ->
    bexec (SBlock ss) s c s'
(* print / println: every argument is evaluated and written before the next one is evaluated *)
| BX_Print (nl : bool) args s s1 :
    bprint true args s (Val tt) s1 ->
    bexec (SPrint nl args) s (Val tt) (if nl then out_st ONl s1 else s1)
| BX_Print_abn nl args s c0 s1 c :
    bprint true args s c0 s1 -> propagates c0 c ->
    bexec (SPrint nl args) s c s1
(* plain structs *)
| BX_Struct sn x flds s c s' :
    bdeclm x 0%nat flds s c s' ->
    bexec (SStruct sn x flds) s c s'
| BX_Copy x y flds s c s' :
    bcopym x y 0%nat flds s c s' ->
    bexec (SCopy x y flds) s c s'

(* statement sequences: stop at the first statement that does not end normally *)
with bexecs : list stmt -> state -> ctl unit -> state -> Prop :=
| BS_nil s : bexecs [] s (Val tt) s
| BS_cons st r s s1 c s2 :
    bexec st s (Val tt) s1 -> bexecs r s1 c s2 ->
    bexecs (st :: r) s c s2
| BS_abn st r s c0 s1 c :
    bexec st s c0 s1 -> propagates c0 c ->
    bexecs (st :: r) s c s1

(* { ss }: a new innermost scope, popped on EVERY outcome (C08: block locals end with the block) *)
with bblock : list stmt -> state -> ctl unit -> state -> Prop :=
| BK_block ss s s1 c s2 :
    m_push_scope s = (Val tt, s1) -> bexecs ss s1 c s2 ->
    bblock ss s c (pop_scope_st s2)
| BK_noscope ss s c0 s1 c :
    m_push_scope s = (c0, s1) -> propagates c0 c ->
    bblock ss s c s1

(* inside the scope of a for header: initialiser; condition; body as a block; `continue` and a normal end run
   the update; then the loop is entered again as a for without initialiser; `break` ends it *)
with bforin : list stmt -> expr -> list stmt -> list stmt -> state -> ctl unit -> state -> Prop :=
| BF_init_abn init c upd body s c0 s1 r :
    bexecs init s c0 s1 -> propagates c0 r ->
    bforin init c upd body s r s1
| BF_cond_abn init c upd body s s1 c0 s2 r :
    bexecs init s (Val tt) s1 -> beval c s1 c0 s2 -> propagates c0 r ->
    bforin init c upd body s r s2
| BF_done init c upd body s s1 s2 :
    bexecs init s (Val tt) s1 -> beval c s1 (Val 0) s2 ->
    bforin init c upd body s (Val tt) s2
| BF_iter init c upd body s s1 x s2 cb s3 s4 r s5 :
    bexecs init s (Val tt) s1 -> beval c s1 (Val x) s2 -> x <> 0 ->
    bblock body s2 cb s3 -> goes_on cb ->
    bexecs upd s3 (Val tt) s4 ->
    bexec (SFor [] c upd body) s4 r s5 ->
    bforin init c upd body s r s5
| BF_upd_abn init c upd body s s1 x s2 cb s3 c0 s4 r :
    bexecs init s (Val tt) s1 -> beval c s1 (Val x) s2 -> x <> 0 ->
    bblock body s2 cb s3 -> goes_on cb ->
    bexecs upd s3 c0 s4 -> propagates c0 r ->
    bforin init c upd body s r s4
| BF_exit init c upd body s s1 x s2 cb s3 r :
    bexecs init s (Val tt) s1 -> beval c s1 (Val x) s2 -> x <> 0 ->
    bblock body s2 cb s3 -> loop_exit cb r ->
    bforin init c upd body s r s3

(* the arguments of print / println, separated by one blank *)
with bprint : bool -> list expr -> state -> ctl unit -> state -> Prop :=
| BP_nil first s : bprint first [] s (Val tt) s
| BP_cons first e r s v s1 c s2 :
    beval e (sep_st first s) (Val v) s1 -> bprint false r (out_st (OInt v) s1) c s2 ->
    bprint first (e :: r) s c s2
| BP_abn first e r s c0 s1 c :
    beval e (sep_st first s) c0 s1 -> propagates c0 c ->
    bprint first (e :: r) s c s1.

Scheme beval_mind := Minimality for beval Sort Prop
  with bevals_mind := Minimality for bevals Sort Prop
  with bargs_mind := Minimality for bargs Sort Prop
  with bbind_mind := Minimality for bbind Sort Prop
  with binit_mind := Minimality for binit Sort Prop
  with bexec_mind := Minimality for bexec Sort Prop
  with bexecs_mind := Minimality for bexecs Sort Prop
  with bblock_mind := Minimality for bblock Sort Prop
  with bforin_mind := Minimality for bforin Sort Prop
  with bprint_mind := Minimality for bprint Sort Prop.
Combined Scheme bigstep_mutind from beval_mind, bevals_mind, bargs_mind, bbind_mind, binit_mind,
  bexec_mind, bexecs_mind, bblock_mind, bforin_mind, bprint_mind.

End BigStep.
