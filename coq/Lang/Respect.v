(* Lang - the generic induction: a reflexive-transitive relation between states that every
   state-changing primitive respects is respected by every evaluation of every expression and
   statement, for every fuel. Adding a construct to the language costs one case here, not one
   case per property. *)
From Coq Require Import List ZArith Bool Arith Lia.
From Cb Require Import Lang.Syntax Lang.Sem.
Import ListNotations.
Local Open Scope Z_scope.

Section Respect.
Variable R : state -> state -> Prop.
Hypothesis R_refl : forall s, R s s.
Hypothesis R_trans : forall a b c, R a b -> R b c -> R a c.

Definition respects {A} (m : M A) : Prop := forall s, R s (snd (m s)).

Hypothesis H_write : forall x i v, respects (m_write x i v).
Hypothesis H_declare : forall sta cst t x d vs, respects (m_declare sta cst t x d vs).
Hypothesis H_out : forall o, respects (m_out o).
(* scopes and frames are entered and left only in brackets; a bracketed computation respects R
   whenever its inside does (for relations that every primitive respects this follows from
   [brackets_of_prims] below; bracketed properties such as "the caller's frames are unchanged" prove
   it directly) *)
Hypothesis H_block : forall A (m : M A), respects m -> respects (m_push_scope ;;; finally m pop_scope_st).
Hypothesis H_frame : forall A f (m : M A), respects m -> respects (m_push_frame f ;;; finally m pop_frame_st).

Lemma r_ret {A} (a : A) : respects (ret a).
Proof. intros s. apply R_refl. Qed.
Lemma r_fail {A} e : respects (@fail A e).
Proof. intros s. apply R_refl. Qed.
Lemma r_lift {A} (c : ctl A) : respects (lift c).
Proof. intros s. apply R_refl. Qed.
Lemma r_read x i : respects (m_read x i).
Proof. intros s. unfold m_read. destruct (get_entry x s); [|apply R_refl].
  destruct (flat_index _ _ _); apply R_refl. Qed.
Lemma r_static_known x : respects (m_static_known x).
Proof. intros s. apply R_refl. Qed.

Lemma r_bind {A B} (m : M A) (f : A -> M B) :
  respects m -> (forall a, respects (f a)) -> respects (bind m f).
Proof.
  intros Hm Hf s. unfold bind. specialize (Hm s). destruct (m s) as [c s']. cbn [snd] in Hm.
  destruct c; cbn [snd]; try exact Hm. eapply R_trans; [exact Hm|apply Hf].
Qed.
Lemma r_finally {A} (m : M A) fin : respects m -> (forall s, R s (fin s)) -> respects (finally m fin).
Proof.
  intros Hm Hf s. unfold finally. specialize (Hm s). destruct (m s) as [c s']. cbn [snd] in *.
  eapply R_trans; [exact Hm|apply Hf].
Qed.
Lemma r_map_ctl {A B} (g : ctl A -> ctl B) m : respects m -> respects (map_ctl g m).
Proof. intros Hm s. unfold map_ctl. specialize (Hm s). destruct (m s) as [c s']. exact Hm. Qed.
Lemma r_loop_step b nx : respects b -> respects nx -> respects (loop_step b nx).
Proof.
  intros Hb Hn s. unfold loop_step. specialize (Hb s). destruct (b s) as [c s']. cbn [snd] in Hb.
  destruct c; cbn [snd]; try exact Hb; eapply R_trans; [exact Hb|apply Hn|exact Hb|apply Hn].
Qed.

Lemma r_copy_cells dst src idxs : respects (copy_cells dst src idxs).
Proof. induction idxs as [|i r IH]; cbn [copy_cells]; [apply r_ret|].
  apply r_bind; [apply r_read|]. intros v. apply r_bind; [apply H_write|]. intros _. exact IH. Qed.
Lemma r_copy_members x y j flds : respects (copy_members x y j flds).
Proof. revert j; induction flds as [|f r IH]; intros j; cbn [copy_members]; [apply r_ret|].
  apply r_bind; [apply r_copy_cells|]. intros _. apply IH. Qed.
Lemma r_decl_members x j flds : respects (decl_members x j flds).
Proof. revert j; induction flds as [|f r IH]; intros j; cbn [decl_members]; [apply r_ret|].
  apply r_bind; [apply H_declare|]. intros _. apply IH. Qed.

Section Helpers.
Variable ev : expr -> M Z.
Variable ex : stmt -> M unit.
Hypothesis Hev : forall e, respects (ev e).
Hypothesis Hex : forall s, respects (ex s).

Lemma r_eval_list es : respects (eval_list ev es).
Proof. induction es as [|e r IH]; cbn [eval_list]; [apply r_ret|].
  apply r_bind; [apply Hev|]. intros v. apply r_bind; [exact IH|]. intros vs. apply r_ret. Qed.
Lemma r_eval_args ps es : respects (eval_args ev ps es).
Proof. revert ps; induction es as [|e r IH]; intros ps; cbn [eval_args]; [apply r_ret|].
  apply r_bind; [apply Hev|]. intros v. destruct ps as [|p pr].
  - apply r_bind; [apply IH|]. intros. apply r_ret.
  - apply r_bind; [apply r_lift|]. intros. apply r_bind; [apply IH|]. intros. apply r_ret. Qed.
Lemma r_exec_list ss : respects (exec_list ex ss).
Proof. induction ss as [|x r IH]; cbn [exec_list]; [apply r_ret|].
  apply r_bind; [apply Hex|]. intros _. exact IH. Qed.
Lemma r_in_block ss : respects (in_block ex ss).
Proof. unfold in_block. apply H_block. apply r_exec_list. Qed.
Lemma r_print_args first es : respects (print_args ev first es).
Proof. revert first; induction es as [|e r IH]; intros first; cbn [print_args]; [apply r_ret|].
  apply r_bind; [destruct first; [apply r_ret|apply H_out]|]. intros _.
  apply r_bind; [apply Hev|]. intros v. apply r_bind; [apply H_out|]. intros _. apply IH. Qed.
Lemma r_bind_params ps vs : respects (bind_params ev ps vs).
Proof. revert vs; induction ps as [|p pr IH]; intros vs; cbn [bind_params]; [apply r_ret|].
  destruct vs as [|v vr].
  - destruct (pdef p); [|apply r_fail]. apply r_bind; [apply Hev|]. intros v.
    apply r_bind; [apply H_declare|]. intros _. apply IH.
  - apply r_bind; [apply H_declare|]. intros _. apply IH. Qed.
Lemma r_lval_target lv : respects (lval_target ev lv).
Proof. destruct lv; cbn [lval_target]; [apply r_ret|].
  apply r_bind; [apply r_eval_list|]. intros. apply r_ret. Qed.
End Helpers.

Variable funcs : list func.

Theorem eval_exec_respect : forall n,
  (forall e, respects (eval funcs n e)) /\ (forall s, respects (exec funcs n s)).
Proof.
  induction n as [|k [IHe IHx]]; [split; intros; apply r_fail|].
  assert (Hel := r_eval_list _ IHe).
  assert (Hxl := r_exec_list _ IHx).
  assert (Hib := r_in_block _ IHx).
  split.
  - intros e. destruct e; cbn [eval].
    + apply r_ret.
    + apply r_read.
    + apply r_bind; [apply IHe|]. intros. apply r_lift.
    + apply r_bind; [apply IHe|]. intros. apply r_bind; [apply IHe|]. intros. apply r_lift.
    + apply r_bind; [apply IHe|]. intros x. destruct (x =? 0); [apply r_ret|].
      apply r_bind; [apply IHe|]. intros. apply r_ret.
    + apply r_bind; [apply IHe|]. intros x. destruct (x =? 0); [|apply r_ret].
      apply r_bind; [apply IHe|]. intros. apply r_ret.
    + apply r_bind; [apply IHe|]. intros x. destruct (x =? 0); apply IHe.
    + destruct (find_func f funcs) as [fd|]; [|apply r_fail].
      match goal with |- respects (if ?c then _ else _) => destruct c end; [apply r_fail|].
      apply r_bind; [apply r_eval_args; exact IHe|]. intros vs.
      apply H_frame. apply r_map_ctl.
      apply r_bind; [apply r_bind_params; exact IHe|]. intros _. apply Hxl.
    + apply r_bind; [apply Hel|]. intros. apply r_read.
  - intros s. destruct s; cbn [exec].
    + destruct sta.
      * apply r_bind; [apply r_static_known|]. intros known. destruct known; [apply r_ret|].
        apply r_bind; [destruct init; [apply IHe|apply r_ret]|]. intros. apply H_declare.
      * apply r_bind; [destruct init; [apply IHe|apply r_ret]|]. intros. apply H_declare.
    + apply r_bind; [apply Hel|]. intros. apply H_declare.
    + destruct op.
      * apply r_bind; [apply r_lval_target; exact IHe|]. intros tg.
        apply r_bind; [apply r_read|]. intros. apply r_bind; [apply IHe|]. intros.
        apply r_bind; [apply r_lift|]. intros. apply H_write.
      * apply r_bind; [apply IHe|]. intros v.
        apply r_bind; [apply r_lval_target; exact IHe|]. intros tg. apply H_write.
    + apply r_bind; [apply r_lval_target; exact IHe|]. intros tg.
      apply r_bind; [apply r_read|]. intros. apply r_bind; [apply r_lift|]. intros. apply H_write.
    + apply r_bind; [apply IHe|]. intros. apply r_ret.
    + apply r_bind; [apply IHe|]. intros x. destruct (x =? 0); apply Hib.
    + apply r_bind; [apply IHe|]. intros x. destruct (x =? 0); [apply r_ret|].
      apply r_loop_step; [apply Hib|apply IHx].
    + apply H_block.
      apply r_bind; [apply Hxl|]. intros _. apply r_bind; [apply IHe|]. intros x.
      destruct (x =? 0); [apply r_ret|]. apply r_loop_step; [apply Hib|].
      apply r_bind; [apply Hxl|]. intros _. apply IHx.
    + apply r_lift.
    + apply r_lift.
    + destruct e; [|apply r_lift]. apply r_bind; [apply IHe|]. intros. apply r_lift.
    + apply Hib.
    + apply r_bind; [apply r_print_args; exact IHe|]. intros _. destruct nl; [apply H_out|apply r_ret].
    + apply r_decl_members.
    + apply r_copy_members.
Qed.

Corollary exec_list_respect n ss : respects (exec_list (exec funcs n) ss).
Proof. apply r_exec_list. apply (proj2 (eval_exec_respect n)). Qed.
End Respect.

(* relations respected by the push/pop primitives themselves are respected by the brackets *)
Section Prims.
Variable R : state -> state -> Prop.
Hypothesis R_refl : forall s, R s s.
Hypothesis R_trans : forall a b c, R a b -> R b c -> R a c.
Hypothesis H_push_scope : respects R m_push_scope.
Hypothesis H_push_frame : forall f, respects R (m_push_frame f).
Hypothesis H_pop_scope : forall s, R s (pop_scope_st s).
Hypothesis H_pop_frame : forall s, R s (pop_frame_st s).
Lemma block_of_prims A (m : M A) : respects R m -> respects R (m_push_scope ;;; finally m pop_scope_st).
Proof. intros Hm. apply r_bind; auto. intros _. apply r_finally; auto. Qed.
Lemma frame_of_prims A f (m : M A) : respects R m -> respects R (m_push_frame f ;;; finally m pop_frame_st).
Proof. intros Hm. apply r_bind; auto. intros _. apply r_finally; auto. Qed.
End Prims.
