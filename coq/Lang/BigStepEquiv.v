(* Lang - BigStepEquiv: the fuelled reference interpreter [Sem.eval/exec] computes exactly the relation
   [BigStep.beval/bexec].
     soundness     ([exec_sound])     : whatever the interpreter answers without running out of fuel is derivable;
     completeness  ([bexec_complete]) : every derivable judgement is what the interpreter answers, for every
                                        sufficiently large fuel;
     the relation never concludes "out of fuel", is deterministic, and whole programs ([bmeans]) mean what
     [Print.run] computes. *)
From Coq Require Import List ZArith Bool Arith Lia.
From Cb Require Import Lang.Syntax Lang.Sem Lang.Print Lang.FuelMono Lang.BigStep.
Import ListNotations.
Local Open Scope Z_scope.

(* ------------------------------------------------------------------ the monad, inverted *)
Lemma bind_inv {A B} (m : M A) (f : A -> M B) s c s2 :
  bind m f s = (c, s2) ->
  (exists a s1, m s = (Val a, s1) /\ f a s1 = (c, s2)) \/
  (exists c1, m s = (c1, s2) /\ propagates c1 c).
Proof.
  unfold bind. destruct (m s) as [c1 s1]. destruct c1; intros H.
  - left. eauto.
  - right. injection H as <- <-. eexists. split; [reflexivity|constructor].
  - right. injection H as <- <-. eexists. split; [reflexivity|constructor].
  - right. injection H as <- <-. eexists. split; [reflexivity|constructor].
  - right. injection H as <- <-. eexists. split; [reflexivity|constructor].
Qed.

Lemma bind_val {A B} (m : M A) (f : A -> M B) s a s1 : m s = (Val a, s1) -> bind m f s = f a s1.
Proof. unfold bind. intros ->. reflexivity. Qed.
Lemma bind_abn {A B} (m : M A) (f : A -> M B) s c1 s1 (c : ctl B) :
  m s = (c1, s1) -> propagates c1 c -> bind m f s = (c, s1).
Proof. unfold bind. intros -> P. destruct P; reflexivity. Qed.

Lemma finally_inv {A} (m : M A) fin s c s' :
  finally m fin s = (c, s') -> exists s1, m s = (c, s1) /\ s' = fin s1.
Proof. unfold finally. destruct (m s) as [c1 s1]. intros [= <- <-]. eauto. Qed.
Lemma finally_eq {A} (m : M A) fin s c s1 : m s = (c, s1) -> finally m fin s = (c, fin s1).
Proof. unfold finally. intros ->. reflexivity. Qed.

Lemma map_ctl_inv {A B} (g : ctl A -> ctl B) m s c s' :
  map_ctl g m s = (c, s') -> exists c0, m s = (c0, s') /\ c = g c0.
Proof. unfold map_ctl. destruct (m s) as [c1 s1]. intros [= <- <-]. eauto. Qed.
Lemma map_ctl_eq {A B} (g : ctl A -> ctl B) m s c s1 : m s = (c, s1) -> map_ctl g m s = (g c, s1).
Proof. unfold map_ctl. intros ->. reflexivity. Qed.

Lemma loop_step_inv b nx s c s' :
  loop_step b nx s = (c, s') ->
  (exists cb s1, b s = (cb, s1) /\ goes_on cb /\ nx s1 = (c, s')) \/
  (exists cb, b s = (cb, s') /\ loop_exit cb c).
Proof.
  unfold loop_step. destruct (b s) as [cb s1]. destruct cb as [[]| | | |]; intros H.
  - left. exists (Val tt), s1. repeat split; [constructor|exact H].
  - right. injection H as <- <-. eexists. split; [reflexivity|constructor].
  - left. exists Cnt, s1. repeat split; [constructor|exact H].
  - right. injection H as <- <-. eexists. split; [reflexivity|constructor].
  - right. injection H as <- <-. eexists. split; [reflexivity|constructor].
Qed.
Lemma loop_step_go b nx s cb s1 : b s = (cb, s1) -> goes_on cb -> loop_step b nx s = nx s1.
Proof. unfold loop_step. intros -> G. destruct G; reflexivity. Qed.
Lemma loop_step_exit b nx s cb s1 c : b s = (cb, s1) -> loop_exit cb c -> loop_step b nx s = (c, s1).
Proof. unfold loop_step. intros -> X. destruct X; reflexivity. Qed.

(* ------------------------------------------------------------------ "out of fuel" and the outcome relations *)
Lemma val_has_fuel {A} (a : A) : Val a <> Fail ENoFuel.
Proof. discriminate. Qed.
Lemma propagates_nofuel {A B} (c1 : ctl A) (c : ctl B) :
  propagates c1 c -> c <> Fail ENoFuel -> c1 <> Fail ENoFuel.
Proof. intros P N E. subst c1. inversion P. subst. apply N. reflexivity. Qed.
Lemma propagates_fuel {A B} (c1 : ctl A) (c : ctl B) :
  propagates c1 c -> c1 <> Fail ENoFuel -> c <> Fail ENoFuel.
Proof. intros P N E. subst c. inversion P. subst. apply N. reflexivity. Qed.
Lemma goes_on_fuel cb : goes_on cb -> cb <> Fail ENoFuel.
Proof. intros G. destruct G; discriminate. Qed.
Lemma loop_exit_nofuel cb c : loop_exit cb c -> c <> Fail ENoFuel -> cb <> Fail ENoFuel.
Proof. intros X N E. subst cb. inversion X. subst. apply N. reflexivity. Qed.
Lemma loop_exit_fuel cb c : loop_exit cb c -> cb <> Fail ENoFuel -> c <> Fail ENoFuel.
Proof. intros X N E. subst c. inversion X. subst. apply N. reflexivity. Qed.
Lemma call_result_back rt c : call_result rt c <> Fail ENoFuel -> c <> Fail ENoFuel.
Proof. intros N E. subst c. apply N. reflexivity. Qed.
Lemma propagates_same {A} (c0 c : ctl A) : propagates c0 c -> c0 = c.
Proof. intros P. destruct P; reflexivity. Qed.
Lemma propagates_val {A B} (a : A) (c : ctl B) : ~ propagates (Val a) c.
Proof. intros P. inversion P. Qed.

Lemma truth_eq y : b2z (negb (y =? 0)) = truth y.
Proof. unfold truth. destruct (y =? 0); reflexivity. Qed.

(* the primitives never answer "out of fuel" *)
Lemma coerce_fuel t v : coerce t v <> Fail ENoFuel.
Proof. unfold coerce. destruct (uns t && (v <? 0)); [discriminate|]. destruct (in_range t v); discriminate. Qed.
Lemma chk_fuel z : chk z <> Fail ENoFuel.
Proof. unfold chk. destruct (in64 z); discriminate. Qed.
Lemma arith_fuel o a b : arith o a b <> Fail ENoFuel.
Proof.
  destruct o; cbn [arith]; try apply chk_fuel; try discriminate.
  - destruct (b =? 0); [discriminate|apply chk_fuel].
  - destruct (b =? 0); [discriminate|]. destruct ((a =? int64_min) && (b =? -1)); discriminate.
  - destruct ((0 <=? b) && (b <? 64)); [apply chk_fuel|discriminate].
  - destruct ((0 <=? b) && (b <? 64)); discriminate.
Qed.
Lemma unarith_fuel o a : unarith o a <> Fail ENoFuel.
Proof. destruct o; cbn [unarith]; try apply chk_fuel; discriminate. Qed.
Lemma coerce_all_fuel t vs : coerce_all t vs <> Fail ENoFuel.
Proof.
  induction vs as [|v r IH]; cbn [coerce_all]; [discriminate|].
  pose proof (coerce_fuel t v) as Hc. destruct (coerce t v); try discriminate; [|congruence].
  destruct (coerce_all t r); try discriminate. congruence.
Qed.
Lemma call_result_fuel rt c : c <> Fail ENoFuel -> call_result rt c <> Fail ENoFuel.
Proof.
  intros N. destruct c as [a| | |v|e]; cbn [call_result]; try discriminate; [|congruence].
  destruct v as [v|]; [|discriminate]. destruct rt; [apply coerce_fuel|discriminate].
Qed.
Lemma m_read_fuel x i s c s' : m_read x i s = (c, s') -> c <> Fail ENoFuel.
Proof.
  unfold m_read. destruct (get_entry x s) as [e|]; [|intros [= <- _]; discriminate].
  destruct (flat_index _ _ _); intros [= <- _]; discriminate.
Qed.
Lemma m_write_fuel x i v s c s' : m_write x i v s = (c, s') -> c <> Fail ENoFuel.
Proof.
  unfold m_write. destruct (get_entry x s) as [e|]; [|intros [= <- _]; discriminate].
  destruct (econst e); [intros [= <- _]; discriminate|].
  destruct (flat_index _ _ _); [|intros [= <- _]; discriminate].
  pose proof (coerce_fuel (ety e) v) as Hc.
  destruct (coerce (ety e) v); intros [= <- _]; try discriminate. congruence.
Qed.
Lemma m_declare_fuel sta cst t x d vs s c s' : m_declare sta cst t x d vs s = (c, s') -> c <> Fail ENoFuel.
Proof.
  unfold m_declare. pose proof (coerce_all_fuel t vs) as Hc.
  destruct (coerce_all t vs); try (intros [= <- _]; discriminate); [|intros [= <- _]; congruence].
  destruct (sframes s) as [|f fr]; [intros [= <- _]; discriminate|].
  destruct sta; [intros [= <- _]; discriminate|].
  destruct (fscopes f); intros [= <- _]; discriminate.
Qed.
Lemma m_push_scope_fuel s c s' : m_push_scope s = (c, s') -> c <> Fail ENoFuel.
Proof. unfold m_push_scope. destruct (sframes s); intros [= <- _]; discriminate. Qed.

(* ------------------------------------------------------------------ unfolding equations of the interpreter *)
Definition init_m (ev : expr -> M Z) (init : option expr) : M Z :=
  match init with Some e => ev e | None => ret 0 end.
(* what a for statement does inside its header scope *)
Definition for_in (ev : expr -> M Z) (ex : stmt -> M unit) (init : list stmt) (c : expr) (upd body : list stmt) : M unit :=
  exec_list ex init ;;;
  x <- ev c ;;
  if x =? 0 then ret tt
  else loop_step (in_block ex body) (exec_list ex upd ;;; ex (SFor [] c upd body)).

Section Equations.
Variable funcs : list func.
Variable k : nat.
Let ev := eval funcs k.
Let ex := exec funcs k.

Lemma eval_O e : eval funcs O e = fail ENoFuel. Proof. destruct e; reflexivity. Qed.
Lemma exec_O st : exec funcs O st = fail ENoFuel. Proof. destruct st; reflexivity. Qed.

Lemma eval_S_num z : eval funcs (S k) (ENum z) = ret z. Proof. reflexivity. Qed.
Lemma eval_S_var x : eval funcs (S k) (EVar x) = m_read x []. Proof. reflexivity. Qed.
Lemma eval_S_un o a : eval funcs (S k) (EUn o a) = (v <- ev a ;; lift (unarith o v)). Proof. reflexivity. Qed.
Lemma eval_S_bin o a b : eval funcs (S k) (EBin o a b) = (x <- ev a ;; y <- ev b ;; lift (arith o x y)).
Proof. reflexivity. Qed.
Lemma eval_S_and a b : eval funcs (S k) (EAnd a b) =
  (x <- ev a ;; if x =? 0 then ret 0 else y <- ev b ;; ret (b2z (negb (y =? 0)))).
Proof. reflexivity. Qed.
Lemma eval_S_or a b : eval funcs (S k) (EOr a b) =
  (x <- ev a ;; if x =? 0 then y <- ev b ;; ret (b2z (negb (y =? 0))) else ret 1).
Proof. reflexivity. Qed.
Lemma eval_S_cond c a b : eval funcs (S k) (ECond c a b) = (x <- ev c ;; if x =? 0 then ev b else ev a).
Proof. reflexivity. Qed.
Lemma eval_S_idx a idx : eval funcs (S k) (EIdx a idx) = (is_ <- eval_list ev idx ;; m_read a is_).
Proof. reflexivity. Qed.
Lemma eval_S_call f args : eval funcs (S k) (ECall f args) =
  match find_func f funcs with
  | None => fail EUnbound
  | Some fd =>
      if (Nat.ltb (List.length args) (required (fparams fd))) || (Nat.ltb (List.length (fparams fd)) (List.length args))
      then fail EArity
      else
        vs <- eval_args ev (fparams fd) args ;;
        m_push_frame f ;;;
        finally (map_ctl (call_result (fret fd))
                   (bind_params ev (fparams fd) vs ;;; exec_list ex (fbody fd))) pop_frame_st
  end.
Proof. reflexivity. Qed.

Lemma exec_S_decl cst sta t x init : exec funcs (S k) (SDecl cst sta t x init) =
  if sta then
    known <- m_static_known x ;;
    if known then ret tt else v <- init_m ev init ;; m_declare true cst t x [] [v]
  else v <- init_m ev init ;; m_declare false cst t x [] [v].
Proof. reflexivity. Qed.
Lemma exec_S_arr cst t x dims init : exec funcs (S k) (SArr cst t x dims init) =
  (vs <- eval_list ev init ;; m_declare false cst t x dims vs).
Proof. reflexivity. Qed.
Lemma exec_S_assign lv e : exec funcs (S k) (SAssign lv None e) =
  (v <- ev e ;; tg <- lval_target ev lv ;; m_write (fst tg) (snd tg) v).
Proof. reflexivity. Qed.
Lemma exec_S_compound lv o e : exec funcs (S k) (SAssign lv (Some o) e) =
  (tg <- lval_target ev lv ;; old <- m_read (fst tg) (snd tg) ;; v <- ev e ;;
   r <- lift (arith o old v) ;; m_write (fst tg) (snd tg) r).
Proof. reflexivity. Qed.
Lemma exec_S_incdec pre inc lv : exec funcs (S k) (SIncDec pre inc lv) =
  (tg <- lval_target ev lv ;; old <- m_read (fst tg) (snd tg) ;;
   r <- lift (arith (if inc then Add else Sub) old 1) ;; m_write (fst tg) (snd tg) r).
Proof. reflexivity. Qed.
Lemma exec_S_expr e : exec funcs (S k) (SExpr e) = (ev e ;;; ret tt). Proof. reflexivity. Qed.
Lemma exec_S_if c s1 s2 : exec funcs (S k) (SIf c s1 s2) =
  (x <- ev c ;; if x =? 0 then in_block ex s2 else in_block ex s1).
Proof. reflexivity. Qed.
Lemma exec_S_while c body : exec funcs (S k) (SWhile c body) =
  (x <- ev c ;; if x =? 0 then ret tt else loop_step (in_block ex body) (ex (SWhile c body))).
Proof. reflexivity. Qed.
Lemma exec_S_for init c upd body : exec funcs (S k) (SFor init c upd body) =
  (m_push_scope ;;; finally (for_in ev ex init c upd body) pop_scope_st).
Proof. reflexivity. Qed.
Lemma exec_S_break : exec funcs (S k) SBreak = lift Brk. Proof. reflexivity. Qed.
Lemma exec_S_continue : exec funcs (S k) SContinue = lift Cnt. Proof. reflexivity. Qed.
Lemma exec_S_return_void : exec funcs (S k) (SReturn None) = lift (Ret None). Proof. reflexivity. Qed.
Lemma exec_S_return e : exec funcs (S k) (SReturn (Some e)) = (v <- ev e ;; lift (Ret (Some v))).
Proof. reflexivity. Qed.
Lemma exec_S_block ss : exec funcs (S k) (SBlock ss) = in_block ex ss. Proof. reflexivity. Qed.
Lemma exec_S_print nl args : exec funcs (S k) (SPrint nl args) =
  (print_args ev true args ;;; if nl then m_out ONl else ret tt).
Proof. reflexivity. Qed.
Lemma exec_S_struct sn x flds : exec funcs (S k) (SStruct sn x flds) = decl_members x 0 flds.
Proof. reflexivity. Qed.
Lemma exec_S_copy x y flds : exec funcs (S k) (SCopy x y flds) = copy_members x y 0 flds.
Proof. reflexivity. Qed.
End Equations.

(* an lvalue is its name and its evaluated index list *)
Lemma lval_target_eq ev lv s :
  lval_target ev lv s = (is_ <- eval_list ev (lv_idx lv) ;; ret (lv_name lv, is_)) s.
Proof. destruct lv; reflexivity. Qed.

Lemma m_static_known_eq x s : m_static_known x s = (Val (static_known x s), s).
Proof. reflexivity. Qed.
Lemma m_push_frame_eq f s : m_push_frame f s = (Val tt, push_frame_st f s).
Proof. reflexivity. Qed.
Lemma m_out_eq o s : m_out o s = (Val tt, out_st o s).
Proof. reflexivity. Qed.

(* ------------------------------------------------------------------ plain structs: relation = function *)
Lemma bdeclm_iff x flds : forall j s c s', bdeclm x j flds s c s' <-> decl_members x j flds s = (c, s').
Proof.
  induction flds as [|f r IH]; intros j s c s'; cbn [decl_members].
  - split; [intros H; inversion H; reflexivity|intros [= <- <-]; constructor].
  - split.
    + intros H. inversion H; subst.
      * erewrite bind_val by eassumption. apply IH. assumption.
      * eapply bind_abn; eassumption.
    + intros H. apply bind_inv in H as [(a & s1 & H1 & H2)|(c1 & H1 & P)].
      * destruct a. eapply BDM_cons; [exact H1|apply IH; exact H2].
      * eapply BDM_fail; eassumption.
Qed.

Lemma bcopyc_iff dst src idxs : forall s c s', bcopyc dst src idxs s c s' <-> copy_cells dst src idxs s = (c, s').
Proof.
  induction idxs as [|i r IH]; intros s c s'; cbn [copy_cells].
  - split; [intros H; inversion H; reflexivity|intros [= <- <-]; constructor].
  - split.
    + intros H. inversion H; subst.
      * erewrite bind_val by eassumption. erewrite bind_val by eassumption. apply IH. assumption.
      * eapply bind_abn; eassumption.
      * erewrite bind_val by eassumption. eapply bind_abn; eassumption.
    + intros H. apply bind_inv in H as [(v & s1 & H1 & H2)|(c1 & H1 & P)].
      * apply bind_inv in H2 as [(a & s2 & H2 & H3)|(c1 & H2 & P)].
        -- destruct a. eapply BCC_cons; [exact H1|exact H2|apply IH; exact H3].
        -- eapply BCC_write_fail; eassumption.
      * eapply BCC_read_fail; eassumption.
Qed.

Lemma bcopym_iff x y flds : forall j s c s', bcopym x y j flds s c s' <-> copy_members x y j flds s = (c, s').
Proof.
  induction flds as [|f r IH]; intros j s c s'; cbn [copy_members].
  - split; [intros H; inversion H; reflexivity|intros [= <- <-]; constructor].
  - split.
    + intros H. inversion H; subst.
      * match goal with Hc : bcopyc _ _ _ _ _ _ |- _ => apply bcopyc_iff in Hc end.
        erewrite bind_val by eassumption. apply IH. assumption.
      * match goal with Hc : bcopyc _ _ _ _ _ _ |- _ => apply bcopyc_iff in Hc end.
        eapply bind_abn; eassumption.
    + intros H. apply bind_inv in H as [(a & s1 & H1 & H2)|(c1 & H1 & P)].
      * destruct a. eapply BCM_cons; [apply bcopyc_iff; exact H1|apply IH; exact H2].
      * eapply BCM_fail; [apply bcopyc_iff; exact H1|exact P].
Qed.

Lemma decl_members_fuel x flds : forall j s c s', decl_members x j flds s = (c, s') -> c <> Fail ENoFuel.
Proof.
  induction flds as [|f r IH]; intros j s c s' H; cbn [decl_members] in H.
  - injection H as <- <-. discriminate.
  - apply bind_inv in H as [(a & s1 & H1 & H2)|(c1 & H1 & P)].
    + eapply IH; exact H2.
    + eapply propagates_fuel; [exact P|]. eapply m_declare_fuel; exact H1.
Qed.
Lemma copy_cells_fuel dst src idxs : forall s c s', copy_cells dst src idxs s = (c, s') -> c <> Fail ENoFuel.
Proof.
  induction idxs as [|i r IH]; intros s c s' H; cbn [copy_cells] in H.
  - injection H as <- <-. discriminate.
  - apply bind_inv in H as [(v & s1 & H1 & H2)|(c1 & H1 & P)].
    + apply bind_inv in H2 as [(a & s2 & H2 & H3)|(c1 & H2 & P)].
      * eapply IH; exact H3.
      * eapply propagates_fuel; [exact P|]. eapply m_write_fuel; exact H2.
    + eapply propagates_fuel; [exact P|]. eapply m_read_fuel; exact H1.
Qed.
Lemma copy_members_fuel x y flds : forall j s c s', copy_members x y j flds s = (c, s') -> c <> Fail ENoFuel.
Proof.
  induction flds as [|f r IH]; intros j s c s' H; cbn [copy_members] in H.
  - injection H as <- <-. discriminate.
  - apply bind_inv in H as [(a & s1 & H1 & H2)|(c1 & H1 & P)].
    + eapply IH; exact H2.
    + eapply propagates_fuel; [exact P|]. eapply copy_cells_fuel; exact H1.
Qed.

(* ------------------------------------------------------------------ soundness: interpreter => rules *)
Create HintDb bs.
#[export] Hint Constructors beval bevals bargs bbind binit bexec bexecs bblock bforin bprint : bs.
#[export] Hint Constructors propagates goes_on loop_exit : bs.
#[export] Hint Resolve val_has_fuel : bs.

Tactic Notation "binv" hyp(H) "as" ident(a) ident(s1) ident(E) "|" ident(c1) ident(E') ident(P) :=
  apply bind_inv in H as [(a & s1 & E & H)|(c1 & E' & P)].
Ltac minv H := unfold ret, fail, lift in H; inversion H; subst; clear H.
Tactic Notation "zcase" ident(x) ident(Hz) := destruct (x =? 0) eqn:Hz; [apply Z.eqb_eq in Hz; subst x | apply Z.eqb_neq in Hz].
(* saturate the context with "did not run out of fuel" facts *)
Ltac nf :=
  repeat match goal with
  | P : propagates ?c1 ?c, N : ?c <> Fail ENoFuel |- _ =>
      lazymatch goal with
      | _ : c1 <> Fail ENoFuel |- _ => fail
      | _ => pose proof (propagates_nofuel _ _ P N)
      end
  | X : loop_exit ?c1 ?c, N : ?c <> Fail ENoFuel |- _ =>
      lazymatch goal with
      | _ : c1 <> Fail ENoFuel |- _ => fail
      | _ => pose proof (loop_exit_nofuel _ _ X N)
      end
  | G : goes_on ?c1 |- _ =>
      lazymatch goal with
      | _ : c1 <> Fail ENoFuel |- _ => fail
      | _ => pose proof (goes_on_fuel _ G)
      end
  end.
Ltac fin := nf; eauto 9 with bs.

Lemma lval_bind_inv {B} ev lv (f : ident * list Z -> M B) s c s' :
  bind (lval_target ev lv) f s = (c, s') ->
  (exists is_ s1, eval_list ev (lv_idx lv) s = (Val is_, s1) /\ f (lv_name lv, is_) s1 = (c, s')) \/
  (exists c1, eval_list ev (lv_idx lv) s = (c1, s') /\ propagates c1 c).
Proof.
  intros H. binv H as tg s1 E | c1 E P; rewrite lval_target_eq in E.
  - binv E as is_ s2 E1 | c1 E1 P.
    + minv E. left. eauto.
    + exfalso. inversion P.
  - binv E as is_ s2 E1 | c2 E1 P2.
    + minv E. exfalso. inversion P.
    + right. exists c2. split; [exact E1|]. destruct P2; inversion P; constructor.
Qed.
Lemma lval_bind_val {B} ev lv (f : ident * list Z -> M B) s is_ s1 :
  eval_list ev (lv_idx lv) s = (Val is_, s1) -> bind (lval_target ev lv) f s = f (lv_name lv, is_) s1.
Proof. intros H. unfold bind at 1. rewrite lval_target_eq. rewrite (bind_val _ _ _ _ _ H). reflexivity. Qed.
Lemma lval_bind_abn {B} ev lv (f : ident * list Z -> M B) s c1 s1 (c : ctl B) :
  eval_list ev (lv_idx lv) s = (c1, s1) -> propagates c1 c -> bind (lval_target ev lv) f s = (c, s1).
Proof.
  intros H P. unfold bind at 1. rewrite lval_target_eq. unfold bind. rewrite H. destruct P; reflexivity.
Qed.

Section Sound.
Variable funcs : list func.

Section Helpers.
Variables (ev : expr -> M Z) (ex : stmt -> M unit).
Hypothesis Hev : forall e s c s', ev e s = (c, s') -> c <> Fail ENoFuel -> beval funcs e s c s'.
Hypothesis Hex : forall st s c s', ex st s = (c, s') -> c <> Fail ENoFuel -> bexec funcs st s c s'.

Lemma sound_eval_list es : forall s c s',
  eval_list ev es s = (c, s') -> c <> Fail ENoFuel -> bevals funcs es s c s'.
Proof.
  induction es as [|e r IH]; intros s c s' H N; cbn [eval_list] in H.
  - minv H. constructor.
  - binv H as v s1 E | c1 E P.
    + binv H as vs s2 E2 | c2 E2 P.
      * minv H. fin.
      * fin.
    + fin.
Qed.

Lemma sound_eval_args es : forall ps s c s', (List.length es <= List.length ps)%nat ->
  eval_args ev ps es s = (c, s') -> c <> Fail ENoFuel -> bargs funcs ps es s c s'.
Proof.
  induction es as [|e r IH]; intros ps s c s' L H N; cbn [eval_args] in H.
  - minv H. constructor.
  - destruct ps as [|p pr]; [cbn [List.length] in L; lia|].
    assert (L' : (List.length r <= List.length pr)%nat) by (cbn [List.length] in L; lia).
    binv H as v s1 E | c1 E P.
    + binv H as v' s2 E2 | c2 E2 P.
      * unfold lift in E2. injection E2 as E2 <-.
        binv H as vs s3 E3 | c3 E3 P.
        -- minv H. fin.
        -- fin.
      * unfold lift in E2. injection E2 as E2 <-. fin.
    + fin.
Qed.

Lemma sound_exec_list ss : forall s c s',
  exec_list ex ss s = (c, s') -> c <> Fail ENoFuel -> bexecs funcs ss s c s'.
Proof.
  induction ss as [|st r IH]; intros s c s' H N; cbn [exec_list] in H.
  - minv H. constructor.
  - binv H as u s1 E | c1 E P.
    + destruct u. fin.
    + fin.
Qed.

Lemma sound_in_block ss s c s' :
  in_block ex ss s = (c, s') -> c <> Fail ENoFuel -> bblock funcs ss s c s'.
Proof.
  unfold in_block. intros H N. binv H as u s1 E | c1 E P.
  - destruct u. apply finally_inv in H as (s2 & H & ->). apply sound_exec_list in H; [|exact N]. fin.
  - fin.
Qed.

Lemma sound_print_args es : forall first s c s',
  print_args ev first es s = (c, s') -> c <> Fail ENoFuel -> bprint funcs first es s c s'.
Proof.
  induction es as [|e r IH]; intros first s c s' H N; cbn [print_args] in H.
  - minv H. constructor.
  - assert (E0 : (if first then ret tt else m_out OSp) s = (Val tt, sep_st first s)) by (destruct first; reflexivity).
    rewrite (bind_val _ _ _ _ _ E0) in H.
    binv H as v s1 E | c1 E P.
    + rewrite (bind_val _ _ _ _ _ (m_out_eq (OInt v) s1)) in H. fin.
    + fin.
Qed.

Lemma sound_bind_params ps : forall vs s c s',
  bind_params ev ps vs s = (c, s') -> c <> Fail ENoFuel -> bbind funcs ps vs s c s'.
Proof.
  induction ps as [|p pr IH]; intros vs s c s' H N; cbn [bind_params] in H.
  - minv H. constructor.
  - destruct vs as [|v vr].
    + destruct (pdef p) as [d|] eqn:D.
      * binv H as v s1 E | c1 E P.
        -- binv H as u s2 E2 | c2 E2 P.
           ++ destruct u. fin.
           ++ fin.
        -- fin.
      * minv H. fin.
    + binv H as u s1 E | c1 E P.
      * destruct u. fin.
      * fin.
Qed.

Lemma sound_init init s c s' :
  init_m ev init s = (c, s') -> c <> Fail ENoFuel -> binit funcs init s c s'.
Proof. destruct init as [e|]; cbn [init_m]; intros H N; [fin|minv H; constructor]. Qed.

Lemma sound_for_in init c upd body s r s' :
  for_in ev ex init c upd body s = (r, s') -> r <> Fail ENoFuel -> bforin funcs init c upd body s r s'.
Proof.
  unfold for_in. intros H N. binv H as u s1 E | c1 E P.
  - destruct u. apply sound_exec_list in E; [|discriminate].
    binv H as x s2 E2 | c2 E2 P.
    + zcase x Hz.
      * minv H. fin.
      * apply loop_step_inv in H as [(cb & s3 & B & G & H)|(cb & B & X)].
        -- nf. apply sound_in_block in B; [|assumption].
           binv H as u s4 E3 | c3 E3 P.
           ++ destruct u. apply sound_exec_list in E3; [|discriminate]. fin.
           ++ nf. apply sound_exec_list in E3; [|assumption]. fin.
        -- nf. apply sound_in_block in B; [|assumption]. fin.
    + fin.
  - nf. apply sound_exec_list in E; [|assumption]. fin.
Qed.
End Helpers.

Theorem exec_sound_l : forall n,
  (forall e s c s', eval funcs n e s = (c, s') -> c <> Fail ENoFuel -> beval funcs e s c s') /\
  (forall st s c s', exec funcs n st s = (c, s') -> c <> Fail ENoFuel -> bexec funcs st s c s').
Proof.
  induction n as [|k [IHe IHx]].
  - split; intros x s c s' H N; [rewrite eval_O in H|rewrite exec_O in H]; minv H; congruence.
  - pose proof (sound_eval_list _ IHe) as Hel.
    pose proof (sound_eval_args _ IHe) as Hea.
    pose proof (sound_exec_list _ IHx) as Hxl.
    pose proof (sound_in_block _ IHx) as Hib.
    pose proof (sound_print_args _ IHe) as Hpa.
    pose proof (sound_bind_params _ IHe) as Hbp.
    pose proof (sound_init _ IHe) as Hin.
    pose proof (sound_for_in _ _ IHe IHx) as Hfor.
    split.
    + intros e s c s' H N.
      destruct e as [z|x|o a|o a b|a b|a b|c0 a b|f args|a idx].
      * rewrite eval_S_num in H. minv H. constructor.
      * rewrite eval_S_var in H. constructor. exact H.
      * rewrite eval_S_un in H. binv H as v s1 E | c1 E P.
        -- minv H. fin.
        -- fin.
      * rewrite eval_S_bin in H. binv H as x s1 E | c1 E P.
        -- binv H as y s2 E2 | c2 E2 P.
           ++ minv H. fin.
           ++ fin.
        -- fin.
      * rewrite eval_S_and in H. binv H as x s1 E | c1 E P.
        -- zcase x Hz.
           ++ minv H. fin.
           ++ binv H as y s2 E2 | c2 E2 P.
              ** minv H. rewrite truth_eq. fin.
              ** fin.
        -- fin.
      * rewrite eval_S_or in H. binv H as x s1 E | c1 E P.
        -- zcase x Hz.
           ++ binv H as y s2 E2 | c2 E2 P.
              ** minv H. rewrite truth_eq. fin.
              ** fin.
           ++ minv H. fin.
        -- fin.
      * rewrite eval_S_cond in H. binv H as x s1 E | c1 E P.
        -- zcase x Hz; fin.
        -- fin.
      * rewrite eval_S_call in H. destruct (find_func f funcs) as [fd|] eqn:F.
        2:{ minv H. fin. }
        match type of H with (if ?b then _ else _) _ = _ => destruct b eqn:A end.
        { minv H. eapply BE_Call_arity; [exact F|]. unfold arity_ok.
          apply orb_true_iff in A. rewrite !Nat.ltb_lt in A. lia. }
        apply orb_false_iff in A. rewrite !Nat.ltb_ge in A.
        assert (AO : arity_ok fd (List.length args)) by (unfold arity_ok; lia).
        binv H as vs s1 E | c1 E P.
        2:{ nf. apply Hea in E; [|lia|assumption]. fin. }
        apply Hea in E; [|lia|discriminate].
        rewrite (bind_val _ _ _ _ _ (m_push_frame_eq f s1)) in H.
        apply finally_inv in H as (s2 & H & ->). apply map_ctl_inv in H as (cb & H & ->).
        apply call_result_back in N.
        binv H as u s3 E2 | c2 E2 P.
        -- destruct u. apply Hbp in E2; [|discriminate]. apply Hxl in H; [|exact N].
           eapply BE_Call; eassumption.
        -- nf. apply Hbp in E2; [|assumption]. eapply BE_Call_bind_abn; eassumption.
      * rewrite eval_S_idx in H. binv H as is_ s1 E | c1 E P; fin.
    + intros st s c s' H N.
      destruct st as [cst sta t x init|cst t x dims init|lv [o|] e|pre inc lv|e|c0 ss1 ss2|c0 body|init c0 upd body
                     | | |[e|]|ss|nl args|sn x flds|x y flds].
      * rewrite exec_S_decl in H. destruct sta.
        -- rewrite (bind_val _ _ _ _ _ (m_static_known_eq x s)) in H.
           destruct (static_known x s) eqn:K.
           ++ minv H. apply BX_Decl_static_again. exact K.
           ++ binv H as v s1 E | c1 E P.
              ** eapply BX_Decl; [right; exact K|apply Hin; [exact E|discriminate]|exact H].
              ** nf. eapply BX_Decl_abn; [right; exact K|apply Hin; eassumption|exact P].
        -- binv H as v s1 E | c1 E P.
           ++ eapply BX_Decl; [left; reflexivity|apply Hin; [exact E|discriminate]|exact H].
           ++ nf. eapply BX_Decl_abn; [left; reflexivity|apply Hin; eassumption|exact P].
      * rewrite exec_S_arr in H. binv H as vs s1 E | c1 E P; fin.
      * rewrite exec_S_compound in H. apply lval_bind_inv in H as [(is_ & s1 & E & H)|(c1 & E & P)]; [|fin].
        cbn [fst snd] in H. binv H as old s2 E2 | c2 E2 P; [|fin].
        binv H as v s3 E3 | c3 E3 P; [|fin].
        binv H as r s4 E4 | c4 E4 P.
        -- unfold lift in E4. injection E4 as E4 <-. fin.
        -- unfold lift in E4. injection E4 as E4 <-. fin.
      * rewrite exec_S_assign in H. binv H as v s1 E | c1 E P; [|fin].
        apply lval_bind_inv in H as [(is_ & s2 & E2 & H)|(c2 & E2 & P)]; [|fin].
        cbn [fst snd] in H. fin.
      * rewrite exec_S_incdec in H. apply lval_bind_inv in H as [(is_ & s1 & E & H)|(c1 & E & P)]; [|fin].
        cbn [fst snd] in H. binv H as old s2 E2 | c2 E2 P; [|fin].
        binv H as r s4 E4 | c4 E4 P.
        -- unfold lift in E4. injection E4 as E4 <-. fin.
        -- unfold lift in E4. injection E4 as E4 <-. fin.
      * rewrite exec_S_expr in H. binv H as v s1 E | c1 E P.
        -- minv H. fin.
        -- fin.
      * rewrite exec_S_if in H. binv H as x s1 E | c1 E P.
        -- zcase x Hz; fin.
        -- fin.
      * rewrite exec_S_while in H. binv H as x s1 E | c1 E P.
        -- zcase x Hz.
           ++ minv H. fin.
           ++ apply loop_step_inv in H as [(cb & s2 & B & G & H)|(cb & B & X)]; fin.
        -- fin.
      * rewrite exec_S_for in H. binv H as u s1 E | c1 E P.
        -- destruct u. apply finally_inv in H as (s2 & H & ->). fin.
        -- fin.
      * rewrite exec_S_break in H. minv H. constructor.
      * rewrite exec_S_continue in H. minv H. constructor.
      * rewrite exec_S_return in H. binv H as v s1 E | c1 E P.
        -- minv H. fin.
        -- fin.
      * rewrite exec_S_return_void in H. minv H. constructor.
      * rewrite exec_S_block in H. fin.
      * rewrite exec_S_print in H. binv H as u s1 E | c1 E P.
        -- destruct u. destruct nl.
           ++ rewrite m_out_eq in H. minv H. apply (BX_Print funcs true). fin.
           ++ minv H. apply (BX_Print funcs false). fin.
        -- fin.
      * rewrite exec_S_struct in H. apply bdeclm_iff in H. fin.
      * rewrite exec_S_copy in H. apply bcopym_iff in H. fin.
Qed.
End Sound.

(* ------------------------------------------------------------------ no rule concludes "out of fuel" *)
Section NoFuel.
Variable funcs : list func.

Theorem bigstep_never_out_of_fuel_l :
  (forall e s c s', beval funcs e s c s' -> c <> Fail ENoFuel) /\
  (forall es s c s', bevals funcs es s c s' -> c <> Fail ENoFuel) /\
  (forall ps es s c s', bargs funcs ps es s c s' -> c <> Fail ENoFuel) /\
  (forall ps vs s c s', bbind funcs ps vs s c s' -> c <> Fail ENoFuel) /\
  (forall init s c s', binit funcs init s c s' -> c <> Fail ENoFuel) /\
  (forall st s c s', bexec funcs st s c s' -> c <> Fail ENoFuel) /\
  (forall ss s c s', bexecs funcs ss s c s' -> c <> Fail ENoFuel) /\
  (forall ss s c s', bblock funcs ss s c s' -> c <> Fail ENoFuel) /\
  (forall init c0 upd body s c s', bforin funcs init c0 upd body s c s' -> c <> Fail ENoFuel) /\
  (forall first es s c s', bprint funcs first es s c s' -> c <> Fail ENoFuel).
Proof.
  apply (bigstep_mutind funcs
    (fun _ _ c _ => c <> Fail ENoFuel) (fun _ _ c _ => c <> Fail ENoFuel) (fun _ _ _ c _ => c <> Fail ENoFuel)
    (fun _ _ _ c _ => c <> Fail ENoFuel) (fun _ _ c _ => c <> Fail ENoFuel) (fun _ _ c _ => c <> Fail ENoFuel)
    (fun _ _ c _ => c <> Fail ENoFuel) (fun _ _ c _ => c <> Fail ENoFuel) (fun _ _ _ _ _ c _ => c <> Fail ENoFuel)
    (fun _ _ _ c _ => c <> Fail ENoFuel)); intros; subst; try discriminate; try assumption;
  try (eapply propagates_fuel; [eassumption|]);
  try (eapply loop_exit_fuel; [eassumption|]);
  try assumption;
  eauto using m_read_fuel, m_write_fuel, m_declare_fuel, m_push_scope_fuel, arith_fuel, unarith_fuel,
    coerce_fuel, call_result_fuel.
  all: try (apply call_result_fuel; eapply propagates_fuel; eassumption).
  - apply bdeclm_iff in H. eapply decl_members_fuel; exact H.
  - apply bcopym_iff in H. eapply copy_members_fuel; exact H.
Qed.
End NoFuel.

(* ------------------------------------------------------------------ completeness: rules => interpreter *)
(* "for every sufficiently large fuel": the strong form makes the fuels of the premises mergeable by a sum *)
Definition from_fuel {A} (F : nat -> M A) (s : state) (c : ctl A) (s' : state) : Prop :=
  exists n, forall m, (n <= m)%nat -> F m s = (c, s').

Lemma lift_eq {A} (c c' : ctl A) s : c = c' -> lift c s = (c', s).
Proof. intros ->. reflexivity. Qed.
Lemma sep_eq (first : bool) s : (if first then ret tt else m_out OSp) s = (Val tt, sep_st first s).
Proof. destruct first; reflexivity. Qed.
Lemma eqb_nonzero x : x <> 0 -> (x =? 0) = false.
Proof. apply Z.eqb_neq. Qed.

Lemma arity_ok_test fd n : arity_ok fd n ->
  (Nat.ltb n (required (fparams fd))) || (Nat.ltb (List.length (fparams fd)) n) = false.
Proof. unfold arity_ok. intros [A B]. apply orb_false_iff. rewrite !Nat.ltb_ge. split; assumption. Qed.
Lemma arity_bad_test fd n : ~ arity_ok fd n ->
  (Nat.ltb n (required (fparams fd))) || (Nat.ltb (List.length (fparams fd)) n) = true.
Proof.
  unfold arity_ok. intros A. apply orb_true_iff. rewrite !Nat.ltb_lt.
  destruct (Nat.lt_ge_cases n (required (fparams fd))) as [L|L]; [left; exact L|right].
  destruct (Nat.lt_ge_cases (List.length (fparams fd)) n) as [L2|L2]; [exact L2|]. exfalso. apply A. split; assumption.
Qed.

Ltac ex_fuel :=
  repeat match goal with H : exists n : nat, _ |- _ => let n := fresh "n" in destruct H as [n H] end.
Ltac sum_nats acc :=
  match goal with
  | n : nat |- _ => lazymatch acc with context [n] => fail | _ => sum_nats (acc + n)%nat end
  | _ => exists (S acc)
  end.
Ltac use_ih := match goal with H : forall k : nat, (_ <= k)%nat -> _ |- _ => apply H; lia end.
Ltac side := first
  [ eassumption | use_ih
  | apply m_static_known_eq | apply m_push_frame_eq | apply m_out_eq | apply sep_eq
  | apply lift_eq; eassumption ].
Ltac cstep := cbv beta; first
  [ erewrite bind_val by side
  | erewrite lval_bind_val by side; cbn [fst snd]
  | rewrite eqb_nonzero by assumption
  | match goal with H : find_func _ _ = _ |- _ => rewrite H end
  | match goal with H : pdef _ = _ |- _ => rewrite H end
  | match goal with H : static_known _ _ = _ |- _ => rewrite H end
  | rewrite arity_ok_test by assumption
  | rewrite arity_bad_test by assumption
  | progress change (0 =? 0) with true; cbv iota
  | erewrite loop_step_go; [ | side | eassumption ] ].
Ltac cfin := cbv beta; first
  [ reflexivity
  | eassumption
  | use_ih
  | eapply bind_abn; [side | eassumption]
  | eapply lval_bind_abn; [side | eassumption]
  | apply lift_eq; eassumption
  | eapply loop_step_exit; [side | eassumption]
  | apply finally_eq; side
  | apply m_out_eq
  | rewrite <- truth_eq; reflexivity
  | apply finally_eq; apply map_ctl_eq; repeat cstep; first [use_ih | eapply bind_abn; [side | eassumption]]
  | apply bdeclm_iff; assumption
  | apply bcopym_iff; assumption ].
Ltac cgo := repeat cstep; cfin.
Ltac open_goal :=
  let m := fresh "m" in let Hm := fresh "Hm" in
  intros m Hm;
  lazymatch goal with
  | |- eval _ _ _ _ = _ =>
      destruct m as [|m]; [lia|];
      first [ rewrite eval_S_num | rewrite eval_S_var | rewrite eval_S_un | rewrite eval_S_bin | rewrite eval_S_and
            | rewrite eval_S_or | rewrite eval_S_cond | rewrite eval_S_idx | rewrite eval_S_call ]
  | |- exec _ _ _ _ = _ =>
      destruct m as [|m]; [lia|];
      first [ rewrite exec_S_decl | rewrite exec_S_arr | rewrite exec_S_assign | rewrite exec_S_compound
            | rewrite exec_S_incdec | rewrite exec_S_expr | rewrite exec_S_if | rewrite exec_S_while
            | rewrite exec_S_for | rewrite exec_S_break | rewrite exec_S_continue | rewrite exec_S_return_void
            | rewrite exec_S_return | rewrite exec_S_block | rewrite exec_S_print | rewrite exec_S_struct
            | rewrite exec_S_copy ]
  | |- _ => cbn [eval_list eval_args bind_params init_m exec_list print_args]; unfold in_block, for_in
  end.

Section Complete.
Variable funcs : list func.

Theorem bexec_complete_l :
  (forall e s c s', beval funcs e s c s' -> from_fuel (fun m => eval funcs m e) s c s') /\
  (forall es s c s', bevals funcs es s c s' -> from_fuel (fun m => eval_list (eval funcs m) es) s c s') /\
  (forall ps es s c s', bargs funcs ps es s c s' -> from_fuel (fun m => eval_args (eval funcs m) ps es) s c s') /\
  (forall ps vs s c s', bbind funcs ps vs s c s' -> from_fuel (fun m => bind_params (eval funcs m) ps vs) s c s') /\
  (forall init s c s', binit funcs init s c s' -> from_fuel (fun m => init_m (eval funcs m) init) s c s') /\
  (forall st s c s', bexec funcs st s c s' -> from_fuel (fun m => exec funcs m st) s c s') /\
  (forall ss s c s', bexecs funcs ss s c s' -> from_fuel (fun m => exec_list (exec funcs m) ss) s c s') /\
  (forall ss s c s', bblock funcs ss s c s' -> from_fuel (fun m => in_block (exec funcs m) ss) s c s') /\
  (forall init c0 upd body s c s', bforin funcs init c0 upd body s c s' ->
     from_fuel (fun m => for_in (eval funcs m) (exec funcs m) init c0 upd body) s c s') /\
  (forall first es s c s', bprint funcs first es s c s' -> from_fuel (fun m => print_args (eval funcs m) first es) s c s').
Proof.
  apply (bigstep_mutind funcs
    (fun e => from_fuel (fun m => eval funcs m e))
    (fun es => from_fuel (fun m => eval_list (eval funcs m) es))
    (fun ps es => from_fuel (fun m => eval_args (eval funcs m) ps es))
    (fun ps vs => from_fuel (fun m => bind_params (eval funcs m) ps vs))
    (fun init => from_fuel (fun m => init_m (eval funcs m) init))
    (fun st => from_fuel (fun m => exec funcs m st))
    (fun ss => from_fuel (fun m => exec_list (exec funcs m) ss))
    (fun ss => from_fuel (fun m => in_block (exec funcs m) ss))
    (fun init c0 upd body => from_fuel (fun m => for_in (eval funcs m) (exec funcs m) init c0 upd body))
    (fun first es => from_fuel (fun m => print_args (eval funcs m) first es)));
  unfold from_fuel; intros; ex_fuel; sum_nats 0%nat; open_goal; try solve [cgo].
  - (* SDecl, value *) destruct H as [->|K].
    + cgo.
    + destruct sta; cgo.
  - (* SDecl, initialiser abnormal *) destruct H as [->|K].
    + cgo.
    + destruct sta; cgo.
  - (* SPrint *) destruct nl; cgo.
Qed.
End Complete.

(* ------------------------------------------------------------------ the theorems *)
Lemma from_fuel_unique {A} (F : nat -> M A) s (c1 c2 : ctl A) s1 s2 :
  from_fuel F s c1 s1 -> from_fuel F s c2 s2 -> c1 = c2 /\ s1 = s2.
Proof.
  intros [n1 H1] [n2 H2]. specialize (H1 (n1 + n2)%nat ltac:(lia)). specialize (H2 (n1 + n2)%nat ltac:(lia)).
  rewrite H1 in H2. injection H2 as <- <-. split; reflexivity.
Qed.

Section Theorems.
Variable funcs : list func.

(* the one helper about fuel (from [FuelMono.fuel_monotone]): an answer that is not "out of fuel" stays the
   answer for every larger fuel *)
Lemma eval_more_fuel n m e s c s' : (n <= m)%nat ->
  eval funcs n e s = (c, s') -> c <> Fail ENoFuel -> eval funcs m e s = (c, s').
Proof. intros L H N. exact (proj1 (fuel_monotone funcs n m L) e s c s' H N). Qed.
Lemma exec_more_fuel n m st s c s' : (n <= m)%nat ->
  exec funcs n st s = (c, s') -> c <> Fail ENoFuel -> exec funcs m st s = (c, s').
Proof. intros L H N. exact (proj2 (fuel_monotone funcs n m L) st s c s' H N). Qed.

(* soundness: every answer of the interpreter other than "out of fuel" is derivable *)
Theorem exec_sound : forall n,
  (forall e s c s', eval funcs n e s = (c, s') -> c <> Fail ENoFuel -> beval funcs e s c s') /\
  (forall st s c s', exec funcs n st s = (c, s') -> c <> Fail ENoFuel -> bexec funcs st s c s').
Proof. exact (exec_sound_l funcs). Qed.

Corollary exec_list_sound n ss s c s' :
  exec_list (exec funcs n) ss s = (c, s') -> c <> Fail ENoFuel -> bexecs funcs ss s c s'.
Proof. apply sound_exec_list. exact (proj2 (exec_sound n)). Qed.

(* completeness, strong form: a derivable judgement is the interpreter's answer for EVERY sufficiently large fuel *)
Theorem beval_complete_strong e s c s' :
  beval funcs e s c s' -> exists n, forall m, (n <= m)%nat -> eval funcs m e s = (c, s').
Proof. exact (proj1 (bexec_complete_l funcs) e s c s'). Qed.
Theorem bexec_complete_strong st s c s' :
  bexec funcs st s c s' -> exists n, forall m, (n <= m)%nat -> exec funcs m st s = (c, s').
Proof. exact (proj1 (proj2 (proj2 (proj2 (proj2 (proj2 (bexec_complete_l funcs)))))) st s c s'). Qed.
Theorem bexecs_complete_strong ss s c s' :
  bexecs funcs ss s c s' -> exists n, forall m, (n <= m)%nat -> exec_list (exec funcs m) ss s = (c, s').
Proof. exact (proj1 (proj2 (proj2 (proj2 (proj2 (proj2 (proj2 (bexec_complete_l funcs))))))) ss s c s'). Qed.

Theorem beval_complete e s c s' : beval funcs e s c s' -> exists n, eval funcs n e s = (c, s').
Proof. intros H. destruct (beval_complete_strong _ _ _ _ H) as [n Hn]. exists n. apply Hn. lia. Qed.
Theorem bexec_complete st s c s' : bexec funcs st s c s' -> exists n, exec funcs n st s = (c, s').
Proof. intros H. destruct (bexec_complete_strong _ _ _ _ H) as [n Hn]. exists n. apply Hn. lia. Qed.
Theorem bexecs_complete ss s c s' : bexecs funcs ss s c s' -> exists n, exec_list (exec funcs n) ss s = (c, s').
Proof. intros H. destruct (bexecs_complete_strong _ _ _ _ H) as [n Hn]. exists n. apply Hn. lia. Qed.

(* no judgement says "out of fuel" *)
Theorem bigstep_never_out_of_fuel :
  (forall e s c s', beval funcs e s c s' -> c <> Fail ENoFuel) /\
  (forall st s c s', bexec funcs st s c s' -> c <> Fail ENoFuel) /\
  (forall ss s c s', bexecs funcs ss s c s' -> c <> Fail ENoFuel).
Proof.
  pose proof (bigstep_never_out_of_fuel_l funcs) as (He & _ & _ & _ & _ & Hx & Hxs & _).
  repeat split; assumption.
Qed.

(* the relation is a partial function: at most one outcome and final state *)
Theorem beval_deterministic e s c1 s1 c2 s2 :
  beval funcs e s c1 s1 -> beval funcs e s c2 s2 -> c1 = c2 /\ s1 = s2.
Proof.
  intros H1 H2. eapply (from_fuel_unique (fun m => eval funcs m e)).
  - exact (proj1 (bexec_complete_l funcs) e s c1 s1 H1).
  - exact (proj1 (bexec_complete_l funcs) e s c2 s2 H2).
Qed.
Theorem bexec_deterministic st s c1 s1 c2 s2 :
  bexec funcs st s c1 s1 -> bexec funcs st s c2 s2 -> c1 = c2 /\ s1 = s2.
Proof.
  intros H1 H2. eapply (from_fuel_unique (fun m => exec funcs m st)).
  - exact (bexec_complete_strong _ _ _ _ H1).
  - exact (bexec_complete_strong _ _ _ _ H2).
Qed.
Theorem bexecs_deterministic ss s c1 s1 c2 s2 :
  bexecs funcs ss s c1 s1 -> bexecs funcs ss s c2 s2 -> c1 = c2 /\ s1 = s2.
Proof.
  intros H1 H2. eapply (from_fuel_unique (fun m => exec_list (exec funcs m) ss)).
  - exact (bexecs_complete_strong _ _ _ _ H1).
  - exact (bexecs_complete_strong _ _ _ _ H2).
Qed.

(* the two artefacts define the same semantics *)
Theorem eval_sound_complete_l :
  (forall e s c s', beval funcs e s c s' <-> exists n, eval funcs n e s = (c, s') /\ c <> Fail ENoFuel) /\
  (forall st s c s', bexec funcs st s c s' <-> exists n, exec funcs n st s = (c, s') /\ c <> Fail ENoFuel).
Proof.
  split; intros x s c s'; split.
  - intros H. destruct (beval_complete _ _ _ _ H) as [n Hn]. exists n. split; [exact Hn|].
    exact (proj1 bigstep_never_out_of_fuel _ _ _ _ H).
  - intros (n & Hn & N). exact (proj1 (exec_sound n) _ _ _ _ Hn N).
  - intros H. destruct (bexec_complete _ _ _ _ H) as [n Hn]. exists n. split; [exact Hn|].
    exact (proj1 (proj2 bigstep_never_out_of_fuel) _ _ _ _ H).
  - intros (n & Hn & N). exact (proj2 (exec_sound n) _ _ _ _ Hn N).
Qed.
End Theorems.

(* ------------------------------------------------------------------ whole programs *)
Definition outcome_of (c : ctl unit) : outcome := match c with Fail e => Failed e | _ => Finished end.

(* what a program means under the rules: the globals are initialised (a value out of range ends the program
   before anything runs), then the statements of main are executed in the initial state; the transcript is the
   output of the final state, oldest first *)
Definition bmeans (p : program) (out : list oitem) (oc : outcome) : Prop :=
  match init_state p with
  | None => out = [] /\ oc = Failed ERange
  | Some s0 => exists c s, bexecs (pfuncs p) (pmain p) s0 c s /\ out = rev (sout s) /\ oc = outcome_of c
  end.

Theorem run_sound_l n p out oc : run n p = (out, oc) -> oc <> Failed ENoFuel -> bmeans p out oc.
Proof.
  unfold run, bmeans. destruct (init_state p) as [s0|].
  - destruct (exec_list (exec (pfuncs p) n) (pmain p) s0) as [c s] eqn:E. intros [= <- <-] N.
    exists c, s. repeat split. eapply exec_list_sound; [exact E|].
    intros ->. apply N. reflexivity.
  - intros [= <- <-] _. split; reflexivity.
Qed.

Theorem run_complete_strong_l p out oc : bmeans p out oc -> exists n, forall m, (n <= m)%nat -> run m p = (out, oc).
Proof.
  unfold run, bmeans. destruct (init_state p) as [s0|].
  - intros (c & s & H & -> & ->). destruct (bexecs_complete_strong _ _ _ _ _ H) as [n Hn].
    exists n. intros m L. rewrite (Hn m L). reflexivity.
  - intros [-> ->]. exists O. reflexivity.
Qed.

Theorem run_complete_l p out oc : bmeans p out oc -> exists n, run n p = (out, oc).
Proof. intros H. destruct (run_complete_strong_l _ _ _ H) as [n Hn]. exists n. apply Hn. lia. Qed.

Theorem bmeans_deterministic p o1 c1 o2 c2 : bmeans p o1 c1 -> bmeans p o2 c2 -> o1 = o2 /\ c1 = c2.
Proof.
  intros H1 H2. destruct (run_complete_strong_l _ _ _ H1) as [n1 E1]. destruct (run_complete_strong_l _ _ _ H2) as [n2 E2].
  specialize (E1 (n1 + n2)%nat ltac:(lia)). specialize (E2 (n1 + n2)%nat ltac:(lia)).
  rewrite E1 in E2. injection E2 as <- <-. split; reflexivity.
Qed.

Theorem bmeans_never_out_of_fuel p out oc : bmeans p out oc -> oc <> Failed ENoFuel.
Proof.
  unfold bmeans. destruct (init_state p) as [s0|].
  - intros (c & s & H & _ & ->) E.
    apply (proj2 (proj2 (bigstep_never_out_of_fuel (pfuncs p))) _ _ _ _ H).
    destruct c; try discriminate. injection E as ->. reflexivity.
  - intros [_ ->]. discriminate.
Qed.

(* the program-level equivalence in one statement *)
Theorem run_sound_complete_l p out oc :
  bmeans p out oc <-> exists n, run n p = (out, oc) /\ oc <> Failed ENoFuel.
Proof.
  split.
  - intros H. destruct (run_complete_l _ _ _ H) as [n Hn]. exists n. split; [exact Hn|].
    exact (bmeans_never_out_of_fuel _ _ _ H).
  - intros (n & Hn & N). exact (run_sound_l _ _ _ _ Hn N).
Qed.

Theorem bigstep_deterministic_l :
  (forall funcs e s c1 s1 c2 s2, beval funcs e s c1 s1 -> beval funcs e s c2 s2 -> c1 = c2 /\ s1 = s2) /\
  (forall funcs st s c1 s1 c2 s2, bexec funcs st s c1 s1 -> bexec funcs st s c2 s2 -> c1 = c2 /\ s1 = s2) /\
  (forall p o1 c1 o2 c2, bmeans p o1 c1 -> bmeans p o2 c2 -> o1 = o2 /\ c1 = c2).
Proof. repeat split; [eapply beval_deterministic|eapply beval_deterministic|eapply bexec_deterministic|eapply bexec_deterministic
                     |eapply bmeans_deterministic|eapply bmeans_deterministic]; eassumption. Qed.
