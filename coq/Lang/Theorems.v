(* Lang - instances of the generic induction and the arithmetic laws of the reference semantics. *)
From Coq Require Import List ZArith Bool Arith Lia.
From Cb Require Import Lang.Syntax Lang.Sem Lang.Respect.
Import ListNotations.
Local Open Scope Z_scope.

(* ------------------------------------------------------------------ output only grows *)
Definition out_ext (s s' : state) : Prop := exists l, sout s' = l ++ sout s.
Lemma out_ext_refl s : out_ext s s. Proof. exists []. reflexivity. Qed.
Lemma out_ext_trans a b c : out_ext a b -> out_ext b c -> out_ext a c.
Proof. intros [l1 H1] [l2 H2]. exists (l2 ++ l1). rewrite H2, H1, app_assoc. reflexivity. Qed.

Lemma put_entry_sout x e s : sout (put_entry x e s) = sout s.
Proof.
  unfold put_entry. destruct (sframes s) as [|f fr]; [reflexivity|].
  destruct (scopes_get x (fscopes f)); [reflexivity|].
  destruct (assoc x (statics_of (ffn f) s)); reflexivity.
Qed.

Lemma write_out x i v : respects out_ext (m_write x i v).
Proof.
  intros s. unfold m_write. destruct (get_entry x s) as [e|]; [|apply out_ext_refl].
  destruct (econst e); [apply out_ext_refl|].
  destruct (flat_index _ _ _); [|apply out_ext_refl].
  destruct (coerce _ _); try apply out_ext_refl. cbn [snd]. exists []. rewrite put_entry_sout. reflexivity.
Qed.
Lemma declare_out sta cst t x d vs : respects out_ext (m_declare sta cst t x d vs).
Proof.
  intros s. unfold m_declare. destruct (coerce_all t vs); try apply out_ext_refl.
  destruct (sframes s) as [|f fr]; [exists []; reflexivity|].
  destruct sta; [exists []; reflexivity|]. destruct (fscopes f); [apply out_ext_refl|exists []; reflexivity].
Qed.

Lemma output_monotone_l funcs n :
  (forall e, respects out_ext (eval funcs n e)) /\ (forall st, respects out_ext (exec funcs n st)).
Proof.
  apply eval_exec_respect.
  - exact out_ext_refl.
  - exact out_ext_trans.
  - exact write_out.
  - exact declare_out.
  - intros o s. exists [o]. reflexivity.
  - apply block_of_prims; [exact out_ext_trans| |].
    + intros s. unfold m_push_scope. destruct (sframes s); [apply out_ext_refl|exists []; reflexivity].
    + intros s. unfold pop_scope_st. destruct (sframes s); exists []; reflexivity.
  - apply frame_of_prims; [exact out_ext_trans| |].
    + intros f s. exists []. reflexivity.
    + intros s. exists []. reflexivity.
Qed.

(* ------------------------------------------------------------------ an error ends the run *)
Lemma exec_list_app ex ss1 ss2 s :
  exec_list ex (ss1 ++ ss2) s =
  match exec_list ex ss1 s with
  | (Val _, s') => exec_list ex ss2 s'
  | (Brk, s') => (Brk, s') | (Cnt, s') => (Cnt, s') | (Ret v, s') => (Ret v, s') | (Fail e, s') => (Fail e, s')
  end.
Proof.
  revert s; induction ss1 as [|x r IH]; intros s; cbn [app exec_list].
  - reflexivity.
  - unfold bind. destruct (ex x s) as [c s1]. destruct c; try reflexivity. apply IH.
Qed.

Lemma error_cuts_run ex ss1 ss2 s e s' :
  exec_list ex ss1 s = (Fail e, s') -> exec_list ex (ss1 ++ ss2) s = (Fail e, s').
Proof. intros H. rewrite exec_list_app, H. reflexivity. Qed.

(* ------------------------------------------------------------------ arithmetic laws *)
Lemma div_truncates a b q : arith Div a b = Val q -> b <> 0 /\ q = Z.quot a b /\ a = b * q + Z.rem a b.
Proof.
  unfold arith. destruct (b =? 0) eqn:E; [discriminate|]. apply Z.eqb_neq in E.
  unfold chk. destruct (in64 _); [|discriminate]. intros [= <-]. repeat split; auto. apply Z.quot_rem'.
Qed.
Lemma rem_sign_of_dividend a b r : arith Mod a b = Val r ->
  b <> 0 /\ r = Z.rem a b /\ Z.abs r < Z.abs b /\ (r = 0 \/ Z.sgn r = Z.sgn a).
Proof.
  unfold arith. destruct (b =? 0) eqn:E; [discriminate|]. apply Z.eqb_neq in E.
  destruct (_ && _); [discriminate|]. intros [= <-]. repeat split; auto.
  - apply Z.rem_bound_abs. exact E.
  - destruct (Z.eq_dec (Z.rem a b) 0) as [H|H]; [left; exact H|right]. apply Z.rem_sign_nz; assumption.
Qed.
Lemma shr_arithmetic a n r : arith Shr a n = Val r -> 0 <= n < 64 /\ r = a / 2 ^ n.
Proof.
  unfold arith. destruct ((0 <=? n) && (n <? 64)) eqn:E; [|discriminate]. intros [= <-].
  apply andb_true_iff in E as [E1 E2]. apply Z.leb_le in E1. apply Z.ltb_lt in E2.
  split; [lia|]. apply Z.shiftr_div_pow2. exact E1.
Qed.
Lemma div0_is_error a : arith Div a 0 = Fail EDiv0 /\ arith Mod a 0 = Fail EDiv0.
Proof. split; reflexivity. Qed.
