(* Lang - fuel is only a termination device: an evaluation that ends without running out of fuel
   gives exactly the same control outcome and state with any larger fuel. Hence "the" meaning of a
   program is independent of the fuel chosen, as long as it suffices. *)
From Coq Require Import List ZArith Bool Arith Lia.
From Cb Require Import Lang.Syntax Lang.Sem Lang.Print.
Import ListNotations.
Local Open Scope Z_scope.

Definition nofuel {A} (c : ctl A) : Prop := c = Fail ENoFuel.

(* m2 agrees with m1 wherever m1 did not run out of fuel *)
Definition le_m {A} (m1 m2 : M A) : Prop :=
  forall s c s', m1 s = (c, s') -> ~ nofuel c -> m2 s = (c, s').

Lemma le_refl {A} (m : M A) : le_m m m.
Proof. intros s c s' H _. exact H. Qed.

Lemma le_bind {A B} (m1 m2 : M A) (f1 f2 : A -> M B) :
  le_m m1 m2 -> (forall a, le_m (f1 a) (f2 a)) -> le_m (bind m1 f1) (bind m2 f2).
Proof.
  intros Hm Hf s c s' H Hc. unfold bind in *.
  destruct (m1 s) as [c1 s1] eqn:E1.
  assert (N1 : ~ nofuel c1).
  { intros N. unfold nofuel in N. subst c1. injection H as <- <-. apply Hc. reflexivity. }
  rewrite (Hm s c1 s1 E1 N1).
  destruct c1; try exact H. apply (Hf a s1 c s' H Hc).
Qed.

Lemma le_finally {A} (m1 m2 : M A) fin : le_m m1 m2 -> le_m (finally m1 fin) (finally m2 fin).
Proof.
  intros Hm s c s' H Hc. unfold finally in *. destruct (m1 s) as [c1 s1] eqn:E1.
  injection H as <- <-. rewrite (Hm s c1 s1 E1 Hc). reflexivity.
Qed.

Lemma le_map_ctl {A B} (g : ctl A -> ctl B) (m1 m2 : M A) :
  (forall c, nofuel c -> nofuel (g c)) -> le_m m1 m2 -> le_m (map_ctl g m1) (map_ctl g m2).
Proof.
  intros Hg Hm s c s' H Hc. unfold map_ctl in *. destruct (m1 s) as [c1 s1] eqn:E1.
  injection H as <- <-. assert (N1 : ~ nofuel c1) by (intros N; apply Hc, Hg, N).
  rewrite (Hm s c1 s1 E1 N1). reflexivity.
Qed.

Lemma call_result_nofuel rt c : nofuel c -> nofuel (call_result rt c).
Proof. unfold nofuel. intros ->. reflexivity. Qed.

Lemma le_loop_step b1 b2 n1 n2 : le_m b1 b2 -> le_m n1 n2 -> le_m (loop_step b1 n1) (loop_step b2 n2).
Proof.
  intros Hb Hn s c s' H Hc. unfold loop_step in *. destruct (b1 s) as [c1 s1] eqn:E1.
  assert (N1 : ~ nofuel c1).
  { intros N. unfold nofuel in N. subst c1. injection H as <- <-. apply Hc. reflexivity. }
  rewrite (Hb s c1 s1 E1 N1). destruct c1; try exact H; apply (Hn s1 c s' H Hc).
Qed.

Lemma le_if {A} (b : bool) (a1 a2 b1 b2 : M A) : le_m a1 a2 -> le_m b1 b2 ->
  le_m (if b then a1 else b1) (if b then a2 else b2).
Proof. destruct b; auto. Qed.

Section Helpers.
Variables (ev1 ev2 : expr -> M Z) (ex1 ex2 : stmt -> M unit).
Hypothesis Hev : forall e, le_m (ev1 e) (ev2 e).
Hypothesis Hex : forall s, le_m (ex1 s) (ex2 s).

Lemma le_eval_list es : le_m (eval_list ev1 es) (eval_list ev2 es).
Proof. induction es as [|e r IH]; cbn [eval_list]; [apply le_refl|].
  apply le_bind; [apply Hev|]. intros v. apply le_bind; [exact IH|]. intros. apply le_refl. Qed.
Lemma le_eval_args ps es : le_m (eval_args ev1 ps es) (eval_args ev2 ps es).
Proof. revert ps; induction es as [|e r IH]; intros ps; cbn [eval_args]; [apply le_refl|].
  apply le_bind; [apply Hev|]. intros v. destruct ps as [|p pr].
  - apply le_bind; [apply IH|]. intros. apply le_refl.
  - apply le_bind; [apply le_refl|]. intros. apply le_bind; [apply IH|]. intros. apply le_refl. Qed.
Lemma le_exec_list ss : le_m (exec_list ex1 ss) (exec_list ex2 ss).
Proof. induction ss as [|x r IH]; cbn [exec_list]; [apply le_refl|].
  apply le_bind; [apply Hex|]. intros _. exact IH. Qed.
Lemma le_in_block ss : le_m (in_block ex1 ss) (in_block ex2 ss).
Proof. unfold in_block. apply le_bind; [apply le_refl|]. intros _. apply le_finally. apply le_exec_list. Qed.
Lemma le_print_args first es : le_m (print_args ev1 first es) (print_args ev2 first es).
Proof. revert first; induction es as [|e r IH]; intros first; cbn [print_args]; [apply le_refl|].
  apply le_bind; [apply le_refl|]. intros _. apply le_bind; [apply Hev|]. intros v.
  apply le_bind; [apply le_refl|]. intros _. apply IH. Qed.
Lemma le_bind_params ps vs : le_m (bind_params ev1 ps vs) (bind_params ev2 ps vs).
Proof. revert vs; induction ps as [|p pr IH]; intros vs; cbn [bind_params]; [apply le_refl|].
  destruct vs as [|v vr].
  - destruct (pdef p); [|apply le_refl]. apply le_bind; [apply Hev|]. intros v.
    apply le_bind; [apply le_refl|]. intros _. apply IH.
  - apply le_bind; [apply le_refl|]. intros _. apply IH. Qed.
Lemma le_lval_target lv : le_m (lval_target ev1 lv) (lval_target ev2 lv).
Proof. destruct lv; cbn [lval_target]; [apply le_refl|].
  apply le_bind; [apply le_eval_list|]. intros. apply le_refl. Qed.
End Helpers.

Section Mono.
Variable funcs : list func.

Theorem fuel_step : forall n,
  (forall e, le_m (eval funcs n e) (eval funcs (S n) e)) /\
  (forall s, le_m (exec funcs n s) (exec funcs (S n) s)).
Proof.
  induction n as [|k [IHe IHx]].
  - split; intros x s c s' H Hc; cbn in H; injection H as <- <-; exfalso; apply Hc; reflexivity.
  - assert (Hel := le_eval_list _ _ IHe).
    assert (Hea := le_eval_args _ _ IHe).
    assert (Hxl := le_exec_list _ _ IHx).
    assert (Hib := le_in_block _ _ IHx).
    assert (Hlv := le_lval_target _ _ IHe).
    split.
    + intros e. destruct e.
      * apply le_refl.
      * apply le_refl.
      * change (le_m (v <- eval funcs k e ;; lift (unarith o v)) (v <- eval funcs (S k) e ;; lift (unarith o v))).
        apply le_bind; [apply IHe|]. intros. apply le_refl.
      * change (le_m (x <- eval funcs k e1 ;; y <- eval funcs k e2 ;; lift (arith o x y))
                     (x <- eval funcs (S k) e1 ;; y <- eval funcs (S k) e2 ;; lift (arith o x y))).
        apply le_bind; [apply IHe|]. intros. apply le_bind; [apply IHe|]. intros. apply le_refl.
      * change (le_m (x <- eval funcs k e1 ;; if x =? 0 then ret 0 else y <- eval funcs k e2 ;; ret (b2z (negb (y =? 0))))
                     (x <- eval funcs (S k) e1 ;; if x =? 0 then ret 0 else y <- eval funcs (S k) e2 ;; ret (b2z (negb (y =? 0))))).
        apply le_bind; [apply IHe|]. intros x. apply le_if; [apply le_refl|].
        apply le_bind; [apply IHe|]. intros. apply le_refl.
      * change (le_m (x <- eval funcs k e1 ;; if x =? 0 then y <- eval funcs k e2 ;; ret (b2z (negb (y =? 0))) else ret 1)
                     (x <- eval funcs (S k) e1 ;; if x =? 0 then y <- eval funcs (S k) e2 ;; ret (b2z (negb (y =? 0))) else ret 1)).
        apply le_bind; [apply IHe|]. intros x. apply le_if; [|apply le_refl].
        apply le_bind; [apply IHe|]. intros. apply le_refl.
      * change (le_m (x <- eval funcs k e1 ;; if x =? 0 then eval funcs k e3 else eval funcs k e2)
                     (x <- eval funcs (S k) e1 ;; if x =? 0 then eval funcs (S k) e3 else eval funcs (S k) e2)).
        apply le_bind; [apply IHe|]. intros x. apply le_if; apply IHe.
      * cbn [eval]. destruct (find_func f funcs) as [fd|]; [|apply le_refl].
        match goal with |- le_m (if ?c then _ else _) _ => destruct c end; [apply le_refl|].
        apply le_bind; [apply Hea|]. intros vs. apply le_bind; [apply le_refl|]. intros _.
        apply le_finally. apply le_map_ctl; [apply call_result_nofuel|].
        apply le_bind; [apply le_bind_params; exact IHe|]. intros _. apply Hxl.
      * change (le_m (is_ <- eval_list (eval funcs k) idx ;; m_read a is_)
                     (is_ <- eval_list (eval funcs (S k)) idx ;; m_read a is_)).
        apply le_bind; [apply Hel|]. intros. apply le_refl.
    + intros s. destruct s.
      * cbn [exec]. destruct sta.
        -- apply le_bind; [apply le_refl|]. intros known. destruct known; [apply le_refl|].
           apply le_bind; [destruct init; [apply IHe|apply le_refl]|]. intros. apply le_refl.
        -- apply le_bind; [destruct init; [apply IHe|apply le_refl]|]. intros. apply le_refl.
      * cbn [exec]. apply le_bind; [apply Hel|]. intros. apply le_refl.
      * cbn [exec]. destruct op.
        -- apply le_bind; [apply Hlv|]. intros tg. apply le_bind; [apply le_refl|]. intros.
           apply le_bind; [apply IHe|]. intros. apply le_bind; [apply le_refl|]. intros. apply le_refl.
        -- apply le_bind; [apply IHe|]. intros v. apply le_bind; [apply Hlv|]. intros. apply le_refl.
      * cbn [exec]. apply le_bind; [apply Hlv|]. intros tg. apply le_bind; [apply le_refl|]. intros.
        apply le_bind; [apply le_refl|]. intros. apply le_refl.
      * cbn [exec]. apply le_bind; [apply IHe|]. intros. apply le_refl.
      * cbn [exec]. apply le_bind; [apply IHe|]. intros x. apply le_if; apply Hib.
      * change (le_m (x <- eval funcs k c ;; if x =? 0 then ret tt else loop_step (in_block (exec funcs k) body) (exec funcs k (SWhile c body)))
                     (x <- eval funcs (S k) c ;; if x =? 0 then ret tt else loop_step (in_block (exec funcs (S k)) body) (exec funcs (S k) (SWhile c body)))).
        apply le_bind; [apply IHe|]. intros x. apply le_if; [apply le_refl|].
        apply le_loop_step; [apply Hib|apply IHx].
      * change (le_m (m_push_scope ;;; finally (exec_list (exec funcs k) init ;;; x <- eval funcs k c ;;
                        if x =? 0 then ret tt else loop_step (in_block (exec funcs k) body)
                          (exec_list (exec funcs k) upd ;;; exec funcs k (SFor [] c upd body))) pop_scope_st)
                     (m_push_scope ;;; finally (exec_list (exec funcs (S k)) init ;;; x <- eval funcs (S k) c ;;
                        if x =? 0 then ret tt else loop_step (in_block (exec funcs (S k)) body)
                          (exec_list (exec funcs (S k)) upd ;;; exec funcs (S k) (SFor [] c upd body))) pop_scope_st)).
        apply le_bind; [apply le_refl|]. intros _. apply le_finally.
        apply le_bind; [apply Hxl|]. intros _. apply le_bind; [apply IHe|]. intros x.
        apply le_if; [apply le_refl|]. apply le_loop_step; [apply Hib|].
        apply le_bind; [apply Hxl|]. intros _. apply IHx.
      * apply le_refl.
      * apply le_refl.
      * cbn [exec]. destruct e; [|apply le_refl]. apply le_bind; [apply IHe|]. intros. apply le_refl.
      * cbn [exec]. apply Hib.
      * cbn [exec]. apply le_bind; [apply le_print_args; exact IHe|]. intros _. apply le_refl.
      * apply le_refl.
      * apply le_refl.
Qed.

Corollary fuel_monotone n m : (n <= m)%nat ->
  (forall e, le_m (eval funcs n e) (eval funcs m e)) /\ (forall s, le_m (exec funcs n s) (exec funcs m s)).
Proof.
  intros H. induction H as [|m H IH].
  - split; intros; apply le_refl.
  - destruct IH as [IHe IHx]. destruct (fuel_step m) as [Se Sx]. split.
    + intros e s c s' E Hc. apply (Se e s c s'); [apply (IHe e s c s' E Hc)|exact Hc].
    + intros x s c s' E Hc. apply (Sx x s c s'); [apply (IHx x s c s' E Hc)|exact Hc].
Qed.
End Mono.

(* whole programs: once the fuel suffices, more fuel changes nothing *)
Theorem run_fuel_independent_l n m p out oc : (n <= m)%nat ->
  run n p = (out, oc) -> oc <> Failed ENoFuel -> run m p = (out, oc).
Proof.
  intros Hnm H Hoc. unfold run in *. destruct (init_state p) as [s0|]; [|exact H].
  destruct (exec_list (exec (pfuncs p) n) (pmain p) s0) as [c s] eqn:E.
  injection H as <- <-.
  assert (Nc : ~ nofuel c).
  { intros N. unfold nofuel in N. subst c. apply Hoc. reflexivity. }
  pose proof (le_exec_list _ _ (proj2 (fuel_monotone (pfuncs p) n m Hnm)) (pmain p) s0 c s E Nc) as E2.
  rewrite E2. reflexivity.
Qed.
