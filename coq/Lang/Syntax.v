(* Lang - CbCore: the sequential core of Cb named by property C01 (shared by C01 C03 C04 C08 C09).
   Deep embedding; identifiers are numbers (printed v<n> / f<n>); all integer values are [Z]. *)
From Coq Require Import List ZArith Bool.
Import ListNotations.

Inductive ity := TTiny | TShort | TInt | TLong | TChar | TBool.
Record ty := { base : ity; uns : bool }.

Inductive binop := Add | Sub | Mul | Div | Mod | BAnd | BOr | BXor | Shl | Shr
                 | Lt | Le | Gt | Ge | Eq | Ne.
Inductive unop := Neg | LNot | BNot.
Definition ident := nat.

Inductive expr :=
| ENum (z : Z)
| EVar (x : ident)
| EUn (o : unop) (e : expr)
| EBin (o : binop) (a b : expr)
| EAnd (a b : expr)
| EOr (a b : expr)
| ECond (c a b : expr)
| ECall (f : ident) (args : list expr)
| EIdx (a : ident) (idx : list expr).

(* plain structs: member j (j < 8) of the struct variable x is the cell [mkey x j]; a member read or store is
   an ordinary variable / element access on that cell (printed `v<x>.m<j>`), so structs add two statements only *)
Definition mkey (x : ident) (j : nat) : ident := 1000 + 8 * x + j.
Record fld := { fty : ty; fdims : list nat }.   (* scalar member: fdims = [] *)

Inductive lval := LVar (x : ident) | LIdx (a : ident) (idx : list expr).

Inductive stmt :=
| SDecl (cst sta : bool) (t : ty) (x : ident) (init : option expr)
| SArr (cst : bool) (t : ty) (x : ident) (dims : list nat) (init : list expr)   (* [] = zero-initialised *)
| SAssign (lv : lval) (op : option binop) (e : expr)
| SIncDec (pre inc : bool) (lv : lval)
| SExpr (e : expr)
| SIf (c : expr) (s1 s2 : list stmt)
| SWhile (c : expr) (body : list stmt)
| SFor (init : list stmt) (c : expr) (upd : list stmt) (body : list stmt)
| SBreak
| SContinue
| SReturn (e : option expr)
| SBlock (ss : list stmt)
| SPrint (nl : bool) (args : list expr)
| SStruct (sn : nat) (x : ident) (flds : list fld)   (* `S<sn> v<x>;` - every member zero-initialised *)
| SCopy (x y : ident) (flds : list fld).             (* `v<x> = v<y>;` - whole-struct copy, member by member *)

Record param := { pty : ty; pname : ident; pdef : option expr }.
Record func := { fname : ident; fret : option ty; fparams : list param; fbody : list stmt }.
Record gdecl := { gcst : bool; gty : ty; gname : ident; gdims : list nat; ginit : list Z }.  (* scalar: gdims = [] *)
Record program := { pglobals : list gdecl; pfuncs : list func; pmain : list stmt }.
