(* Extraction of the shared CbCore reference interpreter and printer. *)
From Coq Require Import Extraction ExtrOcamlBasic ExtrOcamlString ZArith.
From Cb Require Import Lang.Syntax Lang.Sem Lang.Print.
Extraction Language OCaml.
Extraction "Lang/lang_model.ml" print_program run render Z.add Z.mul Z.opp Z.of_nat Z.of_N N.of_nat.
