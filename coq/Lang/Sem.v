(* Lang - Ref: the reference semantics of CbCore as a fuelled big-step evaluator in a
   state/control monad. It follows the PROPERTY statements (C01 C03 C04 C05 C08 C09), not the
   implementation: exact 64-bit intermediates (anything outside int64 is [EUndef] and such programs
   are not well-formed), truncating division, sign-of-dividend remainder, arithmetic shift,
   short-circuit && || ?:, left-to-right single evaluation, range-checked stores on every path,
   per-dimension bounds checks with row-major addressing, lexical block scopes, private frames,
   per-function statics, immutable consts. Definitions only. *)
From Coq Require Import List ZArith Bool Arith Lia.
From Cb Require Import Lang.Syntax.
Import ListNotations.
Local Open Scope Z_scope.

Inductive err := EDiv0 | ERange | EBounds | EConst | EArity | EUnbound | EUndef | ENoFuel.
Inductive ctl (A : Type) :=
| Val (a : A) | Brk | Cnt | Ret (v : option Z) | Fail (e : err).
Arguments Val {A} a. Arguments Brk {A}. Arguments Cnt {A}. Arguments Ret {A} v. Arguments Fail {A} e.

Inductive oitem := OInt (z : Z) | OSp | ONl.

Record entry := { ety : ty; econst : bool; edims : list nat; evals : list Z }.
Definition scope := list (ident * entry).
Record frame := { ffn : ident; fscopes : list scope }.
Record state := { sglob : scope; sframes : list frame; sstat : list (ident * scope); sout : list oitem }.
(* [sout] is kept newest-first *)

Definition M (A : Type) := state -> ctl A * state.
Definition ret {A} (a : A) : M A := fun s => (Val a, s).
Definition fail {A} (e : err) : M A := fun s => (Fail e, s).
Definition bind {A B} (m : M A) (f : A -> M B) : M B :=
  fun s => match m s with
           | (Val a, s') => f a s'
           | (Brk, s') => (Brk, s')
           | (Cnt, s') => (Cnt, s')
           | (Ret v, s') => (Ret v, s')
           | (Fail e, s') => (Fail e, s')
           end.
Notation "x <- m ;; f" := (bind m (fun x => f)) (at level 61, m at next level, right associativity).
Notation "m ;;; f" := (bind m (fun _ => f)) (at level 61, right associativity).
Definition lift {A} (c : ctl A) : M A := fun s => (c, s).

(* ---------- integer types ---------- *)
Definition int64_min := -9223372036854775808.
Definition int64_max := 9223372036854775807.
Definition in64 (z : Z) : bool := (int64_min <=? z) && (z <=? int64_max).

Definition range (t : ty) : option (Z * Z) :=
  match base t, uns t with
  | TTiny, false => Some (-128, 127)        | TTiny, true => Some (0, 255)
  | TShort, false => Some (-32768, 32767)   | TShort, true => Some (0, 65535)
  | TInt, false => Some (-2147483648, 2147483647) | TInt, true => Some (0, 4294967295)
  | TChar, false => Some (-128, 127)        | TChar, true => Some (0, 255)
  | TLong, false => Some (int64_min, int64_max) | TLong, true => Some (0, int64_max)
  | TBool, _ => None
  end.
Definition in_range (t : ty) (v : Z) : bool :=
  match range t with Some (lo, hi) => (lo <=? v) && (v <=? hi) | None => true end.
(* the value a store of [v] into a [t] location keeps: clamp a negative to 0 for unsigned targets,
   reject everything else that is out of range *)
Definition coerce (t : ty) (v : Z) : ctl Z :=
  if uns t && (v <? 0) then Val 0
  else if in_range t v then Val v else Fail ERange.

(* ---------- arithmetic: exact, 64-bit checked ---------- *)
Definition chk (z : Z) : ctl Z := if in64 z then Val z else Fail EUndef.
Definition b2z (b : bool) : Z := if b then 1 else 0.
Definition arith (o : binop) (a b : Z) : ctl Z :=
  match o with
  | Add => chk (a + b) | Sub => chk (a - b) | Mul => chk (a * b)
  | Div => if b =? 0 then Fail EDiv0 else chk (Z.quot a b)
  | Mod => if b =? 0 then Fail EDiv0 else if (a =? int64_min) && (b =? -1) then Fail EUndef else Val (Z.rem a b)
  | BAnd => Val (Z.land a b) | BOr => Val (Z.lor a b) | BXor => Val (Z.lxor a b)
  | Shl => if (0 <=? b) && (b <? 64) then chk (a * 2 ^ b) else Fail EUndef
  | Shr => if (0 <=? b) && (b <? 64) then Val (Z.shiftr a b) else Fail EUndef
  | Lt => Val (b2z (a <? b)) | Le => Val (b2z (a <=? b))
  | Gt => Val (b2z (b <? a)) | Ge => Val (b2z (b <=? a))
  | Eq => Val (b2z (a =? b)) | Ne => Val (b2z (negb (a =? b)))
  end.
Definition unarith (o : unop) (a : Z) : ctl Z :=
  match o with Neg => chk (- a) | LNot => Val (b2z (a =? 0)) | BNot => Val (Z.lnot a) end.

(* ---------- arrays: per-dimension check, row-major ---------- *)
Fixpoint flat_index (dims : list nat) (idx : list Z) (acc : Z) : option Z :=
  match dims, idx with
  | [], [] => Some acc
  | d :: ds, i :: is_ => if (0 <=? i) && (i <? Z.of_nat d) then flat_index ds is_ (acc * Z.of_nat d + i) else None
  | _, _ => None
  end.
Definition size_of (dims : list nat) : nat := fold_left Nat.mul dims 1%nat.

Fixpoint set_nth (n : nat) (v : Z) (l : list Z) : list Z :=
  match n, l with
  | _, [] => []
  | O, _ :: r => v :: r
  | S k, x :: r => x :: set_nth k v r
  end.

(* ---------- variable lookup: innermost block outwards, then the function's statics, then globals ---------- *)
Fixpoint assoc {A} (x : ident) (l : list (ident * A)) : option A :=
  match l with [] => None | (y, a) :: r => if Nat.eqb x y then Some a else assoc x r end.
Fixpoint assoc_set {A} (x : ident) (a : A) (l : list (ident * A)) : list (ident * A) :=
  match l with
  | [] => []
  | (y, b) :: r => if Nat.eqb x y then (y, a) :: r else (y, b) :: assoc_set x a r
  end.
Fixpoint scopes_get (x : ident) (ss : list scope) : option entry :=
  match ss with [] => None | s :: r => match assoc x s with Some e => Some e | None => scopes_get x r end end.
Fixpoint scopes_set (x : ident) (e : entry) (ss : list scope) : list scope :=
  match ss with
  | [] => []
  | s :: r => match assoc x s with Some _ => assoc_set x e s :: r | None => s :: scopes_set x e r end
  end.

Definition cur_fn (s : state) : ident := match sframes s with f :: _ => ffn f | [] => 0%nat end.
Definition statics_of (f : ident) (s : state) : scope := match assoc f (sstat s) with Some sc => sc | None => [] end.

Definition get_entry (x : ident) (s : state) : option entry :=
  match sframes s with
  | f :: _ =>
      match scopes_get x (fscopes f) with
      | Some e => Some e
      | None => match assoc x (statics_of (ffn f) s) with
                | Some e => Some e
                | None => assoc x (sglob s)
                end
      end
  | [] => assoc x (sglob s)
  end.

Definition set_stat (f : ident) (sc : scope) (l : list (ident * scope)) : list (ident * scope) :=
  match assoc f l with Some _ => assoc_set f sc l | None => (f, sc) :: l end.

Definition put_entry (x : ident) (e : entry) (s : state) : state :=
  match sframes s with
  | f :: fr =>
      match scopes_get x (fscopes f) with
      | Some _ => {| sglob := sglob s; sframes := {| ffn := ffn f; fscopes := scopes_set x e (fscopes f) |} :: fr;
                     sstat := sstat s; sout := sout s |}
      | None => match assoc x (statics_of (ffn f) s) with
                | Some _ => {| sglob := sglob s; sframes := sframes s;
                               sstat := set_stat (ffn f) (assoc_set x e (statics_of (ffn f) s)) (sstat s); sout := sout s |}
                | None => {| sglob := assoc_set x e (sglob s); sframes := sframes s; sstat := sstat s; sout := sout s |}
                end
      end
  | [] => {| sglob := assoc_set x e (sglob s); sframes := sframes s; sstat := sstat s; sout := sout s |}
  end.

(* ---------- the primitive operations on the state (the ONLY functions that build a [state]) ---------- *)
Definition m_read (x : ident) (idx : list Z) : M Z := fun s =>
  match get_entry x s with
  | None => (Fail EUnbound, s)
  | Some e => match flat_index (edims e) idx 0 with
              | None => (Fail EBounds, s)
              | Some k => (Val (nth (Z.to_nat k) (evals e) 0), s)
              end
  end.

(* every store goes through here: const check, bounds check, range check; a rejected store
   changes nothing *)
Definition m_write (x : ident) (idx : list Z) (v : Z) : M unit := fun s =>
  match get_entry x s with
  | None => (Fail EUnbound, s)
  | Some e =>
      if econst e then (Fail EConst, s) else
      match flat_index (edims e) idx 0 with
      | None => (Fail EBounds, s)
      | Some k => match coerce (ety e) v with
                  | Val v' => (Val tt, put_entry x {| ety := ety e; econst := false; edims := edims e;
                                                     evals := set_nth (Z.to_nat k) v' (evals e) |} s)
                  | Fail er => (Fail er, s)
                  | _ => (Fail EUndef, s)
                  end
      end
  end.

Fixpoint coerce_all (t : ty) (vs : list Z) : ctl (list Z) :=
  match vs with
  | [] => Val []
  | v :: r => match coerce t v with
              | Val v' => match coerce_all t r with Val r' => Val (v' :: r') | Fail e => Fail e | _ => Fail EUndef end
              | Fail e => Fail e
              | _ => Fail EUndef
              end
  end.

Fixpoint pad (n : nat) (l : list Z) : list Z :=
  match n with O => [] | S k => match l with [] => 0 :: pad k [] | x :: r => x :: pad k r end end.

(* declaration of a scalar (dims = [], vals = [v]) or an array in the innermost block; the
   initial values are range-checked like any other store *)
Definition m_declare (sta cst : bool) (t : ty) (x : ident) (dims : list nat) (vals : list Z) : M unit := fun s =>
  match coerce_all t vals with
  | Val vs =>
      let e := {| ety := t; econst := cst; edims := dims; evals := pad (size_of dims) vs |} in
      match sframes s with
      | f :: fr =>
          if sta then (Val tt, {| sglob := sglob s; sframes := sframes s;
                                  sstat := set_stat (ffn f) ((x, e) :: statics_of (ffn f) s) (sstat s); sout := sout s |})
          else match fscopes f with
               | sc :: scs => (Val tt, {| sglob := sglob s;
                                          sframes := {| ffn := ffn f; fscopes := ((x, e) :: sc) :: scs |} :: fr;
                                          sstat := sstat s; sout := sout s |})
               | [] => (Fail EUnbound, s)
               end
      | [] => (Val tt, {| sglob := (x, e) :: sglob s; sframes := []; sstat := sstat s; sout := sout s |})
      end
  | Fail er => (Fail er, s)
  | _ => (Fail EUndef, s)
  end.

Definition m_static_known (x : ident) : M bool := fun s =>
  (Val (match assoc x (statics_of (cur_fn s) s) with Some _ => true | None => false end), s).

Definition m_push_scope : M unit := fun s =>
  match sframes s with
  | f :: fr => (Val tt, {| sglob := sglob s; sframes := {| ffn := ffn f; fscopes := [] :: fscopes f |} :: fr;
                           sstat := sstat s; sout := sout s |})
  | [] => (Fail EUnbound, s)
  end.
Definition pop_scope_st (s : state) : state :=
  match sframes s with
  | f :: fr => {| sglob := sglob s; sframes := {| ffn := ffn f; fscopes := tl (fscopes f) |} :: fr;
                  sstat := sstat s; sout := sout s |}
  | [] => s
  end.
Definition m_push_frame (fn : ident) : M unit := fun s =>
  (Val tt, {| sglob := sglob s; sframes := {| ffn := fn; fscopes := [[]] |} :: sframes s; sstat := sstat s; sout := sout s |}).
Definition pop_frame_st (s : state) : state :=
  {| sglob := sglob s; sframes := tl (sframes s); sstat := sstat s; sout := sout s |}.
Definition m_out (o : oitem) : M unit := fun s =>
  (Val tt, {| sglob := sglob s; sframes := sframes s; sstat := sstat s; sout := o :: sout s |}).

(* run [m] and then [fin] on the resulting state whatever the outcome (scope / frame exit) *)
Definition finally {A} (m : M A) (fin : state -> state) : M A := fun s =>
  let '(c, s') := m s in (c, fin s').

(* ---------- the evaluator ---------- *)
Section Eval.
Variable funcs : list func.

Fixpoint find_func (f : ident) (l : list func) : option func :=
  match l with [] => None | x :: r => if Nat.eqb f (fname x) then Some x else find_func f r end.

Definition required (ps : list param) : nat :=
  List.length (filter (fun p => match pdef p with None => true | Some _ => false end) ps).

Section WithRec.
Variable eval : expr -> M Z.
Variable exec : stmt -> M unit.

Fixpoint eval_list (es : list expr) : M (list Z) :=
  match es with
  | [] => ret []
  | e :: r => v <- eval e ;; vs <- eval_list r ;; ret (v :: vs)
  end.

(* call arguments: left to right, each one converted to its parameter's type (range error) before
   the next one is evaluated; surplus arguments were rejected by the arity test *)
Fixpoint eval_args (ps : list param) (es : list expr) : M (list Z) :=
  match es with
  | [] => ret []
  | e :: r =>
      v <- eval e ;;
      match ps with
      | p :: pr => v' <- lift (coerce (pty p) v) ;; vs <- eval_args pr r ;; ret (v' :: vs)
      | [] => vs <- eval_args [] r ;; ret (v :: vs)
      end
  end.

Fixpoint exec_list (ss : list stmt) : M unit :=
  match ss with
  | [] => ret tt
  | s :: r => exec s ;;; exec_list r
  end.

Definition in_block (ss : list stmt) : M unit :=
  m_push_scope ;;; finally (exec_list ss) pop_scope_st.

(* println(a, b, ...): each argument is evaluated and written before the next one is evaluated *)
Fixpoint print_args (first : bool) (es : list expr) : M unit :=
  match es with
  | [] => ret tt
  | e :: r => (if first then ret tt else m_out OSp) ;;; v <- eval e ;; m_out (OInt v) ;;; print_args false r
  end.

(* bind parameters left to right: supplied values first, then the declared defaults (evaluated
   in the new frame) *)
Fixpoint bind_params (ps : list param) (vs : list Z) : M unit :=
  match ps with
  | [] => ret tt
  | p :: pr =>
      match vs with
      | v :: vr => m_declare false false (pty p) (pname p) [] [v] ;;; bind_params pr vr
      | [] => match pdef p with
              | Some d => v <- eval d ;; m_declare false false (pty p) (pname p) [] [v] ;;; bind_params pr []
              | None => fail EArity
              end
      end
  end.

(* all index tuples of an array shape, row-major ([[]] for a scalar) *)
Fixpoint upto (n : nat) : list Z :=
  match n with O => [] | S k => upto k ++ [Z.of_nat k] end.
Fixpoint all_idx (dims : list nat) : list (list Z) :=
  match dims with
  | [] => [[]]
  | d :: ds => flat_map (fun i => map (cons i) (all_idx ds)) (upto d)
  end.
(* whole-struct copy = every cell of every member is read from the source and stored into the target *)
Fixpoint copy_cells (dst src : ident) (idxs : list (list Z)) : M unit :=
  match idxs with
  | [] => ret tt
  | i :: r => v <- m_read src i ;; m_write dst i v ;;; copy_cells dst src r
  end.
Fixpoint copy_members (x y : ident) (j : nat) (flds : list fld) : M unit :=
  match flds with
  | [] => ret tt
  | f :: r => copy_cells (mkey x j) (mkey y j) (all_idx (fdims f)) ;;; copy_members x y (S j) r
  end.
Fixpoint decl_members (x : ident) (j : nat) (flds : list fld) : M unit :=
  match flds with
  | [] => ret tt
  | f :: r => m_declare false false (fty f) (mkey x j) (fdims f) [] ;;; decl_members x (S j) r
  end.

Definition lval_target (lv : lval) : M (ident * list Z) :=
  match lv with
  | LVar x => ret (x, [])
  | LIdx a idx => is_ <- eval_list idx ;; ret (a, is_)
  end.
End WithRec.

(* one loop iteration: run [body]; normal end and `continue` go on with [next], `break` ends the loop *)
Definition loop_step (body next : M unit) : M unit := fun s =>
  match body s with
  | (Val _, s') | (Cnt, s') => next s'
  | (Brk, s') => (Val tt, s')
  | other => other
  end.

(* change the control outcome, keep the state *)
Definition map_ctl {A B} (g : ctl A -> ctl B) (m : M A) : M B := fun s =>
  let '(c, s') := m s in (g c, s').

(* how a finished body becomes the value of the call: the returned value is range-checked against
   the declared result type (C04) *)
Definition call_result (rt : option ty) (c : ctl unit) : ctl Z :=
  match c with
  | Val _ => Val 0
  | Ret (Some v) => match rt with Some t => coerce t v | None => Val v end
  | Ret None => Val 0
  | Brk | Cnt => Val 0
  | Fail er => Fail er
  end.

Fixpoint eval (n : nat) (e : expr) {struct n} : M Z :=
  match n with
  | O => fail ENoFuel
  | S k =>
    match e with
    | ENum z => ret z
    | EVar x => m_read x []
    | EUn o a => v <- eval k a ;; lift (unarith o v)
    | EBin o a b => x <- eval k a ;; y <- eval k b ;; lift (arith o x y)
    | EAnd a b => x <- eval k a ;; if x =? 0 then ret 0 else y <- eval k b ;; ret (b2z (negb (y =? 0)))
    | EOr a b => x <- eval k a ;; if x =? 0 then y <- eval k b ;; ret (b2z (negb (y =? 0))) else ret 1
    | ECond c a b => x <- eval k c ;; if x =? 0 then eval k b else eval k a
    | EIdx a idx => is_ <- eval_list (eval k) idx ;; m_read a is_
    | ECall f args =>
        match find_func f funcs with
        | None => fail EUnbound
        | Some fd =>
            if (Nat.ltb (List.length args) (required (fparams fd))) || (Nat.ltb (List.length (fparams fd)) (List.length args))
            then fail EArity
            else
              vs <- eval_args (eval k) (fparams fd) args ;;
              m_push_frame f ;;;
              finally (map_ctl (call_result (fret fd))
                         (bind_params (eval k) (fparams fd) vs ;;; exec_list (exec k) (fbody fd))) pop_frame_st
        end
    end
  end
with exec (n : nat) (st : stmt) {struct n} : M unit :=
  match n with
  | O => fail ENoFuel
  | S k =>
    match st with
    | SDecl cst sta t x init =>
        if sta then
          known <- m_static_known x ;;
          if known then ret tt
          else v <- (match init with Some e => eval k e | None => ret 0 end) ;; m_declare true cst t x [] [v]
        else v <- (match init with Some e => eval k e | None => ret 0 end) ;; m_declare false cst t x [] [v]
    | SArr cst t x dims init => vs <- eval_list (eval k) init ;; m_declare false cst t x dims vs
    | SAssign lv None e =>        (* the value first, then the target's index expressions *)
        v <- eval k e ;; tg <- lval_target (eval k) lv ;; m_write (fst tg) (snd tg) v
    | SAssign lv (Some o) e =>
        tg <- lval_target (eval k) lv ;; old <- m_read (fst tg) (snd tg) ;; v <- eval k e ;;
        r <- lift (arith o old v) ;; m_write (fst tg) (snd tg) r
    | SIncDec _ inc lv =>
        tg <- lval_target (eval k) lv ;; old <- m_read (fst tg) (snd tg) ;;
        r <- lift (arith (if inc then Add else Sub) old 1) ;; m_write (fst tg) (snd tg) r
    | SExpr e => eval k e ;;; ret tt
    | SIf c s1 s2 => x <- eval k c ;; if x =? 0 then in_block (exec k) s2 else in_block (exec k) s1
    | SWhile c body =>
        x <- eval k c ;;
        if x =? 0 then ret tt
        else loop_step (in_block (exec k) body) (exec k (SWhile c body))
    | SFor init c upd body =>
        (* `continue` still runs the update; the loop re-enters as a for without initialiser *)
        m_push_scope ;;;
        finally (exec_list (exec k) init ;;;
                 x <- eval k c ;;
                 if x =? 0 then ret tt
                 else loop_step (in_block (exec k) body)
                                (exec_list (exec k) upd ;;; exec k (SFor [] c upd body))) pop_scope_st
    | SBreak => lift Brk
    | SContinue => lift Cnt
    | SReturn None => lift (Ret None)
    | SReturn (Some e) => v <- eval k e ;; lift (Ret (Some v))
    | SBlock ss => in_block (exec k) ss
    | SPrint nl args => print_args (eval k) true args ;;; if nl then m_out ONl else ret tt
    | SStruct _ x flds => decl_members x 0 flds
    | SCopy x y flds => copy_members x y 0 flds
    end
  end.
End Eval.
