(* Lang - printer from CbCore ASTs to concrete Cb text, and the top-level [run].
   Every token is separated by a space; every compound expression is parenthesised; a bare
   identifier is never parenthesised (finding C02 #36: "( ident )" is parsed as a cast) and the
   right operand of ">" never starts with "(" (findings #37/#38: generic-call look-ahead). *)
From Coq Require Import List ZArith Bool Arith Ascii String.
From Cb Require Import Lang.Syntax Lang.Sem.
Import ListNotations.
Local Open Scope string_scope.

Fixpoint pos_digits (fuel : nat) (n : N) (acc : string) : string :=
  match fuel with
  | O => acc
  | S f => let d := N.modulo n 10 in
           let acc' := String (ascii_of_N (48 + d)) acc in
           if N.ltb n 10 then acc' else pos_digits f (N.div n 10) acc'
  end.
Definition dec_N (n : N) : string := pos_digits 25 n "".
Definition dec_nat (n : nat) : string := dec_N (N.of_nat n).
(* integer literal as an expression: negatives as (0 - k); INT64_MIN as (0 - 9223372036854775807 - 1) *)
Definition lit (z : Z) : string :=
  match z with
  | Z0 => "0"
  | Zpos p => dec_N (Npos p)
  | Zneg p => if Z.eqb z int64_min then "( 0 - 9223372036854775807 - 1 )"
              else "( 0 - " ++ dec_N (Npos p) ++ " )"
  end.
(* plain decimal, as println writes it *)
Definition dec_Z (z : Z) : string :=
  match z with Z0 => "0" | Zpos p => dec_N (Npos p) | Zneg p => "-" ++ dec_N (Npos p) end.

(* a cell [mkey x j] (Syntax) is member j of the struct variable x *)
Definition var (x : ident) : string :=
  if Nat.leb 1000 x then "v" ++ dec_nat ((x - 1000) / 8) ++ ".m" ++ dec_nat ((x - 1000) mod 8)
  else "v" ++ dec_nat x.
Definition fn (f : ident) : string := "f" ++ dec_nat f.

Definition binop_s (o : binop) : string :=
  match o with
  | Add => "+" | Sub => "-" | Mul => "*" | Div => "/" | Mod => "%" | BAnd => "&" | BOr => "|" | BXor => "^"
  | Shl => "<<" | Shr => ">>" | Lt => "<" | Le => "<=" | Gt => ">" | Ge => ">=" | Eq => "==" | Ne => "!="
  end.
Definition unop_s (o : unop) : string := match o with Neg => "-" | LNot => "!" | BNot => "~" end.

Definition ity_s (b : ity) : string :=
  match b with TTiny => "tiny" | TShort => "short" | TInt => "int" | TLong => "long" | TChar => "char" | TBool => "bool" end.
Definition ty_s (t : ty) : string := (if uns t then "unsigned " else "") ++ ity_s (base t).

Fixpoint sep_by (sep : string) (l : list string) : string :=
  match l with [] => "" | [x] => x | x :: r => x ++ sep ++ sep_by sep r end.

(* (historical) before the fix: commits 34a2124 / 7c216d9 a parenthesised expression starting with an
   array reference was tried as a cast and a negative element as left operand crashed; [lead] used to
   insert "0 + " there and is now empty *)
Definition lead (e : expr) : string := "".

Fixpoint pe (e : expr) : string :=
  match e with
  | ENum z => lit z
  | EVar x => var x
  | EUn o a => "( " ++ unop_s o ++ " " ++ pe a ++ " )"
  | EBin o a b => "( " ++ lead a ++ pe a ++ " " ++ binop_s o ++ " " ++ pe b ++ " )"
  | EAnd a b => "( " ++ lead a ++ pe a ++ " && " ++ pe b ++ " )"
  | EOr a b => "( " ++ lead a ++ pe a ++ " || " ++ pe b ++ " )"
  | ECond c a b => "( " ++ lead c ++ pe c ++ " ? " ++ pe a ++ " : " ++ pe b ++ " )"
  | ECall f args => fn f ++ "( " ++ sep_by " , " (map (fun a => lead a ++ pe a) args) ++ " )"
  | EIdx a idx => var a ++ concat "" (map (fun i => "[ " ++ pe i ++ " ]") idx)
  end.

Definition plv (lv : lval) : string :=
  match lv with
  | LVar x => var x
  | LIdx a idx => var a ++ concat "" (map (fun i => "[ " ++ pe i ++ " ]") idx)
  end.

Definition dims_s (dims : list nat) : string := concat "" (map (fun d => "[" ++ dec_nat d ++ "]") dims).

(* nested array literal for the given dimensions, row-major *)
Fixpoint chunks {A} (fuel k : nat) (l : list A) : list (list A) :=
  match fuel with
  | O => []
  | S f => match l with [] => [] | _ => firstn k l :: chunks f k (skipn k l) end
  end.
Fixpoint arr_lit (dims : list nat) (elts : list string) : string :=
  match dims with
  | [] | [_] => "[ " ++ sep_by " , " elts ++ " ]"
  | d :: ds => let per := size_of ds in
               "[ " ++ sep_by " , " (map (arr_lit ds) (chunks d per elts)) ++ " ]"
  end.

Definition nl := String (ascii_of_nat 10) "".

Fixpoint ps (fuel : nat) (s : stmt) {struct fuel} : string :=
  match fuel with
  | O => "/* depth */"
  | S k =>
    let blk := fun ss => "{ " ++ concat " " (map (ps k) ss) ++ " }" in
    (* for-headers take one clause without the trailing semicolon *)
    let clause := fun ss => sep_by " , " (map (fun x => let t := ps k x in substring 0 (length t - 2) t) ss) in
    match s with
    | SDecl cst sta t x init =>
        (if sta then "static " else "") ++ (if cst then "const " else "") ++ ty_s t ++ " " ++ var x ++
        (match init with Some e => " = " ++ pe e | None => "" end) ++ " ;"
    | SArr cst t x dims init =>
        (if cst then "const " else "") ++ ty_s t ++ dims_s dims ++ " " ++ var x ++
        (match init with [] => "" | _ => " = " ++ arr_lit dims (map pe init) end) ++ " ;"
    | SAssign lv None e => plv lv ++ " = " ++ pe e ++ " ;"
    | SAssign lv (Some o) e => plv lv ++ " " ++ binop_s o ++ "= " ++ pe e ++ " ;"
    | SIncDec pre inc lv =>
        (if pre then (if inc then "++ " else "-- ") ++ plv lv else plv lv ++ (if inc then " ++" else " --")) ++ " ;"
    | SExpr e => pe e ++ " ;"
    | SIf c s1 s2 => "if ( " ++ lead c ++ pe c ++ " ) " ++ blk s1 ++ (match s2 with [] => "" | _ => " else " ++ blk s2 end)
    | SWhile c body => "while ( " ++ lead c ++ pe c ++ " ) " ++ blk body
    | SFor init c upd body => "for ( " ++ clause init ++ " ; " ++ pe c ++ " ; " ++ clause upd ++ " ) " ++ blk body
    | SBreak => "break ;"
    | SContinue => "continue ;"
    | SReturn None => "return ;"
    | SReturn (Some e) => "return " ++ pe e ++ " ;"
    | SBlock ss => blk ss
    | SPrint n args => (if n then "println" else "print") ++ "( " ++ sep_by " , " (map (fun a => lead a ++ pe a) args) ++ " ) ;"
    | SStruct sn x _ => "S" ++ dec_nat sn ++ " " ++ var x ++ " ;"
    | SCopy x y _ => var x ++ " = " ++ var y ++ " ;"
    end
  end.

(* the struct types a program uses: every [SStruct sn x flds] names the type S<sn> with members flds; the type
   definitions are printed once each (first occurrence) in front of the functions *)
Fixpoint sdefs (fuel : nat) (s : stmt) {struct fuel} : list (nat * list fld) :=
  match fuel with
  | O => []
  | S k =>
    let many := fun ss => flat_map (sdefs k) ss in
    match s with
    | SStruct sn _ flds => [(sn, flds)]
    | SIf _ a b => many a ++ many b
    | SWhile _ b => many b
    | SFor i _ u b => many i ++ many u ++ many b
    | SBlock ss => many ss
    | _ => []
    end
  end.
Fixpoint dedup (seen : list nat) (l : list (nat * list fld)) : list (nat * list fld) :=
  match l with
  | [] => []
  | (sn, f) :: r => if existsb (Nat.eqb sn) seen then dedup seen r else (sn, f) :: dedup (sn :: seen) r
  end.
Fixpoint pflds (j : nat) (flds : list fld) : string :=
  match flds with
  | [] => ""
  | f :: r => ty_s (fty f) ++ dims_s (fdims f) ++ " m" ++ dec_nat j ++ " ; " ++ pflds (S j) r
  end.
Definition pstruct (d : nat * list fld) : string :=
  "struct S" ++ dec_nat (fst d) ++ " { " ++ pflds 0 (snd d) ++ "} ;" ++ nl.

Definition pparam (p : param) : string :=
  ty_s (pty p) ++ " " ++ var (pname p) ++ (match pdef p with Some d => " = " ++ pe d | None => "" end).

Definition pfunc (f : func) : string :=
  (match fret f with Some t => ty_s t | None => "void" end) ++ " " ++ fn (fname f) ++
  "( " ++ sep_by " , " (map pparam (fparams f)) ++ " ) {" ++ nl ++
  concat "" (map (fun s => "  " ++ ps 40 s ++ nl) (fbody f)) ++ "}" ++ nl.

Definition pglobal (g : gdecl) : string :=
  (if gcst g then "const " else "") ++ ty_s (gty g) ++ dims_s (gdims g) ++ " " ++ var (gname g) ++
  (match gdims g, ginit g with
   | [], v :: _ => " = " ++ lit v
   | [], [] => ""
   | _, [] => ""
   | ds, vs => " = " ++ arr_lit ds (map lit vs)
   end) ++ " ;" ++ nl.

Definition program_sdefs (p : program) : list (nat * list fld) :=
  dedup [] (flat_map (fun f => flat_map (sdefs 40) (fbody f)) (pfuncs p) ++ flat_map (sdefs 40) (pmain p)).

Definition print_program (p : program) : string :=
  concat "" (map pstruct (program_sdefs p)) ++
  concat "" (map pglobal (pglobals p)) ++ concat "" (map pfunc (pfuncs p)) ++
  "void main() {" ++ nl ++ concat "" (map (fun s => "  " ++ ps 40 s ++ nl) (pmain p)) ++ "}" ++ nl.

(* ---------- running a whole program ---------- *)
(* global initialisers are stored like any other value: converted to the declared type, a value
   out of range ends the program before anything runs *)
Fixpoint init_globals (gs : list gdecl) (acc : scope) : option scope :=
  match gs with
  | [] => Some acc
  | g :: r => match coerce_all (gty g) (ginit g) with
              | Val vs => init_globals r ((gname g, {| ety := gty g; econst := gcst g; edims := gdims g;
                                                        evals := pad (size_of (gdims g)) vs |}) :: acc)
              | _ => None
              end
  end.

Definition main_id : ident := 0%nat.
Definition state_with (g : scope) : state :=
  {| sglob := g; sframes := [ {| ffn := main_id; fscopes := [[]] |} ]; sstat := []; sout := [] |}.
Definition init_state (p : program) : option state :=
  match init_globals (pglobals p) [] with Some g => Some (state_with g) | None => None end.

Inductive outcome := Finished | Failed (e : err).
Definition run (fuel : nat) (p : program) : list oitem * outcome :=
  match init_state p with
  | None => ([], Failed ERange)
  | Some s0 =>
      let '(c, s) := exec_list (exec (pfuncs p) fuel) (pmain p) s0 in
      (rev (sout s), match c with Fail e => Failed e | _ => Finished end)
  end.

(* stdout as text *)
Fixpoint render (o : list oitem) : string :=
  match o with
  | [] => ""
  | OInt z :: r => dec_Z z ++ render r
  | OSp :: r => " " ++ render r
  | ONl :: r => nl ++ render r
  end.
