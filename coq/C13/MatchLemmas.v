(* C13 - lemmas about the match loop and the payload channels. *)
From Coq Require Import List ZArith Bool Ascii String Arith Lia.
From Cb Require Import C13.Model.
Import ListNotations.
Local Open Scope Z_scope.

Lemma str_eqb_eq : forall a b, str_eqb a b = true <-> a = b.
Proof. intros a b. unfold str_eqb. destruct (list_eq_dec ascii_dec a b); split; congruence. Qed.
Lemma str_eqb_refl : forall a, str_eqb a a = true.
Proof. intro a. apply str_eqb_eq. reflexivity. Qed.
Lemma str_eqb_neq : forall a b, str_eqb a b = false <-> a <> b.
Proof. intros a b. unfold str_eqb. destruct (list_eq_dec ascii_dec a b); split; congruence. Qed.

(* which arm the loop selected, whatever happened to its binding *)
Definition arm_index (a : armres) : option nat :=
  match a with ArmOk i _ | ArmUnbound i => Some i | NoArm => None end.

Lemma bind_payload_index : forall i sv b, arm_index (bind_payload i sv b) = Some i.
Proof.
  intros i sv b. unfold bind_payload. destruct b; try reflexivity.
  destruct (s_has sv); [|reflexivity].
  destruct (is_empty (s_str sv)); reflexivity.
Qed.

(* the arm at list position j of a search that started counting at k has index k + j *)
Lemma match_from_first : forall arms sv k i,
  arm_index (mech_match_from k sv arms) = Some i <->
  (exists j, i = (k + j)%nat /\
     (exists p, nth_error arms j = Some p /\ arm_matches sv p = true) /\
     (forall j' p, (j' < j)%nat -> nth_error arms j' = Some p -> arm_matches sv p = false)).
Proof.
  induction arms as [|a rest IH]; intros sv k i; simpl.
  - split; [discriminate|]. intros (j & _ & (p & Hp & _) & _). destruct j; discriminate.
  - destruct a as [v b|].
    + destruct (str_eqb (s_variant sv) v) eqn:E.
      * rewrite bind_payload_index. split.
        -- intro H. inversion H; subst. exists 0%nat. split; [lia|]. split.
           ++ exists (PatVar v b). split; [reflexivity|]. simpl. exact E.
           ++ intros j' p Hj. lia.
        -- intros (j & Hi & (p & Hp & Hm) & Hprev). destruct j.
           ++ f_equal. lia.
           ++ exfalso. specialize (Hprev 0%nat (PatVar v b)). simpl in Hprev.
              rewrite E in Hprev. assert (true = false) by (apply Hprev; [lia|reflexivity]). discriminate.
      * rewrite IH. split.
        -- intros (j & Hi & (p & Hp & Hm) & Hprev). exists (S j). split; [lia|]. split.
           ++ exists p. split; assumption.
           ++ intros j' p' Hj Hn. destruct j'.
              ** simpl in Hn. inversion Hn; subst. simpl. exact E.
              ** simpl in Hn. apply (Hprev j' p'); [lia|exact Hn].
        -- intros (j & Hi & (p & Hp & Hm) & Hprev). destruct j.
           ++ simpl in Hp. inversion Hp; subst. simpl in Hm. congruence.
           ++ exists j. split; [lia|]. split.
              ** exists p. split; assumption.
              ** intros j' p' Hj Hn. apply (Hprev (S j') p'); [lia|exact Hn].
    + split.
      * intro H. inversion H; subst. exists 0%nat. split; [lia|]. split.
        -- exists PatWild. split; reflexivity.
        -- intros j' p Hj. lia.
      * intros (j & Hi & (p & Hp & Hm) & Hprev). destruct j.
        -- simpl. f_equal. lia.
        -- exfalso. specialize (Hprev 0%nat PatWild). simpl in Hprev.
           assert (true = false) by (apply Hprev; [lia|reflexivity]). discriminate.
Qed.

Lemma match_first_arm_l : forall sv arms i,
  arm_index (mech_match sv arms) = Some i <->
  ((exists p, nth_error arms i = Some p /\ arm_matches sv p = true) /\
   (forall j p, (j < i)%nat -> nth_error arms j = Some p -> arm_matches sv p = false)).
Proof.
  intros sv arms i. unfold mech_match. rewrite match_from_first. split.
  - intros (j & Hi & H). simpl in Hi. subst. exact H.
  - intro H. exists i. split; [reflexivity|exact H].
Qed.

Lemma match_from_noarm : forall arms sv k,
  mech_match_from k sv arms = NoArm <-> (forall p, In p arms -> arm_matches sv p = false).
Proof.
  induction arms as [|a rest IH]; intros sv k; simpl.
  - split; [intros _ p []|reflexivity].
  - destruct a as [v b|].
    + destruct (str_eqb (s_variant sv) v) eqn:E.
      * split.
        -- intro H. pose proof (bind_payload_index k sv b) as Hi. rewrite H in Hi. discriminate.
        -- intro H. specialize (H (PatVar v b) (or_introl eq_refl)). simpl in H. congruence.
      * rewrite IH. split.
        -- intros H p [<-|Hin]; [simpl; exact E|apply H; exact Hin].
        -- intros H p Hin. apply H. right. exact Hin.
    + split; [discriminate|]. intro H. specialize (H PatWild (or_introl eq_refl)). discriminate.
Qed.

Lemma match_no_arm_l : forall sv arms,
  mech_match sv arms = NoArm <-> (forall p, In p arms -> arm_matches sv p = false).
Proof. intros. apply match_from_noarm. Qed.

(* what a named binding receives: the payload as the consumer decodes it *)
Definition bval_of_payload (p : payload) : bval :=
  match p with PNone => VNo | PInt z => VInt z | PStr s => VStr s end.

Lemma match_from_binds : forall arms sv k i b,
  mech_match_from k sv arms = ArmOk i b ->
  forall j v, i = (k + j)%nat -> nth_error arms j = Some (PatVar v BName) ->
  b = bval_of_payload (decode_payload sv) /\ s_has sv = true.
Proof.
  induction arms as [|a rest IH]; intros sv k i b H j v Hi Hn; simpl in H.
  - discriminate.
  - destruct a as [v' b'|].
    + destruct (str_eqb (s_variant sv) v') eqn:E.
      * pose proof (bind_payload_index k sv b') as Hidx. rewrite H in Hidx. simpl in Hidx.
        inversion Hidx. assert (j = 0%nat) by lia. subst j. simpl in Hn. inversion Hn; subst.
        unfold bind_payload in H. unfold decode_payload.
        destruct (s_has sv); [|discriminate].
        destruct (is_empty (s_str sv)); inversion H; subst; split; reflexivity.
      * destruct j.
        -- pose proof (proj1 (match_from_first rest sv (S k) i)) as Hf.
           rewrite H in Hf. destruct (Hf eq_refl) as (j' & Hj' & _). lia.
        -- simpl in Hn. apply (IH sv (S k) i b H j v); [lia|exact Hn].
    + inversion H; subst. assert (j = 0%nat) by lia. subst. simpl in Hn. discriminate.
Qed.

Lemma match_binds_payload_l : forall sv arms i b v,
  mech_match sv arms = ArmOk i b -> nth_error arms i = Some (PatVar v BName) ->
  b = bval_of_payload (decode_payload sv) /\ s_has sv = true.
Proof. intros sv arms i b v H Hn. apply (match_from_binds arms sv 0%nat i b H i v); [reflexivity|exact Hn]. Qed.

(* ---------------------------------------------------------------- payload channels *)
Lemma payload_roundtrip_l : forall v p, p <> PStr [] -> decode (encode (mkC v p)) = mkC v p.
Proof.
  intros v p Hp. destruct p as [|z|s]; try reflexivity.
  destruct s; [congruence|reflexivity].
Qed.

Lemma payload_roundtrip_refuted_l :
  exists c, decode (encode c) <> c /\ c = mkC (s2l "Err") (PStr []) /\ decode (encode c) = mkC (s2l "Err") (PInt 0).
Proof. exists (mkC (s2l "Err") (PStr [])). repeat split. discriminate. Qed.

(* the two spellings collide in storage: that is why no consumer can tell them apart *)
Lemma encode_collision : forall v, encode (mkC v (PStr [])) = encode (mkC v (PInt 0)).
Proof. reflexivity. Qed.

(* ---------------------------------------------------------------- Mech = Spec on representable payloads *)
Definition good_for_match (p : payload) : bool :=
  match p with PNone => true | PInt _ => true | PStr s => negb (is_empty s) end.

Lemma bind_refines : forall i c b, good_for_match (c_payload c) = true ->
  bind_payload i (encode c) b = spec_bind i c b.
Proof.
  intros i [v p] b Hg. destruct b; try reflexivity.
  destruct p as [|z|s]; simpl in *.
  - reflexivity.
  - reflexivity.
  - destruct s; [discriminate|reflexivity].
Qed.

Lemma variant_encode : forall c, s_variant (encode c) = c_variant c.
Proof. intros [v p]. destruct p; reflexivity. Qed.

Lemma match_from_refines : forall arms c k, good_for_match (c_payload c) = true ->
  mech_match_from k (encode c) arms = spec_match_from k c arms.
Proof.
  induction arms as [|a rest IH]; intros c k Hg; simpl; [reflexivity|].
  destruct a as [v b|]; [|reflexivity].
  rewrite variant_encode. destruct (str_eqb (c_variant c) v).
  - apply bind_refines. exact Hg.
  - apply IH. exact Hg.
Qed.

Lemma match_refines_l : forall c arms, good_for_match (c_payload c) = true ->
  mech_match (encode c) arms = spec_match c arms.
Proof. intros. apply match_from_refines. assumption. Qed.

(* every integer payload, also outside int, is bound unchanged (TYPE_LONG binding, /repo b144e56) *)
Lemma long_payload_bound_l : forall v z arms,
  mech_match (encode (mkC v (PInt z))) (PatVar v BName :: arms) = ArmOk 0 (VInt z).
Proof. intros v z arms. unfold mech_match. simpl. rewrite str_eqb_refl. reflexivity. Qed.
