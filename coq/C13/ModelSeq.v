(* C13 - state carried BETWEEN evaluations: two more program families over the definitions of Model.v.

   Family R (re-assignment): ONE enum variable w receives a sequence of values of changing variants and payload
     kinds (string, then int, then long, then none ...) - through `w = u;`, `w = idf(u);`, `w = mkv();`, `w = mk();` -
     and is consumed after every assignment (match in place / match in a shared function behind a parameter).
     Code: the enum case of the assignment executor (evaluate_variable_typed -> struct copy; ReturnException ->
     struct copy), parameters (assign_function_parameter), execute_match_statement.
   Family S (sequences): several programs of the families A (construct / transport / match), Q (? chains) and
     T (try / checked, integer and string operands) live in ONE program as functions item_j; main calls them in any
     order, any number of times, T items with fresh operands (a, b, sa, sb) and Q items with a fresh failing link on
     every call. The interpreter keeps no state between two evaluations (every producer - build_result_ok /
     build_result_err, the Err / None built by `?`, handle_enum_construct_return, the scrutinee of match - starts from
     a default-constructed Variable; the static temp_result of evaluate_error_propagation_typed is overwritten as a
     whole): the Mech run of a sequence is the concatenation of the runs of its calls. *)
From Coq Require Import List ZArith Bool Ascii String Arith.
From Cb Require Import C13.Model.
Import ListNotations.
Local Open Scope Z_scope.

(* ------------------------------------------------------------------------------------------ *)
(* Family R                                                                                    *)
(* ------------------------------------------------------------------------------------------ *)
Inductive rhow :=
| RVar       (* T u_k = T::V(p); w = u_k;                                        *)
| RCall      (* T u_k = T::V(p); w = idf(u_k);        T idf(T x) { return x; }    *)
| RMkv       (* w = mkv_k();        T mkv_k() { T t = T::V(p); return t; }        *)
| RMk        (* w = mk_k();         T mk_k()  { return T::V(p); }                 *)
| RFld.      (* T u_k = T::V(p); bx.e = u_k; T x_k = bx.e;   struct Box { T e; int n; }; Box bx;  - the value lives in a
                struct MEMBER that is overwritten again and again; the consumer looks at x_k, w is not touched *)
(* rs_fn: the consumer is  show(w, k);  with  void show(T x, int k) { match (x) { arms } }  instead of the match in place *)
Record rstep := mkRS { rs_val : cval; rs_how : rhow; rs_fn : bool }.
(* T w = T::I(q);  then the steps;  println("after") *)
Record progR := mkPR { pr_builtin : bool; pr_init : cval; pr_steps : list rstep; pr_arms : list pattern }.

(* the new content of w - a function of the OLD content too (the assignment executor keeps w when the right-hand side
   evaluates to a plain integer) *)
Definition m_rassign (builtin : bool) (w : stored) (rs : rstep) : stored :=
  let sv := encode (rs_val rs) in
  match rs_how rs with
  | RVar => m_assign_from_var w sv
  | RCall => m_assign_from_ret w (m_call_idf sv)
  | RMkv => m_assign_from_ret w (m_return_var sv)
  | RMk => m_assign_from_ret w (m_return_cons builtin (rs_val rs))
  | RFld => w
  end.
(* managers/structs/assignment.cpp assign_struct_member (Variable overload): `if (value_var.is_enum || ..) { is_enum,
   enum_type_name, enum_variant, has_associated_value, associated_int_value, associated_str_value are copied }` - six
   separate stores into the member that already holds the previous value; a source that is not an enum leaves them *)
Definition m_fld_assign (old sv : stored) : stored :=
  if s_enum sv then mkS (s_enum sv) (s_variant sv) (s_has sv) (s_int sv) (s_str sv) else old.
Definition m_rfield (fld : stored) (rs : rstep) : stored :=
  match rs_how rs with RFld => m_fld_assign fld (encode (rs_val rs)) | _ => fld end.
(* what the consumer of step k looks at: w, or x_k declared from the member (declaration.cpp: copy of the member) *)
Definition m_rseen (w fld : stored) (rs : rstep) : stored :=
  match rs_how rs with RFld => m_decl_from_var fld | _ => w end.

Definition m_rlook (arms : list pattern) (k : nat) (fn : bool) (w : stored) : list mev * exitc :=
  let sv := if fn then m_pass w else w in
  if negb (s_enum sv) then ([], XNotEnum) else armres_out (EM k) (s_variant sv) (mech_match sv arms).

Fixpoint m_rsteps (builtin : bool) (arms : list pattern) (k : nat) (w fld : stored) (steps : list rstep)
  : list mev * exitc :=
  match steps with
  | [] => ([EDone], XOk)
  | rs :: rest =>
      let w' := m_rassign builtin w rs in
      let fld' := m_rfield fld rs in
      then_ev (m_rlook arms k (rs_fn rs) (m_rseen w' fld' rs)) (m_rsteps builtin arms (S k) w' fld' rest)
  end.
Definition m_run_r (p : progR) : mresult :=
  let o := m_rsteps (pr_builtin p) (pr_arms p) 0 (encode (pr_init p)) fresh_var (pr_steps p) in mkMR (fst o) (snd o).

(* Spec: after `w = e;` the variable holds the value of e, whatever it held before *)
Definition s_rlook (arms : list pattern) (k : nat) (c : cval) : list mev * exitc :=
  armres_out (EM k) (c_variant c) (spec_match c arms).
Fixpoint s_rsteps (arms : list pattern) (k : nat) (steps : list rstep) : list mev * exitc :=
  match steps with
  | [] => ([EDone], XOk)
  | rs :: rest => then_ev (s_rlook arms k (rs_val rs)) (s_rsteps arms (S k) rest)
  end.
Definition s_run_r (p : progR) : mresult :=
  let o := s_rsteps (pr_arms p) 0 (pr_steps p) in mkMR (fst o) (snd o).

(* conforming: every assigned value has a payload the channels can represent (a payload-less right-hand side is an
   integer for the assignment executor: C13-payloadless-variant-lost-assign - the struct member takes it, but a parameter
   does not); the initial value is arbitrary *)
Definition is_rfld (h : rhow) : bool := match h with RFld => true | _ => false end.
Definition safe_rstep (rs : rstep) : bool :=
  good_cval (rs_val rs) && (has_pl (rs_val rs) || (is_rfld (rs_how rs) && negb (rs_fn rs))).
Definition safe_r (p : progR) : bool := forallb safe_rstep (pr_steps p).

(* ------------------------------------------------------------------------------------------ *)
(* Family S                                                                                    *)
(* ------------------------------------------------------------------------------------------ *)
Inductive sitem := IA (p : progA) | IQ (p : progQ) | IT (p : progT).
(* one call of item sc_item from main: item_j(a, b, sa, sb) for a T item, item_j(sel) for a Q item, item_j() for an A item *)
Record scall := mkSC { sc_item : nat; sc_a : Z; sc_b : Z; sc_sa : str; sc_sb : str; sc_sel : nat }.
Record progS := mkPS { ps_items : list sitem; ps_calls : list scall }.

Inductive sev :=
| ESCall (n : nat)                 (* "call n": printed by main before the n-th call *)
| ESIn (e : ev)                    (* a line of the item *)
| ESDone.                          (* "done" *)
Record sresult := mkSR { sr_events : list sev; sr_exit : exitc }.

(* the item with the operands of this call *)
Definition item_with (c : scall) (it : sitem) : sitem :=
  match it with
  | IA p => IA p
  | IQ p => IQ (mkQ (q_kind p) (q_links p) (q_ok p) (sc_sel c))
  | IT p => IT (mkT (t_checked p) (t_ctx p) (sc_a c) (sc_b c) (sc_sa c) (sc_sb c) (t_expr p))
  end.
Definition m_item (it : sitem) : result :=
  match it with IA p => m_run_a p | IQ p => m_run_q p | IT p => m_run_t p end.
Definition s_item (it : sitem) : result :=
  match it with IA p => s_run_a p | IQ p => s_run_q p | IT p => s_run_t p end.
Definition safe_item (it : sitem) : bool :=
  match it with IA p => safe_a p | IQ p => safe_q p | IT p => safe_t p end.

Definition then_s (o rest : list sev * exitc) : list sev * exitc :=
  match snd o with XOk => (fst o ++ fst rest, snd rest) | x => (fst o, x) end.

Definition call_with (run : sitem -> result) (items : list sitem) (c : scall) : list sev * exitc :=
  match nth_error items (sc_item c) with
  | None => ([], XUnmodelled)
  | Some it => let r := run (item_with c it) in (map ESIn (r_events r), r_exit r)
  end.

(* the n-th call prints "call n" and then what its item prints; a call that ends in an error ends the program *)
Fixpoint run_seq (call : scall -> list sev * exitc) (n : nat) (cs : list scall) : list sev * exitc :=
  match cs with
  | [] => ([ESDone], XOk)
  | c :: rest => then_s (ESCall n :: fst (call c), snd (call c)) (run_seq call (S n) rest)
  end.
Definition m_run_s (p : progS) : sresult :=
  let o := run_seq (call_with m_item (ps_items p)) 0 (ps_calls p) in mkSR (fst o) (snd o).
Definition s_run_s (p : progS) : sresult :=
  let o := run_seq (call_with s_item (ps_items p)) 0 (ps_calls p) in mkSR (fst o) (snd o).

Definition safe_scall (items : list sitem) (c : scall) : bool :=
  match nth_error items (sc_item c) with None => false | Some it => safe_item (item_with c it) end.
Definition safe_s (p : progS) : bool := forallb (safe_scall (ps_items p)) (ps_calls p).
