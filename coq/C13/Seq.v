(* C13 - nothing is carried from one evaluation to the next: re-assignment of one variable / one struct member
   (family R) and sequences of A / Q / T programs inside one program (family S). *)
From Coq Require Import List ZArith Bool Ascii String Arith Lia.
From Cb Require Import C13.Model C13.ModelSeq C13.MatchLemmas C13.Transport C13.Chain C13.Try C13.Suite.
Import ListNotations.
Local Open Scope Z_scope.

(* ---------------------------------------------------------------- family R: the last write wins *)
Lemma has_pl_payload : forall c, has_pl c = true -> c_payload c <> PNone.
Proof. intros [v p]. unfold has_pl. destruct p; simpl; intro H; try discriminate H; intro E; discriminate E. Qed.

(* whatever the variable held before (ANY stored value: another variant, a string channel next to an integer one,
   not even an enum), after the assignment of a value with a payload it holds exactly that value - for all four
   right-hand sides *)
Lemma rassign_last_write_wins_l : forall b w rs, has_pl (rs_val rs) = true -> rs_how rs <> RFld ->
  m_rassign b w rs = encode (rs_val rs).
Proof.
  intros b w [c h fn] Hp Hh. simpl in *. apply has_pl_payload in Hp. unfold m_rassign. simpl.
  destruct h.
  - unfold m_assign_from_var. rewrite eval_var_encode by exact Hp. reflexivity.
  - rewrite call_idf_encode by exact Hp. reflexivity.
  - unfold m_return_var. rewrite encode_flags. reflexivity.
  - rewrite return_cons_encode by (left; exact Hp). reflexivity.
  - congruence.
Qed.

(* the struct member: whatever it held before, after `bx.e = u;` it holds u's value - every variant, also payload-less
   ones - and `T x = bx.e;` reads exactly that *)
Lemma rfield_last_write_wins_l : forall fld c,
  m_fld_assign fld (encode c) = encode c /\ m_decl_from_var (m_fld_assign fld (encode c)) = encode c.
Proof.
  intros fld c. assert (H : m_fld_assign fld (encode c) = encode c).
  { unfold m_fld_assign. rewrite encode_flags. destruct c as [v p]. destruct p; reflexivity. }
  split; [exact H|]. rewrite H. unfold m_decl_from_var. rewrite encode_flags. reflexivity.
Qed.

(* what the consumer of a conforming step sees *)
Lemma rseen_safe : forall b w fld rs, safe_rstep rs = true ->
  m_rseen (m_rassign b w rs) (m_rfield fld rs) rs = encode (rs_val rs).
Proof.
  intros b w fld [c h fn] Hs. unfold safe_rstep in Hs. simpl in Hs.
  apply andb_true_iff in Hs. destruct Hs as [_ Hs].
  assert (Hf : h = RFld \/ (h <> RFld /\ has_pl c = true)).
  { destruct h; try (right; split; [discriminate|]; apply orb_true_iff in Hs; destruct Hs as [Hs|Hs]; [exact Hs|discriminate Hs]).
    left; reflexivity. }
  destruct Hf as [->|[Hn Hp]].
  - unfold m_rseen, m_rfield. simpl. apply rfield_last_write_wins_l.
  - assert (E : m_rseen (m_rassign b w (mkRS c h fn)) (m_rfield fld (mkRS c h fn)) (mkRS c h fn) = m_rassign b w (mkRS c h fn)).
    { unfold m_rseen. simpl. destruct h; try reflexivity. congruence. }
    rewrite E. apply rassign_last_write_wins_l; simpl; assumption.
Qed.

Lemma rlook_refines : forall arms k fn c, good_cval c = true -> (fn = true -> has_pl c = true) ->
  m_rlook arms k fn (encode c) = s_rlook arms k c.
Proof.
  intros arms k fn c Hg Hf. unfold m_rlook, s_rlook.
  assert (Hsv : (if fn then m_pass (encode c) else encode c) = encode c).
  { destruct fn; [|reflexivity]. apply pass_encode. apply has_pl_payload. apply Hf. reflexivity. }
  rewrite Hsv, encode_flags. simpl negb. cbv iota.
  apply armres_out_refines. exact Hg.
Qed.

Lemma safe_rstep_look : forall rs, safe_rstep rs = true ->
  good_cval (rs_val rs) = true /\ (rs_fn rs = true -> has_pl (rs_val rs) = true).
Proof.
  intros rs Hs. unfold safe_rstep in Hs. apply andb_true_iff in Hs. destruct Hs as [Hg Hs]. split; [exact Hg|].
  intro Hf. apply orb_true_iff in Hs. destruct Hs as [Hs|Hs]; [exact Hs|].
  apply andb_true_iff in Hs. destruct Hs as [_ Hs]. rewrite Hf in Hs. discriminate.
Qed.

(* one conforming step, from ANY state of the variable and of the member (reachable or not): it prints what the Spec
   prints for its own value; the rest of the run goes on from the new state *)
Lemma reassign_step_history_free_l : forall b arms k w fld rs rest, safe_rstep rs = true ->
  m_rsteps b arms k w fld (rs :: rest) =
    then_ev (s_rlook arms k (rs_val rs)) (m_rsteps b arms (S k) (m_rassign b w rs) (m_rfield fld rs) rest).
Proof.
  intros b arms k w fld rs rest Hs. cbn [m_rsteps].
  rewrite rseen_safe by exact Hs. destruct (safe_rstep_look rs Hs) as [Hg Hf].
  rewrite rlook_refines by assumption. reflexivity.
Qed.

Lemma rsteps_refine : forall b arms steps k w fld, forallb safe_rstep steps = true ->
  m_rsteps b arms k w fld steps = s_rsteps arms k steps.
Proof.
  induction steps as [|rs rest IH]; intros k w fld Hs; [reflexivity|].
  simpl in Hs. apply andb_true_iff in Hs. destruct Hs as [H1 H2].
  rewrite reassign_step_history_free_l by exact H1. cbn [s_rsteps]. rewrite IH by exact H2. reflexivity.
Qed.

Lemma reassign_refines_l : forall p, safe_r p = true -> m_run_r p = s_run_r p.
Proof.
  intros [b i steps arms] Hs. unfold safe_r in Hs. simpl in Hs. unfold m_run_r, s_run_r. simpl.
  rewrite rsteps_refine by exact Hs. reflexivity.
Qed.

(* the recorded defect this fragment excludes: a payload-less right-hand side leaves the variable as it was *)
Definition arms_abd : list pattern := [PatVar (s2l "A") BName; PatVar (s2l "B") BName; PatVar (s2l "D") BNo].
Lemma reassign_payloadless_refuted_l :
  let p := mkPR false (mkC (s2l "A") (PInt 1))
                [mkRS (mkC (s2l "B") (PStr (s2l "s"))) RVar false; mkRS (mkC (s2l "D") PNone) RVar false;
                 mkRS (mkC (s2l "D") PNone) RFld false] arms_abd in
  m_run_r p = mkMR [EM 0 1 (VStr (s2l "s")); EM 1 1 (VStr (s2l "s")); EM 2 2 VNo; EDone] XOk /\
  s_run_r p = mkMR [EM 0 1 (VStr (s2l "s")); EM 1 2 VNo; EM 2 2 VNo; EDone] XOk.
Proof. vm_compute. split; reflexivity. Qed.

Lemma reassign_example_l :
  let p := mkPR false (mkC (s2l "D") PNone)
                [mkRS (mkC (s2l "B") (PStr (s2l "s"))) RVar false; mkRS (mkC (s2l "A") (PInt 7)) RCall true;
                 mkRS (mkC (s2l "B") (PStr (s2l "t"))) RFld false; mkRS (mkC (s2l "A") (PInt 8)) RFld true;
                 mkRS (mkC (s2l "A") (PInt 9)) RMkv false; mkRS (mkC (s2l "B") (PStr (s2l "u"))) RMk true] arms_abd in
  safe_r p = true /\
  m_run_r p = mkMR [EM 0 1 (VStr (s2l "s")); EM 1 0 (VInt 7); EM 2 1 (VStr (s2l "t")); EM 3 0 (VInt 8); EM 4 0 (VInt 9);
                    EM 5 1 (VStr (s2l "u")); EDone] XOk.
Proof. vm_compute. split; reflexivity. Qed.

(* ---------------------------------------------------------------- family S *)
Lemma item_refines : forall it, safe_item it = true -> m_item it = s_item it.
Proof.
  intros [p|p|p] H; simpl in *; [apply transport_refines_l|apply chain_refines_run|apply try_refines_l]; exact H.
Qed.

Lemma scall_refines : forall items c, safe_scall items c = true -> call_with m_item items c = call_with s_item items c.
Proof.
  intros items c H. unfold safe_scall in H. unfold call_with.
  destruct (nth_error items (sc_item c)) as [it|]; [|discriminate].
  rewrite item_refines by exact H. reflexivity.
Qed.

Lemma run_seq_ext : forall f g cs n, (forall c, In c cs -> f c = g c) -> run_seq f n cs = run_seq g n cs.
Proof.
  induction cs as [|c rest IH]; intros n H; simpl; [reflexivity|].
  rewrite (H c (or_introl eq_refl)). rewrite IH; [reflexivity|]. intros c' Hin. apply H. right. exact Hin.
Qed.

Lemma seq_refines_l : forall p, safe_s p = true -> m_run_s p = s_run_s p.
Proof.
  intros [items cs] Hs. unfold safe_s in Hs. simpl in Hs. unfold m_run_s, s_run_s. simpl.
  rewrite (run_seq_ext (call_with m_item items) (call_with s_item items)); [reflexivity|].
  intros c Hin. apply scall_refines. rewrite forallb_forall in Hs. apply Hs. exact Hin.
Qed.

(* the calls before call number n *)
Fixpoint seq_prefix (call : scall -> list sev * exitc) (n : nat) (cs : list scall) : list sev * exitc :=
  match cs with
  | [] => ([], XOk)
  | c :: rest => then_s (ESCall n :: fst (call c), snd (call c)) (seq_prefix call (S n) rest)
  end.

Lemma then_s_assoc : forall a b c, then_s (then_s a b) c = then_s a (then_s b c).
Proof.
  intros [ea xa] [eb xb] [ec xc]. unfold then_s. simpl.
  destruct xa; simpl; try reflexivity. destruct xb; simpl; try reflexivity. rewrite app_assoc. reflexivity.
Qed.
Lemma then_s_nil : forall b, then_s ([], XOk) b = b.
Proof. intros [eb xb]. reflexivity. Qed.

Lemma run_seq_app : forall call cs1 cs2 n,
  run_seq call n (cs1 ++ cs2) = then_s (seq_prefix call n cs1) (run_seq call (n + List.length cs1) cs2).
Proof.
  induction cs1 as [|c rest IH]; intros cs2 n; simpl.
  - rewrite then_s_nil, Nat.add_0_r. reflexivity.
  - rewrite IH, then_s_assoc. replace (S n + List.length rest)%nat with (n + S (List.length rest))%nat by lia. reflexivity.
Qed.

(* whatever ran before (any items, any operands, any number of calls - a string-valued try before an integer-valued one,
   an Err before an Ok, another enum): if the run got as far as call c, it prints "call n" and then call_with m_item - a
   function of c's item and c's own operands only - and goes on with the calls behind it *)
Lemma seq_history_free_l : forall items cs1 c cs2, snd (seq_prefix (call_with m_item items) 0 cs1) = XOk ->
  sr_events (m_run_s (mkPS items (cs1 ++ c :: cs2))) =
    fst (seq_prefix (call_with m_item items) 0 cs1) ++
    fst (then_s (ESCall (List.length cs1) :: fst (call_with m_item items c), snd (call_with m_item items c))
                (run_seq (call_with m_item items) (S (List.length cs1)) cs2)).
Proof.
  intros items cs1 c cs2 H. unfold m_run_s. simpl. rewrite run_seq_app. simpl.
  unfold then_s at 1. rewrite H. reflexivity.
Qed.

(* a call that ends in an error ends the program: nothing of the later calls is printed *)
Lemma seq_stops_at_failure_l : forall items cs1 c cs2, snd (seq_prefix (call_with m_item items) 0 cs1) = XOk ->
  snd (call_with m_item items c) <> XOk ->
  m_run_s (mkPS items (cs1 ++ c :: cs2)) =
    mkSR (fst (seq_prefix (call_with m_item items) 0 cs1) ++ ESCall (List.length cs1) :: fst (call_with m_item items c))
         (snd (call_with m_item items c)).
Proof.
  intros items cs1 c cs2 H Hc. unfold m_run_s. simpl. rewrite run_seq_app. simpl.
  assert (E : then_s (ESCall (List.length cs1) :: fst (call_with m_item items c), snd (call_with m_item items c))
                     (run_seq (call_with m_item items) (S (List.length cs1)) cs2) =
              (ESCall (List.length cs1) :: fst (call_with m_item items c), snd (call_with m_item items c))).
  { unfold then_s. simpl. destruct (snd (call_with m_item items c)); try congruence; reflexivity. }
  rewrite E. unfold then_s. rewrite H. reflexivity.
Qed.

(* the seeded shape: checked names[a] (a string Ok), then try (a / b) through the same function twice (Ok 8, Err), a `?`
   chain failing with a string, the integer try again, an Option chain: every call prints its own value *)
Definition seq_demo : progS :=
  mkPS [IT (mkT true TMain 0 0 [] [] (TEStr (SIdx CA)));
        IT (mkT false TRet 0 0 [] [] (TEInt (CDiv CA CB)));
        IQ (mkQ KResult [mkL QDecl (PStr (s2l "e1")) OpCall; mkL QDecl (PStr (s2l "e2")) OpCall] (PInt 5) 0);
        IA (mkA false (mkC (s2l "A") (PInt 7)) SrcCons [StParam] FinVar arms_ab)]
       [mkSC 1 24 3 [] [] 0; mkSC 0 1 0 (s2l "x") (s2l "y") 0; mkSC 1 24 3 [] [] 0; mkSC 1 5 0 [] [] 0;
        mkSC 2 0 0 [] [] 2; mkSC 1 100 5 [] [] 0; mkSC 3 0 0 [] [] 0; mkSC 2 0 0 [] [] 0].
Lemma seq_example_l :
  safe_s seq_demo = true /\
  m_run_s seq_demo =
    mkSR [ESCall 0; ESIn EG1; ESIn (EArm 0 (VInt 8)); ESIn EAfter;
          ESCall 1; ESIn EG1; ESIn EG2; ESIn (EArm 0 (VStr (s2l "bob"))); ESIn EAfter;
          ESCall 2; ESIn EG1; ESIn (EArm 0 (VInt 8)); ESIn EAfter;
          ESCall 3; ESIn EG1; ESIn (EArm 1 (VStr (s2l "DivisionByZeroError: Division by zero"))); ESIn EAfter;
          ESCall 4; ESIn (EEnter 1); ESIn (EEnter 2); ESIn (EArm 1 (VStr (s2l "e2"))); ESIn EAfter;
          ESCall 5; ESIn EG1; ESIn (EArm 0 (VInt 20)); ESIn EAfter;
          ESCall 6; ESIn (EArm 0 (VInt 7)); ESIn EAfter; ESIn (EBack 1);
          ESCall 7; ESIn (EEnter 1); ESIn (EEnter 2); ESIn (EPost 1 (VInt 5)); ESIn (EArm 0 (VInt 5)); ESIn EAfter;
          ESDone] XOk.
Proof. vm_compute. split; reflexivity. Qed.
