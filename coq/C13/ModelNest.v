(* C13 - payloads that are themselves a struct or another enum value, and statements executed again and again in ONE
   scope (loop bodies: blocks open no variable scope, so the second execution of `T v = ..;` meets the Variable the first
   execution left in the scope map).

   Code mirrored (all under /repo/src/backend/interpreter):
     core/interpreter.h:92                Variable::associated_value (a heap-held Variable: the struct / enum payload;
                                          copy constructor and operator= copy it deeply)                    -> nvar (assoc)
     managers/variables/declaration.cpp   enum branch of process_variable_declaration: AST_ENUM_CONSTRUCT with a
                                          struct-valued argument (a `new Variable` copy of the struct data) -> n_cons_decl, n_build
                                          `scope_map.erase(name); emplace(name, var);` + the "manual fix" block -> manual_fix, emplace_fix, m_declare
                                          initialiser is a call / a variable / try                           -> n_decl_from_ret, n_decl_from_var
     handlers/control/return.cpp          handle_enum_construct_return (string or as_numeric(): no struct)   -> n_cons_lossy, n_return_cons
     executors/control_flow_executor.cpp  execute_match_statement: constructor scrutinee (the same two channels),
                                          binding `variables[name] = *enum_value.associated_value` first, then the
                                          string channel if non-empty, then the integer                      -> n_bound, n_match_run, consume
     evaluator/literals/eval.cpp          evaluate_variable_typed (struct / enum with payload -> struct copy) -> n_eval_var, n_arg
     evaluator/operators/ternary.cpp, error_handling.cpp (through Model.v: m_qmark, try_like)                -> families LQ, LT
   The scalar model of Model.v embeds (lift / flat): on values without a nested payload every function below is the
   function of Model.v (Nest.v, nested_conservative). *)
From Coq Require Import List ZArith Bool Ascii String Arith.
From Cb Require Import C13.Model.
Import ListNotations.
Local Open Scope Z_scope.

(* ------------------------------------------------------------------------------------------ *)
(* 1. Values (the property's vocabulary), types of the printed programs, Variables as stored   *)
(* ------------------------------------------------------------------------------------------ *)
Inductive scal := SInt (z : Z) | SStr (s : str).             (* a struct member: int / long / string *)

(* payload := int | long | string | none | struct of scalars | enum value (recursively) *)
Inductive nval :=
| VI (z : Z)
| VS (s : str)
| VR (fs : list scal)                    (* struct Pk { .. }: the member values in declaration order *)
| VE (variant : str) (p : option nval).  (* a value of an enum type: variant + payload (None: payload-less variant) *)

(* the static type a printed program declares; it fixes the arm lists of the INNER matches (all variants in declaration
   order, named bindings) and what an arm body does with its binding *)
Inductive nty :=
| TInt | TStr                            (* int / long ; string: the body prints the binding *)
| TRec                                   (* a struct: the body prints every member, `q.f0, q.f1, ..` *)
| TOpt (t : nty)                         (* Option<t>:    Some(t), None *)
| TGen (n1 : str) (t : nty) (n2 : str)   (* enum G<T> { n1(T), n2 } instantiated at t (also any user enum of this shape) *)
| TRes (t e : nty)                       (* Result<t, e>: Ok(t), Err(e) *)
| TUsr (n1 : str) (a : nty) (n2 : str) (b : nty) (n3 : str) (c : nty) (n4 : str).
                                         (* enum U { n1(a), n2(b), n3(c), n4 } *)

(* interpreter.h Variable, as far as enum values go: NVInt = anything that is neither struct nor enum (its value is not
   tracked), NVRec = a struct variable, NVEnum = is_enum with enum_variant / has_associated_value / associated_int_value /
   associated_str_value / associated_value *)
Inductive nvar :=
| NVInt
| NVRec (fs : list scal)
| NVEnum (variant : str) (has : bool) (i : Z) (s : str) (assoc : option nvar).

Definition n_blank : nvar := NVEnum [] false 0 [] None.     (* enum variable initialised from an integer *)
Definition n_is_enum (v : nvar) : bool := match v with NVEnum _ _ _ _ _ => true | _ => false end.
Definition n_variant (v : nvar) : str := match v with NVEnum x _ _ _ _ => x | _ => [] end.
Definition n_assoc (v : nvar) : option nvar := match v with NVEnum _ _ _ _ a => a | _ => None end.

(* the scalar model inside the nested one *)
Definition lift (sv : stored) : nvar :=
  if s_enum sv then NVEnum (s_variant sv) (s_has sv) (s_int sv) (s_str sv) None else NVInt.
Definition flat (v : nvar) : stored :=
  match v with NVEnum x h i s _ => mkS true x h i s | _ => not_enum end.

(* ------------------------------------------------------------------------------------------ *)
(* 2. Constructors                                                                             *)
(* ------------------------------------------------------------------------------------------ *)
(* evaluate_typed on the argument of T::V(arg) *)
Inductive targ := TAInt (z : Z) | TAStr (s : str) | TAObj (v : nvar).

(* evaluate_variable_typed: TYPE_STRUCT -> the struct; is_enum && has_associated_value -> the enum as a struct; an enum
   without payload -> the integer var->value (the ordinal; written 0 here: a program can see it only through `.value`,
   which the nested families do not print) *)
Definition n_eval_var (v : nvar) : option nvar :=
  match v with NVEnum _ true _ _ _ => Some v | _ => None end.
Definition n_arg_of_var (v : nvar) : targ :=
  match v with
  | NVRec _ => TAObj v
  | NVEnum _ true _ _ _ => TAObj v
  | _ => TAInt 0
  end.

(* declaration.cpp `T v = T::V(arg);` - the ONLY producer that keeps a struct / enum argument:
   is_struct() && struct_data ? associated_value = new Variable(copy) : TYPE_STRING ? str : int *)
Definition n_cons_decl (variant : str) (arg : option targ) : nvar :=
  match arg with
  | None => NVEnum variant false 0 [] None
  | Some (TAInt z) => NVEnum variant true z [] None
  | Some (TAStr s) => NVEnum variant true 0 s None
  | Some (TAObj o) => NVEnum variant true 0 [] (Some o)
  end.
(* return T::V(arg) (handle_enum_construct_return), match (T::V(arg)), : TYPE_STRING ? str : as_numeric() - a struct or
   enum argument leaves has_associated_value = true and nothing else *)
Definition n_cons_lossy (variant : str) (arg : option targ) : nvar :=
  match arg with
  | None => NVEnum variant false 0 [] None
  | Some (TAInt z) => NVEnum variant true z [] None
  | Some (TAStr s) => NVEnum variant true 0 s None
  | Some (TAObj _) => NVEnum variant true 0 [] None
  end.

(* the Variable a value is built into by declarations, innermost first:
     Pk q; q.f0 = ..;                          (struct payload)
     Inner in = Inner::W(..);                  (enum payload: itself declared from its constructor)
     T v = T::V(q) / T::V(in) / T::V(literal);
   n_arg: what evaluate_typed yields for the argument written for payload p *)
Fixpoint n_build (v : nval) : nvar :=
  match v with
  | VE variant None => n_cons_decl variant None
  | VE variant (Some p) =>
      n_cons_decl variant
        (Some match p with
              | VI z => TAInt z
              | VS s => TAStr s
              | VR fs => TAObj (NVRec fs)
              | VE _ _ => n_arg_of_var (n_build p)
              end)
  | VI _ | VS _ => NVInt
  | VR fs => NVRec fs
  end.
Definition n_arg (p : nval) : targ :=
  match p with
  | VI z => TAInt z
  | VS s => TAStr s
  | VR fs => TAObj (NVRec fs)
  | VE _ _ => n_arg_of_var (n_build p)
  end.
Definition n_payload (v : nval) : option nval := match v with VE _ p => p | _ => None end.
Definition n_vname (v : nval) : str := match v with VE x _ => x | _ => [] end.

(* every consumer: associated_value first, then the string channel iff non-empty, then the integer *)
Fixpoint n_decode (v : nvar) : nval :=
  match v with
  | NVInt => VI 0
  | NVRec fs => VR fs
  | NVEnum variant has i s assoc =>
      VE variant
        (if has then
           Some match assoc with
                | Some o => n_decode o
                | None => if is_empty s then VI i else VS s
                end
         else None)
  end.

(* values the channels can carry: no empty string, and below the top level no payload-less enum value (it is evaluated
   as an integer when it is written as a constructor argument) *)
Fixpoint good_nv (v : nval) : bool :=
  match v with
  | VI _ => true
  | VS s => negb (is_empty s)
  | VR _ => true
  | VE _ None => false
  | VE _ (Some p) => good_nv p
  end.
Definition good_top (v : nval) : bool :=
  match v with VE _ None => true | VE _ (Some p) => good_nv p | _ => false end.

(* ------------------------------------------------------------------------------------------ *)
(* 3. A declaration executed again in the same scope                                           *)
(* ------------------------------------------------------------------------------------------ *)
(* `auto [iter, inserted] = scope_map.emplace(name, var);` followed by the "manual fix":
     iter->second.is_enum = true; .enum_type_name; .enum_variant; .has_associated_value; .associated_int_value;
     .associated_str_value; .value
   emplace does not overwrite: if the name is still in the map, the OLD Variable stays and only these fields are
   refreshed - its associated_value is the old one. *)
Definition manual_fix (old new : nvar) : nvar :=
  match new with
  | NVEnum x h i s _ => NVEnum x h i s (n_assoc old)
  | _ => new
  end.
Definition emplace_fix (slot : option nvar) (new : nvar) : nvar :=
  match slot with None => new | Some old => manual_fix old new end.
(* the code: `scope_map.erase(node->name);` first (erase = true) *)
Definition m_declare (erase : bool) (slot : option nvar) (new : nvar) : nvar :=
  emplace_fix (if erase then None else slot) new.

(* the variables v0, v1, .. of the function that holds the loop *)
Definition slots := list (option nvar).
Definition slot_get (st : slots) (j : nat) : option nvar := nth j st None.
Fixpoint slot_set (st : slots) (j : nat) (v : nvar) : slots :=
  match j, st with
  | O, [] => [Some v]
  | O, _ :: r => Some v :: r
  | S j', [] => None :: slot_set [] j' v
  | S j', x :: r => x :: slot_set r j' v
  end.

(* ------------------------------------------------------------------------------------------ *)
(* 4. Transport (the functions of Model.v section 4 on Variables with associated_value)        *)
(* ------------------------------------------------------------------------------------------ *)
Inductive nret := NRObj (v : nvar) | NRInt.
Definition n_return_var (v : nvar) : nret := if n_is_enum v then NRObj v else NRInt.
(* declaration.cpp:317 copies enum_variant, has_associated_value, associated_int_value - neither the string nor
   associated_value *)
Definition n_decl_from_ret (r : nret) : nvar :=
  match r with
  | NRObj (NVEnum x h i _ _) => NVEnum x h i [] None
  | _ => n_blank
  end.
Definition n_decl_from_var (v : nvar) : nvar := if n_is_enum v then v else n_blank.    (* var = *source_var *)
Definition n_pass (v : nvar) : nvar := match n_eval_var v with Some x => x | None => NVInt end.
Definition n_assign_from_var (w v : nvar) : nvar := match n_eval_var v with Some x => x | None => w end.
Definition n_assign_from_ret (w : nvar) (r : nret) : nvar := match r with NRObj x => x | NRInt => w end.
Definition n_call_idf (v : nvar) : nret := n_return_var (n_pass v).
Definition n_return_cons (builtin : bool) (v : nval) : nret :=
  match n_payload v with
  | None => if builtin then NRObj (n_cons_lossy (n_vname v) None) else NRInt
  | Some p => NRObj (n_cons_lossy (n_vname v) (Some (n_arg p)))
  end.

Definition n_source (builtin : bool) (v : nval) (s : source) : nvar :=
  match s with
  | SrcCons => n_build v
  | SrcCall => n_decl_from_ret (n_return_cons builtin v)
  | SrcCallVar => n_decl_from_ret (n_return_var (n_build v))
  end.
Definition n_step (st : nvar) (s : step) : nvar :=
  match s with
  | StDeclVar => n_decl_from_var st
  | StDeclCall => n_decl_from_ret (n_call_idf st)
  | StAsgVar d => n_assign_from_var (lift (encode d)) st
  | StAsgCall d => n_assign_from_ret (lift (encode d)) (n_call_idf st)
  | StAsgCons _ => st
  | StParam => n_pass st
  end.

(* ------------------------------------------------------------------------------------------ *)
(* 5. match on a nested value                                                                  *)
(* ------------------------------------------------------------------------------------------ *)
Inductive leaf := LfNo | LfInt (z : Z) | LfStr (s : str) | LfRec (fs : list scal).
Inductive nev :=
| NEIter (k : nat)                      (* "it k": printed first in every execution of the loop body *)
| NEArm (path : list nat) (l : leaf)    (* "arm i [in j [in k ..]] <binding / members>": the innermost arm that ran *)
| NEVariant (s : str)                   (* println(v.variant) *)
| NEPost (k : nat) (l : leaf)           (* "post k [v]" *)
| NEAfter                               (* "after": end of the innermost function of one execution *)
| NEBack (k : nat)
| NEDone.                               (* "done" *)
Record nresult := mkNR { nr_events : list nev; nr_exit : exitc }.

(* what a named binding holds *)
Inductive bound := BdInt (z : Z) | BdStr (s : str) | BdObj (v : nvar).
Definition n_bound (i : Z) (s : str) (assoc : option nvar) : bound :=
  match assoc with
  | Some o => BdObj o
  | None => if is_empty s then BdInt i else BdStr s
  end.

(* the body of an arm whose binding has the declared type t: a scalar is printed; a struct has its members printed
   ("Cannot access member" when the binding is no struct); an enum is matched again - arms for all variants of t in
   declaration order, named bindings ("Match expression must be an enum type" when the binding is no enum,
   "Undefined variable" when the variant arrives without payload) *)
Definition sub_arm (rec : list nat -> bound -> list nev * exitc) (path : list nat) (j : nat)
                   (h : bool) (i : Z) (s : str) (a : option nvar) : list nev * exitc :=
  if h then rec (path ++ [j]) (n_bound i s a) else ([], XUnbound).
Fixpoint consume (t : nty) (path : list nat) (b : bound) : list nev * exitc :=
  match t with
  | TInt | TStr =>
      match b with
      | BdInt z => ([NEArm path (LfInt z)], XOk)
      | BdStr s => ([NEArm path (LfStr s)], XOk)
      | BdObj _ => ([], XUnmodelled)
      end
  | TRec => match b with BdObj (NVRec fs) => ([NEArm path (LfRec fs)], XOk) | _ => ([], XNotStruct) end
  | TOpt a =>
      match b with
      | BdObj (NVEnum x h i s asc) =>
          if str_eqb x (s2l "Some") then sub_arm (consume a) path 0 h i s asc
          else if str_eqb x (s2l "None") then ([NEArm (path ++ [1%nat]) LfNo], XOk)
          else ([], XNonExhaustive x)
      | _ => ([], XNotEnum)
      end
  | TGen n1 a n2 =>
      match b with
      | BdObj (NVEnum x h i s asc) =>
          if str_eqb x n1 then sub_arm (consume a) path 0 h i s asc
          else if str_eqb x n2 then ([NEArm (path ++ [1%nat]) LfNo], XOk)
          else ([], XNonExhaustive x)
      | _ => ([], XNotEnum)
      end
  | TRes a e =>
      match b with
      | BdObj (NVEnum x h i s asc) =>
          if str_eqb x (s2l "Ok") then sub_arm (consume a) path 0 h i s asc
          else if str_eqb x (s2l "Err") then sub_arm (consume e) path 1 h i s asc
          else ([], XNonExhaustive x)
      | _ => ([], XNotEnum)
      end
  | TUsr n1 a n2 b' n3 c n4 =>
      match b with
      | BdObj (NVEnum x h i s asc) =>
          if str_eqb x n1 then sub_arm (consume a) path 0 h i s asc
          else if str_eqb x n2 then sub_arm (consume b') path 1 h i s asc
          else if str_eqb x n3 then sub_arm (consume c) path 2 h i s asc
          else if str_eqb x n4 then ([NEArm (path ++ [3%nat]) LfNo], XOk)
          else ([], XNonExhaustive x)
      | _ => ([], XNotEnum)
      end
  end.

(* the declared payload type of a variant of the outer type (a name the type does not have: the body prints) *)
Definition payload_ty (t : nty) (x : str) : nty :=
  match t with
  | TOpt a => if str_eqb x (s2l "Some") then a else TInt
  | TGen n1 a _ => if str_eqb x n1 then a else TInt
  | TRes a e => if str_eqb x (s2l "Ok") then a else if str_eqb x (s2l "Err") then e else TInt
  | TUsr n1 a n2 b n3 c _ => if str_eqb x n1 then a else if str_eqb x n2 then b else if str_eqb x n3 then c else TInt
  | _ => TInt
  end.

(* the outermost match: ANY arm list, searched by the loop of Model.v on the flat fields (mech_match: first arm whose
   name equals the stored variant or `_`); a named binding is then consumed as its declared type says *)
Definition n_match_run (t : nty) (sv : nvar) (arms : list pattern) : list nev * exitc :=
  match sv with
  | NVEnum x h i s asc =>
      match mech_match (flat sv) arms with
      | NoArm => ([], XNonExhaustive x)
      | ArmUnbound _ => ([], XUnbound)
      | ArmOk k VNo => ([NEArm [k] LfNo], XOk)
      | ArmOk k _ => consume (payload_ty t x) [k] (n_bound i s asc)
      end
  | _ => ([], XNotEnum)
  end.

(* ------------------------------------------------------------------------------------------ *)
(* 6. Family L: the statements of family A - source, steps, consumer - as a loop body that is  *)
(*    executed once per value (for / while / the body written out several times); every        *)
(*    declaration of the body meets the Variable its previous execution left                   *)
(* ------------------------------------------------------------------------------------------ *)
(* the steps of family A, and two more: the assignment to a variable `T w = T::D(q);` that is declared ONCE, before the
   loop - `w = v;` / `w = idf(v);` - the consumer then looks at w (a payload-less right-hand side leaves w as the previous
   execution left it: the one place where the code itself carries a value from one execution to the next) *)
Inductive lstep := LS (s : step) | LOutVar | LOutCall.
Record progL := mkPL { pl_builtin : bool; pl_ty : nty; pl_src : source; pl_steps : list lstep; pl_final : final;
                       pl_arms : list pattern; pl_vals : list nval; pl_winit : cval }.
Definition ls_is (f : step -> bool) (s : lstep) : bool := match s with LS x => f x | _ => false end.
Definition ls_param (s : lstep) : bool := ls_is is_param s.
Definition ldepth_of (steps : list lstep) : nat := List.length (filter ls_param steps).

(* state while the steps of one execution run: the slots of the looping function, whether we still are in it (a
   StParam continues in a callee, whose scope is new on every call), the index of the current variable, its value *)
Record lstate := mkLS { ls_slots : slots; ls_w : nvar; ls_main : bool; ls_n : nat; ls_cur : nvar }.
Definition l_declare (erase : bool) (st : lstate) (new : nvar) : lstate :=
  let j := S (ls_n st) in
  if ls_main st then
    let r := m_declare erase (slot_get (ls_slots st) j) new in mkLS (slot_set (ls_slots st) j r) (ls_w st) true j r
  else mkLS (ls_slots st) (ls_w st) false j new.
Definition l_assign (st : lstate) (r : nvar) : lstate :=
  mkLS (if ls_main st then slot_set (ls_slots st) (ls_n st) r else ls_slots st) (ls_w st) (ls_main st) (ls_n st) r.
Definition l_step (erase : bool) (st : lstate) (s : lstep) : lstate :=
  match s with
  | LS StDeclVar => l_declare erase st (n_decl_from_var (ls_cur st))
  | LS StDeclCall => l_declare erase st (n_decl_from_ret (n_call_idf (ls_cur st)))
  | LS (StAsgVar d) => let v := ls_cur st in let st' := l_declare erase st (lift (encode d)) in
                       l_assign st' (n_assign_from_var (ls_cur st') v)
  | LS (StAsgCall d) => let v := ls_cur st in let st' := l_declare erase st (lift (encode d)) in
                        l_assign st' (n_assign_from_ret (ls_cur st') (n_call_idf v))
  | LS (StAsgCons _) => st
  | LS StParam => mkLS (ls_slots st) (ls_w st) false (S (ls_n st)) (n_pass (ls_cur st))
  | LOutVar => let r := n_assign_from_var (ls_w st) (ls_cur st) in mkLS (ls_slots st) r (ls_main st) (ls_n st) r
  | LOutCall => let r := n_assign_from_ret (ls_w st) (n_call_idf (ls_cur st)) in mkLS (ls_slots st) r (ls_main st) (ls_n st) r
  end.
Definition l_source (erase : bool) (sl : slots) (w : nvar) (p : progL) (v : nval) : lstate :=
  let r := m_declare erase (slot_get sl 0) (n_source (pl_builtin p) v (pl_src p)) in
  mkLS (slot_set sl 0 r) w true 0 r.

Definition n_of_ret (r : nret) : nvar + exitc :=
  match r with NRObj sv => if n_is_enum sv then inl sv else inr XNoValue | NRInt => inr XNoValue end.
Definition l_scrutinee (p : progL) (v : nval) (cur : nvar) : nvar + exitc :=
  match pl_final p with
  | FinVar | FinObs | FinVal => if n_is_enum cur then inl cur else inr XNotEnum
  | FinCall => n_of_ret (n_call_idf cur)
  | FinMk => n_of_ret (n_return_cons (pl_builtin p) v)
  | FinMkv => n_of_ret (n_return_var (n_build v))
  | FinCons => match n_payload v with
               | None => inr XBadScrutinee
               | Some q => inl (n_cons_lossy (n_vname v) (Some (n_arg q)))
               end
  end.

Fixpoint nbacks (n : nat) : list nev := match n with O => [] | S k => NEBack n :: nbacks k end.
Definition nfinish (d : nat) (o : list nev * exitc) : list nev * exitc :=
  match snd o with XOk => (fst o ++ NEAfter :: nbacks d, XOk) | x => (fst o, x) end.

(* what the consumer prints for the current variable *)
Definition l_consume (p : progL) (v : nval) (cur : nvar) : list nev * exitc :=
  let d := if is_direct (pl_final p) then O else ldepth_of (pl_steps p) in
  match pl_final p with
  | FinObs => if n_is_enum cur then nfinish d ([NEVariant (n_variant cur)], XOk) else ([], XNotStruct)
  | FinVal => ([], XUnmodelled)
  | _ => match l_scrutinee p v cur with
         | inl sv => nfinish d (n_match_run (pl_ty p) sv (pl_arms p))
         | inr x => ([], x)
         end
  end.

(* one execution of the body from the slots and the outer variable w the previous executions left: the new slots, the new
   w and what is printed *)
Definition l_iter (erase : bool) (sl : slots) (w : nvar) (p : progL) (v : nval) : slots * nvar * (list nev * exitc) :=
  if is_direct (pl_final p) then (sl, w, l_consume p v NVInt)
  else
    let st := fold_left (l_step erase) (pl_steps p) (l_source erase sl w p v) in
    (ls_slots st, ls_w st, l_consume p v (ls_cur st)).

Definition then_n (o rest : list nev * exitc) : list nev * exitc :=
  match snd o with XOk => (fst o ++ fst rest, snd rest) | x => (fst o, x) end.
Fixpoint l_loop (erase : bool) (p : progL) (k : nat) (sl : slots) (w : nvar) (vals : list nval) : list nev * exitc :=
  match vals with
  | [] => ([NEDone], XOk)
  | v :: rest =>
      let '(sl', w', o) := l_iter erase sl w p v in
      then_n (NEIter k :: fst o, snd o) (l_loop erase p (S k) sl' w' rest)
  end.
(* Mech = the code: erase before emplace *)
Definition m_run_l_with (erase : bool) (p : progL) : nresult :=
  let o := l_loop erase p 0 [] (lift (encode (pl_winit p))) (pl_vals p) in mkNR (fst o) (snd o).
Definition m_run_l (p : progL) : nresult := m_run_l_with true p.

(* ---- Spec: every execution of the body prints its own value, every transport is the identity ---- *)
Definition s_sub (rec : list nat -> nval -> list nev * exitc) (path : list nat) (j : nat) (p : option nval)
  : list nev * exitc :=
  match p with Some q => rec (path ++ [j]) q | None => ([], XUnbound) end.
Fixpoint s_consume (t : nty) (path : list nat) (v : nval) : list nev * exitc :=
  match t with
  | TInt | TStr =>
      match v with
      | VI z => ([NEArm path (LfInt z)], XOk)
      | VS s => ([NEArm path (LfStr s)], XOk)
      | _ => ([], XUnmodelled)
      end
  | TRec => match v with VR fs => ([NEArm path (LfRec fs)], XOk) | _ => ([], XNotStruct) end
  | TOpt a =>
      match v with
      | VE x p =>
          if str_eqb x (s2l "Some") then s_sub (s_consume a) path 0 p
          else if str_eqb x (s2l "None") then ([NEArm (path ++ [1%nat]) LfNo], XOk)
          else ([], XNonExhaustive x)
      | _ => ([], XNotEnum)
      end
  | TGen n1 a n2 =>
      match v with
      | VE x p =>
          if str_eqb x n1 then s_sub (s_consume a) path 0 p
          else if str_eqb x n2 then ([NEArm (path ++ [1%nat]) LfNo], XOk)
          else ([], XNonExhaustive x)
      | _ => ([], XNotEnum)
      end
  | TRes a e =>
      match v with
      | VE x p =>
          if str_eqb x (s2l "Ok") then s_sub (s_consume a) path 0 p
          else if str_eqb x (s2l "Err") then s_sub (s_consume e) path 1 p
          else ([], XNonExhaustive x)
      | _ => ([], XNotEnum)
      end
  | TUsr n1 a n2 b n3 c n4 =>
      match v with
      | VE x p =>
          if str_eqb x n1 then s_sub (s_consume a) path 0 p
          else if str_eqb x n2 then s_sub (s_consume b) path 1 p
          else if str_eqb x n3 then s_sub (s_consume c) path 2 p
          else if str_eqb x n4 then ([NEArm (path ++ [3%nat]) LfNo], XOk)
          else ([], XNonExhaustive x)
      | _ => ([], XNotEnum)
      end
  end.

(* the outer arm search on the value: only the variant and whether there is a payload matter *)
Definition shape_cval (v : nval) : cval :=
  mkC (n_vname v) (match n_payload v with None => PNone | Some _ => PInt 0 end).
Definition s_match_run (t : nty) (v : nval) (arms : list pattern) : list nev * exitc :=
  match spec_match (shape_cval v) arms with
  | NoArm => ([], XNonExhaustive (n_vname v))
  | ArmUnbound _ => ([], XUnbound)
  | ArmOk k VNo => ([NEArm [k] LfNo], XOk)
  | ArmOk k _ => match n_payload v with
                 | Some q => s_consume (payload_ty t (n_vname v)) [k] q
                 | None => ([], XUnbound)
                 end
  end.
Definition s_iter (p : progL) (v : nval) : list nev * exitc :=
  let d := if is_direct (pl_final p) then O else ldepth_of (pl_steps p) in
  match pl_final p with
  | FinObs => nfinish d ([NEVariant (n_vname v)], XOk)
  | FinVal => ([], XUnmodelled)
  | _ => nfinish d (s_match_run (pl_ty p) v (pl_arms p))
  end.
Fixpoint s_loop (p : progL) (k : nat) (vals : list nval) : list nev * exitc :=
  match vals with
  | [] => ([NEDone], XOk)
  | v :: rest => let o := s_iter p v in then_n (NEIter k :: fst o, snd o) (s_loop p (S k) rest)
  end.
Definition s_run_l (p : progL) : nresult := let o := s_loop p 0 (pl_vals p) in mkNR (fst o) (snd o).

(* conforming executions: no assignment of a constructor expression; representable payloads; a string payload only
   where no declaration-from-call is on its way; a struct / enum payload in addition only from the declaring
   constructor and the variable-returning function (the constructor written after `return` or as a scrutinee keeps the
   two scalar channels only); payload-less values as in family A *)
Definition is_nested (v : nval) : bool :=
  match n_payload v with Some (VR _) | Some (VE _ _) => true | _ => false end.
Definition is_strv (v : nval) : bool := match n_payload v with Some (VS _) => true | _ => false end.
Definition safe_lval (p : progL) (v : nval) : bool :=
  good_top v &&
  match n_payload v with
  | None =>
      match pl_final p with
      | FinMkv => true
      | FinMk => pl_builtin p
      | FinVar | FinObs =>
          forallb (ls_is is_declvar) (pl_steps p) &&
          match pl_src p with SrcCons | SrcCallVar => true | SrcCall => pl_builtin p end
      | _ => false
      end
  | Some (VI _) => true
  | Some (VS _) =>
      is_direct (pl_final p) ||
      (match pl_src p with SrcCons => true | _ => false end && negb (existsb (ls_is is_declcall) (pl_steps p)))
  | Some _ =>
      match pl_final p with
      | FinMkv => true
      | FinMk | FinCons => false
      | _ => match pl_src p with SrcCons => true | _ => false end && negb (existsb (ls_is is_declcall) (pl_steps p))
      end
  end.
Definition safe_l (p : progL) : bool :=
  negb (existsb (ls_is is_asgcons) (pl_steps p)) &&
  match pl_final p with FinVal => false | _ => true end &&
  forallb (safe_lval p) (pl_vals p).

(* ------------------------------------------------------------------------------------------ *)
(* 7. Family LT: `R r = try e;` / `checked e` as a loop body, fresh operands on every execution *)
(* ------------------------------------------------------------------------------------------ *)
Record lops := mkLO { lo_a : Z; lo_b : Z; lo_sa : str; lo_sb : str }.
Record progLT := mkLT { lt_checked : bool; lt_expr : texpr; lt_ops : list lops }.
Definition lt_ty : nty := TRes TInt TStr.
Definition lt_eval (p : progLT) (o : lops) : tval + rterr := teval (lo_a o) (lo_b o) (lo_sa o) (lo_sb o) (lt_expr p).
Fixpoint lt_loop (erase : bool) (p : progLT) (k : nat) (slot : option nvar) (ops : list lops) : list nev * exitc :=
  match ops with
  | [] => ([NEDone], XOk)
  | o :: rest =>
      (* declaration.cpp, try branch: variant, has, both channels of the thrown Result are stored into `var` *)
      let r := m_declare erase slot (lift (try_like (lt_checked p) (lt_eval p o))) in
      let out := n_match_run lt_ty r t_arms in
      then_n (NEIter k :: fst out, snd out) (lt_loop erase p (S k) (Some r) rest)
  end.
Definition m_run_lt (p : progLT) : nresult := let o := lt_loop true p 0 None (lt_ops p) in mkNR (fst o) (snd o).
Definition nval_of_cval (c : cval) : nval :=
  VE (c_variant c) (match c_payload c with PNone => None | PInt z => Some (VI z) | PStr s => Some (VS s) end).
Fixpoint s_lt_loop (p : progLT) (k : nat) (ops : list lops) : list nev * exitc :=
  match ops with
  | [] => ([NEDone], XOk)
  | o :: rest =>
      let out := s_match_run lt_ty (nval_of_cval (spec_try (lt_eval p o))) t_arms in
      then_n (NEIter k :: fst out, snd out) (s_lt_loop p (S k) rest)
  end.
Definition s_run_lt (p : progLT) : nresult := let o := s_lt_loop p 0 (lt_ops p) in mkNR (fst o) (snd o).
Definition safe_lt (p : progLT) : bool :=
  forallb (fun o => match lt_eval p o with inl (TVStr []) => false | _ => true end) (lt_ops p).

(* ------------------------------------------------------------------------------------------ *)
(* 8. Family LQ: `f(i)?` as a loop body inside a function g; f returns Ok(z_i) / Some(z_i) or  *)
(*    Err(e_i) / None on the i-th call; the first failure must end g with that very value      *)
(* ------------------------------------------------------------------------------------------ *)
Inductive qout := QOOk (z : Z) | QOFail (e : payload).
Record progLQ := mkLQ { lq_kind : rkind; lq_ctx : qctx; lq_opnd : qopnd; lq_outs : list qout }.
Definition lq_value (k : rkind) (o : qout) : cval :=
  match o with
  | QOOk z => mkC (v_ok k) (PInt z)
  | QOFail e => match k with KResult => mkC (v_err k) e | KOption => mkC (v_err k) PNone end
  end.
(* result of g: the events of the loop and the value g returns (or an error class) *)
Fixpoint lq_loop (erase : bool) (p : progLQ) (k : nat) (slot : option nvar) (outs : list qout)
  : list nev * (stored + exitc) :=
  match outs with
  | [] => ([], inl (encode (mkC (v_ok (lq_kind p)) (PInt 777))))
  | o :: rest =>
      let sv := encode (lq_value (lq_kind p) o) in            (* f returns a constructor expression with a payload, or None of Option *)
      (* OpVar: `R t = f(i);` is a declaration executed again - its slot is threaded like every other one *)
      let '(slot', opnd) := match lq_opnd p with
                            | OpCall => (slot, sv)
                            | OpVar => let r := m_declare erase slot (lift (m_decl_from_ret (RStruct sv))) in (Some r, flat r)
                            end in
      match m_qmark (lq_kind p) opnd with
      | QBad => ([NEIter k], inr XQBad)
      | QThrow r => ([NEIter k], inl r)
      | QVal z =>
          match lq_ctx p with
          | QRet => ([NEIter k], inl (encode (mkC (v_ok (lq_kind p)) (PInt z))))
          | c =>
              let post := match c with QStmt => NEPost k LfNo | _ => NEPost k (LfInt (0 + z)) end in
              let '(evs, r) := lq_loop erase p (S k) slot' rest in
              (NEIter k :: post :: evs, r)
          end
      end
  end.
Definition lq_ty (k : rkind) : nty := match k with KResult => TRes TInt TStr | KOption => TOpt TInt end.
Definition lq_finish (k : rkind) (evs : list nev) (sv : nvar) : nresult :=
  let o := n_match_run (lq_ty k) sv (q_arms k) in
  match snd o with XOk => mkNR (evs ++ fst o ++ [NEAfter]) XOk | x => mkNR evs x end.
Definition m_run_lq (p : progLQ) : nresult :=
  let '(evs, r) := lq_loop true p 0 None (lq_outs p) in
  match r with inr x => mkNR evs x | inl sv => lq_finish (lq_kind p) evs (lift sv) end.
Fixpoint s_lq_loop (p : progLQ) (k : nat) (outs : list qout) : list nev * cval :=
  match outs with
  | [] => ([], mkC (v_ok (lq_kind p)) (PInt 777))
  | QOFail e :: _ => ([NEIter k], lq_value (lq_kind p) (QOFail e))
  | QOOk z :: rest =>
      match lq_ctx p with
      | QRet => ([NEIter k], mkC (v_ok (lq_kind p)) (PInt z))
      | c =>
          let post := match c with QStmt => NEPost k LfNo | _ => NEPost k (LfInt z) end in
          let '(evs, r) := s_lq_loop p (S k) rest in (NEIter k :: post :: evs, r)
      end
  end.
Definition s_run_lq (p : progLQ) : nresult :=
  let '(evs, c) := s_lq_loop p 0 (lq_outs p) in
  let o := s_match_run (lq_ty (lq_kind p)) (nval_of_cval c) (q_arms (lq_kind p)) in
  match snd o with XOk => mkNR (evs ++ fst o ++ [NEAfter]) XOk | x => mkNR evs x end.
(* a failing string payload does not survive `R t = f(i);` (C13-decl-from-call-drops-string) and must not be empty *)
Definition safe_lq (p : progLQ) : bool :=
  forallb (fun o => match o with
                    | QOOk _ => true
                    | QOFail e => match lq_kind p with
                                  | KOption => true
                                  | KResult => good_payload e && match lq_opnd p with OpVar => negb (is_strp e) | OpCall => true end
                                  end
                    end) (lq_outs p).

(* ------------------------------------------------------------------------------------------ *)
(* 9. Generator support (no theorem speaks about it): which kind of Variable every binding     *)
(*    name receives in every execution of a family-L body. Bindings stay in the scope of the   *)
(*    function that holds the match; a name bound to two kinds in one run meets the recorded    *)
(*    defects C13-binding-name-reuse / -string-then-int (stale or crashing bindings), so the   *)
(*    generators keep one kind per name: 0 integer, 1 string, 2 struct, 3 enum                 *)
(* ------------------------------------------------------------------------------------------ *)
Definition bkind (b : bound) : nat :=
  match b with
  | BdInt _ => 0%nat | BdStr _ => 1%nat
  | BdObj (NVRec _) => 2%nat | BdObj (NVEnum _ _ _ _ _) => 3%nat | BdObj NVInt => 0%nat
  end.
Fixpoint consume_kinds (t : nty) (path : list nat) (b : bound) : list (list nat * nat) :=
  (path, bkind b) ::
  match b with
  | BdObj (NVEnum x true i s asc) =>
      match t with
      | TOpt a => if str_eqb x (s2l "Some") then consume_kinds a (path ++ [0%nat]) (n_bound i s asc) else []
      | TGen n1 a _ => if str_eqb x n1 then consume_kinds a (path ++ [0%nat]) (n_bound i s asc) else []
      | TRes a e => if str_eqb x (s2l "Ok") then consume_kinds a (path ++ [0%nat]) (n_bound i s asc)
                    else if str_eqb x (s2l "Err") then consume_kinds e (path ++ [1%nat]) (n_bound i s asc) else []
      | TUsr n1 a n2 b' n3 c _ =>
          if str_eqb x n1 then consume_kinds a (path ++ [0%nat]) (n_bound i s asc)
          else if str_eqb x n2 then consume_kinds b' (path ++ [1%nat]) (n_bound i s asc)
          else if str_eqb x n3 then consume_kinds c (path ++ [2%nat]) (n_bound i s asc) else []
      | _ => []
      end
  | _ => []
  end.
Definition match_kinds (t : nty) (sv : nvar) (arms : list pattern) : list (list nat * nat) :=
  match sv with
  | NVEnum x h i s asc =>
      match mech_match (flat sv) arms with
      | ArmOk k VNo => []
      | ArmOk k _ => consume_kinds (payload_ty t x) [k] (n_bound i s asc)
      | _ => []
      end
  | _ => []
  end.
Fixpoint l_kinds_loop (p : progL) (sl : slots) (w : nvar) (vals : list nval) : list (list (list nat * nat)) :=
  match vals with
  | [] => []
  | v :: rest =>
      let '(sl', w', _) := l_iter true sl w p v in
      let cur := if is_direct (pl_final p) then NVInt
                 else ls_cur (fold_left (l_step true) (pl_steps p) (l_source true sl w p v)) in
      match pl_final p with
      | FinObs | FinVal => []
      | _ => match l_scrutinee p v cur with inl sv => match_kinds (pl_ty p) sv (pl_arms p) | inr _ => [] end
      end :: l_kinds_loop p sl' w' rest
  end.
Definition l_kinds (p : progL) : list (list (list nat * nat)) :=
  l_kinds_loop p [] (lift (encode (pl_winit p))) (pl_vals p).
