(* C13 - enum values through declaration, assignment, argument passing and return (family A). *)
From Coq Require Import List ZArith Bool Ascii String Arith Lia.
From Cb Require Import C13.Model C13.MatchLemmas.
Import ListNotations.
Local Open Scope Z_scope.

(* steps that keep a value of the given payload shape intact in the pinned code *)
Definition step_ok (c : cval) (s : step) : bool :=
  match s with
  | StAsgCons _ => false
  | StDeclVar => true
  | StDeclCall => match c_payload c with PInt _ => true | _ => false end
  | _ => match c_payload c with PNone => false | _ => true end
  end.

Definition has_payload (c : cval) : Prop := c_payload c <> PNone.

Lemma encode_flags : forall c, s_enum (encode c) = true.
Proof. intros [v p]; destruct p; reflexivity. Qed.
Lemma encode_has : forall c, s_has (encode c) = match c_payload c with PNone => false | _ => true end.
Proof. intros [v p]; destruct p; reflexivity. Qed.

Lemma eval_var_encode : forall c, c_payload c <> PNone -> m_eval_var (encode c) = Some (encode c).
Proof. intros [v p] H; destruct p; simpl in *; [congruence|reflexivity|reflexivity]. Qed.
Lemma pass_encode : forall c, c_payload c <> PNone -> m_pass (encode c) = encode c.
Proof. intros c H. unfold m_pass. rewrite eval_var_encode; auto. Qed.
Lemma call_idf_encode : forall c, c_payload c <> PNone -> m_call_idf (encode c) = RStruct (encode c).
Proof. intros c H. unfold m_call_idf. rewrite pass_encode; auto. unfold m_return_var. rewrite encode_flags. reflexivity. Qed.
Lemma decl_from_ret_int : forall v z, m_decl_from_ret (RStruct (encode (mkC v (PInt z)))) = encode (mkC v (PInt z)).
Proof. reflexivity. Qed.
Lemma decl_from_ret_none : forall v, m_decl_from_ret (RStruct (encode (mkC v PNone))) = encode (mkC v PNone).
Proof. reflexivity. Qed.

Lemma step_preserves : forall c s, c_payload c <> PStr [] -> step_ok c s = true -> m_step (encode c) s = encode c.
Proof.
  intros [v p] s Hne Hok. destruct s; simpl in *.
  - unfold m_decl_from_var. rewrite encode_flags. reflexivity.
  - destruct p; try discriminate. reflexivity.
  - destruct p; try discriminate; reflexivity.
  - destruct p; try discriminate; reflexivity.
  - discriminate.
  - destruct p; try discriminate; reflexivity.
Qed.

Lemma enum_value_preserved_l : forall steps c, c_payload c <> PStr [] ->
  forallb (step_ok c) steps = true -> fold_left m_step steps (encode c) = encode c.
Proof.
  induction steps as [|s rest IH]; intros c Hne Hok; simpl in *; [reflexivity|].
  apply andb_true_iff in Hok. destruct Hok as [H1 H2].
  rewrite step_preserves by assumption. apply IH; assumption.
Qed.

(* the Spec state does not move unless a constructor is assigned *)
Lemma s_steps_id : forall steps c, existsb is_asgcons steps = false -> fold_left s_step steps c = c.
Proof.
  induction steps as [|s rest IH]; intros c H; simpl in *; [reflexivity|].
  apply orb_false_iff in H. destruct H as [H1 H2]. destruct s; simpl in *; try discriminate; apply IH; assumption.
Qed.

Lemma forallb_impl : forall (A : Type) (f g : A -> bool) l,
  (forall x, f x = true -> g x = true) -> forallb f l = true -> forallb g l = true.
Proof.
  intros A f g l H. induction l; simpl; [reflexivity|]. intro H0. apply andb_true_iff in H0.
  destruct H0. apply andb_true_iff. split; auto.
Qed.

Lemma no_exists_forall : forall (A : Type) (f : A -> bool) l,
  existsb f l = false -> forallb (fun x => negb (f x)) l = true.
Proof.
  intros A f l. induction l; simpl; [reflexivity|]. intro H. apply orb_false_iff in H. destruct H as [H1 H2].
  rewrite H1. simpl. auto.
Qed.

Lemma steps_ok_int : forall v z steps, existsb is_asgcons steps = false ->
  forallb (step_ok (mkC v (PInt z))) steps = true.
Proof.
  intros v z steps H. apply no_exists_forall in H. eapply forallb_impl; [|exact H].
  intros s Hs. destruct s; simpl in *; try reflexivity. discriminate.
Qed.
Lemma steps_ok_str : forall v s steps, existsb is_asgcons steps = false -> existsb is_declcall steps = false ->
  forallb (step_ok (mkC v (PStr s))) steps = true.
Proof.
  intros v s steps H1 H2. induction steps as [|a rest IH]; simpl in *; [reflexivity|].
  apply orb_false_iff in H1. apply orb_false_iff in H2. destruct H1, H2.
  rewrite IH by assumption. destruct a; simpl in *; try discriminate; reflexivity.
Qed.
Lemma steps_ok_none : forall v steps, forallb is_declvar steps = true ->
  forallb (step_ok (mkC v PNone)) steps = true.
Proof.
  intros v steps H. eapply forallb_impl; [|exact H]. intros s Hs. destruct s; simpl in *; try discriminate. reflexivity.
Qed.

(* state of a conforming program just before the consumer: the value as first stored *)
Lemma m_state_safe : forall p, safe_a p = true -> is_direct (a_final p) = false -> m_state p = encode (a_val p).
Proof.
  intros [bi [v pl] src steps fin arms] Hs Hd. unfold safe_a in Hs. simpl in *.
  apply andb_true_iff in Hs. destruct Hs as [Hac Hs]. apply negb_true_iff in Hac.
  unfold m_state. simpl.
  destruct pl as [|z|s].
  - (* PNone *)
    assert (Hsrc : m_source bi (mkC v PNone) src = encode (mkC v PNone) /\ forallb is_declvar steps = true).
    { destruct fin; simpl in *; try discriminate.
      - apply andb_true_iff in Hs. destruct Hs as [Hf Hsrc]. split; [|exact Hf].
        destruct src; try reflexivity. simpl in Hsrc. subst bi. reflexivity.
      - apply andb_true_iff in Hs. destruct Hs as [Hf Hsrc]. split; [|exact Hf].
        destruct src; try reflexivity. simpl in Hsrc. subst bi. reflexivity. }
    destruct Hsrc as [-> Hf]. apply enum_value_preserved_l; [simpl; congruence|].
    apply steps_ok_none. exact Hf.
  - assert (Hsrc : m_source bi (mkC v (PInt z)) src = encode (mkC v (PInt z))) by (destruct src; reflexivity).
    rewrite Hsrc. apply enum_value_preserved_l; [simpl; congruence|]. apply steps_ok_int. exact Hac.
  - apply andb_true_iff in Hs. destruct Hs as [Hne Hs]. rewrite Hd in Hs. simpl in Hs.
    apply andb_true_iff in Hs. destruct Hs as [Hsrc Hdc]. apply negb_true_iff in Hdc.
    destruct src; try discriminate. simpl.
    apply enum_value_preserved_l; [simpl; destruct s; [discriminate|congruence]|].
    apply steps_ok_str; assumption.
Qed.

Lemma s_state_safe : forall p, safe_a p = true -> s_state p = a_val p.
Proof.
  intros p Hs. unfold s_state. destruct (is_direct (a_final p)); [reflexivity|].
  unfold safe_a in Hs. apply andb_true_iff in Hs. destruct Hs as [Hac _]. apply negb_true_iff in Hac.
  apply s_steps_id. exact Hac.
Qed.

Lemma of_ret_encode : forall c, of_ret (RStruct (encode c)) = inl (encode c).
Proof. intro c. unfold of_ret. rewrite encode_flags. reflexivity. Qed.
Lemma return_cons_encode : forall bi c, (c_payload c <> PNone \/ bi = true) -> m_return_cons bi c = RStruct (encode c).
Proof. intros bi [v pl] [H|H]; destruct pl; simpl in *; try congruence; subst; reflexivity. Qed.

Definition is_obs (f : final) : bool := match f with FinObs | FinVal => true | _ => false end.

Lemma good_of_safe : forall p, safe_a p = true -> is_obs (a_final p) = false ->
  good_for_match (c_payload (a_val p)) = true.
Proof.
  intros [bi [v pl] src steps fin arms] Hs Ho. unfold safe_a in Hs. simpl in *.
  apply andb_true_iff in Hs. destruct Hs as [_ Hs].
  destruct pl as [|z|s]; simpl; [reflexivity|reflexivity|].
  apply andb_true_iff in Hs. destruct Hs as [Hne _]. exact Hne.
Qed.

Lemma scrutinee_of_safe : forall p st, safe_a p = true -> is_obs (a_final p) = false ->
  (is_direct (a_final p) = false -> st = encode (a_val p)) ->
  m_scrutinee p st = inl (encode (a_val p)).
Proof.
  intros [bi [v pl] src steps fin arms] st Hs Ho Hst. unfold safe_a in Hs. simpl in *.
  apply andb_true_iff in Hs. destruct Hs as [_ Hs]. unfold m_scrutinee. simpl.
  destruct fin; simpl in *; try discriminate.
  - rewrite (Hst eq_refl). rewrite encode_flags. reflexivity.
  - rewrite (Hst eq_refl). destruct pl as [|z|s]; [discriminate| |];
      (rewrite call_idf_encode by (simpl; congruence)); apply of_ret_encode.
  - rewrite return_cons_encode; [apply of_ret_encode|]. simpl.
    destruct pl as [|z|s]; [right; exact Hs|left; congruence|left; congruence].
  - unfold m_return_var. rewrite encode_flags. apply of_ret_encode.
  - destruct pl as [|z|s]; [discriminate|reflexivity|reflexivity].
Qed.

Lemma transport_refines_l : forall p, safe_a p = true -> m_run_a p = s_run_a p.
Proof.
  intros p Hs. pose proof (s_state_safe p Hs) as Hss.
  unfold m_run_a, s_run_a. rewrite Hss.
  destruct (is_obs (a_final p)) eqn:Ho.
  - assert (Hd : is_direct (a_final p) = false) by (destruct (a_final p); simpl in *; congruence).
    rewrite (m_state_safe p Hs Hd). rewrite Hd.
    destruct p as [bi [v pl] src steps fin arms]. simpl in *.
    unfold safe_a in Hs. simpl in Hs. apply andb_true_iff in Hs. destruct Hs as [_ Hs].
    destruct fin; simpl in Ho; try discriminate.
    + rewrite encode_flags, variant_encode. reflexivity.
    + rewrite encode_flags. destruct pl as [|z|s]; simpl in *; [discriminate|reflexivity|].
      apply andb_true_iff in Hs. destruct Hs as [Hne _]. destruct s; [discriminate|reflexivity].
  - rewrite (scrutinee_of_safe p (m_state p) Hs Ho (m_state_safe p Hs)).
    rewrite variant_encode. rewrite (match_refines_l _ _ (good_of_safe p Hs Ho)).
    destruct (a_final p); simpl in Ho; try discriminate; reflexivity.
Qed.

(* no arm applies: the run stops with the error, nothing is printed - not even the statement after the match *)
Lemma match_no_arm_run_l : forall p, a_final p = FinVar -> s_enum (m_state p) = true ->
  (forall q, In q (a_arms p) -> arm_matches (m_state p) q = false) ->
  m_run_a p = mkR [] (XNonExhaustive (s_variant (m_state p))).
Proof.
  intros p Hf He Hno. unfold m_run_a, m_scrutinee. rewrite Hf, He.
  rewrite (proj2 (match_no_arm_l (m_state p) (a_arms p)) Hno). reflexivity.
Qed.

(* ---------------------------------------------------------------- the defects, as witnesses *)
Definition arms_ab : list pattern := [PatVar (s2l "A") BName; PatVar (s2l "B") BName; PatVar (s2l "C") BNo].

(* v = T::B("s") on a variable holding A(7): dropped *)
Lemma assign_constructor_refuted_l :
  let p := mkA false (mkC (s2l "A") (PInt 7)) SrcCons [StAsgCons (mkC (s2l "B") (PStr (s2l "s")))] FinVar arms_ab in
  r_events (m_run_a p) = [EArm 0 (VInt 7); EAfter] /\ r_events (s_run_a p) = [EArm 1 (VStr (s2l "s")); EAfter].
Proof. vm_compute. split; reflexivity. Qed.

(* T v = f(); loses a string payload *)
Lemma decl_from_call_string_refuted_l :
  let p := mkA false (mkC (s2l "B") (PStr (s2l "s"))) SrcCall [] FinVar arms_ab in
  r_events (m_run_a p) = [EArm 1 (VInt 0); EAfter] /\ r_events (s_run_a p) = [EArm 1 (VStr (s2l "s")); EAfter].
Proof. vm_compute. split; reflexivity. Qed.

(* a payload-less variant: passed as an argument it stops being an enum (error), returned as a literal from a
   user enum it loses its name, assigned from a variable it leaves the old value in place *)
Lemma payloadless_refuted_l :
  let c := mkC (s2l "C") PNone in
  let d := mkC (s2l "A") (PInt 1) in
  m_run_a (mkA false c SrcCons [StParam] FinVar arms_ab) = mkR [] XNotEnum /\
  m_run_a (mkA false c SrcCall [] FinVar arms_ab) = mkR [] (XNonExhaustive []) /\
  r_events (m_run_a (mkA false c SrcCons [StAsgVar d] FinVar arms_ab)) = [EArm 0 (VInt 1); EAfter] /\
  (forall steps src, r_events (s_run_a (mkA false c src steps FinVar arms_ab)) =
                     if existsb is_asgcons steps then r_events (s_run_a (mkA false c src steps FinVar arms_ab))
                     else EArm 2 VNo :: EAfter :: backs (depth_of steps)).
Proof.
  cbv zeta. repeat split; try (vm_compute; reflexivity).
  intros steps src. destruct (existsb is_asgcons steps) eqn:E; [reflexivity|].
  unfold s_run_a, s_state. simpl. rewrite s_steps_id by exact E. reflexivity.
Qed.
