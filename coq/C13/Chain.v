(* C13 - chains of functions propagating with ? (family Q): any number of links. *)
From Coq Require Import List ZArith Bool Ascii String Arith Lia.
From Cb Require Import C13.Model C13.MatchLemmas.
Import ListNotations.
Local Open Scope Z_scope.

Definition enters (i n : nat) : list ev := map EEnter (seq i n).

(* e? on the Err/None a link produced: evaluate_error_propagation rebuilds exactly the same stored value *)
Lemma qmark_fail : forall k l lf, opnd_ok k l lf = true ->
  m_qmark k (q_operand (l_opnd l) (encode (fail_cval k lf))) = QThrow (encode (fail_cval k lf)).
Proof.
  intros k [c p o] [cf pf of] H. unfold opnd_ok in H. simpl in *.
  destruct o; destruct k; destruct pf; simpl in *; try discriminate; reflexivity.
Qed.

Lemma qmark_ok_int : forall k o z, m_qmark k (q_operand o (encode (mkC (v_ok k) (PInt z)))) = QVal z.
Proof. intros k o z. destruct k; destruct o; reflexivity. Qed.

Lemma fail_not_ok : forall k l, str_eqb (c_variant (fail_cval k l)) (v_ok k) = false.
Proof. intros k l. destruct k; reflexivity. Qed.

(* ---------------------------------------------------------------- Err/None: the same value, at once *)
(* the links above the failing one read its Err/None through an operand form that keeps it *)
Definition above_ok (k : rkind) (ls : list link) (d : nat) : Prop :=
  forall lf, nth_error ls d = Some lf -> forall j l, (j < d)%nat -> nth_error ls j = Some l -> opnd_ok k l lf = true.

Lemma qmark_err_l : forall ls k okp d i, (d < List.length ls)%nat -> above_ok k ls d ->
  m_chain k okp (i + d) i ls =
    (enters i (S d), match nth_error ls d with Some l => inl (encode (fail_cval k l)) | None => inr XUnmodelled end).
Proof.
  induction ls as [|l rest IH]; intros k okp d i Hd Hab; simpl in Hd; [lia|].
  destruct d as [|d'].
  - simpl. replace (i + 0)%nat with i by lia. rewrite Nat.eqb_refl. reflexivity.
  - cbn [m_chain]. assert (Hne : Nat.eqb (i + S d') i = false) by (apply Nat.eqb_neq; lia).
    rewrite Hne.
    destruct rest as [|l2 rest2]; [simpl in Hd; lia|].
    replace (i + S d')%nat with (S i + d')%nat by lia.
    rewrite (IH k okp d' (S i)); [|simpl in *; lia|].
    + cbn [nth_error]. destruct (nth_error (l2 :: rest2) d') as [lf|] eqn:En.
      * rewrite (qmark_fail k l lf).
        -- unfold enters. cbn [seq map]. destruct (l_ctx l); reflexivity.
        -- apply (Hab lf En 0%nat l); [lia|reflexivity].
      * apply nth_error_None in En. simpl in *. lia.
    + intros lf Hlf j l' Hj Hl'. apply (Hab lf Hlf (S j) l'); [lia|exact Hl'].
Qed.

(* every link reads with the call form: the condition holds whatever fails *)
Lemma above_ok_calls : forall k ls d, (forall l, In l ls -> l_opnd l = OpCall) -> above_ok k ls d.
Proof.
  intros k ls d H lf _ j l _ Hl. unfold opnd_ok. rewrite (H l (nth_error_In _ _ Hl)). reflexivity.
Qed.
(* the failing payload is an integer, or the chain is an Option chain: the condition holds whatever the operand forms *)
Lemma above_ok_nonstring : forall k ls d,
  (k = KOption \/ forall lf, nth_error ls d = Some lf -> is_strp (l_err lf) = false) -> above_ok k ls d.
Proof.
  intros k ls d H lf Hlf j l _ _. unfold opnd_ok. destruct (l_opnd l); [reflexivity|].
  destruct H as [->|H]; [reflexivity|]. destruct k; [|reflexivity]. rewrite (H lf Hlf). reflexivity.
Qed.

(* ---------------------------------------------------------------- Ok/Some: exactly the payload *)
Definition posts_carry (z : Z) (evs : list ev) : Prop := forall j b, In (EPost j b) evs -> b = VInt z.

Lemma qmark_ok_l : forall ls k z sel i, ls <> [] -> existsb is_qstmt ls = false ->
  (forall d, (d < List.length ls)%nat -> sel <> (i + d)%nat) ->
  exists evs, m_chain k (PInt z) sel i ls = (evs, inl (encode (mkC (v_ok k) (PInt z)))) /\
              posts_carry z evs /\
              (forall d, (d < List.length ls)%nat -> In (EEnter (i + d)) evs).
Proof.
  induction ls as [|l rest IH]; intros k z sel i Hne Hq Hsel; [congruence|].
  cbn [m_chain]. assert (Hi : Nat.eqb sel i = false).
  { apply Nat.eqb_neq. specialize (Hsel 0%nat). simpl in Hsel. intro. apply Hsel; lia. }
  rewrite Hi. simpl in Hq. apply orb_false_iff in Hq. destruct Hq as [Hl Hq].
  destruct rest as [|l2 rest2].
  - exists [EEnter i]. split; [reflexivity|]. split.
    + intros j b [H|[]]. discriminate.
    + intros d Hd. simpl in Hd. assert (d = 0%nat) by lia. subst. replace (i + 0)%nat with i by lia. left. reflexivity.
  - destruct (IH k z sel (S i)) as (evs & He & Hp & Hen); [discriminate|exact Hq| |].
    { intros d Hd. specialize (Hsel (S d)). simpl in *. intro. apply Hsel; lia. }
    rewrite He. rewrite qmark_ok_int. unfold is_qstmt in Hl.
    assert (Hen' : forall evs', (forall e, In e evs -> In e evs') -> In (EEnter i) evs' ->
                   forall d, (d < List.length (l :: l2 :: rest2))%nat -> In (EEnter (i + d)) evs').
    { intros evs' Hsub H0 d Hd. destruct d; [replace (i + 0)%nat with i by lia; exact H0|].
      apply Hsub. replace (i + S d)%nat with (S i + d)%nat by lia. apply Hen. simpl in *. lia. }
    destruct (l_ctx l) eqn:Ec; try discriminate.
    + (* QDecl *)
      exists (EEnter i :: evs ++ [EPost i (VInt z)]). split; [reflexivity|]. split.
      * intros j b [H|H]; [discriminate|]. apply in_app_or in H. destruct H as [H|[H|[]]]; [eapply Hp; exact H|].
        inversion H; reflexivity.
      * apply Hen'; [|left; reflexivity]. intros e He'. right. apply in_or_app. left. exact He'.
    + (* QAsg *)
      exists (EEnter i :: evs ++ [EPost i (VInt z)]). split; [reflexivity|]. split.
      * intros j b [H|H]; [discriminate|]. apply in_app_or in H. destruct H as [H|[H|[]]]; [eapply Hp; exact H|].
        inversion H; reflexivity.
      * apply Hen'; [|left; reflexivity]. intros e He'. right. apply in_or_app. left. exact He'.
    + (* QRet *)
      exists (EEnter i :: evs). split; [reflexivity|]. split.
      * intros j b [H|H]; [discriminate|]. eapply Hp; exact H.
      * apply Hen'; [|left; reflexivity]. intros e He'. right. exact He'.
    + (* QBin *)
      exists (EEnter i :: evs ++ [EPost i (VInt z)]). split; [reflexivity|]. split.
      * intros j b [H|H]; [discriminate|]. apply in_app_or in H. destruct H as [H|[H|[]]]; [eapply Hp; exact H|].
        inversion H; reflexivity.
      * apply Hen'; [|left; reflexivity]. intros e He'. right. apply in_or_app. left. exact He'.
Qed.

Lemma existsb_firstn_all : forall (A : Type) (f : A -> bool) l n, existsb f l = false -> existsb f (firstn n l) = false.
Proof.
  intros A f l. induction l as [|a l IH]; intros n H; destruct n; simpl in *; try reflexivity.
  apply orb_false_iff in H. destruct H as [H1 H2]. rewrite H1. simpl. apply IH. exact H2.
Qed.

(* the successful run starts with all the `enter` lines: the failing run's transcript is a prefix of it *)
Lemma enters_S : forall i n, enters i (S n) = EEnter i :: enters (S i) n.
Proof. reflexivity. Qed.

Lemma ok_events_shape : forall ls k z sel i, ls <> [] -> existsb is_qstmt ls = false ->
  (forall d, (d < List.length ls)%nat -> sel <> (i + d)%nat) ->
  exists tail, fst (m_chain k (PInt z) sel i ls) = enters i (List.length ls) ++ tail.
Proof.
  induction ls as [|l rest IH]; intros k z sel i Hne Hq Hsel; [congruence|].
  cbn [m_chain]. assert (Hi : Nat.eqb sel i = false).
  { apply Nat.eqb_neq. specialize (Hsel 0%nat). simpl in Hsel. intro. apply Hsel; lia. }
  rewrite Hi. simpl in Hq. apply orb_false_iff in Hq. destruct Hq as [Hl Hq].
  destruct rest as [|l2 rest2].
  - exists []. reflexivity.
  - assert (Hsel' : forall d, (d < List.length (l2 :: rest2))%nat -> sel <> (S i + d)%nat).
    { intros d Hd. specialize (Hsel (S d)). simpl in *. intro. apply Hsel; lia. }
    destruct (qmark_ok_l (l2 :: rest2) k z sel (S i)) as (evs & He & _ & _); [discriminate|exact Hq|exact Hsel'|].
    destruct (IH k z sel (S i)) as (tail & Ht); [discriminate|exact Hq|exact Hsel'|].
    rewrite He in Ht. cbn [fst] in Ht. rewrite He. rewrite qmark_ok_int. unfold is_qstmt in Hl.
    change (List.length (l :: l2 :: rest2)) with (S (List.length (l2 :: rest2))). rewrite enters_S.
    destruct (l_ctx l); try discriminate; simpl fst; rewrite Ht.
    + exists (tail ++ [EPost i (VInt z)]). rewrite <- app_assoc. reflexivity.
    + exists (tail ++ [EPost i (VInt z)]). rewrite <- app_assoc. reflexivity.
    + exists tail. reflexivity.
    + exists (tail ++ [EPost i (VInt z)]). rewrite <- app_assoc. reflexivity.
Qed.

Lemma enters_app : forall i a b, enters i (a + b) = enters i a ++ enters (i + a) b.
Proof. intros. unfold enters. rewrite seq_app, map_app. reflexivity. Qed.

Lemma qmark_err_prefix_l : forall ls k z d i sel0, (d < List.length ls)%nat -> above_ok k ls d ->
  existsb is_qstmt ls = false ->
  (forall d', (d' < List.length ls)%nat -> sel0 <> (i + d')%nat) ->
  exists rest, fst (m_chain k (PInt z) sel0 i ls) = fst (m_chain k (PInt z) (i + d) i ls) ++ rest.
Proof.
  intros ls k z d i sel0 Hd Hab Hq Hsel.
  assert (Hne : ls <> []) by (destruct ls; [simpl in Hd; lia|discriminate]).
  destruct (ok_events_shape ls k z sel0 i Hne Hq Hsel) as (tail & Ht).
  rewrite Ht. rewrite (qmark_err_l ls k (PInt z) d i Hd Hab).
  simpl fst. replace (List.length ls) with (S d + (List.length ls - S d))%nat by lia.
  rewrite enters_app. rewrite <- app_assoc. eexists. reflexivity.
Qed.

(* ---------------------------------------------------------------- refinement on the conforming fragment *)
Definition shape (k : rkind) (z : Z) (ls : list link) (c : cval) : Prop :=
  (c = mkC (v_ok k) (PInt z) \/ c = mkC (v_ok k) (PInt 100)) \/ (exists l, In l ls /\ c = fail_cval k l).

Lemma chain_refines : forall ls k z sel i, ls <> [] ->
  (forall l lf, In l ls -> In lf ls -> opnd_ok k l lf = true) ->
  exists evs c, s_chain k (PInt z) sel i ls = (evs, inl c) /\
                m_chain k (PInt z) sel i ls = (evs, inl (encode c)) /\ shape k z ls c.
Proof.
  induction ls as [|l rest IH]; intros k z sel i Hne Hop; [congruence|].
  cbn [m_chain s_chain]. destruct (Nat.eqb sel i) eqn:Ei.
  - exists [EEnter i], (fail_cval k l). repeat split. right. exists l. split; [left; reflexivity|reflexivity].
  - destruct rest as [|l2 rest2].
    + exists [EEnter i], (mkC (v_ok k) (PInt z)). repeat split. left. left. reflexivity.
    + destruct (IH k z sel (S i)) as (evs & c & Hs & Hm & Hsh); [discriminate| |].
      { intros l' lf' H1 H2. apply Hop; right; assumption. }
      rewrite Hs, Hm. destruct Hsh as [[Hok|Hok]|(lf & Hin & Hf)].
      * subst c. rewrite qmark_ok_int. simpl c_variant. rewrite str_eqb_refl.
        destruct (l_ctx l).
        -- eexists; eexists; repeat split. left; left; reflexivity.
        -- eexists; eexists; repeat split. left; left; reflexivity.
        -- eexists; eexists; repeat split. left; left; reflexivity.
        -- eexists; eexists; repeat split. left; left; reflexivity.
        -- eexists; eexists; repeat split. left; right; reflexivity.
      * subst c. rewrite qmark_ok_int. simpl c_variant. rewrite str_eqb_refl.
        destruct (l_ctx l).
        -- eexists; eexists; repeat split. left; right; reflexivity.
        -- eexists; eexists; repeat split. left; right; reflexivity.
        -- eexists; eexists; repeat split. left; right; reflexivity.
        -- eexists; eexists; repeat split. left; right; reflexivity.
        -- eexists; eexists; repeat split. left; right; reflexivity.
      * (* a link below failed: every context lets the Err/None through *)
        subst c. rewrite (qmark_fail k l lf) by (apply Hop; [left; reflexivity|right; exact Hin]). rewrite fail_not_ok.
        exists (EEnter i :: evs), (fail_cval k lf). split; [reflexivity|]. split.
        -- destruct (l_ctx l); reflexivity.
        -- right. exists lf. split; [right; exact Hin|reflexivity].
Qed.

Lemma chain_refines_run : forall p, safe_q p = true -> m_run_q p = s_run_q p.
Proof.
  intros [k ls okp sel] Hs. unfold safe_q in Hs. simpl in Hs.
  apply andb_true_iff in Hs. destruct Hs as [Hs Hopnd].
  apply andb_true_iff in Hs. destruct Hs as [Hs Hgood].
  apply andb_true_iff in Hs. destruct Hs as [Hne Hok].
  destruct okp as [|z|s]; try discriminate.
  assert (Hne' : ls <> []) by (destruct ls; [discriminate|discriminate]).
  assert (Hop : forall l lf, In l ls -> In lf ls -> opnd_ok k l lf = true).
  { intros l lf Hl Hlf. rewrite forallb_forall in Hopnd. specialize (Hopnd l Hl).
    rewrite forallb_forall in Hopnd. apply Hopnd. exact Hlf. }
  destruct (chain_refines ls k z sel 1 Hne' Hop) as (evs & c & Hsc & Hmc & Hsh).
  unfold m_run_q, s_run_q. simpl. rewrite Hsc, Hmc. rewrite variant_encode.
  assert (Hg : good_for_match (c_payload c) = true).
  { destruct Hsh as [[->| ->]|(lf & Hin & ->)]; simpl; try reflexivity.
    rewrite forallb_forall in Hgood. specialize (Hgood lf Hin).
    destruct k; simpl; [|reflexivity]. unfold good_payload in Hgood.
    destruct (l_err lf); simpl; [reflexivity|reflexivity|exact Hgood]. }
  rewrite (match_refines_l c _ Hg). reflexivity.
Qed.

(* ---------------------------------------------------------------- the defects, as witnesses *)
(* f2(x)?; as a statement (former witness of the swallowed Err, repaired by /repo d2267e2): the Err leaves f1 *)
Lemma qmark_statement_example_l :
  let p := mkQ KResult [mkL QStmt (PInt 1) OpCall; mkL QDecl (PStr (s2l "e2")) OpCall] (PInt 5) 2 in
  m_run_q p = mkR [EEnter 1; EEnter 2; EArm 1 (VStr (s2l "e2")); EAfter] XOk /\ s_run_q p = m_run_q p.
Proof. vm_compute. split; reflexivity. Qed.

(* string v = f2(x)?; with f2 returning Ok("abc"): ? reads the integer channel only; the initialiser runs twice *)
Lemma qmark_string_refuted_l :
  let p := mkQ KResult [mkL QDecl (PStr (s2l "e")) OpCall; mkL QDecl (PStr (s2l "e")) OpCall] (PStr (s2l "abc")) 0 in
  m_run_q p = mkR [EEnter 1; EEnter 2; EEnter 2; EPost 1 (VStr []); EArm 0 (VInt 0); EAfter] XOk /\
  s_run_q p = mkR [EEnter 1; EEnter 2; EPost 1 (VStr (s2l "abc")); EArm 0 (VStr (s2l "abc")); EAfter] XOk.
Proof. vm_compute. split; reflexivity. Qed.

(* R t = f2(x); long v = t?;  with f2 returning Err("e2"): the declaration drops the string, f1 returns Err(0) *)
Lemma qmark_variable_string_refuted_l :
  let p := mkQ KResult [mkL QDecl (PInt 1) OpVar; mkL QDecl (PStr (s2l "e2")) OpCall] (PInt 5) 2 in
  m_run_q p = mkR [EEnter 1; EEnter 2; EArm 1 (VInt 0); EAfter] XOk /\
  s_run_q p = mkR [EEnter 1; EEnter 2; EArm 1 (VStr (s2l "e2")); EAfter] XOk.
Proof. vm_compute. split; reflexivity. Qed.
