(* C13 - property theorems only. Statements are about the Mech model of the pinned code (Model.v:
   mech_match, encode/decode, m_step, m_chain, m_qmark, classify, try_like, m_run_a/q/t) and its relation
   to the Spec (spec_match, s_step, s_chain, spec_try, s_run_a/q/t). Proofs: MatchLemmas.v, Transport.v,
   Chain.v, Try.v, Suite.v, Seq.v (ModelSeq.v: families R and S - state carried between evaluations), Nest.v (ModelNest.v:
   struct / enum payloads and statements executed again in one scope - families L, LT, LQ). *)
From Coq Require Import List ZArith Bool Ascii String Arith.
From Cb Require Import C13.Model C13.ModelSeq C13.ModelNest C13.MatchLemmas C13.Transport C13.Chain C13.Try C13.Suite C13.Seq C13.Nest.
Import ListNotations.
Local Open Scope Z_scope.

(* ------------------------------------------------------------------ match *)
(* the arm the loop runs is exactly the first one whose pattern is `_` or names the stored variant -
   for every stored value and every arm list *)
Theorem match_first_arm : forall sv arms i,
  arm_index (mech_match sv arms) = Some i <->
  ((exists p, nth_error arms i = Some p /\ arm_matches sv p = true) /\
   (forall j p, (j < i)%nat -> nth_error arms j = Some p -> arm_matches sv p = false)).
Proof. exact match_first_arm_l. Qed.
Print Assumptions match_first_arm.

(* a named binding receives the payload the channels decode to (and only a value that has a payload binds) *)
Theorem match_binds_decoded_payload : forall sv arms i b v,
  mech_match sv arms = ArmOk i b -> nth_error arms i = Some (PatVar v BName) ->
  b = bval_of_payload (decode_payload sv) /\ s_has sv = true.
Proof. exact match_binds_payload_l. Qed.
Print Assumptions match_binds_decoded_payload.

(* no arm applies <-> the loop reports NoArm; the program then stops with the non-exhaustive error and prints
   nothing, not even the statement after the match *)
Theorem match_no_arm_fails :
  (forall sv arms, mech_match sv arms = NoArm <-> (forall p, In p arms -> arm_matches sv p = false)) /\
  (forall p, a_final p = FinVar -> s_enum (m_state p) = true ->
     (forall q, In q (a_arms p) -> arm_matches (m_state p) q = false) ->
     m_run_a p = mkR [] (XNonExhaustive (s_variant (m_state p)))).
Proof. exact (conj match_no_arm_l match_no_arm_run_l). Qed.
Print Assumptions match_no_arm_fails.

(* on every value whose payload the channels can represent (everything but the empty string), the loop is the
   property's own match *)
Theorem match_refines_spec : forall c arms, good_for_match (c_payload c) = true ->
  mech_match (encode c) arms = spec_match c arms.
Proof. exact match_refines_l. Qed.
Print Assumptions match_refines_spec.

(* the selected arm names the stored variant EXACTLY (same length, same bytes, same case) - for every stored value,
   every arm list, whatever other names the list contains *)
Theorem match_selected_name_equal : forall sv arms i v b,
  arm_index (mech_match sv arms) = Some i -> nth_error arms i = Some (PatVar v b) -> v = s_variant sv.
Proof. exact match_selected_name_equal_l. Qed.
Print Assumptions match_selected_name_equal.

(* an arm whose name differs from the stored variant in any way is passed over; in particular an arm whose name is a
   proper prefix of the stored name (arm Key, value KeyUp) and one whose name extends it (arm KeyUp, value Key) *)
Theorem match_skips_other_names :
  (forall sv v b rest k, v <> s_variant sv -> mech_match_from k sv (PatVar v b :: rest) = mech_match_from (S k) sv rest) /\
  (forall sv v t b rest k, s_variant sv = v ++ t -> t <> [] ->
     mech_match_from k sv (PatVar v b :: rest) = mech_match_from (S k) sv rest) /\
  (forall sv v t b rest k, v = s_variant sv ++ t -> t <> [] ->
     mech_match_from k sv (PatVar v b :: rest) = mech_match_from (S k) sv rest).
Proof. exact (conj match_skips_other_names_l (conj match_prefix_name_skipped_l match_extended_name_skipped_l)). Qed.
Print Assumptions match_skips_other_names.

(* sequences of match statements packaged as functions (void / returning from inside the arm / expression-bodied arms /
   inside a loop / with a nested match / inline), any functions, any calls: on the conforming fragment Mech = Spec *)
Theorem match_suite_refines_spec_partial : forall p, safe_m p = true -> m_run_m p = s_run_m p.
Proof. exact suite_refines_l. Qed.
Print Assumptions match_suite_refines_spec_partial.

(* what a call prints does not depend on the calls before it (other values met by the same match code, other functions):
   it is m_call of its own function and values; and the first failing call ends the program *)
Theorem match_suite_history_free :
  (forall fns ks1 k ks2, snd (run_prefix (m_call fns) ks1) = XOk ->
     mr_events (m_run_m (mkM fns (ks1 ++ k :: ks2))) =
       fst (run_prefix (m_call fns) ks1) ++ fst (then_ev (m_call fns k) (run_calls (m_call fns) ks2))) /\
  (forall fns ks1 k ks2, snd (run_prefix (m_call fns) ks1) = XOk -> snd (m_call fns k) <> XOk ->
     m_run_m (mkM fns (ks1 ++ k :: ks2)) =
       mkMR (fst (run_prefix (m_call fns) ks1) ++ fst (m_call fns k)) (snd (m_call fns k))).
Proof. exact (conj suite_history_free_l suite_stops_at_failure_l). Qed.
Print Assumptions match_suite_history_free.

(* hj(T::V(p)) - the constructor expression itself as an argument - arrives as an integer (recorded finding) *)
Theorem match_suite_refuted_constructor_argument :
  let p := mkM [mkF MVoid key_arms None] [mkK 0 (mkC (s2l "Key") (PInt 5)) (mkC [] PNone) true] in
  m_run_m p = mkMR [] XNotEnum /\ s_run_m p = mkMR [EM 0 0 (VInt 5); EEnd 0; EDone] XOk.
Proof. exact suite_constructor_argument_refuted_l. Qed.
Print Assumptions match_suite_refuted_constructor_argument.

(* the struct-or-integer rule for payload-less literals is a prefix test on the type name *)
Theorem builtin_rule_is_name_prefix : forall tn,
  builtin_of_name tn = true <-> (exists t, tn = s2l "Result" ++ t) \/ (exists t, tn = s2l "Option" ++ t).
Proof. exact builtin_of_name_spec_l. Qed.
Print Assumptions builtin_rule_is_name_prefix.

(* ------------------------------------------------------------------ payload channels *)
(* decode (encode p) = p for PNone, every PInt and every non-empty PStr. Missing: PStr "" *)
Theorem payload_roundtrip_partial : forall v p, p <> PStr [] -> decode (encode (mkC v p)) = mkC v p.
Proof. exact payload_roundtrip_l. Qed.
Print Assumptions payload_roundtrip_partial.

(* DESIGN.md section 7 #23: Err("") is stored exactly like Err(0) and read back as 0 *)
Theorem payload_roundtrip_refuted :
  exists c, decode (encode c) <> c /\ c = mkC (s2l "Err") (PStr []) /\ decode (encode c) = mkC (s2l "Err") (PInt 0).
Proof. exact payload_roundtrip_refuted_l. Qed.
Print Assumptions payload_roundtrip_refuted.

(* every integer payload - also outside int - is bound unchanged (was refuted before /repo b144e56) *)
Theorem match_binds_long_payload : forall v z arms,
  mech_match (encode (mkC v (PInt z))) (PatVar v BName :: arms) = ArmOk 0 (VInt z).
Proof. exact long_payload_bound_l. Qed.
Print Assumptions match_binds_long_payload.

(* ------------------------------------------------------------------ assignment, passing, return *)
(* any list of the transports that are sound for the payload's shape leaves the stored value untouched:
   declaration from a variable (all shapes); assignment from a variable or a call, argument passing (values
   with a payload); declaration from a call (integer payloads). Missing: see the _refuted theorems *)
Theorem enum_value_preserved_partial : forall steps c, c_payload c <> PStr [] ->
  forallb (step_ok c) steps = true -> fold_left m_step steps (encode c) = encode c.
Proof. exact enum_value_preserved_l. Qed.
Print Assumptions enum_value_preserved_partial.

(* whole programs of the fragment (any type kind, source, step list, consumer, arm list): Mech = Spec *)
Theorem transport_refines_spec_partial : forall p, safe_a p = true -> m_run_a p = s_run_a p.
Proof. exact transport_refines_l. Qed.
Print Assumptions transport_refines_spec_partial.

Theorem enum_value_preserved_refuted_assign_constructor :
  let p := mkA false (mkC (s2l "A") (PInt 7)) SrcCons [StAsgCons (mkC (s2l "B") (PStr (s2l "s")))] FinVar arms_ab in
  r_events (m_run_a p) = [EArm 0 (VInt 7); EAfter] /\ r_events (s_run_a p) = [EArm 1 (VStr (s2l "s")); EAfter].
Proof. exact assign_constructor_refuted_l. Qed.
Print Assumptions enum_value_preserved_refuted_assign_constructor.

Theorem enum_value_preserved_refuted_decl_from_call_string :
  let p := mkA false (mkC (s2l "B") (PStr (s2l "s"))) SrcCall [] FinVar arms_ab in
  r_events (m_run_a p) = [EArm 1 (VInt 0); EAfter] /\ r_events (s_run_a p) = [EArm 1 (VStr (s2l "s")); EAfter].
Proof. exact decl_from_call_string_refuted_l. Qed.
Print Assumptions enum_value_preserved_refuted_decl_from_call_string.

Theorem enum_value_preserved_refuted_payloadless :
  let c := mkC (s2l "C") PNone in
  let d := mkC (s2l "A") (PInt 1) in
  m_run_a (mkA false c SrcCons [StParam] FinVar arms_ab) = mkR [] XNotEnum /\
  m_run_a (mkA false c SrcCall [] FinVar arms_ab) = mkR [] (XNonExhaustive []) /\
  r_events (m_run_a (mkA false c SrcCons [StAsgVar d] FinVar arms_ab)) = [EArm 0 (VInt 1); EAfter] /\
  (forall steps src, r_events (s_run_a (mkA false c src steps FinVar arms_ab)) =
                     if existsb is_asgcons steps then r_events (s_run_a (mkA false c src steps FinVar arms_ab))
                     else EArm 2 VNo :: EAfter :: backs (depth_of steps)).
Proof. exact payloadless_refuted_l. Qed.
Print Assumptions enum_value_preserved_refuted_payloadless.

(* ------------------------------------------------------------------ e? *)
(* a chain of any length in which nobody fails and no link discards the value: every `post` line shows
   exactly the payload of the innermost Ok/Some, every function is entered, and the outermost result is that
   Ok/Some. Missing: string payloads (refuted below) *)
Theorem qmark_ok_yields_payload_partial : forall ls k z sel i, ls <> [] -> existsb is_qstmt ls = false ->
  (forall d, (d < List.length ls)%nat -> sel <> (i + d)%nat) ->
  exists evs, m_chain k (PInt z) sel i ls = (evs, inl (encode (mkC (v_ok k) (PInt z)))) /\
              posts_carry z evs /\
              (forall d, (d < List.length ls)%nat -> In (EEnter (i + d)) evs).
Proof. exact qmark_ok_l. Qed.
Print Assumptions qmark_ok_yields_payload_partial.

(* link d+1 of a chain of any length fails (any payload, also ""), whatever the contexts of the links above it
   (declaration, assignment, return operand, binary operand, expression statement) and whether they apply ? to the
   call or to a variable declared from it (side condition above_ok, discharged below): the transcript is exactly the
   d+1 `enter` lines - no statement after any ? runs - and the outermost function returns the very stored value
   the failing link built. Missing (not modelled, recorded finding): e? inside println/call arguments *)
Theorem qmark_err_returns_same_partial : forall ls k okp d i, (d < List.length ls)%nat -> above_ok k ls d ->
  m_chain k okp (i + d) i ls =
    (enters i (S d), match nth_error ls d with Some l => inl (encode (fail_cval k l)) | None => inr XUnmodelled end).
Proof. exact qmark_err_l. Qed.
Print Assumptions qmark_err_returns_same_partial.

(* the side condition above_ok (the operand form of every link above the failing one keeps the failing value) holds
   whenever all those links apply ? to the call itself, and - for operands that are variables declared from the call -
   whenever the chain is an Option chain or the failing payload is an integer. Missing: Err(string) read through a
   variable (recorded finding C13-decl-from-call-drops-string, witness below) *)
Theorem qmark_err_side_condition :
  (forall k ls d, (forall l, In l ls -> l_opnd l = OpCall) -> above_ok k ls d) /\
  (forall k ls d, (k = KOption \/ forall lf, nth_error ls d = Some lf -> is_strp (l_err lf) = false) -> above_ok k ls d).
Proof. exact (conj above_ok_calls above_ok_nonstring). Qed.
Print Assumptions qmark_err_side_condition.

Theorem qmark_err_returns_same_refuted_variable_string :
  let p := mkQ KResult [mkL QDecl (PInt 1) OpVar; mkL QDecl (PStr (s2l "e2")) OpCall] (PInt 5) 2 in
  m_run_q p = mkR [EEnter 1; EEnter 2; EArm 1 (VInt 0); EAfter] XOk /\
  s_run_q p = mkR [EEnter 1; EEnter 2; EArm 1 (VStr (s2l "e2")); EAfter] XOk.
Proof. exact qmark_variable_string_refuted_l. Qed.
Print Assumptions qmark_err_returns_same_refuted_variable_string.

(* ... and that transcript is a prefix of the transcript of the run in which nobody fails *)
Theorem qmark_err_transcript_is_prefix : forall ls k z d i sel0, (d < List.length ls)%nat -> above_ok k ls d ->
  existsb is_qstmt ls = false ->
  (forall d', (d' < List.length ls)%nat -> sel0 <> (i + d')%nat) ->
  exists rest, fst (m_chain k (PInt z) sel0 i ls) = fst (m_chain k (PInt z) (i + d) i ls) ++ rest.
Proof. exact qmark_err_prefix_l. Qed.
Print Assumptions qmark_err_transcript_is_prefix.

(* whole programs of the fragment: Mech = Spec, any number of links, failing link anywhere or nowhere *)
Theorem qmark_chain_refines_spec_partial : forall p, safe_q p = true -> m_run_q p = s_run_q p.
Proof. exact chain_refines_run. Qed.
Print Assumptions qmark_chain_refines_spec_partial.

(* DESIGN.md section 7 #24 *)
Theorem qmark_ok_yields_payload_refuted :
  let p := mkQ KResult [mkL QDecl (PStr (s2l "e")) OpCall; mkL QDecl (PStr (s2l "e")) OpCall] (PStr (s2l "abc")) 0 in
  m_run_q p = mkR [EEnter 1; EEnter 2; EEnter 2; EPost 1 (VStr []); EArm 0 (VInt 0); EAfter] XOk /\
  s_run_q p = mkR [EEnter 1; EEnter 2; EPost 1 (VStr (s2l "abc")); EArm 0 (VStr (s2l "abc")); EAfter] XOk.
Proof. exact qmark_string_refuted_l. Qed.
Print Assumptions qmark_ok_yields_payload_refuted.

(* ------------------------------------------------------------------ try / checked *)
(* for every core expression - integer-valued or string-valued (literals, parameters, concatenation, names[i], the same
   inside called functions) - and all operands: the built Result is Ok exactly when the evaluation yields a value; it then
   carries that value unchanged (integer or non-empty string); otherwise it is Err. Missing: the empty string (refuted below) *)
Theorem try_ok_iff_no_error : forall chk a b sa sb e,
  let r := teval a b sa sb e in
  (s_variant (try_like chk r) = s2l "Ok" <-> exists v, r = inl v) /\
  (forall v, r = inl v -> v <> TVStr [] ->
     try_like chk r = encode (mkC (s2l "Ok") (payload_of_tval v)) /\
     decode (try_like chk r) = mkC (s2l "Ok") (payload_of_tval v)) /\
  (forall k, r = inr k -> s_variant (try_like chk r) = s2l "Err").
Proof. exact try_ok_iff_l. Qed.
Print Assumptions try_ok_iff_no_error.

(* the integer instance in the wording of the earlier rounds *)
Theorem try_ok_iff_no_error_int : forall chk a b e,
  let r := teval a b [] [] (TEInt e) in
  (s_variant (try_like chk r) = s2l "Ok" <-> exists v, ceval a b e = inl v) /\
  (forall v, ceval a b e = inl v ->
     try_like chk r = encode (mkC (s2l "Ok") (PInt v)) /\ decode (try_like chk r) = mkC (s2l "Ok") (PInt v)) /\
  (forall k, ceval a b e = inr k -> s_variant (try_like chk r) = s2l "Err").
Proof. exact try_ok_iff_int_l. Qed.
Print Assumptions try_ok_iff_no_error_int.

(* build_result_ok writes ONE payload channel of a Variable. (1) Over the fresh Variable the code uses, the Ok decodes to
   exactly the operand's value. (2) Over ANY other Variable (one kept from an earlier evaluation): every integer Ok is read
   back correctly IF AND ONLY IF the kept string channel is empty - a string left by an earlier Ok("..") would be bound
   instead of the number - while a string Ok is always read back correctly. (3) The Err of build_result_err is read back
   correctly over any Variable (its string is never empty). So freshness of the Ok Variable is exactly what the property needs *)
Theorem try_ok_needs_fresh_variable :
  (forall v, v <> TVStr [] ->
     build_ok_t v = encode (mkC (s2l "Ok") (payload_of_tval v)) /\ decode (build_ok_t v) = mkC (s2l "Ok") (payload_of_tval v)) /\
  (forall init, ((forall z, decode (build_ok_over init (TVInt z)) = mkC (s2l "Ok") (PInt z)) <-> s_str init = []) /\
                (forall c s, decode (build_ok_over init (TVStr (c :: s))) = mkC (s2l "Ok") (PStr (c :: s)))) /\
  (forall init msg chk,
     decode (build_err_over init msg chk) = mkC (s2l "Err") (PStr (classify msg chk ++ s2l ": " ++ msg)) /\
     build_err_over fresh_var msg chk = build_err msg chk).
Proof. exact (conj build_ok_fresh_exact_l (conj build_ok_needs_fresh_l build_err_any_init_l)). Qed.
Print Assumptions try_ok_needs_fresh_variable.

(* `try (sa + sb)` with two empty strings: Ok("") is stored like Ok(0) and bound as the integer 0 (the recorded
   empty-string defect #23 reached through try/checked) *)
Theorem try_ok_iff_no_error_refuted_empty_string :
  let p := mkT false TRet 0 0 [] [] (TEStr (SCat SSA SSB)) in
  m_run_t p = mkR [EG1; EArm 0 (VInt 0); EAfter] XOk /\ s_run_t p = mkR [EG1; EArm 0 (VStr []); EAfter] XOk.
Proof. exact try_empty_string_refuted_l. Qed.
Print Assumptions try_ok_iff_no_error_refuted_empty_string.

(* Div0 and Mod0 -> DivisionByZeroError, Bounds -> IndexOutOfBoundsError, Null -> NullPointerError, a string expression
   other than a variable/literal as the argument of a string parameter -> TypeCastError, under try and under checked
   (modulo was refuted before /repo 4ea336a) *)
Theorem try_err_class : forall chk k,
  try_like chk (inr k) = encode (mkC (s2l "Err") (PStr (class_name k ++ s2l ": " ++ err_msg k))).
Proof. exact try_err_class_l. Qed.
Print Assumptions try_err_class.

(* classification of arbitrary message texts follows the order of the if-chain *)
Theorem classify_order : forall msg chk,
  let l := lower msg in
  let div := contains (s2l "division by zero") l || contains (s2l "modulo by zero") l ||
             (contains (s2l "divide") l && contains (s2l "zero") l) in
  (div = true -> classify msg chk = s2l "DivisionByZeroError") /\
  (div = false -> contains (s2l "null pointer") l = true -> classify msg chk = s2l "NullPointerError") /\
  (div = false -> contains (s2l "null pointer") l = false -> contains (s2l "nullptr") l = false ->
   contains (s2l "bounds") l = true -> classify msg chk = s2l "IndexOutOfBoundsError").
Proof. exact classify_general. Qed.
Print Assumptions classify_order.

(* `return try e;` and the declaration `R r = try e;` (in a Result function, a void function or main): the
   statement completes, the next statement runs and the Result is what the property says, for every integer or string
   expression and operands whose value is not the empty string. Missing: every other position of try/checked
   (assignment: refuted below) *)
Theorem try_program_continues_partial : forall p, safe_t p = true -> m_run_t p = s_run_t p.
Proof. exact try_refines_l. Qed.
Print Assumptions try_program_continues_partial.

(* the rest of DESIGN.md section 7 #22, for EVERY expression and operands: after `r = try e;` the next statement
   never runs (the property demands it does); in main the program stops silently with exit 0 *)
Theorem try_program_continues_refuted : forall p, (t_ctx p = TAsg \/ t_ctx p = TAsgMain) ->
  ~ In EG2 (r_events (m_run_t p)) /\ In EG2 (r_events (s_run_t p)) /\
  (t_ctx p = TAsgMain -> m_run_t p = mkR [EG1] XOk) /\
  (t_ctx p = TAsg -> m_run_t p = mkR [EG1; EAfter] XOk).
Proof. exact try_continues_refuted_l. Qed.
Print Assumptions try_program_continues_refuted.

(* ------------------------------------------------------------------ nothing is carried between evaluations *)
(* ONE variable assigned again and again: whatever it held before - any stored value, e.g. a string channel next to an
   integer channel - after `w = u;`, `w = idf(u);`, `w = mkv();`, `w = mk();` with a value that has a payload it holds exactly
   that value; a struct member takes every value (also payload-less ones) and `T x = bx.e;` reads it back *)
Theorem reassign_last_write_wins :
  (forall b w rs, has_pl (rs_val rs) = true -> rs_how rs <> RFld -> m_rassign b w rs = encode (rs_val rs)) /\
  (forall fld c, m_fld_assign fld (encode c) = encode c /\ m_decl_from_var (m_fld_assign fld (encode c)) = encode c).
Proof. exact (conj rassign_last_write_wins_l rfield_last_write_wins_l). Qed.
Print Assumptions reassign_last_write_wins.

(* a conforming assignment step, started in ANY state of the variable and of the member: it prints what the Spec prints for
   its own value (match in place or in a shared function behind a parameter) *)
Theorem reassign_history_free : forall b arms k w fld rs rest, safe_rstep rs = true ->
  m_rsteps b arms k w fld (rs :: rest) =
    then_ev (s_rlook arms k (rs_val rs)) (m_rsteps b arms (S k) (m_rassign b w rs) (m_rfield fld rs) rest).
Proof. exact reassign_step_history_free_l. Qed.
Print Assumptions reassign_history_free.

(* whole programs: any initial value, any number of assignments of changing variants and payload kinds. Missing:
   payload-less right-hand sides (refuted below) *)
Theorem reassign_refines_spec_partial : forall p, safe_r p = true -> m_run_r p = s_run_r p.
Proof. exact reassign_refines_l. Qed.
Print Assumptions reassign_refines_spec_partial.

Theorem reassign_refuted_payloadless :
  let p := mkPR false (mkC (s2l "A") (PInt 1))
                [mkRS (mkC (s2l "B") (PStr (s2l "s"))) RVar false; mkRS (mkC (s2l "D") PNone) RVar false;
                 mkRS (mkC (s2l "D") PNone) RFld false] arms_abd in
  m_run_r p = mkMR [EM 0 1 (VStr (s2l "s")); EM 1 1 (VStr (s2l "s")); EM 2 2 VNo; EDone] XOk /\
  s_run_r p = mkMR [EM 0 1 (VStr (s2l "s")); EM 1 2 VNo; EM 2 2 VNo; EDone] XOk.
Proof. exact reassign_payloadless_refuted_l. Qed.
Print Assumptions reassign_refuted_payloadless.

(* several A / Q / T programs as functions of ONE program, called in any order and any number of times (T items with the
   operands of the call, Q items with the call's failing link): on the conforming fragment Mech = Spec *)
Theorem sequence_refines_spec_partial : forall p, safe_s p = true -> m_run_s p = s_run_s p.
Proof. exact seq_refines_l. Qed.
Print Assumptions sequence_refines_spec_partial.

(* what call number n prints does not depend on the calls before it (a string-valued try before an integer-valued one, an Err
   before an Ok, another enum, the same function with other operands): "call n" and then call_with m_item - a function of its
   own item and operands; and the first call that ends in an error ends the program *)
Theorem sequence_history_free :
  (forall items cs1 c cs2, snd (seq_prefix (call_with m_item items) 0 cs1) = XOk ->
     sr_events (m_run_s (mkPS items (cs1 ++ c :: cs2))) =
       fst (seq_prefix (call_with m_item items) 0 cs1) ++
       fst (then_s (ESCall (List.length cs1) :: fst (call_with m_item items c), snd (call_with m_item items c))
                   (run_seq (call_with m_item items) (S (List.length cs1)) cs2))) /\
  (forall items cs1 c cs2, snd (seq_prefix (call_with m_item items) 0 cs1) = XOk ->
     snd (call_with m_item items c) <> XOk ->
     m_run_s (mkPS items (cs1 ++ c :: cs2)) =
       mkSR (fst (seq_prefix (call_with m_item items) 0 cs1) ++ ESCall (List.length cs1) :: fst (call_with m_item items c))
            (snd (call_with m_item items c))).
Proof. exact (conj seq_history_free_l seq_stops_at_failure_l). Qed.
Print Assumptions sequence_history_free.

(* ------------------------------------------------------------------ non-vacuity *)
(* ------------------------------------------------------------------ struct / enum payloads, statements executed again in one scope *)
(* payload := int | long | string | none | struct of scalars | enum value: every value without an empty string (at any
   depth) and without a payload-less enum value below the top level is read back exactly as it was built - variant,
   payload kind, every struct member, the inner variant and its payload, at every depth *)
Theorem nested_payload_roundtrip_partial : forall v, good_top v = true -> n_decode (n_build v) = v.
Proof. exact nested_roundtrip_l. Qed.
Print Assumptions nested_payload_roundtrip_partial.

(* the nested model is the scalar model of Model.v on values without associated_value: same construction, same transport
   steps (so every theorem above speaks about the same functions) *)
Theorem nested_model_conservative : forall steps c,
  n_build (nval_of_cval c) = lift (encode c) /\
  fold_left n_step steps (lift (encode c)) = lift (fold_left m_step steps (encode c)).
Proof. intros steps c. split; [apply build_lift|apply nested_conservative_l]. Qed.
Print Assumptions nested_model_conservative.

(* any list of steps sound for the payload's shape - declaration from a variable always; assignment, argument passing
   and return for every value with a payload, also a struct / enum payload; declaration from a call only for an integer
   payload - leaves the Variable, with its whole nested payload, unchanged *)
Theorem nested_value_preserved_partial : forall steps x p,
  forallb (nstep_ok (VE x p)) steps = true -> fold_left n_step steps (n_build (VE x p)) = n_build (VE x p).
Proof. exact nested_value_preserved_l. Qed.
Print Assumptions nested_value_preserved_partial.

(* the named binding of the selected arm is the payload: the struct with every member, the inner enum value (which
   itself reads back exactly) *)
Theorem nested_match_binds_payload : forall x q, good_nv q = true ->
  exists i s a, n_build (VE x (Some q)) = NVEnum x true i s a /\ n_bound i s a = bound_of q /\
                match q with
                | VR fs => n_bound i s a = BdObj (NVRec fs)
                | VE y p => n_bound i s a = BdObj (n_build (VE y p)) /\ n_decode (n_build (VE y p)) = VE y p
                | _ => True
                end.
Proof. exact nested_binding_l. Qed.
Print Assumptions nested_match_binds_payload.

(* the whole match statement - ANY arm list for the outer match, the inner matches the declared types dictate - on a
   built value is the property's own match on the value, for every type and every depth *)
Theorem nested_match_refines_spec : forall t v arms, good_top v = true ->
  n_match_run t (n_build v) arms = s_match_run t v arms.
Proof. exact match_run_refines. Qed.
Print Assumptions nested_match_refines_spec.

(* a declaration that runs again in the same scope: with the erase the code performs, the Variable is exactly the new
   one whatever the previous execution left; without it, the new value is stored correctly IFF the kept
   associated_value is the new one - i.e. exactly the class of change "keep the scope entry" breaks the property, and
   only through struct / enum payloads *)
Theorem redeclare_needs_erase :
  (forall slot new, m_declare true slot new = new) /\
  (forall old x h i s a, m_declare false (Some old) (NVEnum x h i s a) = NVEnum x h i s a <-> n_assoc old = a).
Proof. exact (conj declare_erase_fresh_l declare_needs_erase_l). Qed.
Print Assumptions redeclare_needs_erase.

(* one execution of a loop body - ANY program of family L, conforming or not: what it prints and the value it leaves in
   the outer variable w are functions of w and of this execution's own value; the Variables v0, v1, .. the previous
   executions left in the scope do not matter; the whole loop is the fold of that function *)
Theorem loop_history_free : forall p,
  (forall sl w v, (snd (fst (l_iter true sl w p v)), snd (l_iter true sl w p v)) = c_iter w p v) /\
  (forall vals k sl w, l_loop true p k sl w vals = c_loop p k w vals).
Proof. intro p. split; [intros; apply iter_history_free_l|apply loop_slots_irrelevant]. Qed.
Print Assumptions loop_history_free.

(* conforming loop programs (safe_l): Mech = Spec, for every type, payload kind and depth, every number of executions,
   every pipeline of declarations / assignments / parameters / the outer variable; and every single execution prints
   what the Spec prints for ITS value, from any state the earlier executions left *)
Theorem loop_refines_spec_partial :
  (forall p, safe_l p = true -> m_run_l p = s_run_l p) /\
  (forall p sl w v, safe_l p = true -> In v (pl_vals p) -> snd (l_iter true sl w p v) = s_iter p v).
Proof. exact (conj loop_refines_l loop_iteration_l). Qed.
Print Assumptions loop_refines_spec_partial.

(* the seeded class of change as a witness: the same program without the erase stops printing the executions' own
   payloads at the second execution *)
Theorem loop_without_erase_refuted :
  safe_l loop_demo = true /\ m_run_l loop_demo = s_run_l loop_demo /\ m_run_l_with false loop_demo <> s_run_l loop_demo.
Proof.
  split; [exact (proj1 loop_example_l)|]. split; [apply loop_refines_l; exact (proj1 loop_example_l)|].
  exact (proj2 (proj2 loop_without_erase_refuted_l)).
Qed.
Print Assumptions loop_without_erase_refuted.

(* the defects of the pinned code on nested payloads (known findings), as witnesses *)
Theorem nested_value_preserved_refuted_decl_from_call :
  let p := mkPL false ty_u SrcCallVar [] FinVar arms_u [v_p 3 4] w_u in
  m_run_l p = mkNR [NEIter 0] XNotStruct /\
  s_run_l p = mkNR [NEIter 0; NEArm [1%nat] (LfRec [SInt 3; SInt 4]); NEAfter; NEDone] XOk.
Proof. exact nested_decl_from_call_refuted_l. Qed.
Print Assumptions nested_value_preserved_refuted_decl_from_call.
Theorem nested_value_preserved_refuted_return_constructor :
  let p := mkPL false ty_u SrcCons [] FinMk arms_u [v_r_err (s2l "bad")] w_u in
  m_run_l p = mkNR [NEIter 0] XNotEnum /\
  s_run_l p = mkNR [NEIter 0; NEArm [2%nat; 1%nat] (LfStr (s2l "bad")); NEAfter; NEDone] XOk.
Proof. exact nested_return_constructor_refuted_l. Qed.
Print Assumptions nested_value_preserved_refuted_return_constructor.
Theorem nested_payload_roundtrip_refuted_payloadless_inner :
  let t := TOpt (TOpt TInt) in
  let p := mkPL true t SrcCons [] FinVar [PatVar (s2l "Some") BName; PatVar (s2l "None") BNo]
                [VE (s2l "Some") (Some (VE (s2l "None") None))] (mkC (s2l "None") PNone) in
  m_run_l p = mkNR [NEIter 0] XNotEnum /\
  s_run_l p = mkNR [NEIter 0; NEArm [0%nat; 1%nat] LfNo; NEAfter; NEDone] XOk.
Proof. exact nested_payloadless_inner_refuted_l. Qed.
Print Assumptions nested_payload_roundtrip_refuted_payloadless_inner.
Theorem loop_refuted_outer_assign_payloadless :
  let p := mkPL false ty_u SrcCons [LOutVar] FinVar arms_u [v_p 3 4; VE (s2l "N") None] w_u in
  m_run_l p = mkNR [NEIter 0; NEArm [1%nat] (LfRec [SInt 3; SInt 4]); NEAfter;
                    NEIter 1; NEArm [1%nat] (LfRec [SInt 3; SInt 4]); NEAfter; NEDone] XOk /\
  s_run_l p = mkNR [NEIter 0; NEArm [1%nat] (LfRec [SInt 3; SInt 4]); NEAfter;
                    NEIter 1; NEArm [3%nat] LfNo; NEAfter; NEDone] XOk.
Proof. exact loop_outer_assign_payloadless_refuted_l. Qed.
Print Assumptions loop_refuted_outer_assign_payloadless.

(* `R r = try e;` / `checked e` executed again and again with fresh operands: Mech = Spec for every expression and every
   operand list that never yields the empty string, and the Variable the previous execution left in r is irrelevant *)
Theorem loop_try_refines_spec_partial :
  (forall p, safe_lt p = true -> m_run_lt p = s_run_lt p) /\
  (forall p ops k slot, lt_loop true p k slot ops = lt_loop true p k None ops).
Proof. exact (conj loop_try_refines_l loop_try_history_free_l). Qed.
Print Assumptions loop_try_refines_spec_partial.

(* `f(i)?` executed again and again inside one function: every Ok / Some yields its own payload, the first Err / None
   ends the function with that very value and nothing after it runs - every context, both operand forms *)
Theorem loop_qmark_refines_spec_partial : forall p, safe_lq p = true -> m_run_lq p = s_run_lq p.
Proof. exact loop_qmark_refines_l. Qed.
Print Assumptions loop_qmark_refines_spec_partial.

Example safe_l_example :
  safe_l loop_demo = true /\
  m_run_l loop_demo =
    mkNR [NEIter 0; NEArm [1%nat] (LfRec [SInt 3; SInt 4]); NEAfter; NEBack 1;
          NEIter 1; NEArm [2%nat; 1%nat] (LfStr (s2l "bad")); NEAfter; NEBack 1;
          NEIter 2; NEArm [0%nat] (LfInt 5); NEAfter; NEBack 1;
          NEIter 3; NEArm [1%nat] (LfRec [SInt 7; SInt 8]); NEAfter; NEBack 1;
          NEIter 4; NEArm [2%nat; 0%nat] (LfInt 9); NEAfter; NEBack 1; NEDone] XOk.
Proof. exact loop_example_l. Qed.
Example safe_lq_lt_example :
  (let p := mkLQ KResult QDecl OpCall [QOOk 10; QOOk 20; QOFail (PStr (s2l "e2")); QOOk 40] in
   safe_lq p = true /\
   m_run_lq p = mkNR [NEIter 0; NEPost 0 (LfInt 10); NEIter 1; NEPost 1 (LfInt 20); NEIter 2;
                      NEArm [1%nat] (LfStr (s2l "e2")); NEAfter] XOk) /\
  (let p := mkLT true (TEStr (SIdx CA)) [mkLO 1 0 [] []; mkLO 3 0 [] []; mkLO 2 0 [] []] in
   safe_lt p = true /\
   m_run_lt p = mkNR [NEIter 0; NEArm [0%nat] (LfStr (s2l "bob"));
                      NEIter 1; NEArm [1%nat] (LfStr (s2l "IndexOutOfBoundsError: Array index out of bounds"));
                      NEIter 2; NEArm [0%nat] (LfStr (s2l "cy")); NEDone] XOk).
Proof. exact (conj loop_qmark_example_l loop_try_example_l). Qed.

Example safe_a_example :
  let p := mkA true (mkC (s2l "Err") (PStr (s2l "boom"))) SrcCons [StDeclVar; StParam; StAsgCall (mkC (s2l "Ok") (PInt 1))]
               FinCall [PatVar (s2l "Ok") BName; PatVar (s2l "Err") BName] in
  safe_a p = true /\ m_run_a p = mkR [EArm 1 (VStr (s2l "boom")); EAfter; EBack 1] XOk.
Proof. vm_compute. split; reflexivity. Qed.

Example safe_q_example :
  let p := mkQ KResult [mkL QStmt (PInt 1) OpCall; mkL QRet (PInt 2) OpVar; mkL QStmt (PInt 3) OpVar; mkL QAsg (PInt 4) OpCall] (PInt 7) 3 in
  safe_q p = true /\ m_run_q p = mkR [EEnter 1; EEnter 2; EEnter 3; EArm 1 (VInt 3); EAfter] XOk.
Proof. vm_compute. split; reflexivity. Qed.

Example safe_m_example :
  let f := mkF MRet [PatVar (s2l "Key") BName; PatWild] None in
  let p := mkM [mkF MVoid key_arms None; f]
               [mkK 0 (mkC (s2l "KeyUp") (PInt 65)) (mkC [] PNone) false; mkK 1 (mkC (s2l "KeyRepeat") (PInt 72)) (mkC [] PNone) false;
                mkK 1 (mkC (s2l "Key") (PInt 70)) (mkC [] PNone) false] in
  safe_m p = true /\
  m_run_m p = mkMR [EM 0 1 (VInt 65); EEnd 0; EM 1 1 VNo; ERetV 1 1; EM 1 0 (VInt 70); ERetV 1 0; EDone] XOk.
Proof. exact suite_example_l. Qed.

Example safe_t_example :
  let p := mkT true TMain 7 0 [] [] (TEInt (CAdd (CMod CA CB) (CIdx (CLit 3)))) in
  safe_t p = true /\
  m_run_t p = mkR [EG1; EG2; EArm 1 (VStr (s2l "DivisionByZeroError: Modulo by zero")); EAfter] XOk.
Proof. vm_compute. split; reflexivity. Qed.

Example safe_t_string_example :
  let p1 := mkT true TMain 1 0 (s2l "foo") (s2l "bar") (TEStr (SIdx CA)) in
  let p2 := mkT false TRet 24 3 [] [] (TEInt (CDiv CA CB)) in
  let p3 := mkT false TDecl 0 0 (s2l "foo") (s2l "bar") (TEStr (SCat SSA SSB)) in
  safe_t p1 = true /\ safe_t p2 = true /\ safe_t p3 = true /\
  m_run_t p1 = mkR [EG1; EG2; EArm 0 (VStr (s2l "bob")); EAfter] XOk /\
  m_run_t p2 = mkR [EG1; EArm 0 (VInt 8); EAfter] XOk /\
  m_run_t p3 = mkR [EG1; EG2; EArm 0 (VStr (s2l "foobar")); EAfter] XOk.
Proof. exact try_string_then_int_example. Qed.

Example safe_r_example :
  let p := mkPR false (mkC (s2l "D") PNone)
                [mkRS (mkC (s2l "B") (PStr (s2l "s"))) RVar false; mkRS (mkC (s2l "A") (PInt 7)) RCall true;
                 mkRS (mkC (s2l "B") (PStr (s2l "t"))) RFld false; mkRS (mkC (s2l "A") (PInt 8)) RFld true;
                 mkRS (mkC (s2l "A") (PInt 9)) RMkv false; mkRS (mkC (s2l "B") (PStr (s2l "u"))) RMk true] arms_abd in
  safe_r p = true /\
  m_run_r p = mkMR [EM 0 1 (VStr (s2l "s")); EM 1 0 (VInt 7); EM 2 1 (VStr (s2l "t")); EM 3 0 (VInt 8); EM 4 0 (VInt 9);
                    EM 5 1 (VStr (s2l "u")); EDone] XOk.
Proof. exact reassign_example_l. Qed.

(* the seeded shape: a string-valued checked between integer-valued tries through one function, a failing `?` chain, ... *)
Example safe_s_example :
  safe_s seq_demo = true /\
  m_run_s seq_demo =
    mkSR [ESCall 0; ESIn EG1; ESIn (EArm 0 (VInt 8)); ESIn EAfter;
          ESCall 1; ESIn EG1; ESIn EG2; ESIn (EArm 0 (VStr (s2l "bob"))); ESIn EAfter;
          ESCall 2; ESIn EG1; ESIn (EArm 0 (VInt 8)); ESIn EAfter;
          ESCall 3; ESIn EG1; ESIn (EArm 1 (VStr (s2l "DivisionByZeroError: Division by zero"))); ESIn EAfter;
          ESCall 4; ESIn (EEnter 1); ESIn (EEnter 2); ESIn (EArm 1 (VStr (s2l "e2"))); ESIn EAfter;
          ESCall 5; ESIn EG1; ESIn (EArm 0 (VInt 20)); ESIn EAfter;
          ESCall 6; ESIn (EArm 0 (VInt 7)); ESIn EAfter; ESIn (EBack 1);
          ESCall 7; ESIn (EEnter 1); ESIn (EEnter 2); ESIn (EPost 1 (VInt 5)); ESIn (EArm 0 (VInt 5)); ESIn EAfter;
          ESDone] XOk.
Proof. exact seq_example_l. Qed.
