(* C13 - match, Option/Result, ?, try and checked: the Mech model (what the pinned code does) and the
   Spec model (what the property demands), both total, computable and extracted.

   Code mirrored (all under /repo/src/backend/interpreter):
     executors/control_flow_executor.cpp   execute_match_statement            -> mech_match, bind_payload, m_scrutinee
     managers/variables/declaration.cpp    enum branch of process_var_decl    -> encode, m_decl_from_ret, m_decl_from_var
     handlers/control/return.cpp           handle_enum_construct_return,
                                           handle_enum_access_return,
                                           handle_variable_return             -> m_return_cons, m_return_var
     evaluator/literals/eval.cpp           evaluate_variable_typed (is_enum)  -> m_eval_var (argument passing, assignment)
     evaluator/core/evaluator.cpp          x.variant / x.value                -> m_obs_variant, m_obs_value
     evaluator/operators/ternary.cpp       evaluate_error_propagation(_typed) -> m_qmark
     handlers/statements/expression.cpp    handle_expression_statement        -> QStmt (rethrows `e?;`)
     evaluator/operators/error_handling.cpp classify_runtime_error,
                                           build_result_ok / build_result_err,
                                           evaluate_try_like_expression       -> classify, try_like, m_run_t
   Strings are lists of ascii (bytes); integers are Z. *)
From Coq Require Import List ZArith Bool Ascii String Arith.
Import ListNotations.
Local Open Scope Z_scope.

Definition str := list ascii.
Definition s2l (s : string) : str := list_ascii_of_string s.
Definition str_eqb (a b : str) : bool := if list_eq_dec ascii_dec a b then true else false.
Definition is_empty (s : str) : bool := match s with [] => true | _ => false end.

(* ------------------------------------------------------------------------------------------ *)
(* 1. Enum values as stored (interpreter.h:83 Variable.enum_variant / has_associated_value /   *)
(*    associated_int_value / associated_str_value)                                             *)
(* ------------------------------------------------------------------------------------------ *)
Inductive payload := PNone | PInt (z : Z) | PStr (s : str).
Record cval := mkC { c_variant : str; c_payload : payload }.
Record stored := mkS { s_enum : bool; s_variant : str; s_has : bool; s_int : Z; s_str : str }.

(* T::V(p) evaluated by a declaration, a return or a match scrutinee: the argument's static type picks
   the channel (typed_result.type.type_info == TYPE_STRING ? str : int); the other channel keeps its
   default (0 / ""). T::V without arguments: has_associated_value = false. *)
Definition encode (c : cval) : stored :=
  match c_payload c with
  | PNone => mkS true (c_variant c) false 0 []
  | PInt z => mkS true (c_variant c) true z []
  | PStr s => mkS true (c_variant c) true 0 s
  end.

(* every consumer (match binding, x.value) picks the string channel iff it is non-empty *)
Definition decode_payload (sv : stored) : payload :=
  if s_has sv then (if is_empty (s_str sv) then PInt (s_int sv) else PStr (s_str sv)) else PNone.
Definition decode (sv : stored) : cval := mkC (s_variant sv) (decode_payload sv).

(* ------------------------------------------------------------------------------------------ *)
(* 2. match                                                                                    *)
(* ------------------------------------------------------------------------------------------ *)
Inductive bindspec := BNo | BUnder | BName.           (* V   V(_)   V(x) *)
Inductive pattern := PatVar (v : str) (b : bindspec) | PatWild.
Inductive bval := VNo | VInt (z : Z) | VStr (s : str).
(* outcome of the arm search: arm index + what its body sees; the body of arm i is
   println("arm", i [, x]) *)
Inductive armres :=
| ArmOk (i : nat) (b : bval)
| ArmUnbound (i : nat)      (* V(x) on a value without payload: x is never created, the body fails *)
| NoArm.

Definition arm_matches (sv : stored) (p : pattern) : bool :=
  match p with PatWild => true | PatVar v _ => str_eqb (s_variant sv) v end.

(* if (!arm.bindings.empty() && enum_value.has_associated_value) { if (name != "_") { str non-empty ?
   assign string : assign int as TYPE_LONG } }   (TYPE_LONG since /repo b144e56; it was TYPE_INT) *)
Definition bind_payload (i : nat) (sv : stored) (b : bindspec) : armres :=
  match b with
  | BNo => ArmOk i VNo
  | BUnder => ArmOk i VNo
  | BName =>
      if s_has sv then
        if is_empty (s_str sv) then ArmOk i (VInt (s_int sv))
        else ArmOk i (VStr (s_str sv))
      else ArmUnbound i
  end.

(* for (arm : match_arms) { switch (pattern_type) ... if (arm_matches) { execute body; break; } } *)
Fixpoint mech_match_from (i : nat) (sv : stored) (arms : list pattern) : armres :=
  match arms with
  | [] => NoArm
  | PatWild :: _ => ArmOk i VNo
  | PatVar v b :: rest =>
      if str_eqb (s_variant sv) v then bind_payload i sv b else mech_match_from (S i) sv rest
  end.
Definition mech_match (sv : stored) (arms : list pattern) : armres := mech_match_from 0 sv arms.

(* Spec: the property's own reading on (variant, payload) values *)
Definition spec_arm_matches (c : cval) (p : pattern) : bool :=
  match p with PatWild => true | PatVar v _ => str_eqb (c_variant c) v end.
Definition spec_bind (i : nat) (c : cval) (b : bindspec) : armres :=
  match b with
  | BNo | BUnder => ArmOk i VNo
  | BName => match c_payload c with
             | PNone => ArmUnbound i
             | PInt z => ArmOk i (VInt z)
             | PStr s => ArmOk i (VStr s)
             end
  end.
Fixpoint spec_match_from (i : nat) (c : cval) (arms : list pattern) : armres :=
  match arms with
  | [] => NoArm
  | PatWild :: _ => ArmOk i VNo
  | PatVar v b :: rest =>
      if str_eqb (c_variant c) v then spec_bind i c b else spec_match_from (S i) c rest
  end.
Definition spec_match (c : cval) (arms : list pattern) : armres := spec_match_from 0 c arms.

(* ------------------------------------------------------------------------------------------ *)
(* 3. Transcripts                                                                              *)
(* ------------------------------------------------------------------------------------------ *)
Inductive ev :=
| EArm (i : nat) (b : bval)        (* "arm i [x]" *)
| EVariant (s : str)               (* println(v.variant) *)
| EValue (b : bval)                (* println(v.value) *)
| EAfter                           (* "after" *)
| EBack (k : nat)                  (* "back k": printed by the caller after the k-th nested call returned *)
| EEnter (k : nat)                 (* "enter k" *)
| EPost (k : nat) (b : bval)       (* "post k [v]" *)
| EG1 | EG2.                       (* "g1" / "g2": before / after the statement holding try/checked *)

Inductive exitc :=
| XOk
| XNonExhaustive (variant : str)   (* "Non-exhaustive match: no arm matched the enum variant '..'" *)
| XNotEnum                         (* "Match expression must be an enum type" *)
| XNoValue                         (* "Function in match expression did not return a value" *)
| XBadScrutinee                    (* "Match expression must be a variable, function call, or enum constructor" *)
| XUnbound                         (* "Undefined variable" (binding never created) *)
| XNotStruct                       (* "Cannot access member ... not a struct or enum" *)
| XQBad                            (* "? operator ..." *)
| XUnmodelled.                     (* behaviour not modelled (never produced by the generators) *)

Record result := mkR { r_events : list ev; r_exit : exitc }.

Definition arm_outcome (variant : str) (a : armres) : list ev * exitc :=
  match a with
  | ArmOk i b => ([EArm i b], XOk)
  | ArmUnbound _ => ([], XUnbound)
  | NoArm => ([], XNonExhaustive variant)
  end.

(* ------------------------------------------------------------------------------------------ *)
(* 4. Family A: a value is constructed, transported by a list of steps, then consumed          *)
(* ------------------------------------------------------------------------------------------ *)
Inductive source := SrcCons        (* T v0 = T::V(p);                               *)
                  | SrcCall        (* T v0 = mk();     T mk()  { return T::V(p); }   *)
                  | SrcCallVar.    (* T v0 = mkv();    T mkv() { T t = T::V(p); return t; } *)
Inductive step :=
| StDeclVar                        (* T v' = v;                    *)
| StDeclCall                       (* T v' = idf(v);               T idf(T x) { return x; } *)
| StAsgVar (d : cval)              (* T v' = T::D(q); v' = v;      *)
| StAsgCall (d : cval)             (* T v' = T::D(q); v' = idf(v); *)
| StAsgCons (c : cval)             (* v = T::C(q);                 *)
| StParam.                         (* h(v); the rest runs in  void h(T v') { ... }  then println("back k") *)
Inductive final :=
| FinVar                           (* match (v) { arms }           *)
| FinCall                          (* match (idf(v)) { arms }      *)
| FinMk | FinMkv | FinCons         (* match (mk()) / (mkv()) / (T::V(p)) { arms }: source and steps unused *)
| FinObs                           (* println(v.variant);          *)
| FinVal.                          (* println(v.value);            *)
Record progA := mkA { a_builtin : bool;     (* type name starts with "Result"/"Option" *)
                      a_val : cval; a_src : source; a_steps : list step; a_final : final;
                      a_arms : list pattern }.

Definition not_enum : stored := mkS false [] false 0 [].   (* an integer variable *)
Definition blank : stored := mkS true [] false 0 [].       (* enum variable initialised from an integer *)

Inductive retv := RStruct (sv : stored) | RInt.

(* return T::V(p) -> handle_enum_construct_return (struct carrying both channels);
   return T::V    -> handle_enum_access_return: a struct only if the name starts with Result/Option,
                     otherwise the old-style integer *)
Definition m_return_cons (builtin : bool) (c : cval) : retv :=
  match c_payload c with
  | PNone => if builtin then RStruct (encode c) else RInt
  | _ => RStruct (encode c)
  end.
(* return x -> handle_variable_return: var->is_enum ? ReturnException(copy of var) : numeric *)
Definition m_return_var (v : stored) : retv := if s_enum v then RStruct v else RInt.
(* T v = f();  declaration.cpp:296: copies enum_variant, has_associated_value, associated_int_value -
   NOT associated_str_value; a non-struct return leaves the variant empty *)
Definition m_decl_from_ret (r : retv) : stored :=
  match r with
  | RStruct sv => mkS true (s_variant sv) (s_has sv) (s_int sv) []
  | RInt => blank
  end.
(* T v = w;  declaration.cpp:335: source is_enum ? var = *source : integer fallback *)
Definition m_decl_from_var (v : stored) : stored := if s_enum v then v else blank.
(* evaluate_variable_typed: is_enum && has_associated_value ? struct copy : integer (var->value) *)
Definition m_eval_var (v : stored) : option stored := if s_enum v && s_has v then Some v else None.
Definition m_pass (v : stored) : stored := match m_eval_var v with Some sv => sv | None => not_enum end.
Definition m_assign_from_var (w v : stored) : stored := match m_eval_var v with Some sv => sv | None => w end.
Definition m_assign_from_ret (w : stored) (r : retv) : stored := match r with RStruct sv => sv | RInt => w end.
Definition m_call_idf (v : stored) : retv := m_return_var (m_pass v).

Definition m_step (st : stored) (s : step) : stored :=
  match s with
  | StDeclVar => m_decl_from_var st
  | StDeclCall => m_decl_from_ret (m_call_idf st)
  | StAsgVar d => m_assign_from_var (encode d) st
  | StAsgCall d => m_assign_from_ret (encode d) (m_call_idf st)
  | StAsgCons _ => st                       (* the assignment of a constructor expression is dropped *)
  | StParam => m_pass st
  end.
Definition m_source (builtin : bool) (c : cval) (s : source) : stored :=
  match s with
  | SrcCons => encode c
  | SrcCall => m_decl_from_ret (m_return_cons builtin c)
  | SrcCallVar => m_decl_from_ret (m_return_var (encode c))
  end.

Definition is_param (s : step) : bool := match s with StParam => true | _ => false end.
Fixpoint backs (n : nat) : list ev := match n with O => [] | S k => EBack n :: backs k end.
Definition depth_of (steps : list step) : nat := List.length (filter is_param steps).

Definition of_ret (r : retv) : stored + exitc :=
  match r with RStruct sv => if s_enum sv then inl sv else inr XNoValue | RInt => inr XNoValue end.

(* what the consumer sees: the scrutinee of execute_match_statement, or an error *)
Definition m_scrutinee (p : progA) (st : stored) : stored + exitc :=
  match a_final p with
  | FinVar | FinObs | FinVal => if s_enum st then inl st else inr XNotEnum
  | FinCall => of_ret (m_call_idf st)
  | FinMk => of_ret (m_return_cons (a_builtin p) (a_val p))
  | FinMkv => of_ret (m_return_var (encode (a_val p)))
  | FinCons => match c_payload (a_val p) with PNone => inr XBadScrutinee | _ => inl (encode (a_val p)) end
  end.

Definition m_obs_value (sv : stored) : list ev * exitc :=
  if s_has sv then
    ([EValue (if is_empty (s_str sv) then VInt (s_int sv) else VStr (s_str sv))], XOk)
  else ([], XUnmodelled).

Definition is_direct (f : final) : bool := match f with FinMk | FinMkv | FinCons => true | _ => false end.

Definition m_state (p : progA) : stored :=
  fold_left m_step (a_steps p) (m_source (a_builtin p) (a_val p) (a_src p)).

Definition finish (d : nat) (o : list ev * exitc) : result :=
  match snd o with
  | XOk => mkR (fst o ++ EAfter :: backs d) XOk
  | x => mkR (fst o) x
  end.

Definition m_run_a (p : progA) : result :=
  let st := m_state p in
  let d := if is_direct (a_final p) then O else depth_of (a_steps p) in
  match a_final p with
  | FinObs => if s_enum st then finish d ([EVariant (s_variant st)], XOk) else mkR [] XNotStruct
  | FinVal => if s_enum st then finish d (m_obs_value st) else mkR [] XNotStruct
  | _ => match m_scrutinee p st with
         | inl sv => finish d (arm_outcome (s_variant sv) (mech_match sv (a_arms p)))
         | inr x => mkR [] x
         end
  end.

(* Spec: every transport is the identity; an assignment replaces the value *)
Definition s_step (c : cval) (s : step) : cval := match s with StAsgCons c' => c' | _ => c end.
Definition s_state (p : progA) : cval :=
  if is_direct (a_final p) then a_val p else fold_left s_step (a_steps p) (a_val p).
Definition s_obs_value (c : cval) : list ev * exitc :=
  match c_payload c with
  | PNone => ([], XUnmodelled)
  | PInt z => ([EValue (VInt z)], XOk)
  | PStr s => ([EValue (VStr s)], XOk)
  end.
Definition s_run_a (p : progA) : result :=
  let c := s_state p in
  let d := if is_direct (a_final p) then O else depth_of (a_steps p) in
  match a_final p with
  | FinObs => finish d ([EVariant (c_variant c)], XOk)
  | FinVal => finish d (s_obs_value c)
  | _ => finish d (arm_outcome (c_variant c) (spec_match c (a_arms p)))
  end.

(* the fragment on which the pinned code meets the property (also the generator's avoidance predicate) *)
Definition is_asgcons (s : step) : bool := match s with StAsgCons _ => true | _ => false end.
Definition is_declcall (s : step) : bool := match s with StDeclCall => true | _ => false end.
Definition is_declvar (s : step) : bool := match s with StDeclVar => true | _ => false end.
Definition safe_a (p : progA) : bool :=
  negb (existsb is_asgcons (a_steps p)) &&
  match c_payload (a_val p) with
  | PInt _ => true
  | PStr s =>
      negb (is_empty s) &&
      (is_direct (a_final p) ||
       (match a_src p with SrcCons => true | _ => false end && negb (existsb is_declcall (a_steps p))))
  | PNone =>
      match a_final p with
      | FinMkv => true
      | FinMk => a_builtin p
      | FinVar | FinObs =>
          forallb is_declvar (a_steps p) &&
          match a_src p with SrcCons | SrcCallVar => true | SrcCall => a_builtin p end
      | _ => false
      end
  end.

(* ------------------------------------------------------------------------------------------ *)
(* 5. Family B: chains of functions propagating with ?                                         *)
(* ------------------------------------------------------------------------------------------ *)
Inductive rkind := KResult | KOption.
Inductive qctx :=
| QDecl      (* T v = f(x)?;                   println("post", i, v); return R::Ok(v); *)
| QAsg       (* T v = <zero>; v = f(x)?;       println("post", i, v); return R::Ok(v); *)
| QRet       (* return R::Ok(f(x)?);                                                    *)
| QBin       (* long v = 0 + (f(x)?);          println("post", i, v); return R::Ok(v); *)
| QStmt.     (* f(x)?;                         println("post", i);    return R::Ok(100); *)
(* handle_expression_statement rethrows the ReturnException of `e?;` since /repo d2267e2 *)
(* the operand of ?: the call itself, `f(x)?`, or a variable declared from it, `R t = f(x); .. t? ..`
   (ternary.cpp evaluate_error_propagation_typed: AST_FUNC_CALL reads a copy of the returned struct, AST_VARIABLE
   reads find_variable(name); the declaration in between is m_decl_from_ret and drops a string payload) *)
Inductive qopnd := OpCall | OpVar.
Record link := mkL { l_ctx : qctx; l_err : payload; l_opnd : qopnd }.
Definition q_operand (o : qopnd) (sv : stored) : stored :=
  match o with OpCall => sv | OpVar => m_decl_from_ret (RStruct sv) end.
(* q_sel = i >= 1: link i returns Err(l_err)/None on entry; the last link otherwise returns Ok(q_ok) *)
Record progQ := mkQ { q_kind : rkind; q_links : list link; q_ok : payload; q_sel : nat }.

Definition v_ok (k : rkind) : str := match k with KResult => s2l "Ok" | KOption => s2l "Some" end.
Definition v_err (k : rkind) : str := match k with KResult => s2l "Err" | KOption => s2l "None" end.
Definition fail_cval (k : rkind) (l : link) : cval :=
  match k with KResult => mkC (v_err k) (l_err l) | KOption => mkC (v_err k) PNone end.

Inductive qres := QVal (z : Z) | QThrow (sv : stored) | QBad.
(* evaluate_error_propagation: Ok/Some -> has ? associated_int_value : 0 (only the int channel);
   Err -> a fresh Variable with variant "Err" and both channels copied; None -> variant "None" *)
Definition m_qmark (k : rkind) (sv : stored) : qres :=
  if negb (s_enum sv) then QBad else
  match k with
  | KResult =>
      if str_eqb (s_variant sv) (s2l "Ok") then QVal (if s_has sv then s_int sv else 0)
      else if str_eqb (s_variant sv) (s2l "Err") then QThrow (mkS true (s2l "Err") (s_has sv) (s_int sv) (s_str sv))
      else QBad
  | KOption =>
      if str_eqb (s_variant sv) (s2l "Some") then QVal (if s_has sv then s_int sv else 0)
      else if str_eqb (s_variant sv) (s2l "None") then QThrow (mkS true (s2l "None") false 0 [])
      else QBad
  end.

Definition is_strp (p : payload) : bool := match p with PStr _ => true | _ => false end.
(* the local variable of a link is `long v` for an integer chain and `string v` for a string chain;
   a string variable initialised from the integer that ? yields is empty, one assigned from it holds its
   decimal text (only 0 is reachable: the integer channel of a string payload) *)
Definition var_of (strchain : bool) (c : qctx) (z : Z) : payload :=
  if strchain then match c with QAsg => PStr (s2l "0") | _ => PStr [] end else PInt z.
Definition bval_of (p : payload) : bval := match p with PNone => VNo | PInt z => VInt z | PStr s => VStr s end.

(* result of running link i (first link of ls) and everything below it: transcript, returned value
   (None = the run stopped with an error class) *)
Fixpoint m_chain (k : rkind) (okp : payload) (sel : nat) (i : nat) (ls : list link)
  : list ev * (stored + exitc) :=
  match ls with
  | [] => ([], inr XUnmodelled)
  | l :: rest =>
      if Nat.eqb sel i then ([EEnter i], inl (encode (fail_cval k l)))
      else match rest with
           | [] => ([EEnter i], inl (encode (mkC (v_ok k) okp)))
           | _ :: _ =>
               let '(evs, r) := m_chain k okp sel (S i) rest in
               match r with
               | inr x => (EEnter i :: evs, inr x)
               | inl sv =>
                   match m_qmark k (q_operand (l_opnd l) sv), l_ctx l with
                   | QBad, _ => (EEnter i :: evs, inr XQBad)
                   | QThrow r', _ => (EEnter i :: evs, inl r')
                   | QVal _, QStmt =>     (* the value is discarded *)
                       (EEnter i :: evs ++ [EPost i VNo], inl (encode (mkC (v_ok k) (PInt 100))))
                   | QVal z, QRet => (EEnter i :: evs, inl (encode (mkC (v_ok k) (PInt z))))
                   | QVal z, QBin =>
                       (EEnter i :: evs ++ [EPost i (VInt (0 + z))], inl (encode (mkC (v_ok k) (PInt (0 + z)))))
                   | QVal z, c =>
                       let v := var_of (is_strp okp) c z in
                       (* `string v = f(x)?;` evaluates its initialiser twice when it yields a value *)
                       let evs' := if is_strp okp && match c with QDecl => true | _ => false end &&
                                      match l_opnd l with OpCall => true | OpVar => false end then evs ++ evs else evs in
                       (EEnter i :: evs' ++ [EPost i (bval_of v)], inl (encode (mkC (v_ok k) v)))
                   end
               end
           end
  end.

Definition q_arms (k : rkind) : list pattern :=
  match k with
  | KResult => [PatVar (s2l "Ok") BName; PatVar (s2l "Err") BName]
  | KOption => [PatVar (s2l "Some") BName; PatVar (s2l "None") BNo]
  end.

Definition m_run_q (p : progQ) : result :=
  let '(evs, r) := m_chain (q_kind p) (q_ok p) (q_sel p) 1 (q_links p) in
  match r with
  | inr x => mkR evs x
  | inl sv =>
      let o := arm_outcome (s_variant sv) (mech_match sv (q_arms (q_kind p))) in
      match snd o with
      | XOk => mkR (evs ++ fst o ++ [EAfter]) XOk
      | x => mkR evs x
      end
  end.

(* Spec: e? yields the payload of Ok/Some; Err/None make the enclosing function return the same value
   at once - in every context, also when the value of e? is discarded *)
Fixpoint s_chain (k : rkind) (okp : payload) (sel : nat) (i : nat) (ls : list link)
  : list ev * (cval + exitc) :=
  match ls with
  | [] => ([], inr XUnmodelled)
  | l :: rest =>
      if Nat.eqb sel i then ([EEnter i], inl (fail_cval k l))
      else match rest with
           | [] => ([EEnter i], inl (mkC (v_ok k) okp))
           | _ :: _ =>
               let '(evs, r) := s_chain k okp sel (S i) rest in
               match r with
               | inr x => (EEnter i :: evs, inr x)
               | inl c =>
                   if str_eqb (c_variant c) (v_ok k) then
                     match l_ctx l with
                     | QStmt => (EEnter i :: evs ++ [EPost i VNo], inl (mkC (v_ok k) (PInt 100)))
                     | QRet => (EEnter i :: evs, inl c)
                     | _ => (EEnter i :: evs ++ [EPost i (bval_of (c_payload c))], inl c)
                     end
                   else (EEnter i :: evs, inl c)
               end
           end
  end.
Definition s_run_q (p : progQ) : result :=
  let '(evs, r) := s_chain (q_kind p) (q_ok p) (q_sel p) 1 (q_links p) in
  match r with
  | inr x => mkR evs x
  | inl c =>
      let o := arm_outcome (c_variant c) (spec_match c (q_arms (q_kind p))) in
      match snd o with
      | XOk => mkR (evs ++ fst o ++ [EAfter]) XOk
      | x => mkR evs x
      end
  end.

Definition good_payload (p : payload) : bool :=
  match p with PNone => false | PInt _ => true | PStr s => negb (is_empty s) end.
Definition is_qstmt (l : link) : bool := match l_ctx l with QStmt => true | _ => false end.
(* conforming chains: integer Ok payload and representable failing payloads *)
(* a variable operand is declared from the call: a failing string payload does not survive that declaration
   (C13-decl-from-call-drops-string); None and integer payloads do *)
Definition opnd_ok (k : rkind) (l lf : link) : bool :=
  match l_opnd l with
  | OpCall => true
  | OpVar => match k with KOption => true | KResult => negb (is_strp (l_err lf)) end
  end.
Definition safe_q (p : progQ) : bool :=
  match q_links p with [] => false | _ => true end &&
  match q_ok p with PInt _ => true | _ => false end &&
  forallb (fun l => good_payload (l_err l)) (q_links p) &&
  forallb (fun l => forallb (opnd_ok (q_kind p) l) (q_links p)) (q_links p).

(* ------------------------------------------------------------------------------------------ *)
(* 6. Family C: try / checked                                                                  *)
(* ------------------------------------------------------------------------------------------ *)
Inductive cexpr :=
| CLit (z : Z) | CA | CB
| CAdd (x y : cexpr) | CSub (x y : cexpr) | CMul (x y : cexpr) | CDiv (x y : cexpr) | CMod (x y : cexpr)
| CIdx (i : cexpr)                 (* arr[i] with int[3] arr = {5, 15, 25} *)
| CDeref (null : bool)             (* *p with p = &x (x = 4) or p = nullptr *)
(* the same three operations performed inside a called function - the error is raised one call frame below
   the try and has to unwind through it:  long dv(long p, long q) { return p / q; }   long md(long p, long q) { return p % q; }
   long at(long i) { int[3] t; t[0] = 5; t[1] = 15; t[2] = 25; return t[i]; } *)
| CCallDiv (x y : cexpr) | CCallMod (x y : cexpr) | CCallIdx (i : cexpr).
(* RArgStr: a string parameter of a called function accepts only a variable or a literal as its argument - any other
   string expression (names[i], x + y, a call) is rejected before anything is evaluated; second = the parameter q *)
Inductive rterr := RDiv0 | RMod0 | RBounds | RNull | RArgStr (second : bool).

Definition arr_get (i : Z) : Z + rterr :=
  if (i <? 0) || (3 <=? i) then inr RBounds
  else if i =? 0 then inl 5 else if i =? 1 then inl 15 else inl 25.

Fixpoint ceval (a b : Z) (e : cexpr) : Z + rterr :=
  let bin (f : Z -> Z -> Z + rterr) (x y : cexpr) :=
      match ceval a b x with inr k => inr k | inl u =>
      match ceval a b y with inr k => inr k | inl v => f u v end end in
  match e with
  | CLit z => inl z | CA => inl a | CB => inl b
  | CAdd x y => bin (fun u v => inl (u + v)) x y
  | CSub x y => bin (fun u v => inl (u - v)) x y
  | CMul x y => bin (fun u v => inl (u * v)) x y
  | CDiv x y => bin (fun u v => if v =? 0 then inr RDiv0 else inl (Z.quot u v)) x y
  | CMod x y => bin (fun u v => if v =? 0 then inr RMod0 else inl (Z.rem u v)) x y
  | CIdx i => match ceval a b i with inr k => inr k | inl u => arr_get u end
  | CDeref null => if null then inr RNull else inl 4
  | CCallDiv x y => bin (fun u v => if v =? 0 then inr RDiv0 else inl (Z.quot u v)) x y
  | CCallMod x y => bin (fun u v => if v =? 0 then inr RMod0 else inl (Z.rem u v)) x y
  | CCallIdx i => match ceval a b i with inr k => inr k | inl u => arr_get u end
  end.

(* the texts the evaluator throws *)
Definition err_msg (k : rterr) : str :=
  match k with
  | RDiv0 => s2l "Division by zero"
  | RMod0 => s2l "Modulo by zero"
  | RBounds => s2l "Array index out of bounds"
  | RNull => s2l "Null pointer dereference"
  | RArgStr false => s2l "Type mismatch: cannot pass non-string expression to string parameter 'p'"
  | RArgStr true => s2l "Type mismatch: cannot pass non-string expression to string parameter 'q'"
  end.

(* std::tolower in the "C" locale, byte by byte *)
Definition lower_ascii (c : ascii) : ascii :=
  let n := nat_of_ascii c in
  if (Nat.leb 65 n && Nat.leb n 90)%bool then ascii_of_nat (n + 32) else c.
Definition lower (s : str) : str := map lower_ascii s.
Fixpoint is_prefix (p s : str) : bool :=
  match p, s with
  | [], _ => true
  | _ :: _, [] => false
  | a :: p', b :: s' => if ascii_dec a b then is_prefix p' s' else false
  end.
(* std::string::find(needle) != npos *)
Fixpoint contains (needle s : str) : bool :=
  is_prefix needle s || match s with [] => false | _ :: s' => contains needle s' end.

(* classify_runtime_error: the if-chain in source order *)
Definition classify (msg : str) (is_checked : bool) : str :=
  let l := lower msg in
  if contains (s2l "division by zero") l || contains (s2l "modulo by zero") l ||
     (contains (s2l "divide") l && contains (s2l "zero") l)
  then s2l "DivisionByZeroError"
  else if contains (s2l "null pointer") l || contains (s2l "nullptr") l then s2l "NullPointerError"
  else if contains (s2l "out of bounds") l || contains (s2l "bounds") l then s2l "IndexOutOfBoundsError"
  else if contains (s2l "overflow") l then s2l "ArithmeticOverflowError"
  else if contains (s2l "type") l && (contains (s2l "cast") l || contains (s2l "mismatch") l)
  then s2l "TypeCastError"
  else if is_checked then s2l "CheckedError" else s2l "Custom".

(* build_result_err: Err whose *string* channel is "<variant>: <message>" *)
Definition build_err (msg : str) (is_checked : bool) : stored :=
  mkS true (s2l "Err") true 0 (classify msg is_checked ++ s2l ": " ++ msg).
(* the same written over an arbitrary Variable (build_result_err also sets only the string channel): the integer channel
   would be stale, but the string is never empty, so no consumer looks at it *)
Definition build_err_over (init : stored) (msg : str) (is_checked : bool) : stored :=
  mkS true (s2l "Err") true (s_int init) (classify msg is_checked ++ s2l ": " ++ msg).
(* build_result_ok: `Variable result;` (default-constructed: not an enum, variant "", no payload, integer 0,
   string "") whose fields are then written one by one - is_enum, enum_variant = "Ok", has_associated_value = true and
   ONE of the two payload channels: `value.is_string() ? associated_str_value = .. : associated_int_value = ..`.
   The other channel is whatever the Variable held before: build_ok_over makes that dependence explicit, the code
   starts from a fresh Variable on every evaluation (fresh_var) *)
Inductive tval := TVInt (z : Z) | TVStr (s : str).
Definition fresh_var : stored := mkS false [] false 0 [].
Definition build_ok_over (init : stored) (v : tval) : stored :=
  match v with
  | TVInt z => mkS true (s2l "Ok") true z (s_str init)
  | TVStr s => mkS true (s2l "Ok") true (s_int init) s
  end.
Definition build_ok_t (v : tval) : stored := build_ok_over fresh_var v.
Definition build_ok (z : Z) : stored := build_ok_t (TVInt z).
(* evaluate_try_like_expression: always leaves by throwing ReturnException(result) *)
Definition try_like (is_checked : bool) (r : tval + rterr) : stored :=
  match r with inl v => build_ok_t v | inr k => build_err (err_msg k) is_checked end.

(* string-valued operands (build_result_ok's is_string branch):  string[3] names = ["ann", "bob", "cy"];
   string parameters sa, sb;  string nm(long i) { string[3] t = ["ann", "bob", "cy"]; return t[i]; }
   string cat(string p, string q) { return p + q; } *)
Inductive sexpr :=
| SLit (s : str) | SSA | SSB
| SCat (x y : sexpr)               (* (x + y) *)
| SIdx (i : cexpr)                 (* names[i] - the index is an integer core expression (may itself fail) *)
| SCallIdx (i : cexpr)             (* nm(i): the indexing one call frame below the try *)
| SCallCat (x y : sexpr).          (* cat(x, y) *)
Inductive texpr := TEInt (e : cexpr) | TEStr (e : sexpr).

Definition names_get (i : Z) : str + rterr :=
  if (i <? 0) || (3 <=? i) then inr RBounds
  else if i =? 0 then inl (s2l "ann") else if i =? 1 then inl (s2l "bob") else inl (s2l "cy").

Definition simple_s (e : sexpr) : bool := match e with SLit _ | SSA | SSB => true | _ => false end.
Fixpoint seval (a b : Z) (sa sb : str) (e : sexpr) : str + rterr :=
  let bin (x y : sexpr) :=
      match seval a b sa sb x with inr k => inr k | inl u =>
      match seval a b sa sb y with inr k => inr k | inl v => inl (u ++ v) end end in
  match e with
  | SLit s => inl s | SSA => inl sa | SSB => inl sb
  | SCat x y => bin x y
  | SCallCat x y => if negb (simple_s x) then inr (RArgStr false) else if negb (simple_s y) then inr (RArgStr true) else bin x y
  | SIdx i => match ceval a b i with inr k => inr k | inl u => names_get u end
  | SCallIdx i => match ceval a b i with inr k => inr k | inl u => names_get u end
  end.

Definition teval (a b : Z) (sa sb : str) (e : texpr) : tval + rterr :=
  match e with
  | TEInt e => match ceval a b e with inl z => inl (TVInt z) | inr k => inr k end
  | TEStr e => match seval a b sa sb e with inl s => inl (TVStr s) | inr k => inr k end
  end.

Inductive tctx :=
| TRet       (* R g(int a, int b) { ..; println("g1"); return try (e); }     main: match (g(a, b)) {..} *)
| TDecl      (* R g(..) { ..; println("g1"); R r = try (e); println("g2"); return r; }   same main   *)
| TVoid      (* void g(..) { ..; println("g1"); R r = try (e); println("g2"); match (r) {..} }  main: g(a, b); *)
| TMain      (* main: ..; println("g1"); R r = try (e); println("g2"); match (r) {..}                  *)
| TAsg       (* void g(..) { ..; R r = R::Ok(0); println("g1"); r = try (e); println("g2"); match (r) {..} } *)
| TAsgMain.  (* the same statements in main *)
(* R = Result<int, RuntimeError> for an integer operand, Result<string, RuntimeError> for a string operand;
   g takes (int a, int b) resp. (int a, int b, string sa, string sb) *)
Record progT := mkT { t_checked : bool; t_ctx : tctx; t_a : Z; t_b : Z; t_sa : str; t_sb : str; t_expr : texpr }.
Definition t_eval (p : progT) : tval + rterr := teval (t_a p) (t_b p) (t_sa p) (t_sb p) (t_expr p).

Definition t_arms : list pattern := [PatVar (s2l "Ok") BName; PatVar (s2l "Err") BName].
Definition match_events (sv : stored) : list ev * exitc := arm_outcome (s_variant sv) (mech_match sv t_arms).

(* Mech: try/checked leave by throwing ReturnException(result). `return try e;` hands it to the caller; a
   declaration `R r = try e;` catches it and stores all four fields (declaration.cpp, since /repo 982c54e);
   anywhere else (here: an assignment) it still ends the enclosing function *)
Definition m_run_t (p : progT) : result :=
  let sv := try_like (t_checked p) (t_eval p) in
  let o := match_events sv in
  match t_ctx p with
  | TRet => match snd o with XOk => mkR (EG1 :: fst o ++ [EAfter]) XOk | x => mkR [EG1] x end
  | TDecl | TVoid | TMain =>
      match snd o with XOk => mkR ([EG1; EG2] ++ fst o ++ [EAfter]) XOk | x => mkR [EG1; EG2] x end
  | TAsg => mkR [EG1; EAfter] XOk       (* the void function ends; its match never runs *)
  | TAsgMain => mkR [EG1] XOk           (* main itself ends: nothing more is printed, exit 0 *)
  end.

(* Spec: Ok v iff e evaluates to v; otherwise Err naming the class; the statement completes normally *)
Definition class_name (k : rterr) : str :=
  match k with
  | RDiv0 | RMod0 => s2l "DivisionByZeroError"
  | RBounds => s2l "IndexOutOfBoundsError"
  | RNull => s2l "NullPointerError"
  | RArgStr _ => s2l "TypeCastError"
  end.
Definition payload_of_tval (v : tval) : payload := match v with TVInt z => PInt z | TVStr s => PStr s end.
Definition spec_try (r : tval + rterr) : cval :=
  match r with
  | inl v => mkC (s2l "Ok") (payload_of_tval v)
  | inr k => mkC (s2l "Err") (PStr (class_name k ++ s2l ": " ++ err_msg k))
  end.
Definition s_run_t (p : progT) : result :=
  let c := spec_try (t_eval p) in
  let o := arm_outcome (c_variant c) (spec_match c t_arms) in
  let pre := match t_ctx p with TRet => [EG1] | _ => [EG1; EG2] end in
  match snd o with XOk => mkR (pre ++ fst o ++ [EAfter]) XOk | x => mkR pre x end.

(* conforming: the statement contexts that take the thrown Result as a value, and an operand that does not evaluate
   to the empty string (Ok("") is stored exactly like Ok(0): C13-empty-string-payload through a new producer) *)
Definition safe_t (p : progT) : bool :=
  match t_ctx p with TAsg | TAsgMain => false | _ => true end &&
  match t_eval p with inl (TVStr []) => false | _ => true end.

(* ------------------------------------------------------------------------------------------ *)
(* 7. The type-name rule of return.cpp handle_enum_access_return / ternary.cpp                 *)
(*    evaluate_error_propagation_typed: `enum_name.find("Result") == 0 || find("Option") == 0` *)
(*    - every enum whose NAME starts with Result/Option (also a user enum `Optional`,          *)
(*    `ResultOf`) returns its payload-less literals as a struct                                *)
(* ------------------------------------------------------------------------------------------ *)
Definition builtin_of_name (tn : str) : bool := is_prefix (s2l "Result") tn || is_prefix (s2l "Option") tn.

(* ------------------------------------------------------------------------------------------ *)
(* 8. Family M: several enum values (of one or two enums that may share variant names), match  *)
(*    statements packaged as functions, executed as a sequence of calls (the same match code   *)
(*    meets different values; values and earlier calls must not influence later ones)          *)
(* ------------------------------------------------------------------------------------------ *)
Inductive mstyle :=
| MInline    (* match (v) { arms } println("end", j);                          directly in main *)
| MVoid      (* void hj(T ev) { match (ev) { arms } println("end", j); }       main: hj(v);     *)
| MRet       (* int hj(T ev) { match (ev) { arm i => { ..; return i; } } println("fell", j); return 99; }
                main: println("ret", j, hj(v));                                                  *)
| MExpr      (* as MVoid, every arm body is a single expression: a call of a printing helper    *)
| MLoop.     (* void hj(T ev) { for (k = 0; k < 2; k++) { match (ev) { arms } } println("end", j); } *)
(* f_nest = Some (i0, arms2): the body of arm i0 goes on with  match (ev2) { arms2 }  on a second value *)
Record mfn := mkF { f_style : mstyle; f_arms : list pattern; f_nest : option (nat * list pattern) }.
(* k_direct: the argument is the constructor expression itself, hj(T::V(p)), not a variable *)
Record mcall := mkK { k_fn : nat; k_val : cval; k_val2 : cval; k_direct : bool }.
Record progM := mkM { pm_fns : list mfn; pm_calls : list mcall }.

Inductive mev :=
| EM (j i : nat) (b : bval)        (* "m j arm i [x]"  - match of function j ran arm i *)
| EInner (j i : nat) (b : bval)    (* "n j arm i [x]"  - the nested match *)
| EEnd (j : nat)                   (* "end j" *)
| ERetV (j i : nat)                (* "ret j i" *)
| EDone.                           (* "after" *)
Record mresult := mkMR { mr_events : list mev; mr_exit : exitc }.

Definition eff_nest (f : mfn) : option (nat * list pattern) :=
  match f_style f with MExpr => None | _ => f_nest f end.
Definition is_inline (f : mfn) : bool := match f_style f with MInline => true | _ => false end.

(* how a value reaches the function: a variable through assign_function_parameter (m_pass); a constructor
   expression as the argument arrives as an integer; the inline form reads the variable itself *)
Definition m_arg (f : mfn) (direct : bool) (c : cval) : stored :=
  if is_inline f then encode c else if direct then not_enum else m_pass (encode c).

Definition armres_out (mk : nat -> bval -> mev) (variant : str) (a : armres) : list mev * exitc :=
  match a with
  | ArmOk i b => ([mk i b], XOk)
  | ArmUnbound _ => ([], XUnbound)
  | NoArm => ([], XNonExhaustive variant)
  end.

(* one execution of the match statement of function j (with the nested match if the selected arm has one) *)
Definition m_once (j : nat) (f : mfn) (sv sv2 : stored) : list mev * exitc :=
  if negb (s_enum sv) then ([], XNotEnum) else
  let a := mech_match sv (f_arms f) in
  let o := armres_out (EM j) (s_variant sv) a in
  match snd o, a, eff_nest f with
  | XOk, ArmOk i _, Some (i0, arms2) =>
      if Nat.eqb i i0 then
        if negb (s_enum sv2) then (fst o, XNotEnum) else
        let o2 := armres_out (EInner j) (s_variant sv2) (mech_match sv2 arms2) in
        (fst o ++ fst o2, snd o2)
      else o
  | _, _, _ => o
  end.

Definition sel_index (a : armres) : nat := match a with ArmOk i _ | ArmUnbound i => i | NoArm => O end.

Definition then_ev (o : list mev * exitc) (rest : list mev * exitc) : list mev * exitc :=
  match snd o with XOk => (fst o ++ fst rest, snd rest) | x => (fst o, x) end.

Definition m_call (fns : list mfn) (k : mcall) : list mev * exitc :=
  match nth_error fns (k_fn k) with
  | None => ([], XUnmodelled)
  | Some f =>
      let j := k_fn k in
      let sv := m_arg f (k_direct k) (k_val k) in
      let sv2 := m_arg f false (k_val2 k) in
      let once := m_once j f sv sv2 in
      match f_style f with
      | MInline | MVoid | MExpr => then_ev once ([EEnd j], XOk)
      | MRet => then_ev once ([ERetV j (sel_index (mech_match sv (f_arms f)))], XOk)
      | MLoop => then_ev once (then_ev once ([EEnd j], XOk))
      end
  end.

Fixpoint run_calls (call : mcall -> list mev * exitc) (ks : list mcall) : list mev * exitc :=
  match ks with
  | [] => ([EDone], XOk)
  | k :: rest => then_ev (call k) (run_calls call rest)
  end.
Definition m_run_m (p : progM) : mresult :=
  let o := run_calls (m_call (pm_fns p)) (pm_calls p) in mkMR (fst o) (snd o).

(* Spec: the property's own reading - arguments arrive unchanged however they are written *)
Definition s_once (j : nat) (f : mfn) (c c2 : cval) : list mev * exitc :=
  let a := spec_match c (f_arms f) in
  let o := armres_out (EM j) (c_variant c) a in
  match snd o, a, eff_nest f with
  | XOk, ArmOk i _, Some (i0, arms2) =>
      if Nat.eqb i i0 then
        let o2 := armres_out (EInner j) (c_variant c2) (spec_match c2 arms2) in
        (fst o ++ fst o2, snd o2)
      else o
  | _, _, _ => o
  end.
Definition s_call (fns : list mfn) (k : mcall) : list mev * exitc :=
  match nth_error fns (k_fn k) with
  | None => ([], XUnmodelled)
  | Some f =>
      let j := k_fn k in
      let once := s_once j f (k_val k) (k_val2 k) in
      match f_style f with
      | MInline | MVoid | MExpr => then_ev once ([EEnd j], XOk)
      | MRet => then_ev once ([ERetV j (sel_index (spec_match (k_val k) (f_arms f)))], XOk)
      | MLoop => then_ev once (then_ev once ([EEnd j], XOk))
      end
  end.
Definition s_run_m (p : progM) : mresult :=
  let o := run_calls (s_call (pm_fns p)) (pm_calls p) in mkMR (fst o) (snd o).

(* conforming fragment: representable payloads; payload-less values only where no parameter passing is
   involved (inline form); no constructor expression as an argument *)
Definition has_pl (c : cval) : bool := match c_payload c with PNone => false | _ => true end.
Definition good_cval (c : cval) : bool :=
  match c_payload c with PNone => true | PInt _ => true | PStr s => negb (is_empty s) end.
Definition needs2 (f : mfn) : bool := match eff_nest f with Some _ => true | None => false end.
Definition safe_call (fns : list mfn) (k : mcall) : bool :=
  match nth_error fns (k_fn k) with
  | None => false
  | Some f =>
      good_cval (k_val k) && (negb (needs2 f) || good_cval (k_val2 k)) &&
      (is_inline f || (negb (k_direct k) && has_pl (k_val k) && (negb (needs2 f) || has_pl (k_val2 k))))
  end.
Definition safe_m (p : progM) : bool := forallb (safe_call (pm_fns p)) (pm_calls p).
