(* C13 - struct / enum payloads (associated_value) and statements executed again in one scope (families L, LT, LQ of
   ModelNest.v): round trip, preservation by the transports, the match on nested values, the declaration that runs
   again, history freedom of loop bodies, Mech = Spec on the conforming fragment, and the defects as witnesses. *)
From Coq Require Import List ZArith Bool Ascii String Arith Lia.
From Cb Require Import C13.Model C13.ModelNest C13.MatchLemmas C13.Transport C13.Chain C13.Try.
Import ListNotations.
Local Open Scope Z_scope.

(* induction over values through the `option` in VE *)
Fixpoint nval_rect2 (P : nval -> Prop) (hI : forall z, P (VI z)) (hS : forall s, P (VS s)) (hR : forall fs, P (VR fs))
  (hE0 : forall x, P (VE x None)) (hE1 : forall x p, P p -> P (VE x (Some p))) (v : nval) : P v :=
  match v with
  | VI z => hI z | VS s => hS s | VR fs => hR fs
  | VE x None => hE0 x
  | VE x (Some p) => hE1 x p (nval_rect2 P hI hS hR hE0 hE1 p)
  end.

(* ---------------------------------------------------------------- building and reading back *)
Lemma build_is_enum : forall x p, n_is_enum (n_build (VE x p)) = true.
Proof. intros x [p|]; [|reflexivity]. destruct p; try reflexivity. simpl. destruct (n_arg_of_var _); reflexivity. Qed.
Lemma build_variant : forall x p, n_variant (n_build (VE x p)) = x.
Proof. intros x [p|]; [|reflexivity]. destruct p; try reflexivity. simpl. destruct (n_arg_of_var _); reflexivity. Qed.
Lemma build_some_shape : forall x q, exists i s a, n_build (VE x (Some q)) = NVEnum x true i s a.
Proof. intros x q. destruct q; simpl; eauto. destruct (n_arg_of_var _); simpl; eauto. Qed.
Lemma build_enum_shape : forall x p, exists h i s a, n_build (VE x p) = NVEnum x h i s a.
Proof. intros x [q|]; [|simpl; eauto]. destruct (build_some_shape x q) as (i & s & a & E). eauto. Qed.
Lemma arg_of_built : forall x q, n_arg_of_var (n_build (VE x (Some q))) = TAObj (n_build (VE x (Some q))).
Proof. intros x q. destruct (build_some_shape x q) as (i & s & a & E). rewrite E. reflexivity. Qed.

(* the value the argument expression written for payload q evaluates to, as a binding sees it *)
Definition bound_of (q : nval) : bound :=
  match q with
  | VI z => BdInt z
  | VS s => BdStr s
  | VR fs => BdObj (NVRec fs)
  | VE _ _ => BdObj (n_build q)
  end.

Lemma build_fields : forall x q, good_nv q = true ->
  exists i s a, n_build (VE x (Some q)) = NVEnum x true i s a /\ n_bound i s a = bound_of q.
Proof.
  intros x q Hg. destruct q as [z|s|fs|y [q'|]]; simpl in *.
  - exists z, [], None. split; reflexivity.
  - exists 0, s, None. split; [reflexivity|]. unfold n_bound. destruct s; [discriminate|reflexivity].
  - exists 0, [], (Some (NVRec fs)). split; reflexivity.
  - pose proof (arg_of_built y q') as E. simpl in E. rewrite E.
    exists 0, [], (Some (n_build (VE y (Some q')))). split; reflexivity.
  - discriminate.
Qed.

(* round trip through the channels: every payload kind, every depth *)
Lemma decode_build_payload : forall q, good_nv q = true ->
  forall x, n_decode (n_build (VE x (Some q))) = VE x (Some q).
Proof.
  induction q as [z|s|fs|y|y q' IH] using nval_rect2; intros Hg x; simpl in *.
  - reflexivity.
  - destruct s; [discriminate|reflexivity].
  - reflexivity.
  - discriminate.
  - pose proof (arg_of_built y q') as E. simpl in E. rewrite E. cbn [n_cons_decl n_decode].
    specialize (IH Hg y). simpl in IH. rewrite IH. reflexivity.
Qed.
Lemma nested_roundtrip_l : forall v, good_top v = true -> n_decode (n_build v) = v.
Proof.
  intros [z|s|fs|x [q|]] Hg; simpl in Hg; try discriminate.
  - apply decode_build_payload. exact Hg.
  - reflexivity.
Qed.

(* the scalar model is the nested one without associated_value *)
Lemma build_lift : forall c, n_build (nval_of_cval c) = lift (encode c).
Proof. intros [v p]. destruct p; reflexivity. Qed.
Lemma flat_lift_encode : forall c, flat (lift (encode c)) = encode c.
Proof. intros [v p]. destruct p; reflexivity. Qed.

Definition canon (st : stored) : Prop := s_enum st = true \/ st = not_enum.
Lemma canon_encode : forall c, canon (encode c).
Proof. intro c. left. apply encode_flags. Qed.
Lemma lift_eval_var : forall st, canon st ->
  n_eval_var (lift st) = match m_eval_var st with Some sv => Some (lift sv) | None => None end.
Proof.
  intros st [H|H].
  - destruct st as [e v h i s]. simpl in H. subst e. unfold lift, m_eval_var. simpl. destruct h; reflexivity.
  - subst. reflexivity.
Qed.
Lemma lift_return_var : forall st, canon st ->
  n_return_var (lift st) = match m_return_var st with RStruct sv => NRObj (lift sv) | RInt => NRInt end.
Proof.
  intros st [H|H].
  - destruct st as [e v h i s]. simpl in H. subst e. reflexivity.
  - subst. reflexivity.
Qed.
Lemma lift_decl_from_ret : forall r,
  n_decl_from_ret (match r with RStruct sv => NRObj (lift sv) | RInt => NRInt end) =
  lift (m_decl_from_ret (match r with RStruct sv => if s_enum sv then r else RInt | RInt => RInt end)).
Proof.
  intros [[e v h i s]|]; [|reflexivity]. destruct e; reflexivity.
Qed.

(* on Variables without associated_value every transport step is the step of Model.v *)
Lemma nested_conservative_step : forall st s, canon st -> n_step (lift st) s = lift (m_step st s) /\ canon (m_step st s).
Proof.
  intros st s Hc.
  assert (Hp : n_pass (lift st) = lift (m_pass st) /\ canon (m_pass st)).
  { unfold n_pass, m_pass. rewrite lift_eval_var by exact Hc. unfold m_eval_var.
    destruct (s_enum st && s_has st) eqn:E; [|split; [reflexivity|right; reflexivity]].
    split; [reflexivity|]. left. apply andb_true_iff in E. tauto. }
  assert (Hidf : n_call_idf (lift st) = match m_call_idf st with RStruct sv => NRObj (lift sv) | RInt => NRInt end /\
                 match m_call_idf st with RStruct sv => s_enum sv = true | RInt => True end).
  { unfold n_call_idf, m_call_idf. destruct Hp as [Hp1 Hp2]. rewrite Hp1. rewrite lift_return_var by exact Hp2.
    split; [reflexivity|]. unfold m_return_var. destruct (s_enum (m_pass st)) eqn:E; [exact E|exact I]. }
  destruct s; simpl.
  - (* StDeclVar *) destruct Hc as [H|H].
    + destruct st as [e v h i t]. simpl in H. subst e. split; [reflexivity|left; reflexivity].
    + subst. split; [reflexivity|left; reflexivity].
  - (* StDeclCall *) destruct Hidf as [H1 H2]. rewrite H1. destruct (m_call_idf st) as [[e v h i t]|].
    + simpl in H2. subst e. split; [reflexivity|left; reflexivity].
    + split; [reflexivity|left; reflexivity].
  - (* StAsgVar *) unfold n_assign_from_var, m_assign_from_var. rewrite lift_eval_var by exact Hc.
    unfold m_eval_var. destruct (s_enum st && s_has st) eqn:E.
    + split; [reflexivity|]. left. apply andb_true_iff in E. tauto.
    + split; [reflexivity|apply canon_encode].
  - (* StAsgCall *) destruct Hidf as [H1 H2]. rewrite H1. unfold m_assign_from_ret, n_assign_from_ret.
    destruct (m_call_idf st) as [sv|].
    + split; [reflexivity|left; exact H2].
    + split; [reflexivity|apply canon_encode].
  - (* StAsgCons *) split; [reflexivity|exact Hc].
  - (* StParam *) exact Hp.
Qed.
Lemma nested_conservative_l : forall steps c,
  fold_left n_step steps (lift (encode c)) = lift (fold_left m_step steps (encode c)).
Proof.
  intros steps c. generalize (canon_encode c). generalize (encode c) as st.
  induction steps as [|s rest IH]; intros st Hc; simpl; [reflexivity|].
  destruct (nested_conservative_step st s Hc) as [E Hc']. rewrite E. apply IH. exact Hc'.
Qed.

(* ---------------------------------------------------------------- transport of nested values *)
(* the steps that keep a value whose payload has the given shape intact *)
Definition nstep_ok (v : nval) (s : step) : bool :=
  match s with
  | StAsgCons _ => false
  | StDeclVar => true
  | StDeclCall => match n_payload v with Some (VI _) => true | _ => false end
  | _ => match n_payload v with None => false | Some _ => true end
  end.

Lemma eval_var_built : forall x q, n_eval_var (n_build (VE x (Some q))) = Some (n_build (VE x (Some q))).
Proof. intros x q. destruct (build_some_shape x q) as (i & s & a & E). rewrite E. reflexivity. Qed.
Lemma pass_built : forall x q, n_pass (n_build (VE x (Some q))) = n_build (VE x (Some q)).
Proof. intros. unfold n_pass. rewrite eval_var_built. reflexivity. Qed.
Lemma call_idf_built : forall x q, n_call_idf (n_build (VE x (Some q))) = NRObj (n_build (VE x (Some q))).
Proof. intros. unfold n_call_idf. rewrite pass_built. unfold n_return_var. rewrite build_is_enum. reflexivity. Qed.

Lemma nstep_preserves : forall x p s, nstep_ok (VE x p) s = true -> n_step (n_build (VE x p)) s = n_build (VE x p).
Proof.
  intros x p s Hok. destruct s; simpl in Hok.
  - unfold n_step, n_decl_from_var. rewrite build_is_enum. reflexivity.
  - destruct p as [[z| | |]|]; try discriminate. reflexivity.
  - destruct p as [q|]; [|discriminate]. unfold n_step, n_assign_from_var. rewrite eval_var_built. reflexivity.
  - destruct p as [q|]; [|discriminate]. unfold n_step. rewrite call_idf_built. reflexivity.
  - discriminate.
  - destruct p as [q|]; [|discriminate]. apply pass_built.
Qed.
Lemma nested_value_preserved_l : forall steps x p,
  forallb (nstep_ok (VE x p)) steps = true -> fold_left n_step steps (n_build (VE x p)) = n_build (VE x p).
Proof.
  induction steps as [|s rest IH]; intros x p H; [reflexivity|].
  cbn [forallb] in H. apply andb_true_iff in H. destruct H as [H1 H2]. cbn [fold_left].
  rewrite nstep_preserves by exact H1. apply IH. exact H2.
Qed.

(* ---------------------------------------------------------------- the declaration that runs again *)
Lemma declare_erase_fresh_l : forall slot new, m_declare true slot new = new.
Proof. reflexivity. Qed.
Lemma declare_keep_l : forall old x h i s a,
  m_declare false (Some old) (NVEnum x h i s a) = NVEnum x h i s (n_assoc old).
Proof. reflexivity. Qed.
(* without the erase the new value is read back correctly exactly when the kept associated_value happens to be the new
   one - for scalar payloads over a scalar predecessor (both None) always, for a struct / enum payload only when the
   predecessor carried the very same object *)
Lemma declare_needs_erase_l : forall old x h i s a,
  m_declare false (Some old) (NVEnum x h i s a) = NVEnum x h i s a <-> n_assoc old = a.
Proof.
  intros. rewrite declare_keep_l. split; [intro H; inversion H; reflexivity|intros ->; reflexivity].
Qed.

(* ---------------------------------------------------------------- history freedom of the loop body *)
(* what one step does to (w, current variable) - no slot in sight *)
Definition c_step (wc : nvar * nvar) (s : lstep) : nvar * nvar :=
  let '(w, cur) := wc in
  match s with
  | LS x => (w, n_step cur x)
  | LOutVar => let r := n_assign_from_var w cur in (r, r)
  | LOutCall => let r := n_assign_from_ret w (n_call_idf cur) in (r, r)
  end.
Definition proj (st : lstate) : nvar * nvar := (ls_w st, ls_cur st).

Lemma l_step_proj : forall st s, proj (l_step true st s) = c_step (proj st) s.
Proof.
  intros [sl w m n cur] s. unfold proj. destruct s as [x| |]; [destruct x|..]; simpl;
    unfold l_declare, l_assign; simpl; destruct m; reflexivity.
Qed.
Lemma l_steps_proj : forall steps st, proj (fold_left (l_step true) steps st) = fold_left c_step steps (proj st).
Proof.
  induction steps as [|s rest IH]; intro st; simpl; [reflexivity|]. rewrite IH, l_step_proj. reflexivity.
Qed.

(* the value the consumer sees and the new w, as functions of the old w and this execution's own value only *)
Definition c_iter (w : nvar) (p : progL) (v : nval) : nvar * (list nev * exitc) :=
  if is_direct (pl_final p) then (w, l_consume p v NVInt)
  else let wc := fold_left c_step (pl_steps p) (w, n_source (pl_builtin p) v (pl_src p)) in
       (fst wc, l_consume p v (snd wc)).

Lemma iter_history_free_l : forall sl w p v,
  (snd (fst (l_iter true sl w p v)), snd (l_iter true sl w p v)) = c_iter w p v.
Proof.
  intros sl w p v. unfold l_iter, c_iter. destruct (is_direct (pl_final p)); [reflexivity|].
  pose proof (l_steps_proj (pl_steps p) (l_source true sl w p v)) as H.
  change (proj (l_source true sl w p v)) with (w, n_source (pl_builtin p) v (pl_src p)) in H.
  cbv zeta. rewrite <- H. reflexivity.
Qed.

Fixpoint c_loop (p : progL) (k : nat) (w : nvar) (vals : list nval) : list nev * exitc :=
  match vals with
  | [] => ([NEDone], XOk)
  | v :: rest => let '(w', o) := c_iter w p v in then_n (NEIter k :: fst o, snd o) (c_loop p (S k) w' rest)
  end.
Lemma loop_slots_irrelevant : forall p vals k sl w, l_loop true p k sl w vals = c_loop p k w vals.
Proof.
  induction vals as [|v rest IH]; intros k sl w; simpl; [reflexivity|].
  pose proof (iter_history_free_l sl w p v) as H.
  destruct (l_iter true sl w p v) as [[sl' w'] o]. simpl in H. rewrite <- H. rewrite IH. reflexivity.
Qed.

(* ---------------------------------------------------------------- the match on a nested value *)
Definition arm_shape (a : armres) : armres :=
  match a with ArmOk k VNo => ArmOk k VNo | ArmOk k _ => ArmOk k (VInt 0) | x => x end.

Lemma match_from_shape : forall arms sv c k, s_variant sv = c_variant c ->
  s_has sv = match c_payload c with PNone => false | _ => true end ->
  arm_shape (mech_match_from k sv arms) = arm_shape (spec_match_from k c arms).
Proof.
  induction arms as [|a rest IH]; intros sv c k Hv Hh; simpl; [reflexivity|].
  destruct a as [v b|]; [|reflexivity]. rewrite Hv. destruct (str_eqb (c_variant c) v).
  - unfold bind_payload, spec_bind. rewrite Hh. destruct b; try reflexivity.
    destruct (c_payload c); try reflexivity; destruct (is_empty (s_str sv)); reflexivity.
  - apply IH; assumption.
Qed.

Lemma by_shape : forall (A : Type) (a1 a2 : armres) (x y : A) (f g : nat -> A), arm_shape a1 = arm_shape a2 ->
  match a1 with NoArm => x | ArmUnbound _ => y | ArmOk k VNo => f k | ArmOk k _ => g k end =
  match a2 with NoArm => x | ArmUnbound _ => y | ArmOk k VNo => f k | ArmOk k _ => g k end.
Proof.
  intros A a1 a2 x y f g H. destruct a1 as [k1 b1|k1|], a2 as [k2 b2|k2|]; try destruct b1; try destruct b2;
    simpl in H; try discriminate; try reflexivity; inversion H; reflexivity.
Qed.

(* the body of an arm: the binding of a built value is consumed like the value itself *)
Lemma consume_bound_of : forall t path q, good_nv q = true -> consume t path (bound_of q) = s_consume t path q.
Proof.
  induction t as [| | |a IHa|n1 a IHa n2|a IHa e IHe|n1 a IHa n2 b IHb n3 c IHc n4]; intros path q Hg.
  - destruct q; reflexivity.
  - destruct q; reflexivity.
  - destruct q as [z|s|fs|x p]; try reflexivity.
    cbn [bound_of consume s_consume]. destruct (build_enum_shape x p) as (h & i & s & a & E). rewrite E. reflexivity.
  - destruct q as [z|s|fs|x [q'|]]; try reflexivity.
    simpl in Hg. destruct (build_fields x q' Hg) as (i & s & asc & E & Eb).
    cbn [bound_of consume s_consume]. rewrite E.
    destruct (str_eqb x (s2l "Some")); [|reflexivity].
    unfold sub_arm, s_sub. rewrite Eb. apply IHa. exact Hg.
  - destruct q as [z|s|fs|x [q'|]]; try reflexivity.
    simpl in Hg. destruct (build_fields x q' Hg) as (i & s & asc & E & Eb).
    cbn [bound_of consume s_consume]. rewrite E.
    destruct (str_eqb x n1); [|reflexivity].
    unfold sub_arm, s_sub. rewrite Eb. apply IHa. exact Hg.
  - destruct q as [z|s|fs|x [q'|]]; try reflexivity.
    simpl in Hg. destruct (build_fields x q' Hg) as (i & s & asc & E & Eb).
    cbn [bound_of consume s_consume]. rewrite E.
    destruct (str_eqb x (s2l "Ok")); [unfold sub_arm, s_sub; rewrite Eb; apply IHa; exact Hg|].
    destruct (str_eqb x (s2l "Err")); [unfold sub_arm, s_sub; rewrite Eb; apply IHe; exact Hg|reflexivity].
  - destruct q as [z|s|fs|x [q'|]]; try reflexivity.
    simpl in Hg. destruct (build_fields x q' Hg) as (i & s & asc & E & Eb).
    cbn [bound_of consume s_consume]. rewrite E.
    destruct (str_eqb x n1); [unfold sub_arm, s_sub; rewrite Eb; apply IHa; exact Hg|].
    destruct (str_eqb x n2); [unfold sub_arm, s_sub; rewrite Eb; apply IHb; exact Hg|].
    destruct (str_eqb x n3); [unfold sub_arm, s_sub; rewrite Eb; apply IHc; exact Hg|reflexivity].
Qed.

(* the whole match statement on a built value = the property's own match on the value: the arm search of Model.v on the
   flat fields, then the body by the declared payload type - ANY arm list, any type, any depth *)
Lemma match_run_refines : forall t v arms, good_top v = true ->
  n_match_run t (n_build v) arms = s_match_run t v arms.
Proof.
  intros t [z|s|fs|x [q|]] arms Hg; simpl in Hg; try discriminate.
  - destruct (build_fields x q Hg) as (i & s & asc & E & Eb). rewrite E.
    unfold n_match_run, s_match_run. cbn [n_payload n_vname flat].
    assert (Hs : arm_shape (mech_match (mkS true x true i s) arms) =
                 arm_shape (spec_match (shape_cval (VE x (Some q))) arms)).
    { apply match_from_shape; reflexivity. }
    rewrite (by_shape _ _ _ ([], XNonExhaustive x) ([], XUnbound) (fun k => ([NEArm [k] LfNo], XOk))
               (fun k => consume (payload_ty t x) [k] (n_bound i s asc)) Hs).
    rewrite Eb. destruct (spec_match (shape_cval (VE x (Some q))) arms) as [k b| |]; try reflexivity.
    destruct b; try reflexivity; apply consume_bound_of; exact Hg.
  - cbn [n_build n_cons_decl]. unfold n_match_run, s_match_run. cbn [n_payload n_vname flat].
    assert (Hs : arm_shape (mech_match (mkS true x false 0 []) arms) =
                 arm_shape (spec_match (shape_cval (VE x None)) arms)).
    { apply match_from_shape; reflexivity. }
    rewrite (by_shape _ _ _ ([], XNonExhaustive x) ([], XUnbound) (fun k => ([NEArm [k] LfNo], XOk))
               (fun k => consume (payload_ty t x) [k] (n_bound 0 [] None)) Hs).
    assert (Hnb : forall k b, spec_match_from k (shape_cval (VE x None)) arms = ArmOk k b -> b = VNo \/ True) by (intros; right; exact I).
    assert (Hno : forall k0, match spec_match_from k0 (shape_cval (VE x None)) arms with ArmOk _ VNo => True | ArmOk _ _ => False | _ => True end).
    { clear. induction arms as [|a rest IH]; intro k0; simpl; [exact I|]. destruct a as [v b|]; [|exact I].
      destruct (str_eqb x v); [destruct b; exact I|apply IH]. }
    specialize (Hno 0%nat). unfold spec_match. destruct (spec_match_from 0 (shape_cval (VE x None)) arms) as [k b| |]; try reflexivity.
    destruct b; [reflexivity|contradiction|contradiction].
Qed.

(* a named binding of the selected arm holds exactly the payload - the struct with every member, the inner enum value
   with its own variant and payload *)
Lemma nested_binding_l : forall x q, good_nv q = true ->
  exists i s a, n_build (VE x (Some q)) = NVEnum x true i s a /\ n_bound i s a = bound_of q /\
                match q with
                | VR fs => n_bound i s a = BdObj (NVRec fs)
                | VE y p => n_bound i s a = BdObj (n_build (VE y p)) /\ n_decode (n_build (VE y p)) = VE y p
                | _ => True
                end.
Proof.
  intros x q Hg. destruct (build_fields x q Hg) as (i & s & a & E & Eb). exists i, s, a. repeat split; try assumption.
  destruct q as [z|t|fs|y p]; try exact I; [exact Eb|]. split; [exact Eb|].
  apply nested_roundtrip_l. simpl in *. destruct p; [exact Hg|discriminate].
Qed.

(* ---------------------------------------------------------------- family L: Mech = Spec on the conforming fragment *)
Definition lstep_ok (v : nval) (s : lstep) : bool :=
  match s with
  | LS x => nstep_ok v x
  | _ => match n_payload v with None => false | Some _ => true end
  end.

Lemma c_steps_preserve : forall steps x p w, forallb (lstep_ok (VE x p)) steps = true ->
  snd (fold_left c_step steps (w, n_build (VE x p))) = n_build (VE x p).
Proof.
  induction steps as [|s rest IH]; intros x p w H; [reflexivity|].
  cbn [forallb] in H. apply andb_true_iff in H. destruct H as [H1 H2]. cbn [fold_left].
  destruct s as [s| |]; cbn [c_step lstep_ok n_payload] in *.
  - rewrite nstep_preserves by exact H1. apply IH. exact H2.
  - destruct p as [q|]; [|discriminate]. unfold n_assign_from_var. rewrite eval_var_built. apply IH. exact H2.
  - destruct p as [q|]; [|discriminate]. rewrite call_idf_built. cbn [n_assign_from_ret]. apply IH. exact H2.
Qed.

Lemma forallb_impl2 : forall (A : Type) (f g : A -> bool) l,
  (forall x, f x = true -> g x = true) -> forallb f l = true -> forallb g l = true.
Proof. exact forallb_impl. Qed.
Lemma no_exists_forall2 : forall (A : Type) (f : A -> bool) l,
  existsb f l = false -> forallb (fun x => negb (f x)) l = true.
Proof. exact no_exists_forall. Qed.

Definition is_dc_or_ac (s : lstep) : bool := ls_is is_asgcons s || ls_is is_declcall s.

Lemma steps_ok_of_safe : forall p x pl, existsb (ls_is is_asgcons) (pl_steps p) = false ->
  safe_lval p (VE x pl) = true -> is_direct (pl_final p) = false ->
  forallb (lstep_ok (VE x pl)) (pl_steps p) = true /\ n_source (pl_builtin p) (VE x pl) (pl_src p) = n_build (VE x pl).
Proof.
  intros p x pl Hac Hs Hd. unfold safe_lval in Hs. apply andb_true_iff in Hs. destruct Hs as [Hg Hs].
  cbn [n_payload] in Hs. destruct pl as [q|].
  - destruct q as [z|s|fs|y q'].
    + split.
      * apply no_exists_forall2 in Hac. eapply forallb_impl2; [|exact Hac].
        intros [s| |] Hs'; simpl in *; try reflexivity. destruct s; simpl in *; try reflexivity. discriminate.
      * destruct (pl_src p); reflexivity.
    + rewrite Hd in Hs. simpl in Hs. apply andb_true_iff in Hs. destruct Hs as [Hsrc Hdc]. apply negb_true_iff in Hdc.
      split.
      * clear Hsrc. induction (pl_steps p) as [|a rest IH]; simpl in *; [reflexivity|].
        apply orb_false_iff in Hac. apply orb_false_iff in Hdc. destruct Hac, Hdc. rewrite IH by assumption.
        destruct a as [s'| |]; simpl in *; try reflexivity. destruct s'; simpl in *; try discriminate; reflexivity.
      * destruct (pl_src p); try discriminate. reflexivity.
    + assert (Hs' : match pl_src p with SrcCons => true | _ => false end && negb (existsb (ls_is is_declcall) (pl_steps p)) = true).
      { destruct (pl_final p); simpl in Hd; try discriminate; exact Hs. }
      apply andb_true_iff in Hs'. destruct Hs' as [Hsrc Hdc]. apply negb_true_iff in Hdc.
      split.
      * clear Hsrc Hs. induction (pl_steps p) as [|a rest IH]; simpl in *; [reflexivity|].
        apply orb_false_iff in Hac. apply orb_false_iff in Hdc. destruct Hac, Hdc. rewrite IH by assumption.
        destruct a as [s'| |]; simpl in *; try reflexivity. destruct s'; simpl in *; try discriminate; reflexivity.
      * destruct (pl_src p); try discriminate. reflexivity.
    + assert (Hs' : match pl_src p with SrcCons => true | _ => false end && negb (existsb (ls_is is_declcall) (pl_steps p)) = true).
      { destruct (pl_final p); simpl in Hd; try discriminate; exact Hs. }
      apply andb_true_iff in Hs'. destruct Hs' as [Hsrc Hdc]. apply negb_true_iff in Hdc.
      split.
      * clear Hsrc Hs. induction (pl_steps p) as [|a rest IH]; simpl in *; [reflexivity|].
        apply orb_false_iff in Hac. apply orb_false_iff in Hdc. destruct Hac, Hdc. rewrite IH by assumption.
        destruct a as [s'| |]; simpl in *; try reflexivity. destruct s'; simpl in *; try discriminate; reflexivity.
      * destruct (pl_src p); try discriminate. reflexivity.
  - assert (Hs' : forallb (ls_is is_declvar) (pl_steps p) = true /\
                  match pl_src p with SrcCons | SrcCallVar => true | SrcCall => pl_builtin p end = true).
    { destruct (pl_final p); simpl in Hd; try discriminate; apply andb_true_iff in Hs; exact Hs. }
    destruct Hs' as [Hdv Hsrc]. split.
    + eapply forallb_impl2; [|exact Hdv]. intros [s| |] Hs'; simpl in *; try discriminate.
      destruct s; simpl in *; try discriminate. reflexivity.
    + destruct (pl_src p); try reflexivity. simpl in Hsrc. unfold n_source, n_return_cons. simpl. rewrite Hsrc. reflexivity.
Qed.

Lemma lossy_scalar : forall x q, match q with VI _ | VS _ => True | _ => False end ->
  n_cons_lossy x (Some (n_arg q)) = n_build (VE x (Some q)).
Proof. intros x q H. destruct q; try contradiction; reflexivity. Qed.

Lemma scrutinee_of_safe_l : forall p x pl cur, safe_lval p (VE x pl) = true ->
  match pl_final p with FinObs | FinVal => False | _ => True end ->
  (is_direct (pl_final p) = false -> cur = n_build (VE x pl)) ->
  l_scrutinee p (VE x pl) cur = inl (n_build (VE x pl)).
Proof.
  intros [bi ty src steps fin arms vals wi] x pl cur Hs Hf Hcur. unfold safe_lval in Hs.
  apply andb_true_iff in Hs. destruct Hs as [Hg Hs].
  cbn [n_payload pl_final pl_builtin pl_steps pl_src] in *. unfold l_scrutinee. cbn [pl_final pl_builtin].
  destruct fin; try contradiction; cbn [is_direct] in Hcur.
  - rewrite (Hcur eq_refl), build_is_enum. reflexivity.
  - rewrite (Hcur eq_refl). destruct pl as [q|].
    + rewrite call_idf_built. unfold n_of_ret. rewrite build_is_enum. reflexivity.
    + discriminate Hs.
  - unfold n_return_cons. cbn [n_payload n_vname]. destruct pl as [q|].
    + destruct q; try discriminate Hs; reflexivity.
    + rewrite Hs. reflexivity.
  - unfold n_return_var. rewrite build_is_enum. unfold n_of_ret. rewrite build_is_enum. reflexivity.
  - cbn [n_payload n_vname]. destruct pl as [q|]; [|discriminate Hs]. destruct q; try discriminate Hs; reflexivity.
Qed.

Lemma iter_refines : forall p w v, existsb (ls_is is_asgcons) (pl_steps p) = false ->
  match pl_final p with FinVal => false | _ => true end = true -> safe_lval p v = true ->
  snd (c_iter w p v) = s_iter p v.
Proof.
  intros p w v Hac Hfv Hs. assert (Hg : good_top v = true).
  { unfold safe_lval in Hs. apply andb_true_iff in Hs. tauto. }
  destruct v as [z|s|fs|x pl]; simpl in Hg; try discriminate.
  unfold c_iter, s_iter. destruct (is_direct (pl_final p)) eqn:Hd.
  - simpl. unfold l_consume. rewrite Hd.
    destruct (pl_final p) eqn:Ef; simpl in Hd; try discriminate;
      (rewrite (scrutinee_of_safe_l p x pl NVInt Hs); [|rewrite Ef; exact I|rewrite Ef; simpl; discriminate]);
      rewrite match_run_refines by exact Hg; reflexivity.
  - simpl. destruct (steps_ok_of_safe p x pl Hac Hs Hd) as [Hok Hsrc]. rewrite Hsrc.
    rewrite c_steps_preserve by exact Hok. unfold l_consume. rewrite Hd.
    destruct (pl_final p) eqn:Ef; simpl in Hd; try discriminate.
    + rewrite (scrutinee_of_safe_l p x pl _ Hs); [|rewrite Ef; exact I|intros _; reflexivity].
      rewrite match_run_refines by exact Hg. reflexivity.
    + rewrite (scrutinee_of_safe_l p x pl _ Hs); [|rewrite Ef; exact I|intros _; reflexivity].
      rewrite match_run_refines by exact Hg. reflexivity.
    + rewrite build_is_enum, build_variant. reflexivity.
Qed.

Lemma c_loop_refines : forall p vals k w, existsb (ls_is is_asgcons) (pl_steps p) = false ->
  match pl_final p with FinVal => false | _ => true end = true -> forallb (safe_lval p) vals = true ->
  c_loop p k w vals = s_loop p k vals.
Proof.
  induction vals as [|v rest IH]; intros k w Hac Hfv Hs; simpl in *; [reflexivity|].
  apply andb_true_iff in Hs. destruct Hs as [H1 H2].
  pose proof (iter_refines p w v Hac Hfv H1) as E. destruct (c_iter w p v) as [w' o]. simpl in E. subst o.
  rewrite IH by assumption. reflexivity.
Qed.

Lemma loop_refines_l : forall p, safe_l p = true -> m_run_l p = s_run_l p.
Proof.
  intros p Hs. unfold safe_l in Hs. apply andb_true_iff in Hs. destruct Hs as [Hs H3].
  apply andb_true_iff in Hs. destruct Hs as [H1 H2]. apply negb_true_iff in H1.
  unfold m_run_l, m_run_l_with, s_run_l. rewrite loop_slots_irrelevant.
  rewrite c_loop_refines by assumption. reflexivity.
Qed.

(* every execution of a conforming body prints what the Spec prints for ITS value - from any slots, any w *)
Lemma loop_iteration_l : forall p sl w v, safe_l p = true -> In v (pl_vals p) ->
  snd (l_iter true sl w p v) = s_iter p v.
Proof.
  intros p sl w v Hs Hin. unfold safe_l in Hs. apply andb_true_iff in Hs. destruct Hs as [Hs H3].
  apply andb_true_iff in Hs. destruct Hs as [H1 H2]. apply negb_true_iff in H1.
  rewrite forallb_forall in H3. specialize (H3 v Hin).
  pose proof (iter_history_free_l sl w p v) as E. pose proof (iter_refines p w v H1 H2 H3) as R.
  rewrite <- E in R. exact R.
Qed.

(* ---------------------------------------------------------------- witnesses *)
Definition ty_u : nty := TUsr (s2l "A") TInt (s2l "P") TRec (s2l "R") (TRes TInt TStr) (s2l "N").
Definition arms_u : list pattern :=
  [PatVar (s2l "A") BName; PatVar (s2l "P") BName; PatVar (s2l "R") BName; PatVar (s2l "N") BNo].
Definition w_u : cval := mkC (s2l "A") (PInt 1).
Definition v_p (a b : Z) : nval := VE (s2l "P") (Some (VR [SInt a; SInt b])).
Definition v_r_err (s : str) : nval := VE (s2l "R") (Some (VE (s2l "Err") (Some (VS s)))).
Definition v_r_ok (z : Z) : nval := VE (s2l "R") (Some (VE (s2l "Ok") (Some (VI z)))).

(* the seeded shape: the same declaration executed with a struct, an enum, a scalar, a struct, an enum payload; the code
   (erase before emplace) prints every execution's own payload; without the erase every later execution shows the nested
   payload of the first one that had one *)
Definition loop_demo : progL :=
  mkPL false ty_u SrcCons [LS StDeclVar; LS StParam] FinVar arms_u
       [v_p 3 4; v_r_err (s2l "bad"); VE (s2l "A") (Some (VI 5)); v_p 7 8; v_r_ok 9] w_u.
Lemma loop_example_l :
  safe_l loop_demo = true /\
  m_run_l loop_demo =
    mkNR [NEIter 0; NEArm [1%nat] (LfRec [SInt 3; SInt 4]); NEAfter; NEBack 1;
          NEIter 1; NEArm [2%nat; 1%nat] (LfStr (s2l "bad")); NEAfter; NEBack 1;
          NEIter 2; NEArm [0%nat] (LfInt 5); NEAfter; NEBack 1;
          NEIter 3; NEArm [1%nat] (LfRec [SInt 7; SInt 8]); NEAfter; NEBack 1;
          NEIter 4; NEArm [2%nat; 0%nat] (LfInt 9); NEAfter; NEBack 1; NEDone] XOk.
Proof. vm_compute. split; reflexivity. Qed.
Lemma loop_without_erase_refuted_l :
  nr_events (m_run_l_with false loop_demo) =
    [NEIter 0; NEArm [1%nat] (LfRec [SInt 3; SInt 4]); NEAfter; NEBack 1;
     NEIter 1] /\ nr_exit (m_run_l_with false loop_demo) = XNotEnum /\
  m_run_l_with false loop_demo <> s_run_l loop_demo.
Proof. vm_compute. repeat split. discriminate. Qed.

(* the recorded defects of the nested payloads *)
Lemma nested_decl_from_call_refuted_l :
  let p := mkPL false ty_u SrcCallVar [] FinVar arms_u [v_p 3 4] w_u in
  m_run_l p = mkNR [NEIter 0] XNotStruct /\
  s_run_l p = mkNR [NEIter 0; NEArm [1%nat] (LfRec [SInt 3; SInt 4]); NEAfter; NEDone] XOk.
Proof. vm_compute. split; reflexivity. Qed.
Lemma nested_return_constructor_refuted_l :
  let p := mkPL false ty_u SrcCons [] FinMk arms_u [v_r_err (s2l "bad")] w_u in
  m_run_l p = mkNR [NEIter 0] XNotEnum /\
  s_run_l p = mkNR [NEIter 0; NEArm [2%nat; 1%nat] (LfStr (s2l "bad")); NEAfter; NEDone] XOk.
Proof. vm_compute. split; reflexivity. Qed.
Lemma nested_payloadless_inner_refuted_l :
  let t := TOpt (TOpt TInt) in
  let p := mkPL true t SrcCons [] FinVar [PatVar (s2l "Some") BName; PatVar (s2l "None") BNo]
                [VE (s2l "Some") (Some (VE (s2l "None") None))] (mkC (s2l "None") PNone) in
  m_run_l p = mkNR [NEIter 0] XNotEnum /\
  s_run_l p = mkNR [NEIter 0; NEArm [0%nat; 1%nat] LfNo; NEAfter; NEDone] XOk.
Proof. vm_compute. split; reflexivity. Qed.
(* `w = v;` with a payload-less v keeps what the PREVIOUS execution stored in w *)
Lemma loop_outer_assign_payloadless_refuted_l :
  let p := mkPL false ty_u SrcCons [LOutVar] FinVar arms_u [v_p 3 4; VE (s2l "N") None] w_u in
  m_run_l p = mkNR [NEIter 0; NEArm [1%nat] (LfRec [SInt 3; SInt 4]); NEAfter;
                    NEIter 1; NEArm [1%nat] (LfRec [SInt 3; SInt 4]); NEAfter; NEDone] XOk /\
  s_run_l p = mkNR [NEIter 0; NEArm [1%nat] (LfRec [SInt 3; SInt 4]); NEAfter;
                    NEIter 1; NEArm [3%nat] LfNo; NEAfter; NEDone] XOk.
Proof. vm_compute. split; reflexivity. Qed.

(* ---------------------------------------------------------------- family LT *)
Lemma try_like_spec : forall chk r, match r with inl (TVStr []) => false | _ => true end = true ->
  try_like chk r = encode (spec_try r) /\ good_top (nval_of_cval (spec_try r)) = true.
Proof.
  intros chk r H. destruct r as [[z|[|c s]]|k].
  - split; reflexivity.
  - discriminate.
  - split; reflexivity.
  - split; [apply try_err_class_l|]. destruct k as [ | | | |[|]]; reflexivity.
Qed.

Lemma lt_loop_refines : forall p ops k slot,
  forallb (fun o => match lt_eval p o with inl (TVStr []) => false | _ => true end) ops = true ->
  lt_loop true p k slot ops = s_lt_loop p k ops.
Proof.
  induction ops as [|o rest IH]; intros k slot H; simpl in *; [reflexivity|].
  apply andb_true_iff in H. destruct H as [H1 H2].
  destruct (try_like_spec (lt_checked p) (lt_eval p o) H1) as [E G].
  unfold m_declare. simpl. rewrite E. rewrite <- build_lift. rewrite match_run_refines by exact G.
  rewrite IH by exact H2. reflexivity.
Qed.
Lemma loop_try_refines_l : forall p, safe_lt p = true -> m_run_lt p = s_run_lt p.
Proof. intros p H. unfold m_run_lt, s_run_lt. rewrite lt_loop_refines by exact H. reflexivity. Qed.
(* the slot the previous execution left is irrelevant for every operand list *)
Lemma loop_try_history_free_l : forall p ops k slot, lt_loop true p k slot ops = lt_loop true p k None ops.
Proof.
  intros p ops. destruct ops as [|o rest]; intros k slot; reflexivity.
Qed.

(* ---------------------------------------------------------------- family LQ *)
Lemma lq_loop_refines : forall p outs k slot, safe_lq (mkLQ (lq_kind p) (lq_ctx p) (lq_opnd p) outs) = true ->
  lq_loop true p k slot outs =
    (fst (s_lq_loop p k outs), inl (encode (snd (s_lq_loop p k outs)))).
Proof.
  induction outs as [|o rest IH]; intros k slot H; [reflexivity|].
  unfold safe_lq in H. cbn [lq_outs lq_kind lq_opnd forallb] in H. apply andb_true_iff in H. destruct H as [H1 H2].
  cbn [lq_loop s_lq_loop]. destruct o as [z|e].
  - cbn [lq_value].
    assert (Hq : forall sl, (let '(slot', opnd) := match lq_opnd p with
                             | OpCall => (sl, encode (mkC (v_ok (lq_kind p)) (PInt z)))
                             | OpVar => let r := m_declare true sl (lift (m_decl_from_ret (RStruct (encode (mkC (v_ok (lq_kind p)) (PInt z)))))) in (Some r, flat r)
                             end in m_qmark (lq_kind p) opnd) = QVal z).
    { intro sl. destruct (lq_opnd p); destruct (lq_kind p); reflexivity. }
    destruct (lq_opnd p) eqn:Eo.
    + assert (Hm : m_qmark (lq_kind p) (encode (mkC (v_ok (lq_kind p)) (PInt z))) = QVal z) by (destruct (lq_kind p); reflexivity).
      rewrite Hm. destruct (lq_ctx p) eqn:Ec; try reflexivity;
        (rewrite (IH (S k) slot) by exact H2; destruct (s_lq_loop p (S k) rest); reflexivity).
    + cbn zeta. unfold m_declare. cbn [emplace_fix].
      assert (Hm : m_qmark (lq_kind p) (flat (lift (m_decl_from_ret (RStruct (encode (mkC (v_ok (lq_kind p)) (PInt z))))))) = QVal z)
        by (destruct (lq_kind p); reflexivity).
      rewrite Hm. destruct (lq_ctx p) eqn:Ec; try reflexivity;
        (rewrite IH by exact H2; destruct (s_lq_loop p (S k) rest); reflexivity).
  - cbn [lq_value]. destruct (lq_kind p) eqn:Ek.
    + apply andb_true_iff in H1. destruct H1 as [Hg Ho].
      destruct (lq_opnd p) eqn:Eo.
      * destruct e as [|z|s]; [discriminate| |]; [reflexivity|]. destruct s; [discriminate|reflexivity].
      * destruct e as [|z|s]; [discriminate|reflexivity|discriminate].
    + destruct (lq_opnd p); reflexivity.
Qed.

Lemma loop_qmark_refines_l : forall p, safe_lq p = true -> m_run_lq p = s_run_lq p.
Proof.
  intros p H. unfold m_run_lq, s_run_lq.
  assert (H' : safe_lq (mkLQ (lq_kind p) (lq_ctx p) (lq_opnd p) (lq_outs p)) = true) by (destruct p; exact H).
  rewrite (lq_loop_refines p (lq_outs p) 0%nat None H').
  destruct (s_lq_loop p 0 (lq_outs p)) as [evs c] eqn:E. cbn [fst snd].
  unfold lq_finish. rewrite <- build_lift.
  assert (G : good_top (nval_of_cval c) = true).
  { assert (Hall : forall outs k, safe_lq (mkLQ (lq_kind p) (lq_ctx p) (lq_opnd p) outs) = true ->
                   good_top (nval_of_cval (snd (s_lq_loop p k outs))) = true).
    { induction outs as [|o rest IH]; intros k Hs.
      - destruct (lq_kind p); reflexivity.
      - unfold safe_lq in Hs. cbn [lq_outs lq_kind lq_opnd forallb] in Hs. apply andb_true_iff in Hs. destruct Hs as [Hs1 Hs2].
        cbn [s_lq_loop]. destruct o as [z|e].
        + destruct (lq_ctx p); try (destruct (lq_kind p); reflexivity);
            (specialize (IH (S k) Hs2); destruct (s_lq_loop p (S k) rest); exact IH).
        + cbn [snd lq_value]. destruct (lq_kind p); [|reflexivity].
          apply andb_true_iff in Hs1. destruct Hs1 as [Hg _]. destruct e as [|z|s]; [discriminate|reflexivity|].
          simpl in *. exact Hg. }
    specialize (Hall (lq_outs p) 0%nat H'). rewrite E in Hall. exact Hall. }
  rewrite match_run_refines by exact G. reflexivity.
Qed.

(* `f(i)?` in a loop: Ok(10), Ok(20), Err("e2"), (never reached) Ok(40) - two posts with their own payloads, then the
   function returns that very Err *)
Lemma loop_qmark_example_l :
  let p := mkLQ KResult QDecl OpCall [QOOk 10; QOOk 20; QOFail (PStr (s2l "e2")); QOOk 40] in
  safe_lq p = true /\
  m_run_lq p = mkNR [NEIter 0; NEPost 0 (LfInt 10); NEIter 1; NEPost 1 (LfInt 20); NEIter 2;
                     NEArm [1%nat] (LfStr (s2l "e2")); NEAfter] XOk.
Proof. vm_compute. split; reflexivity. Qed.
Lemma loop_try_example_l :
  let p := mkLT true (TEStr (SIdx CA)) [mkLO 1 0 [] []; mkLO 3 0 [] []; mkLO 2 0 [] []] in
  safe_lt p = true /\
  m_run_lt p = mkNR [NEIter 0; NEArm [0%nat] (LfStr (s2l "bob"));
                     NEIter 1; NEArm [1%nat] (LfStr (s2l "IndexOutOfBoundsError: Array index out of bounds"));
                     NEIter 2; NEArm [0%nat] (LfStr (s2l "cy")); NEDone] XOk.
Proof. vm_compute. split; reflexivity. Qed.
