(* C13 - whole-name comparison of the arm search, and sequences of match statements packaged as functions
   (family M): refinement Mech = Spec on the conforming fragment, independence of a call from the calls before it. *)
From Coq Require Import List ZArith Bool Ascii String Arith Lia.
From Cb Require Import C13.Model C13.MatchLemmas C13.Transport.
Import ListNotations.
Local Open Scope Z_scope.

(* ---------------------------------------------------------------- names are compared as wholes *)
(* the arm the loop selects names the stored variant exactly - equal length, equal bytes, equal case *)
Lemma match_selected_name_equal_l : forall sv arms i v b,
  arm_index (mech_match sv arms) = Some i -> nth_error arms i = Some (PatVar v b) -> v = s_variant sv.
Proof.
  intros sv arms i v b H Hn. apply match_first_arm_l in H. destruct H as [(p & Hp & Hm) _].
  rewrite Hn in Hp. inversion Hp; subst p. simpl in Hm. apply str_eqb_eq in Hm. congruence.
Qed.

(* an arm naming anything else - a proper prefix, a suffix, a case variant, an extension of the stored name -
   is passed over and the search goes on behind it *)
Lemma match_skips_other_names_l : forall sv v b rest k,
  v <> s_variant sv -> mech_match_from k sv (PatVar v b :: rest) = mech_match_from (S k) sv rest.
Proof.
  intros sv v b rest k H. simpl. destruct (str_eqb (s_variant sv) v) eqn:E; [|reflexivity].
  apply str_eqb_eq in E. congruence.
Qed.

Lemma is_prefix_refl : forall s, is_prefix s s = true.
Proof. induction s as [|a s IH]; simpl; [reflexivity|]. destruct (ascii_dec a a); [exact IH|congruence]. Qed.

Lemma is_prefix_app : forall p s, is_prefix p s = true <-> exists t, s = p ++ t.
Proof.
  induction p as [|a p IH]; intros s; simpl.
  - split; [intros _; exists s; reflexivity|reflexivity].
  - destruct s as [|b s].
    + split; [discriminate|]. intros [t Ht]. discriminate.
    + destruct (ascii_dec a b) as [->|Hne].
      * rewrite IH. split; intros [t Ht]; exists t; [rewrite Ht; reflexivity|]. inversion Ht. reflexivity.
      * split; [discriminate|]. intros [t Ht]. inversion Ht. congruence.
Qed.

(* the very shape of the seeded defect: the arm name is a proper prefix of the stored name (Key / KeyUp) *)
Lemma match_prefix_name_skipped_l : forall sv v t b rest k,
  s_variant sv = v ++ t -> t <> [] -> mech_match_from k sv (PatVar v b :: rest) = mech_match_from (S k) sv rest.
Proof.
  intros sv v t b rest k H Ht. apply match_skips_other_names_l. rewrite H. intro E.
  apply (f_equal (@List.length ascii)) in E. rewrite app_length in E. destruct t; [congruence|]. simpl in E. lia.
Qed.

(* ... and the other way round: the arm name extends the stored name (KeyUp arm, Key value) *)
Lemma match_extended_name_skipped_l : forall sv v t b rest k,
  v = s_variant sv ++ t -> t <> [] -> mech_match_from k sv (PatVar v b :: rest) = mech_match_from (S k) sv rest.
Proof.
  intros sv v t b rest k H Ht. apply match_skips_other_names_l. rewrite H. intro E.
  apply (f_equal (@List.length ascii)) in E. rewrite app_length in E. destruct t; [congruence|]. simpl in E. lia.
Qed.

(* the rule that makes a payload-less literal travel as a struct is a prefix test on the TYPE name *)
Lemma builtin_of_name_spec_l : forall tn,
  builtin_of_name tn = true <-> (exists t, tn = s2l "Result" ++ t) \/ (exists t, tn = s2l "Option" ++ t).
Proof.
  intro tn. unfold builtin_of_name. rewrite orb_true_iff, !is_prefix_app. reflexivity.
Qed.

(* ---------------------------------------------------------------- family M *)
Lemma good_cval_match : forall c, good_cval c = true -> good_for_match (c_payload c) = true.
Proof. intros [v p]. destruct p; simpl; auto. Qed.

Lemma armres_out_refines : forall mk c arms, good_cval c = true ->
  armres_out mk (s_variant (encode c)) (mech_match (encode c) arms) = armres_out mk (c_variant c) (spec_match c arms).
Proof. intros mk c arms H. rewrite variant_encode, match_refines_l by (apply good_cval_match; exact H). reflexivity. Qed.

Lemma once_refines : forall j f c c2, good_cval c = true -> (needs2 f = true -> good_cval c2 = true) ->
  m_once j f (encode c) (encode c2) = s_once j f c c2.
Proof.
  intros j f c c2 Hg Hg2. unfold m_once, s_once. rewrite encode_flags. simpl negb. cbv iota.
  rewrite variant_encode, match_refines_l by (apply good_cval_match; exact Hg).
  destruct (snd (armres_out (EM j) (c_variant c) (spec_match c (f_arms f)))); try reflexivity.
  destruct (spec_match c (f_arms f)); try reflexivity.
  unfold needs2 in Hg2. destruct (eff_nest f) as [[i0 arms2]|]; [|reflexivity].
  destruct (Nat.eqb i i0); [|reflexivity].
  rewrite encode_flags. simpl negb. cbv iota.
  rewrite armres_out_refines by (apply Hg2; reflexivity). reflexivity.
Qed.

Lemma arg_safe : forall f d c, (is_inline f = true \/ (d = false /\ has_pl c = true)) -> m_arg f d c = encode c.
Proof.
  intros f d c [H|[-> H]]; unfold m_arg; [rewrite H; reflexivity|].
  destruct (is_inline f); [reflexivity|]. apply pass_encode. unfold has_pl in H. destruct (c_payload c); congruence.
Qed.

Lemma call_refines : forall fns k, safe_call fns k = true -> m_call fns k = s_call fns k.
Proof.
  intros fns k Hs. unfold safe_call in Hs. unfold m_call, s_call.
  destruct (nth_error fns (k_fn k)) as [f|]; [|discriminate].
  apply andb_true_iff in Hs. destruct Hs as [Hs Hp]. apply andb_true_iff in Hs. destruct Hs as [Hg Hg2].
  assert (Ha : m_arg f (k_direct k) (k_val k) = encode (k_val k)).
  { apply arg_safe. apply orb_true_iff in Hp. destruct Hp as [Hp|Hp]; [left; exact Hp|right].
    apply andb_true_iff in Hp. destruct Hp as [Hp _]. apply andb_true_iff in Hp. destruct Hp as [Hd Hh].
    apply negb_true_iff in Hd. split; assumption. }
  rewrite Ha.
  destruct (needs2 f) eqn:En.
  - assert (Ha2 : m_arg f false (k_val2 k) = encode (k_val2 k)).
    { apply arg_safe. apply orb_true_iff in Hp. destruct Hp as [Hp|Hp]; [left; exact Hp|right].
      apply andb_true_iff in Hp. destruct Hp as [_ Hh]. simpl in Hh. split; [reflexivity|exact Hh]. }
    rewrite Ha2. simpl in Hg2.
    rewrite once_refines by (auto).
    rewrite match_refines_l by (apply good_cval_match; exact Hg). reflexivity.
  - (* the second value is never looked at *)
    assert (Ho : forall sv2, m_once (k_fn k) f (encode (k_val k)) sv2 = s_once (k_fn k) f (k_val k) (k_val2 k)).
    { intro sv2. unfold m_once, s_once. rewrite encode_flags. simpl negb. cbv iota.
      rewrite variant_encode, match_refines_l by (apply good_cval_match; exact Hg).
      unfold needs2 in En. destruct (eff_nest f); [discriminate|].
      destruct (snd (armres_out (EM (k_fn k)) (c_variant (k_val k)) (spec_match (k_val k) (f_arms f)))); try reflexivity;
      destruct (spec_match (k_val k) (f_arms f)); reflexivity. }
    rewrite Ho. rewrite match_refines_l by (apply good_cval_match; exact Hg). reflexivity.
Qed.

Lemma run_calls_ext : forall f g ks, (forall k, In k ks -> f k = g k) -> run_calls f ks = run_calls g ks.
Proof.
  induction ks as [|k rest IH]; intro H; simpl; [reflexivity|].
  rewrite (H k (or_introl eq_refl)). rewrite IH; [reflexivity|]. intros k' Hin. apply H. right. exact Hin.
Qed.

Lemma suite_refines_l : forall p, safe_m p = true -> m_run_m p = s_run_m p.
Proof.
  intros [fns ks] Hs. unfold safe_m in Hs. simpl in Hs. unfold m_run_m, s_run_m. simpl.
  rewrite (run_calls_ext (m_call fns) (s_call fns) ks); [reflexivity|].
  intros k Hin. apply call_refines. rewrite forallb_forall in Hs. apply Hs. exact Hin.
Qed.

(* ---------------------------------------------------------------- a call does not see the calls before it *)
Fixpoint run_prefix (call : mcall -> list mev * exitc) (ks : list mcall) : list mev * exitc :=
  match ks with
  | [] => ([], XOk)
  | k :: rest => then_ev (call k) (run_prefix call rest)
  end.

Lemma then_ev_assoc : forall a b c, then_ev (then_ev a b) c = then_ev a (then_ev b c).
Proof.
  intros [ea xa] [eb xb] [ec xc]. unfold then_ev. simpl.
  destruct xa; simpl; try reflexivity. destruct xb; simpl; try reflexivity. rewrite app_assoc. reflexivity.
Qed.
Lemma then_ev_nil : forall b, then_ev ([], XOk) b = b.
Proof. intros [eb xb]. reflexivity. Qed.

Lemma run_calls_app : forall call ks1 ks2,
  run_calls call (ks1 ++ ks2) = then_ev (run_prefix call ks1) (run_calls call ks2).
Proof.
  induction ks1 as [|k rest IH]; intro ks2; simpl.
  - rewrite then_ev_nil. reflexivity.
  - rewrite IH. rewrite then_ev_assoc. reflexivity.
Qed.

(* whatever ran before (any functions, any values, any number of calls): if the run got as far as call k, what
   call k prints is m_call fns k - a function of the called function's arms and of k's own values only *)
Lemma suite_history_free_l : forall fns ks1 k ks2, snd (run_prefix (m_call fns) ks1) = XOk ->
  mr_events (m_run_m (mkM fns (ks1 ++ k :: ks2))) =
    fst (run_prefix (m_call fns) ks1) ++ fst (then_ev (m_call fns k) (run_calls (m_call fns) ks2)).
Proof.
  intros fns ks1 k ks2 H. unfold m_run_m. simpl. rewrite run_calls_app. simpl.
  unfold then_ev at 1. rewrite H. reflexivity.
Qed.

(* the first call that fails ends the program: nothing of the later calls is printed, not even "after" *)
Lemma suite_stops_at_failure_l : forall fns ks1 k ks2, snd (run_prefix (m_call fns) ks1) = XOk ->
  snd (m_call fns k) <> XOk ->
  m_run_m (mkM fns (ks1 ++ k :: ks2)) = mkMR (fst (run_prefix (m_call fns) ks1) ++ fst (m_call fns k)) (snd (m_call fns k)).
Proof.
  intros fns ks1 k ks2 H Hk. unfold m_run_m. simpl. rewrite run_calls_app. simpl.
  assert (Hc : then_ev (m_call fns k) (run_calls (m_call fns) ks2) = (fst (m_call fns k), snd (m_call fns k))).
  { unfold then_ev. destruct (snd (m_call fns k)); try congruence; reflexivity. }
  rewrite Hc. unfold then_ev. rewrite H. reflexivity.
Qed.

(* non-vacuity and the two defects the fragment excludes *)
Definition key_arms : list pattern :=
  [PatVar (s2l "Key") BName; PatVar (s2l "KeyUp") BName; PatVar (s2l "KeyRepeat") BName; PatVar (s2l "Quit") BNo].
Lemma suite_example_l :
  let f := mkF MRet [PatVar (s2l "Key") BName; PatWild] None in
  let p := mkM [mkF MVoid key_arms None; f]
               [mkK 0 (mkC (s2l "KeyUp") (PInt 65)) (mkC [] PNone) false; mkK 1 (mkC (s2l "KeyRepeat") (PInt 72)) (mkC [] PNone) false;
                mkK 1 (mkC (s2l "Key") (PInt 70)) (mkC [] PNone) false] in
  safe_m p = true /\
  m_run_m p = mkMR [EM 0 1 (VInt 65); EEnd 0; EM 1 1 VNo; ERetV 1 1; EM 1 0 (VInt 70); ERetV 1 0; EDone] XOk.
Proof. vm_compute. split; reflexivity. Qed.

(* hj(T::V(p)): the constructor expression as an argument arrives as an integer *)
Lemma suite_constructor_argument_refuted_l :
  let p := mkM [mkF MVoid key_arms None] [mkK 0 (mkC (s2l "Key") (PInt 5)) (mkC [] PNone) true] in
  m_run_m p = mkMR [] XNotEnum /\ s_run_m p = mkMR [EM 0 0 (VInt 5); EEnd 0; EDone] XOk.
Proof. vm_compute. split; reflexivity. Qed.
