(* C13 - try / checked (family T): classification of the error texts and the statement contexts. *)
From Coq Require Import List ZArith Bool Ascii String Arith Lia.
From Cb Require Import C13.Model C13.MatchLemmas.
Import ListNotations.
Local Open Scope Z_scope.

(* ---------------------------------------------------------------- Ok v iff e evaluates to v *)
(* for integer AND string operands; the value is carried unchanged unless it is the empty string *)
Lemma try_ok_iff_l : forall chk a b sa sb e,
  let r := teval a b sa sb e in
  (s_variant (try_like chk r) = s2l "Ok" <-> exists v, r = inl v) /\
  (forall v, r = inl v -> v <> TVStr [] ->
     try_like chk r = encode (mkC (s2l "Ok") (payload_of_tval v)) /\
     decode (try_like chk r) = mkC (s2l "Ok") (payload_of_tval v)) /\
  (forall k, r = inr k -> s_variant (try_like chk r) = s2l "Err").
Proof.
  intros chk a b sa sb e r. destruct r as [v|k]; simpl.
  - split; [split; [intros _; exists v; reflexivity|intros _; destruct v; reflexivity]|].
    split; [|intros k H; discriminate].
    intros w H Hne. inversion H; subst w. destruct v as [z|[|c s]]; [split; reflexivity|congruence|split; reflexivity].
  - split; [split; [discriminate|intros [v H]; discriminate]|].
    split; [intros v H; discriminate|intros k' _; reflexivity].
Qed.

(* the integer instance in the old wording *)
Lemma try_ok_iff_int_l : forall chk a b e,
  let r := teval a b [] [] (TEInt e) in
  (s_variant (try_like chk r) = s2l "Ok" <-> exists v, ceval a b e = inl v) /\
  (forall v, ceval a b e = inl v ->
     try_like chk r = encode (mkC (s2l "Ok") (PInt v)) /\ decode (try_like chk r) = mkC (s2l "Ok") (PInt v)) /\
  (forall k, ceval a b e = inr k -> s_variant (try_like chk r) = s2l "Err").
Proof.
  intros chk a b e. simpl. destruct (ceval a b e) as [v|k]; simpl.
  - repeat split; eauto; intros; try congruence; inversion H; reflexivity.
  - repeat split; try discriminate; try congruence. intros [v H]; discriminate.
Qed.

(* ---------------------------------------------------------------- the Variable behind Ok must be fresh *)
(* build_result_ok writes ONE payload channel. Over a fresh Variable that is exact: *)
Lemma build_ok_fresh_exact_l : forall v, v <> TVStr [] ->
  build_ok_t v = encode (mkC (s2l "Ok") (payload_of_tval v)) /\ decode (build_ok_t v) = mkC (s2l "Ok") (payload_of_tval v).
Proof. intros [z|[|c s]] H; try congruence; split; reflexivity. Qed.

(* over a Variable that is NOT fresh (kept between evaluations), an integer Ok is read back correctly iff the kept
   string channel is empty - any earlier non-empty string payload would be bound instead of the number; a string Ok
   is read back correctly whatever was kept *)
Lemma build_ok_needs_fresh_l : forall init,
  ((forall z, decode (build_ok_over init (TVInt z)) = mkC (s2l "Ok") (PInt z)) <-> s_str init = []) /\
  (forall c s, decode (build_ok_over init (TVStr (c :: s))) = mkC (s2l "Ok") (PStr (c :: s))).
Proof.
  intros [e v h i s]. simpl. split; [split|].
  - intro H. specialize (H 0). unfold decode, decode_payload in H. simpl in H.
    destruct s; [reflexivity|]. simpl in H. discriminate.
  - intros -> z. reflexivity.
  - intros c s'. reflexivity.
Qed.

(* the Err built by build_result_err is read back correctly over ANY Variable: its string channel is never empty *)
Lemma build_err_any_init_l : forall init msg chk,
  decode (build_err_over init msg chk) = mkC (s2l "Err") (PStr (classify msg chk ++ s2l ": " ++ msg)) /\
  build_err_over fresh_var msg chk = build_err msg chk.
Proof.
  intros init msg chk. split; [|reflexivity]. unfold decode, decode_payload, build_err_over.
  cbn [s_has s_str s_int s_variant].
  remember (classify msg chk ++ s2l ": " ++ msg) as t eqn:E. destruct t as [|c t]; [|reflexivity].
  symmetry in E. apply app_eq_nil in E. destruct E as [_ E]. discriminate.
Qed.

(* ---------------------------------------------------------------- the class named in the Err *)
Lemma try_err_class_l : forall chk k,
  try_like chk (inr k) = encode (mkC (s2l "Err") (PStr (class_name k ++ s2l ": " ++ err_msg k))).
Proof. intros chk k. destruct k as [ | | | |[|]]; destruct chk; vm_compute; reflexivity. Qed.

(* a % 0 (former witness #25, repaired by /repo 4ea336a): classed as division by zero under both keywords *)
Lemma try_modulo_example_l :
  let r := teval 7 0 [] [] (TEInt (CMod CA CB)) in
  decode (try_like false r) = mkC (s2l "Err") (PStr (s2l "DivisionByZeroError: Modulo by zero")) /\
  decode (try_like true r) = spec_try r.
Proof. vm_compute. split; reflexivity. Qed.

(* classification of arbitrary texts: the order of the if-chain *)
Lemma classify_general : forall msg chk,
  let l := lower msg in
  let div := contains (s2l "division by zero") l || contains (s2l "modulo by zero") l ||
             (contains (s2l "divide") l && contains (s2l "zero") l) in
  (div = true -> classify msg chk = s2l "DivisionByZeroError") /\
  (div = false -> contains (s2l "null pointer") l = true -> classify msg chk = s2l "NullPointerError") /\
  (div = false -> contains (s2l "null pointer") l = false -> contains (s2l "nullptr") l = false ->
   contains (s2l "bounds") l = true -> classify msg chk = s2l "IndexOutOfBoundsError").
Proof.
  intros msg chk l div. unfold classify. fold l. fold div. repeat split.
  - intro H. rewrite H. reflexivity.
  - intros H1 H3. rewrite H1, H3. reflexivity.
  - intros H1 H3 H4 H5. rewrite H1, H3, H4, H5. simpl. rewrite orb_true_r. reflexivity.
Qed.

(* the three texts the evaluator raises fall in the three demanded classes, under try and under checked *)
Lemma classify_core_messages : forall chk,
  classify (err_msg RDiv0) chk = s2l "DivisionByZeroError" /\
  classify (err_msg RMod0) chk = s2l "DivisionByZeroError" /\
  classify (err_msg RBounds) chk = s2l "IndexOutOfBoundsError" /\
  classify (err_msg RNull) chk = s2l "NullPointerError" /\
  (forall q, classify (err_msg (RArgStr q)) chk = s2l "TypeCastError").
Proof. intro chk. destruct chk; vm_compute; repeat split; intros [|]; reflexivity. Qed.

(* ---------------------------------------------------------------- return and declaration contexts meet the property *)
Lemma try_refines_l : forall p, safe_t p = true -> m_run_t p = s_run_t p.
Proof.
  intros [chk ctx a b sa sb e] Hs. unfold safe_t, t_eval in Hs. simpl in Hs.
  apply andb_true_iff in Hs. destruct Hs as [Hc Hne].
  unfold m_run_t, s_run_t, match_events, t_eval. simpl.
  assert (Hsv : try_like chk (teval a b sa sb e) = encode (spec_try (teval a b sa sb e))).
  { destruct (teval a b sa sb e) as [[z|[|c s]]|k].
    - reflexivity.
    - discriminate Hne.
    - reflexivity.
    - apply try_err_class_l. }
  rewrite Hsv. rewrite variant_encode.
  assert (Hg : good_for_match (c_payload (spec_try (teval a b sa sb e))) = true).
  { destruct (teval a b sa sb e) as [[z|[|c s]]|k].
    - reflexivity.
    - discriminate Hne.
    - reflexivity.
    - destruct k as [ | | | |[|]]; reflexivity. }
  rewrite (match_refines_l _ _ Hg).
  destruct ctx; try discriminate; reflexivity.
Qed.

(* ---------------------------------------------------------------- an assignment `r = try e;` still ends the function *)
Lemma try_continues_refuted_l : forall p, (t_ctx p = TAsg \/ t_ctx p = TAsgMain) ->
  ~ In EG2 (r_events (m_run_t p)) /\ In EG2 (r_events (s_run_t p)) /\
  (t_ctx p = TAsgMain -> m_run_t p = mkR [EG1] XOk) /\
  (t_ctx p = TAsg -> m_run_t p = mkR [EG1; EAfter] XOk).
Proof.
  intros [chk ctx a b sa sb e] Hc. simpl in Hc. unfold m_run_t, s_run_t. simpl.
  assert (Hspec : forall o : list ev * exitc,
            In EG2 (r_events (match snd o with XOk => mkR ([EG1; EG2] ++ fst o ++ [EAfter]) XOk | x => mkR [EG1; EG2] x end))).
  { intros [evs x]. destruct x; simpl; auto. }
  destruct Hc as [->| ->].
  - split; [|split; [apply Hspec|split; [discriminate|reflexivity]]].
    simpl. intros [H|[H|[]]]; discriminate.
  - split; [|split; [apply Hspec|split; [reflexivity|discriminate]]].
    simpl. intros [H|[]]; discriminate.
Qed.

(* concrete instances: the former witness (declaration in main, repaired by /repo 982c54e) and the assignment form *)
Lemma try_main_example :
  let p := mkT false TMain 1 0 [] [] (TEInt (CDiv CA CB)) in
  m_run_t p = mkR [EG1; EG2; EArm 1 (VStr (s2l "DivisionByZeroError: Division by zero")); EAfter] XOk /\
  s_run_t p = m_run_t p.
Proof. vm_compute. split; reflexivity. Qed.

Lemma try_assign_witness :
  let p := mkT false TAsgMain 1 0 [] [] (TEInt (CDiv CA CB)) in
  m_run_t p = mkR [EG1] XOk /\
  s_run_t p = mkR [EG1; EG2; EArm 1 (VStr (s2l "DivisionByZeroError: Division by zero")); EAfter] XOk.
Proof. vm_compute. split; reflexivity. Qed.

(* the seeded shape as a model-level statement: a string-valued checked/try followed by an integer-valued one - each Ok
   carries the value of its own operand *)
Lemma try_string_then_int_example :
  let p1 := mkT true TMain 1 0 (s2l "foo") (s2l "bar") (TEStr (SIdx CA)) in
  let p2 := mkT false TRet 24 3 [] [] (TEInt (CDiv CA CB)) in
  let p3 := mkT false TDecl 0 0 (s2l "foo") (s2l "bar") (TEStr (SCat SSA SSB)) in
  safe_t p1 = true /\ safe_t p2 = true /\ safe_t p3 = true /\
  m_run_t p1 = mkR [EG1; EG2; EArm 0 (VStr (s2l "bob")); EAfter] XOk /\
  m_run_t p2 = mkR [EG1; EArm 0 (VInt 8); EAfter] XOk /\
  m_run_t p3 = mkR [EG1; EG2; EArm 0 (VStr (s2l "foobar")); EAfter] XOk.
Proof. vm_compute. repeat split; reflexivity. Qed.

(* Ok("") is stored like Ok(0) (the recorded empty-string defect reached through try) *)
Lemma try_empty_string_refuted_l :
  let p := mkT false TRet 0 0 [] [] (TEStr (SCat SSA SSB)) in
  m_run_t p = mkR [EG1; EArm 0 (VInt 0); EAfter] XOk /\ s_run_t p = mkR [EG1; EArm 0 (VStr []); EAfter] XOk.
Proof. vm_compute. split; reflexivity. Qed.
