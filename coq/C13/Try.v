(* C13 - try / checked (family T): classification of the error texts and the statement contexts. *)
From Coq Require Import List ZArith Bool Ascii String Arith Lia.
From Cb Require Import C13.Model C13.MatchLemmas.
Import ListNotations.
Local Open Scope Z_scope.

(* ---------------------------------------------------------------- Ok v iff e evaluates to v *)
Lemma try_ok_iff_l : forall chk a b e,
  (s_variant (try_like chk (ceval a b e)) = s2l "Ok" <-> exists v, ceval a b e = inl v) /\
  (forall v, ceval a b e = inl v ->
     try_like chk (ceval a b e) = encode (mkC (s2l "Ok") (PInt v)) /\
     decode (try_like chk (ceval a b e)) = mkC (s2l "Ok") (PInt v)) /\
  (forall k, ceval a b e = inr k -> s_variant (try_like chk (ceval a b e)) = s2l "Err").
Proof.
  intros chk a b e. destruct (ceval a b e) as [v|k]; simpl.
  - repeat split; eauto; intros; try congruence; inversion H; reflexivity.
  - repeat split; try discriminate; try congruence.
    intros [v H]; discriminate.
Qed.

(* ---------------------------------------------------------------- the class named in the Err *)
Lemma try_err_class_l : forall chk k,
  try_like chk (inr k) = encode (mkC (s2l "Err") (PStr (class_name k ++ s2l ": " ++ err_msg k))).
Proof. intros chk k. destruct k; destruct chk; vm_compute; reflexivity. Qed.

(* a % 0 (former witness #25, repaired by /repo 4ea336a): classed as division by zero under both keywords *)
Lemma try_modulo_example_l :
  decode (try_like false (ceval 7 0 (CMod CA CB))) = mkC (s2l "Err") (PStr (s2l "DivisionByZeroError: Modulo by zero")) /\
  decode (try_like true (ceval 7 0 (CMod CA CB))) = spec_try (ceval 7 0 (CMod CA CB)).
Proof. vm_compute. split; reflexivity. Qed.

(* classification of arbitrary texts: the order of the if-chain *)
Lemma classify_general : forall msg chk,
  let l := lower msg in
  let div := contains (s2l "division by zero") l || contains (s2l "modulo by zero") l ||
             (contains (s2l "divide") l && contains (s2l "zero") l) in
  (div = true -> classify msg chk = s2l "DivisionByZeroError") /\
  (div = false -> contains (s2l "null pointer") l = true -> classify msg chk = s2l "NullPointerError") /\
  (div = false -> contains (s2l "null pointer") l = false -> contains (s2l "nullptr") l = false ->
   contains (s2l "bounds") l = true -> classify msg chk = s2l "IndexOutOfBoundsError").
Proof.
  intros msg chk l div. unfold classify. fold l. fold div. repeat split.
  - intro H. rewrite H. reflexivity.
  - intros H1 H3. rewrite H1, H3. reflexivity.
  - intros H1 H3 H4 H5. rewrite H1, H3, H4, H5. simpl. rewrite orb_true_r. reflexivity.
Qed.

(* the three texts the evaluator raises fall in the three demanded classes, under try and under checked *)
Lemma classify_core_messages : forall chk,
  classify (err_msg RDiv0) chk = s2l "DivisionByZeroError" /\
  classify (err_msg RMod0) chk = s2l "DivisionByZeroError" /\
  classify (err_msg RBounds) chk = s2l "IndexOutOfBoundsError" /\
  classify (err_msg RNull) chk = s2l "NullPointerError".
Proof. intro chk. destruct chk; vm_compute; repeat split. Qed.

(* ---------------------------------------------------------------- return and declaration contexts meet the property *)
Lemma try_refines_l : forall p, safe_t p = true -> m_run_t p = s_run_t p.
Proof.
  intros [chk ctx a b e] Hs. unfold safe_t in Hs. simpl in Hs.
  unfold m_run_t, s_run_t, match_events. simpl.
  assert (Hsv : try_like chk (ceval a b e) = encode (spec_try (ceval a b e))).
  { destruct (ceval a b e) as [z|k]; [reflexivity|]. apply try_err_class_l. }
  rewrite Hsv. rewrite variant_encode.
  assert (Hg : good_for_match (c_payload (spec_try (ceval a b e))) = true).
  { destruct (ceval a b e) as [z|k]; [reflexivity|]. destruct k; reflexivity. }
  rewrite (match_refines_l _ _ Hg).
  destruct ctx; try discriminate; reflexivity.
Qed.

(* ---------------------------------------------------------------- an assignment `r = try e;` still ends the function *)
Lemma try_continues_refuted_l : forall p, (t_ctx p = TAsg \/ t_ctx p = TAsgMain) ->
  ~ In EG2 (r_events (m_run_t p)) /\ In EG2 (r_events (s_run_t p)) /\
  (t_ctx p = TAsgMain -> m_run_t p = mkR [EG1] XOk) /\
  (t_ctx p = TAsg -> m_run_t p = mkR [EG1; EAfter] XOk).
Proof.
  intros [chk ctx a b e] Hc. simpl in Hc. unfold m_run_t, s_run_t. simpl.
  assert (Hspec : forall o : list ev * exitc,
            In EG2 (r_events (match snd o with XOk => mkR ([EG1; EG2] ++ fst o ++ [EAfter]) XOk | x => mkR [EG1; EG2] x end))).
  { intros [evs x]. destruct x; simpl; auto. }
  destruct Hc as [->| ->].
  - split; [|split; [apply Hspec|split; [discriminate|reflexivity]]].
    simpl. intros [H|[H|[]]]; discriminate.
  - split; [|split; [apply Hspec|split; [reflexivity|discriminate]]].
    simpl. intros [H|[]]; discriminate.
Qed.

(* concrete instances: the former witness (declaration in main, repaired by /repo 982c54e) and the assignment form *)
Lemma try_main_example :
  let p := mkT false TMain 1 0 (CDiv CA CB) in
  m_run_t p = mkR [EG1; EG2; EArm 1 (VStr (s2l "DivisionByZeroError: Division by zero")); EAfter] XOk /\
  s_run_t p = m_run_t p.
Proof. vm_compute. split; reflexivity. Qed.

Lemma try_assign_witness :
  let p := mkT false TAsgMain 1 0 (CDiv CA CB) in
  m_run_t p = mkR [EG1] XOk /\
  s_run_t p = mkR [EG1; EG2; EArm 1 (VStr (s2l "DivisionByZeroError: Division by zero")); EAfter] XOk.
Proof. vm_compute. split; reflexivity. Qed.
