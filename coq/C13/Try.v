(* C13 - try / checked (family T): classification of the error texts and the statement contexts. *)
From Coq Require Import List ZArith Bool Ascii String Arith Lia.
From Cb Require Import C13.Model C13.MatchLemmas.
Import ListNotations.
Local Open Scope Z_scope.

(* ---------------------------------------------------------------- Ok v iff e evaluates to v *)
Lemma try_ok_iff_l : forall chk a b e,
  (s_variant (try_like chk (ceval a b e)) = s2l "Ok" <-> exists v, ceval a b e = inl v) /\
  (forall v, ceval a b e = inl v ->
     try_like chk (ceval a b e) = encode (mkC (s2l "Ok") (PInt v)) /\
     decode (try_like chk (ceval a b e)) = mkC (s2l "Ok") (PInt v)) /\
  (forall k, ceval a b e = inr k -> s_variant (try_like chk (ceval a b e)) = s2l "Err").
Proof.
  intros chk a b e. destruct (ceval a b e) as [v|k]; simpl.
  - repeat split; eauto; intros; try congruence; inversion H; reflexivity.
  - repeat split; try discriminate; try congruence.
    intros [v H]; discriminate.
Qed.

(* ---------------------------------------------------------------- the class named in the Err *)
Lemma try_err_class_l : forall chk k, k <> RMod0 ->
  try_like chk (inr k) = encode (mkC (s2l "Err") (PStr (class_name k ++ s2l ": " ++ err_msg k))).
Proof. intros chk k Hk. destruct k; try congruence; destruct chk; vm_compute; reflexivity. Qed.

(* a % 0: the text "Modulo by zero" matches none of the patterns *)
Lemma try_err_class_modulo_refuted_l :
  decode (try_like false (ceval 7 0 (CMod CA CB))) = mkC (s2l "Err") (PStr (s2l "Custom: Modulo by zero")) /\
  decode (try_like true (ceval 7 0 (CMod CA CB))) = mkC (s2l "Err") (PStr (s2l "CheckedError: Modulo by zero")) /\
  spec_try (ceval 7 0 (CMod CA CB)) = mkC (s2l "Err") (PStr (s2l "DivisionByZeroError: Modulo by zero")).
Proof. vm_compute. repeat split. Qed.

(* classification of arbitrary texts: the order of the if-chain *)
Lemma classify_general : forall msg chk,
  let l := lower msg in
  (contains (s2l "division by zero") l = true -> classify msg chk = s2l "DivisionByZeroError") /\
  (contains (s2l "division by zero") l = false -> (contains (s2l "divide") l && contains (s2l "zero") l) = false ->
   contains (s2l "null pointer") l = true -> classify msg chk = s2l "NullPointerError") /\
  (contains (s2l "division by zero") l = false -> (contains (s2l "divide") l && contains (s2l "zero") l) = false ->
   contains (s2l "null pointer") l = false -> contains (s2l "nullptr") l = false ->
   contains (s2l "bounds") l = true -> classify msg chk = s2l "IndexOutOfBoundsError").
Proof.
  intros msg chk l. unfold classify. fold l. repeat split.
  - intro H. rewrite H. reflexivity.
  - intros H1 H2 H3. rewrite H1, H2, H3. reflexivity.
  - intros H1 H2 H3 H4 H5. rewrite H1, H2, H3, H4, H5. simpl. rewrite orb_true_r. reflexivity.
Qed.

(* the three texts the evaluator raises fall in the three demanded classes, under try and under checked *)
Lemma classify_core_messages : forall chk,
  classify (err_msg RDiv0) chk = s2l "DivisionByZeroError" /\
  classify (err_msg RBounds) chk = s2l "IndexOutOfBoundsError" /\
  classify (err_msg RNull) chk = s2l "NullPointerError".
Proof. intro chk. destruct chk; vm_compute; repeat split. Qed.

(* ---------------------------------------------------------------- `return try e;` meets the property *)
Lemma try_good_payload : forall a b e, (match ceval a b e with inl z => in_int32 z | inr _ => true end) = true ->
  good_for_match (c_payload (spec_try (ceval a b e))) = true.
Proof. intros a b e H. destruct (ceval a b e) as [z|k]; simpl in *; [exact H|]. destruct k; reflexivity. Qed.

Lemma try_refines_l : forall p, safe_t p = true -> m_run_t p = s_run_t p.
Proof.
  intros [chk ctx a b e] Hs. unfold safe_t in Hs. simpl in Hs.
  apply andb_true_iff in Hs. destruct Hs as [Hc Hv]. destruct ctx; try discriminate.
  unfold m_run_t, s_run_t, match_events. simpl.
  assert (Hsv : try_like chk (ceval a b e) = encode (spec_try (ceval a b e))).
  { destruct (ceval a b e) as [z|k]; [reflexivity|]. destruct k; try discriminate; apply try_err_class_l; discriminate. }
  rewrite Hsv. rewrite variant_encode. rewrite match_refines_l; [reflexivity|].
  apply try_good_payload. destruct (ceval a b e) as [z|k]; [exact Hv|reflexivity].
Qed.

(* ---------------------------------------------------------------- everywhere else the function ends *)
Lemma arm_outcome_no_g2 : forall v a, ~ In EG2 (fst (arm_outcome v a)).
Proof. intros v a. destruct a; simpl; intuition discriminate. Qed.

Lemma try_continues_refuted_l : forall p, t_ctx p <> TRet ->
  ~ In EG2 (r_events (m_run_t p)) /\ In EG2 (r_events (s_run_t p)) /\
  (t_ctx p = TMain -> m_run_t p = mkR [EG1] XOk) /\
  (t_ctx p = TVoid -> m_run_t p = mkR [EG1; EAfter] XOk).
Proof.
  intros [chk ctx a b e] Hc. simpl in Hc. unfold m_run_t, s_run_t. simpl.
  assert (Hspec : forall o : list ev * exitc,
            In EG2 (r_events (match snd o with XOk => mkR ([EG1; EG2] ++ fst o ++ [EAfter]) XOk | x => mkR [EG1; EG2] x end))).
  { intros [evs x]. destruct x; simpl; auto. }
  destruct ctx; try congruence.
  - (* TDecl *)
    split; [|split; [apply Hspec|split; discriminate]].
    unfold match_events.
    pose proof (arm_outcome_no_g2 (s_variant (try_like chk (ceval a b e))) (mech_match (try_like chk (ceval a b e)) t_arms)) as Hno.
    destruct (arm_outcome (s_variant (try_like chk (ceval a b e))) (mech_match (try_like chk (ceval a b e)) t_arms)) as [evs x].
    simpl in *. destruct x; simpl; intros [H|H]; try discriminate; try contradiction.
    apply in_app_or in H. destruct H as [H|[H|[]]]; [contradiction|discriminate].
  - (* TVoid *)
    split; [|split; [apply Hspec|split; [discriminate|reflexivity]]].
    simpl. intros [H|[H|[]]]; discriminate.
  - (* TMain *)
    split; [|split; [apply Hspec|split; [reflexivity|discriminate]]].
    simpl. intros [H|[]]; discriminate.
Qed.

(* concrete instance: main { g1; R r = try (1 / 0); g2; match r ... } prints g1 and stops with exit 0 *)
Lemma try_main_witness :
  let p := mkT false TMain 1 0 (CDiv CA CB) in
  m_run_t p = mkR [EG1] XOk /\
  s_run_t p = mkR [EG1; EG2; EArm 1 (VStr (s2l "DivisionByZeroError: Division by zero")); EAfter] XOk.
Proof. vm_compute. split; reflexivity. Qed.
