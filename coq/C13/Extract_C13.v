(* Extraction of the C13 model to OCaml (ExtrOcamlBasic + ExtrOcamlString only; nat and Z stay inductive). *)
From Coq Require Import Extraction ExtrOcamlBasic ExtrOcamlString.
From Cb Require Import C13.Model C13.ModelSeq C13.ModelNest.
Extraction Language OCaml.
Extraction "C13/c13_model.ml" m_run_a s_run_a safe_a m_run_q s_run_q safe_q m_run_t s_run_t safe_t
  classify build_err encode decode mech_match m_run_m s_run_m safe_m builtin_of_name
  m_run_r s_run_r safe_r m_run_s s_run_s safe_s
  m_run_l m_run_l_with s_run_l safe_l m_run_lt s_run_lt safe_lt m_run_lq s_run_lq safe_lq n_build n_decode l_kinds.
