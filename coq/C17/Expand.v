(* C17 - lemmas about the macro-expansion model ([search], [pass], [passes], [expand]). *)
From Coq Require Import List Arith Bool Ascii Lia NArith.
From Cb Require Import C17.Model.
Import ListNotations.

Lemma find_at_sound name s i p : find_at name s i = Some p ->
  i <= p /\ is_prefix name (skipn (p - i) s) = true.
Proof.
  revert i; induction s as [|c r IH]; intros i; cbn [find_at].
  - destruct (is_prefix name []) eqn:E; [|discriminate]. intros [= <-]. rewrite Nat.sub_diag. auto.
  - destruct (is_prefix name (c :: r)) eqn:E.
    + intros [= <-]. rewrite Nat.sub_diag. auto.
    + intros H. apply IH in H as [H1 H2]. split; [lia|].
      replace (p - i) with (S (p - S i)) by lia. exact H2.
Qed.

Lemma skipn_add {A} (a b : nat) (l : list A) : skipn a (skipn b l) = skipn (a + b) l.
Proof.
  revert l; induction b as [|b IH]; intros l; [rewrite Nat.add_0_r; reflexivity|].
  destruct l as [|x l]; [rewrite !skipn_nil; reflexivity|].
  rewrite Nat.add_succ_r. cbn [skipn]. apply IH.
Qed.

Lemma find_from_sound name s pos p : find_from name s pos = Some p ->
  pos <= p /\ is_prefix name (skipn p s) = true.
Proof.
  unfold find_from. destruct (List.length s <? pos) eqn:E; [discriminate|].
  intros H. apply find_at_sound in H as [H1 H2]. split; [exact H1|].
  rewrite skipn_add in H2. replace (p - pos + pos) with p in H2 by lia. exact H2.
Qed.

(* every replacement position chosen by the inner loop is a whole-word occurrence of the macro
   name that lies outside the string ranges the loop was given *)
Lemma search_sound fuel name s rs pos p : search fuel name s rs pos = Some p ->
  pos <= p /\ is_prefix name (skipn p s) = true /\ in_string p rs = false /\
  start_valid s p = true /\ end_valid s p (List.length name) = true.
Proof.
  revert pos; induction fuel as [|f IH]; intros pos; cbn [search]; [discriminate|].
  destruct (find_from name s pos) as [q|] eqn:F; [|discriminate].
  apply find_from_sound in F as [F1 F2].
  destruct (in_string q rs) eqn:I.
  - intros H. apply IH in H. destruct H as (H1 & H2). split; [lia|exact H2].
  - destruct (start_valid s q && end_valid s q (List.length name)) eqn:V.
    + intros [= <-]. apply andb_true_iff in V as [V1 V2]. auto.
    + intros H. apply IH in H. destruct H as (H1 & H2). split; [lia|exact H2].
Qed.

Lemma search_none_if_absent fuel name s rs pos : find_from name s 0 = None -> pos = 0 ->
  search fuel name s rs pos = None.
Proof. intros H ->. destruct fuel; cbn [search]; [reflexivity|]. rewrite H. reflexivity. Qed.

Definition absent (t : table) (s : str) : Prop :=
  forall m, In m t -> mfn m = false -> find_from (mname m) s 0 = None.

Lemma sweep_absent fuel limit name body s ch : find_from name s 0 = None -> sweep fuel limit name body s 0 ch = SGo s ch.
Proof. intros H. destruct fuel; cbn [sweep]; [reflexivity|]. rewrite search_none_if_absent; auto. Qed.

Lemma pass_absent limit t s ch : absent t s -> pass limit t s ch = SGo s ch.
Proof.
  revert ch; induction t as [|m r IH]; intros ch H; cbn [pass]; [reflexivity|].
  assert (Hr : absent r s) by (intros x Hx; apply H; right; exact Hx).
  destruct (mfn m) eqn:Fn; [apply IH; exact Hr|].
  destruct (mname m) eqn:Nm; [apply IH; exact Hr|]. rewrite <- Nm.
  rewrite sweep_absent; [apply IH; exact Hr|].
  apply H; [left; reflexivity|exact Fn].
Qed.

(* a line that mentions no macro name is left byte-identical (and raises no expansion error) *)
Lemma expand_absent_id t s : absent t s -> expand t s = (s, false).
Proof.
  intros H. unfold expand, max_iterations. cbn [passes]. rewrite pass_absent by exact H. reflexivity.
Qed.

(* every replacement made by the repaired loop is a whole-word occurrence outside the string
   literals of the text AS IT IS at that moment; the loop stops with the error flag as soon as the
   text has outgrown the limit *)
Lemma sweep_unfold f limit name body s pos ch :
  sweep (S f) limit name body s pos ch =
  match search (S (List.length s)) name s (string_ranges s) pos with
  | None => SGo s ch
  | Some p => let s' := replace_at s p (List.length name) body in
              if too_large limit s' then SOver s'
              else sweep f limit name body s' (p + List.length body) true
  end.
Proof. reflexivity. Qed.

(* ------------------------------------------------------------------ the result is fully expanded *)
(* [occurs name s]: the text still holds a whole-word occurrence of [name] outside its string literals
   (what the inner loop would replace next) *)
Definition occurs (name s : str) : bool :=
  match search (S (List.length s)) name s (string_ranges s) 0 with Some _ => true | None => false end.
Definition fully_expanded (t : table) (s : str) : Prop :=
  forall m, In m t -> mfn m = false -> mname m <> [] -> occurs (mname m) s = false.

(* the sweep reports "unchanged" only if it really replaced nothing and nothing was left to replace *)
Lemma sweep_unchanged f limit name body : forall s pos ch s',
  sweep f limit name body s pos ch = SGo s' false ->
  ch = false /\ s' = s /\ (f = 0 \/ search (S (List.length s)) name s (string_ranges s) pos = None).
Proof.
  induction f as [|f IH]; intros s pos ch s' H.
  - cbn [sweep] in H. injection H as <- <-. auto.
  - rewrite sweep_unfold in H.
    destruct (search (S (List.length s)) name s (string_ranges s) pos) as [p|] eqn:E.
    + cbn zeta in H. destruct (too_large limit (replace_at s p (List.length name) body)); [discriminate H|].
      apply IH in H. destruct H as [H _]. discriminate H.
    + injection H as <- <-. auto.
Qed.

Lemma pass_unchanged limit t : forall s ch s',
  pass limit t s ch = SGo s' false -> ch = false /\ s' = s /\ fully_expanded t s.
Proof.
  induction t as [|m r IH]; intros s ch s' H; cbn [pass] in H.
  - injection H as <- <-. repeat split. intros m [].
  - destruct (mfn m) eqn:Fn.
    + apply IH in H as (H1 & H2 & H3). repeat split; auto.
      intros x [<-|Hx] Fx Nx; [congruence|]. apply H3; assumption.
    + destruct (mname m) as [|c nm] eqn:Nm.
      * apply IH in H as (H1 & H2 & H3). repeat split; auto.
        intros x [<-|Hx] Fx Nx; [congruence|]. apply H3; assumption.
      * rewrite <- Nm in H.
        destruct (sweep (S (List.length s)) limit (mname m) (mbody m) s 0 ch) as [s1 ch1|s1] eqn:Sw; [|discriminate H].
        apply IH in H as (H1 & H2 & H3). subst ch1 s'.
        apply sweep_unchanged in Sw as (Hc & Hs & Hn). subst s1.
        destruct Hn as [Hn|Hn]; [discriminate Hn|].
        repeat split; auto.
        intros x [<-|Hx] Fx Nx.
        -- unfold occurs. rewrite Hn. reflexivity.
        -- apply H3; assumption.
Qed.

(* did the pass loop stop because a whole pass changed nothing (and not because it ran out of passes)? *)
Fixpoint converged (n : nat) (limit : N) (t : table) (s : str) : bool :=
  match n with
  | 0 => false
  | S n' => match pass limit t s false with
            | SGo s' ch => if ch then converged n' limit t s' else true
            | SOver _ => false
            end
  end.

Lemma passes_fully_expanded n limit t : forall s s' over,
  passes n limit t s = (s', over) -> converged n limit t s = true -> over = false /\ fully_expanded t s'.
Proof.
  induction n as [|n IH]; intros s s' over H C; cbn [passes converged] in *; [discriminate C|].
  destruct (pass limit t s false) as [s1 ch|s1] eqn:P; [|discriminate C].
  destruct ch.
  - eapply IH; eassumption.
  - injection H as <- <-. apply pass_unchanged in P as (_ & -> & F). auto.
Qed.

(* the only other ways the loop ends: the growth limit (reported as an error) or all [n] passes changed the text *)
Fixpoint cap_hit (n : nat) (limit : N) (t : table) (s : str) : bool :=
  match n with
  | 0 => true
  | S n' => match pass limit t s false with
            | SGo s' ch => ch && cap_hit n' limit t s'
            | SOver _ => false
            end
  end.

Lemma passes_outcomes n limit t : forall s s' over,
  passes n limit t s = (s', over) ->
  over = true \/ converged n limit t s = true \/ cap_hit n limit t s = true.
Proof.
  induction n as [|n IH]; intros s s' over H; cbn [passes converged cap_hit] in *.
  - right; right; reflexivity.
  - destruct (pass limit t s false) as [s1 ch|s1] eqn:P.
    + destruct ch; cbn [andb].
      * eapply IH; exact H.
      * right; left; reflexivity.
    + injection H as <- <-. left; reflexivity.
Qed.

Lemma expand_fully_expanded_l t line s' over :
  expand t line = (s', over) ->
  converged max_iterations (N.of_nat (List.length line) + max_growth)%N t line = true ->
  over = false /\ fully_expanded t s'.
Proof. unfold expand. apply passes_fully_expanded. Qed.
