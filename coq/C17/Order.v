(* C17 - provenance and order of the emitted lines, for EVERY directive sequence (well nested or not):
   the output of the line loop is obtained from a subsequence of the source lines, in source order, each
   emitted line being either the macro expansion of a plain text line or the error comment of that line.
   Proofs only; the theorems are restated in Properties_C17_order.v. *)
From Coq Require Import List Arith Bool Ascii String NArith Lia.
From Cb Require Import C17.Model C17.Spec.
Import ListNotations.
Local Open Scope list_scope.

(* what one source line may contribute to the output *)
Definition from_line (rk : str * kind) (o : str) : Prop :=
  o = err_comment (fst rk) \/ (snd rk = KPlain PText /\ exists t, o = fst (expand t (fst rk))).

(* [provenance ls out]: out is produced line by line from a subsequence of ls, order kept *)
Inductive provenance : list (str * kind) -> list str -> Prop :=
| pv_nil : provenance [] []
| pv_skip rk ls out : provenance ls out -> provenance (rk :: ls) out
| pv_take rk ls o out : from_line rk o -> provenance ls out -> provenance (rk :: ls) (o :: out).

Lemma provenance_length ls out : provenance ls out -> List.length out <= List.length ls.
Proof. induction 1 as [|rk ls out _ IH|rk ls o out _ _ IH]; simpl; lia. Qed.

Lemma outp_tick c : outp (tick c) = outp c.
Proof. reflexivity. Qed.

Lemma fail_line_out live c raw :
  outp (fail_line live c raw) = outp c ++ (if live then [err_comment raw] else []).
Proof. unfold fail_line; destruct live; simpl; [reflexivity | now rewrite app_nil_r]. Qed.

(* one step appends nothing or one line that comes from the line just read *)
Definition step_new (c : core) (rk : str * kind) (c' : core) : Prop :=
  outp c' = outp c \/ exists o, outp c' = outp c ++ [o] /\ from_line rk o.

Lemma step_new_fail live c raw k : step_new c (raw, k) (fail_line live c raw).
Proof.
  unfold step_new; rewrite fail_line_out; destruct live.
  - right; exists (err_comment raw); split; [reflexivity | left; reflexivity].
  - left; apply app_nil_r.
Qed.

Lemma step_new_same c rk c' : outp c' = outp c -> step_new c rk c'.
Proof. intro H; left; exact H. Qed.

Lemma plain_step_new live c raw k : step_new c (raw, KPlain k) (plain_step live c raw k).
Proof.
  destruct k; cbn [plain_step];
    try (destruct live; try apply step_new_fail; apply step_new_same; reflexivity);
    try apply step_new_fail.
  - (* PText *)
    destruct live; [|apply step_new_same; reflexivity].
    destruct (expand (tab c) raw) as [e over] eqn:He.
    right; exists e; split.
    + destruct over; reflexivity.
    + right; split; [reflexivity|]. exists (tab c). cbn [fst]. now rewrite He.
  - (* PDefine *)
    destruct live; [|apply step_new_same; reflexivity].
    apply step_new_same. destruct fn; reflexivity.
  - (* PDefineFnBad *)
    destruct live; [|apply step_new_same; reflexivity].
    unfold step_new. rewrite fail_line_out. right. exists (err_comment raw). split; [reflexivity|left; reflexivity].
Qed.

Lemma step_new_tick c rk c' : step_new (tick c) rk c' -> step_new c rk c'.
Proof. unfold step_new; rewrite outp_tick; exact (fun H => H). Qed.

Lemma step_step_new p rk : step_new (cor p) rk (cor (step p rk)).
Proof.
  destruct rk as [raw k]; apply step_new_tick; unfold step; cbn [fst snd].
  destruct k as [k|n|n|n| |]; cbn [cor mkp].
  - apply plain_step_new.
  - apply step_new_same; reflexivity.
  - apply step_new_same; reflexivity.
  - destruct (stack p) as [|x r]; cbn [cor mkp]; [apply step_new_fail|].
    destruct (else_seen x); cbn [cor mkp]; [apply step_new_fail|].
    destruct (taken x); cbn [cor mkp]; apply step_new_same; reflexivity.
  - destruct (stack p) as [|x r]; cbn [cor mkp]; [apply step_new_fail|].
    destruct (else_seen x); cbn [cor mkp]; [apply step_new_fail|].
    apply step_new_same; reflexivity.
  - destruct (stack p) as [|x r]; cbn [cor mkp]; [apply step_new_fail|].
    apply step_new_same; reflexivity.
Qed.

Lemma run_provenance ls : forall p,
  exists out, outp (cor (run ls p)) = outp (cor p) ++ out /\ provenance ls out.
Proof.
  induction ls as [|rk ls IH]; intro p.
  - exists []; split; [cbn; now rewrite app_nil_r | constructor].
  - unfold run; cbn [fold_left]; fold (run ls (step p rk)).
    destruct (IH (step p rk)) as [out [Ho Hp]].
    destruct (step_step_new p rk) as [Hs | [o [Hs Hf]]].
    + exists out; split; [now rewrite Ho, Hs | now constructor].
    + exists (o :: out); split; [rewrite Ho, Hs, <- app_assoc; reflexivity | now constructor].
Qed.

Lemma outp_finish p : outp (finish p) = outp (cor p).
Proof. unfold finish; destruct (stack p); reflexivity. Qed.

Lemma process_provenance t file lines :
  provenance (map (fun l => (l, classify l)) lines) (outp (process t file lines)).
Proof.
  unfold process; rewrite outp_finish.
  destruct (run_provenance (map (fun l => (l, classify l)) lines) (mkp [] (init_core t file))) as [out [Ho Hp]].
  cbn [cor mkp init_core outp app] in Ho. now rewrite Ho.
Qed.

(* exact contribution of a text line, live and skipped *)
Lemma live_text_emitted st c raw : skipping st = false ->
  outp (cor (step (mkp st c) (raw, KPlain PText))) = outp c ++ [fst (expand (tab (tick c)) raw)].
Proof.
  intro Hs; unfold step; cbn [fst snd stack cor mkp plain_step]; rewrite Hs; cbn [negb].
  destruct (expand (tab (tick c)) raw) as [e over]; destruct over; reflexivity.
Qed.

Lemma skipped_text_silent st c raw : skipping st = true ->
  outp (cor (step (mkp st c) (raw, KPlain PText))) = outp c /\
  stack (step (mkp st c) (raw, KPlain PText)) = st /\
  nerr (cor (step (mkp st c) (raw, KPlain PText))) = nerr c.
Proof.
  intro Hs; unfold step; cbn [fst snd stack cor mkp plain_step]; rewrite Hs; cbn [negb].
  repeat split.
Qed.

(* directives that are not errors never reach the output: a step on a well-formed directive line
   (#ifdef/#ifndef, #define, #undef, #warning, #error, #include, empty directive) leaves the output alone *)
Definition quiet_kind (k : kind) : bool :=
  match k with
  | KIfdef _ | KIfndef _ => true
  | KPlain (PDefine _ _ _) | KPlain (PUndef _) | KPlain PNop | KPlain PError | KPlain PWarn | KPlain PInclude => true
  | _ => false
  end.

Lemma quiet_directive_not_emitted p raw k : quiet_kind k = true ->
  outp (cor (step p (raw, k))) = outp (cor p).
Proof.
  intro Hq; unfold step; cbn [fst snd].
  destruct k as [k|n|n|n| |]; try discriminate Hq; cbn [cor mkp]; try reflexivity.
  destruct k; try discriminate Hq; cbn [plain_step]; destruct (negb (skipping (stack p))); try reflexivity.
  destruct fn; reflexivity.
Qed.
