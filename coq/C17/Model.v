(* C17 - Mech model of src/frontend/preprocessor/preprocessor.cpp, function by function.
   Strings are lists of bytes ([ascii]); positions are [nat]. Everything is total and
   computable; the extracted code is run against the repository's preprocessor.cpp on the
   same inputs by harness/props/c17.py. No proofs in this file. *)
From Coq Require Import List Arith Bool Ascii String Lia NArith.
Import ListNotations.

Definition str := list ascii.
Definition s2l (s : string) : str := list_ascii_of_string s.

Definition code (c : ascii) : nat := nat_of_ascii c.
Definition is_space (c : ascii) : bool :=                       (* std::isspace, C locale *)
  let n := code c in (n =? 32) || ((9 <=? n) && (n <=? 13)).
Definition is_alnum_ (c : ascii) : bool :=                      (* isalnum(c) || c == '_' *)
  let n := code c in
  ((48 <=? n) && (n <=? 57)) || ((65 <=? n) && (n <=? 90)) || ((97 <=? n) && (n <=? 122)) || (n =? 95).

Fixpoint drop_while (f : ascii -> bool) (s : str) : str :=
  match s with [] => [] | c :: r => if f c then drop_while f r else s end.
Definition trim (s : str) : str := rev (drop_while is_space (rev (drop_while is_space s))).

Fixpoint str_eqb (a b : str) : bool :=
  match a, b with
  | [], [] => true
  | x :: a', y :: b' => Ascii.eqb x y && str_eqb a' b'
  | _, _ => false
  end.
(* std::string operator< : unsigned byte-wise lexicographic *)
Fixpoint str_ltb (a b : str) : bool :=
  match a, b with
  | [], [] => false
  | [], _ :: _ => true
  | _ :: _, [] => false
  | x :: a', y :: b' => if code x <? code y then true else if code y <? code x then false else str_ltb a' b'
  end.

Fixpoint is_prefix (p s : str) : bool :=
  match p, s with
  | [], _ => true
  | _ :: _, [] => false
  | x :: p', y :: s' => Ascii.eqb x y && is_prefix p' s'
  end.

(* s.find(name, pos) *)
Fixpoint find_at (name s : str) (i : nat) : option nat :=       (* s is the suffix starting at i *)
  if is_prefix name s then Some i else
  match s with [] => None | _ :: r => find_at name r (S i) end.
Definition find_from (name s : str) (pos : nat) : option nat :=
  if List.length s <? pos then None else find_at name (skipn pos s) pos.

(* position of the first character satisfying f *)
Fixpoint find_first (f : ascii -> bool) (s : str) (i : nat) : option nat :=
  match s with [] => None | c :: r => if f c then Some i else find_first f r (S i) end.

Definition is_blank (c : ascii) : bool := let n := code c in (n =? 32) || (n =? 9).
Definition is_blank_or_paren (c : ascii) : bool := is_blank c || (code c =? 40).

(* ---------- macro table: std::map<std::string, MacroDefinition> ---------- *)
Record macro := { mname : str; mbody : str; mfn : bool }.
Definition table := list macro.                                  (* kept sorted by name *)

Fixpoint insert (m : macro) (t : table) : table :=
  match t with
  | [] => [m]
  | x :: r => if str_eqb (mname m) (mname x) then m :: r
              else if str_ltb (mname m) (mname x) then m :: t
              else x :: insert m r
  end.
Fixpoint erase (n : str) (t : table) : table :=
  match t with
  | [] => []
  | x :: r => if str_eqb n (mname x) then r else x :: erase n r
  end.
Definition defined (n : str) (t : table) : bool := existsb (fun x => str_eqb n (mname x)) t.

(* ---------- classification of one source line (process + processDirective + handleDefine's parsing) ---------- *)
Inductive pkind :=                       (* lines that never touch the conditional stack *)
| PText                                  (* not a directive *)
| PNop                                   (* "#" alone *)
| PCondBad                               (* #ifdef / #ifndef without a name: error, nothing pushed *)
| PDefine (n body : str) (fn : bool)
| PDefineBad                             (* empty content *)
| PDefineFnBad                           (* function-like with unclosed parenthesis: warning + error *)
| PUndef (n : str) | PUndefBad
| PError | PWarn | PInclude
| PUnknown.
Inductive kind :=
| KPlain (k : pkind)
| KIfdef (n : str) | KIfndef (n : str)   (* n non-empty *)
| KElif (n : str) | KElse | KEndif.
Coercion KPlain : pkind >-> kind.

Definition lit_ifdef := s2l "ifdef".   Definition lit_ifndef := s2l "ifndef".
Definition lit_elif := s2l "elif".     Definition lit_elseif := s2l "elseif".
Definition lit_else := s2l "else".     Definition lit_endif := s2l "endif".
Definition lit_define := s2l "define". Definition lit_undef := s2l "undef".
Definition lit_error := s2l "error".   Definition lit_warning := s2l "warning".
Definition lit_include := s2l "include".
Definition one := s2l "1".

Definition parse_define (content : str) : pkind :=
  match content with
  | [] => PDefineBad
  | _ =>
    match find_first is_blank_or_paren content 0 with
    | None => PDefine content one false
    | Some sp =>
        let name := firstn sp content in
        if code (nth sp content zero) =? 40 then
          match find_first (fun c => code c =? 41) (skipn sp content) sp with
          | None => PDefineFnBad
          | Some cp => PDefine name (trim (skipn (S cp) content)) true
          end
        else PDefine name (trim (skipn (S sp) content)) false
    end
  end.

Definition classify (line : str) : kind :=
  match trim line with
  | c :: rest =>
      if code c =? 35 then
        let t := trim rest in
        match t with
        | [] => PNop
        | _ =>
          let sp := find_first is_blank t 0 in
          let directive := match sp with None => t | Some p => firstn p t end in
          let content := match sp with None => [] | Some p => trim (skipn (S p) t) end in
          if str_eqb directive lit_ifdef then (match content with [] => PCondBad | _ => KIfdef content end)
          else if str_eqb directive lit_ifndef then (match content with [] => PCondBad | _ => KIfndef content end)
          else if str_eqb directive lit_elif || str_eqb directive lit_elseif then KElif content
          else if str_eqb directive lit_else then KElse
          else if str_eqb directive lit_endif then KEndif
          else if str_eqb directive lit_define then KPlain (parse_define content)
          else if str_eqb directive lit_undef then (match content with [] => PUndefBad | _ => PUndef content end)
          else if str_eqb directive lit_error then PError
          else if str_eqb directive lit_warning then PWarn
          else if str_eqb directive lit_include then PInclude
          else PUnknown
        end
      else PText
  | [] => PText
  end.

(* ---------- expandMacros ---------- *)
Definition ranges := list (nat * nat).
(* the scan that records string literals: positions (open quote, close quote) *)
Fixpoint scan (s : str) (i : nat) (in_s esc : bool) (start : nat) (acc : ranges) : ranges :=
  match s with
  | [] => rev acc
  | c :: r =>
      if esc then scan r (S i) in_s false start acc
      else if code c =? 92 then scan r (S i) in_s true start acc
      else if code c =? 34 then
        (if in_s then scan r (S i) false false start ((start, i) :: acc)
         else scan r (S i) true false i acc)
      else scan r (S i) in_s false start acc
  end.
Definition string_ranges (s : str) : ranges := scan s 0 false false 0 [].
Definition in_string (pos : nat) (rs : ranges) : bool :=
  existsb (fun r => (fst r <? pos) && (pos <? snd r)) rs.

Definition start_valid (s : str) (pos : nat) : bool :=
  (pos =? 0) || negb (is_alnum_ (nth (pos - 1) s zero)).
Definition end_valid (s : str) (pos len : nat) : bool :=
  (List.length s <=? pos + len) || negb (is_alnum_ (nth (pos + len) s zero)).

(* the inner while loop for one macro: first whole-word occurrence outside the recorded
   string ranges, searched from pos; fuel bounds the number of find() calls *)
Fixpoint search (fuel : nat) (name s : str) (rs : ranges) (pos : nat) : option nat :=
  match fuel with
  | 0 => None
  | S f =>
      match find_from name s pos with
      | None => None
      | Some p =>
          if in_string p rs then search f name s rs (p + List.length name)
          else if start_valid s p && end_valid s p (List.length name) then Some p
          else search f name s rs (p + List.length name)
      end
  end.

Definition replace_at (s : str) (p len : nat) (body : str) : str :=
  firstn p s ++ body ++ skipn (p + len) s.

(* the inner while loop for one macro (after the repairs of C17-stale-string-ranges, C17-cap-100 and the
   growth bound): every whole-word occurrence outside string literals is replaced, scanning left to
   right; the string ranges are recomputed from the current text after each replacement; when the
   text has grown by more than [max_growth] bytes over the source line the expansion stops with an
   error (self-referential macros). Each replacement shortens the unscanned remainder by at least
   |name| >= 1, so fuel S(length s) is never exhausted. *)
Inductive sres := SGo (s : str) (changed : bool) | SOver (s : str).
Definition too_large (limit : N) (s : str) : bool := N.ltb limit (N.of_nat (List.length s)).

Fixpoint sweep (fuel : nat) (limit : N) (name body s : str) (pos : nat) (changed : bool) : sres :=
  match fuel with
  | 0 => SGo s changed
  | S f =>
      match search (S (List.length s)) name s (string_ranges s) pos with
      | None => SGo s changed
      | Some p => let s' := replace_at s p (List.length name) body in
                  if too_large limit s' then SOver s'
                  else sweep f limit name body s' (p + List.length body) true
      end
  end.

(* one pass of the for-loop over defines_ (function-like macros and empty names are skipped) *)
Fixpoint pass (limit : N) (t : table) (s : str) (changed : bool) : sres :=
  match t with
  | [] => SGo s changed
  | m :: r =>
      if mfn m then pass limit r s changed
      else match mname m with
           | [] => pass limit r s changed
           | _ => match sweep (S (List.length s)) limit (mname m) (mbody m) s 0 changed with
                  | SGo s' ch => pass limit r s' ch
                  | SOver s' => SOver s'
                  end
           end
  end.

Fixpoint passes (n : nat) (limit : N) (t : table) (s : str) : str * bool :=
  match n with
  | 0 => (s, false)
  | S n' => match pass limit t s false with
            | SGo s' ch => if ch then passes n' limit t s' else (s', false)
            | SOver s' => (s', true)
            end
  end.

Definition max_iterations := 100.
Definition max_growth : N := 16384.
(* result text and "expansion too large" flag *)
Definition expand (t : table) (line : str) : str * bool :=
  passes max_iterations (N.of_nat (List.length line) + max_growth)%N t line.

(* ---------- decimal rendering of the line number (std::to_string) ---------- *)
Definition digit (n : nat) : ascii := ascii_of_nat (48 + n).
Fixpoint dec_aux (fuel n : nat) (acc : str) : str :=
  match fuel with
  | 0 => acc
  | S f => let acc' := digit (n mod 10) :: acc in
           if n <? 10 then acc' else dec_aux f (n / 10) acc'
  end.
Definition dec (n : nat) : str := dec_aux (S n) n [].

(* ---------- the state and the line loop of Preprocessor::process ---------- *)
Record cstate := { met : bool; else_seen : bool; taken : bool }.
Record core := { tab : table; outp : list str; nerr : nat; nwarn : nat; lno : nat; fname : str }.
Record pstate := { stack : list cstate; cor : core }.

Definition skipping (st : list cstate) : bool := existsb (fun c => negb (met c)) st.

Definition quote (s : str) : str := s2l """" ++ s ++ s2l """".
Definition n_file := s2l "__FILE__".
Definition n_line := s2l "__LINE__".

(* current_line_++ and the refresh of __FILE__ / __LINE__ at the top of the loop *)
Definition tick (c : core) : core :=
  let l := S (lno c) in
  {| tab := insert {| mname := n_line; mbody := dec l; mfn := false |}
              (insert {| mname := n_file; mbody := quote (fname c); mfn := false |} (tab c));
     outp := outp c; nerr := nerr c; nwarn := nwarn c; lno := l; fname := fname c |}.

Definition with_tab (c : core) (t : table) : core :=
  {| tab := t; outp := outp c; nerr := nerr c; nwarn := nwarn c; lno := lno c; fname := fname c |}.
Definition emit (c : core) (s : str) : core :=
  {| tab := tab c; outp := outp c ++ [s]; nerr := nerr c; nwarn := nwarn c; lno := lno c; fname := fname c |}.
Definition add_err (c : core) : core :=
  {| tab := tab c; outp := outp c; nerr := S (nerr c); nwarn := nwarn c; lno := lno c; fname := fname c |}.
Definition add_warn (c : core) : core :=
  {| tab := tab c; outp := outp c; nerr := nerr c; nwarn := S (nwarn c); lno := lno c; fname := fname c |}.

Definition err_comment (raw : str) : str := s2l "// " ++ raw ++ s2l " [preprocessor error]".
(* error return of processDirective: record the error, and echo the line as a comment when live *)
Definition fail_line (live : bool) (c : core) (raw : str) : core :=
  let c' := add_err c in if live then emit c' (err_comment raw) else c'.

(* lines that do not touch the conditional stack; [live] = !shouldSkipOutput() *)
Definition plain_step (live : bool) (c : core) (raw : str) (k : pkind) : core :=
  match k with
  | PText => if live then (let '(e, over) := expand (tab c) raw in emit (if over then add_err c else c) e) else c
  | PNop => c
  | PCondBad => fail_line live c raw                           (* processed even while skipping *)
  | PDefine n b fn =>
      if live then with_tab (if fn then add_warn c else c) (insert {| mname := n; mbody := b; mfn := fn |} (tab c))
      else c
  | PDefineBad => if live then fail_line true c raw else c
  | PDefineFnBad => if live then fail_line true (add_warn c) raw else c
  | PUndef n => if live then with_tab c (erase n (tab c)) else c
  | PUndefBad => if live then fail_line true c raw else c
  | PError => if live then add_err c else c
  | PWarn | PInclude => if live then add_warn c else c
  | PUnknown => if live then fail_line true c raw else c
  end.

Definition mkp st c := {| stack := st; cor := c |}.

Definition step (p : pstate) (rk : str * kind) : pstate :=
  let raw := fst rk in
  let c := tick (cor p) in
  let st := stack p in
  match snd rk with
  | KIfdef n => let b := defined n (tab c) in
                mkp ({| met := b; else_seen := false; taken := b |} :: st) c
  | KIfndef n => let b := negb (defined n (tab c)) in
                 mkp ({| met := b; else_seen := false; taken := b |} :: st) c
  | KElif n =>
      match st with
      | [] => mkp st (fail_line true c raw)
      | x :: r =>
          if else_seen x then mkp st (fail_line (negb (skipping st)) c raw)
          else if taken x then mkp ({| met := false; else_seen := false; taken := true |} :: r) c
          else let b := defined n (tab c) in mkp ({| met := b; else_seen := false; taken := b |} :: r) c
      end
  | KElse =>
      match st with
      | [] => mkp st (fail_line true c raw)
      | x :: r =>
          if else_seen x then mkp st (fail_line (negb (skipping st)) c raw)
          else mkp ({| met := negb (taken x); else_seen := true; taken := taken x |} :: r) c
      end
  | KEndif =>
      match st with
      | [] => mkp st (fail_line true c raw)
      | _ :: r => mkp r c
      end
  | KPlain k => mkp st (plain_step (negb (skipping st)) c raw k)
  end.

Definition run (ls : list (str * kind)) (p : pstate) : pstate := fold_left step ls p.

Definition finish (p : pstate) : core :=
  match stack p with [] => cor p | _ => add_err (cor p) end.

Definition init_core (t : table) (file : str) : core :=
  {| tab := t; outp := []; nerr := 0; nwarn := 0; lno := 0; fname := file |}.

(* Preprocessor::process on a file already split into lines (std::getline) *)
Definition process (t : table) (file : str) (lines : list str) : core :=
  finish (run (map (fun l => (l, classify l)) lines) (mkp [] (init_core t file))).

(* Preprocessor::define, used for -DNAME[=V] *)
Definition define (t : table) (n v : str) : table := insert {| mname := n; mbody := v; mfn := false |} t.
