(* C17 - property theorems only: provenance and order of the emitted lines ("emits, in order, exactly
   those source lines ..."), for EVERY sequence of lines and directives, well nested or not, any initial
   macro table. Statements are about the Mech model of preprocessor.cpp (Model.v); proofs in Order.v. *)
From Coq Require Import List Arith Bool Ascii String NArith.
Local Open Scope string_scope.
Local Open Scope list_scope.
From Cb Require Import C17.Model C17.Spec C17.Order.
Import ListNotations.

(* The output of Preprocessor::process is produced from a subsequence of the source lines in source
   order: nothing is invented, duplicated or reordered. Each emitted line is the macro expansion of a
   plain text line, or the "// ... [preprocessor error]" comment of the line that was rejected. *)
Theorem output_is_ordered_subsequence_of_source : forall t file lines,
  provenance (map (fun l => (l, classify l)) lines) (outp (process t file lines)).
Proof. exact process_provenance. Qed.
Print Assumptions output_is_ordered_subsequence_of_source.

(* the same from any machine state (open conditionals, earlier output), which is what holds in the
   middle of a file *)
Theorem run_appends_ordered_subsequence : forall ls p,
  exists out, outp (cor (run ls p)) = outp (cor p) ++ out /\ provenance ls out.
Proof. exact run_provenance. Qed.
Print Assumptions run_appends_ordered_subsequence.

Theorem at_most_one_output_line_per_source_line : forall ls out,
  provenance ls out -> List.length out <= List.length ls.
Proof. exact provenance_length. Qed.
Print Assumptions at_most_one_output_line_per_source_line.

(* a text line in live text is emitted exactly once, expanded under the table in force at that line
   (with __LINE__ / __FILE__ refreshed); a text line in a skipped branch changes nothing *)
Theorem live_text_line_emitted_once : forall st c raw, skipping st = false ->
  outp (cor (step (mkp st c) (raw, KPlain PText))) = outp c ++ [fst (expand (tab (tick c)) raw)].
Proof. exact live_text_emitted. Qed.
Print Assumptions live_text_line_emitted_once.

Theorem skipped_text_line_silent : forall st c raw, skipping st = true ->
  outp (cor (step (mkp st c) (raw, KPlain PText))) = outp c /\
  stack (step (mkp st c) (raw, KPlain PText)) = st /\
  nerr (cor (step (mkp st c) (raw, KPlain PText))) = nerr c.
Proof. exact skipped_text_silent. Qed.
Print Assumptions skipped_text_line_silent.

(* a well-formed directive line is never copied to the output, live or skipped *)
Theorem wellformed_directive_never_emitted : forall p raw k, quiet_kind k = true ->
  outp (cor (step p (raw, k))) = outp (cor p).
Proof. exact quiet_directive_not_emitted. Qed.
Print Assumptions wellformed_directive_never_emitted.

(* non-vacuity: a concrete file with nesting, a stray #endif and a macro use; three of its eight
   lines reach the output, in source order *)
Example provenance_somewhere :
  let f := map s2l ["#define A 7"; "x = A;"; "#ifdef B"; "dead"; "#else"; "live A"; "#endif"; "#endif"] in
  outp (process [] (s2l "f.cb") f) = map s2l ["x = 7;"; "live 7"; "// #endif [preprocessor error]"].
Proof. vm_compute. reflexivity. Qed.
