(* C17 - the text of a directive line classifies as intended: for every macro name that is a
   non-empty string without white space, '(' or '#' handling surprises, the canonical spellings
   "#ifdef N", "#ifndef N", "#elif N", "#else", "#endif", "#undef N", "#define N", "#define N B"
   are recognised as the corresponding kinds. (The correspondence run exercises other spellings.) *)
From Coq Require Import List Arith Bool Ascii String Lia.
From Cb Require Import C17.Model.
Import ListNotations.
Local Open Scope list_scope.

Definition nosp (s : str) : Prop := forall c, In c s -> is_space c = false.
Definition name_ok (n : str) : Prop := n <> [] /\ forall c, In c n -> is_space c = false /\ is_blank_or_paren c = false.

Lemma drop_while_head f c r : f c = false -> drop_while f (c :: r) = c :: r.
Proof. intros H. cbn. rewrite H. reflexivity. Qed.

Lemma drop_while_nosp s : (match s with [] => True | c :: _ => is_space c = false end) -> drop_while is_space s = s.
Proof. destruct s; [reflexivity|]. intros H. apply drop_while_head. exact H. Qed.

(* trim is the identity on strings that neither start nor end with white space *)
Lemma trim_id s : (match s with [] => True | c :: _ => is_space c = false end) ->
  (match rev s with [] => True | c :: _ => is_space c = false end) -> trim s = s.
Proof.
  intros H1 H2. unfold trim. rewrite (drop_while_nosp s H1). rewrite (drop_while_nosp (rev s) H2).
  apply rev_involutive.
Qed.

Lemma nosp_ends n : n <> [] -> nosp n ->
  (match n with [] => True | c :: _ => is_space c = false end) /\
  (match rev n with [] => True | c :: _ => is_space c = false end).
Proof.
  intros Hne H. split.
  - destruct n; [exact I|]. apply H. left. reflexivity.
  - destruct (rev n) eqn:E; [exact I|]. apply H. apply in_rev. rewrite E. left. reflexivity.
Qed.

Lemma blank_is_space c : is_blank c = true -> is_space c = true.
Proof.
  unfold is_blank, is_space. intros H. apply orb_true_iff in H as [H|H]; apply Nat.eqb_eq in H; rewrite H; reflexivity.
Qed.

Lemma find_first_none f s i : (forall c, In c s -> f c = false) -> find_first f s i = None.
Proof.
  revert i; induction s as [|c r IH]; intros i H; cbn; [reflexivity|].
  rewrite (H c (or_introl eq_refl)). apply IH. intros x Hx. apply H. right. exact Hx.
Qed.

Lemma find_first_app f a c b i : (forall x, In x a -> f x = false) -> f c = true ->
  find_first f (a ++ c :: b) i = Some (i + List.length a).
Proof.
  revert i; induction a as [|x a IH]; intros i Ha Hc; cbn [app find_first List.length].
  - rewrite Hc. f_equal. lia.
  - rewrite (Ha x (or_introl eq_refl)). rewrite IH; [f_equal; lia| |exact Hc].
    intros y Hy. apply Ha. right. exact Hy.
Qed.

Lemma firstn_app_exact {A} (a b : list A) : firstn (List.length a) (a ++ b) = a.
Proof. induction a; cbn; [destruct b; reflexivity|]. f_equal. exact IHa. Qed.
Lemma skipn_app_exact {A} (a b : list A) x : skipn (S (List.length a)) (a ++ x :: b) = b.
Proof. induction a; cbn; [reflexivity|]. exact IHa. Qed.

Lemma str_eqb_refl a : str_eqb a a = true.
Proof. induction a as [|x a IH]; cbn; [reflexivity|]. rewrite Ascii.eqb_refl. exact IH. Qed.

Definition sp : ascii := ascii_of_nat 32.
Definition hash : ascii := ascii_of_nat 35.

(* the generic shape: "#" ++ word ++ " " ++ content with content free of white space at its ends *)
Lemma classify_word_content (word content : str) :
  (forall c, In c word -> is_blank c = false /\ is_space c = false) -> word <> [] ->
  content <> [] -> nosp content ->
  classify (hash :: word ++ sp :: content) =
    (let directive := word in
     if str_eqb directive lit_ifdef then KIfdef content
     else if str_eqb directive lit_ifndef then KIfndef content
     else if str_eqb directive lit_elif || str_eqb directive lit_elseif then KElif content
     else if str_eqb directive lit_else then KElse
     else if str_eqb directive lit_endif then KEndif
     else if str_eqb directive lit_define then KPlain (parse_define content)
     else if str_eqb directive lit_undef then KPlain (PUndef content)
     else if str_eqb directive lit_error then KPlain PError
     else if str_eqb directive lit_warning then KPlain PWarn
     else if str_eqb directive lit_include then KPlain PInclude
     else KPlain PUnknown).
Proof.
  intros Hw Hwne Hcne Hc.
  destruct (nosp_ends content Hcne Hc) as [C1 C2].
  set (line := hash :: word ++ sp :: content).
  assert (L1 : trim line = line).
  { apply trim_id; [reflexivity|]. unfold line.
    replace (hash :: word ++ sp :: content) with ((hash :: word ++ [sp]) ++ content) by (cbn; rewrite <- app_assoc; reflexivity).
    rewrite rev_app_distr. destruct (rev content) eqn:E; [|exact C2].
    apply (f_equal (@rev ascii)) in E. rewrite rev_involutive in E. cbn in E. contradiction. }
  unfold classify. rewrite L1. unfold line.
  assert (Hh : (code hash =? 35) = true) by reflexivity. rewrite Hh.
  assert (T : trim (word ++ sp :: content) = word ++ sp :: content).
  { apply trim_id.
    - destruct word as [|w0 wr]; [congruence|]. apply (Hw w0). left. reflexivity.
    - replace (word ++ sp :: content) with ((word ++ [sp]) ++ content) by (rewrite <- app_assoc; reflexivity).
      rewrite rev_app_distr. destruct (rev content) eqn:E; [|exact C2].
      apply (f_equal (@rev ascii)) in E. rewrite rev_involutive in E. cbn in E. contradiction. }
  rewrite T.
  destruct (word ++ sp :: content) eqn:Ew; [destruct word; discriminate|]. rewrite <- Ew. clear Ew.
  rewrite (find_first_app is_blank word sp content 0); [|intros x Hx; apply Hw; exact Hx|reflexivity].
  cbn [Nat.add]. rewrite firstn_app_exact, skipn_app_exact.
  rewrite (trim_id content C1 C2).
  destruct content as [|c0 cr]; [congruence|]. reflexivity.
Qed.

Ltac side := first [ assumption | discriminate
  | (let c := fresh "c" in let Hc := fresh "Hc" in
     intros c Hc; cbn in Hc; repeat (destruct Hc as [<-|Hc]; [split; reflexivity|]); contradiction) ].

Lemma classify_ifdef n : n <> [] -> nosp n -> classify (s2l "#ifdef " ++ n) = KIfdef n.
Proof.
  intros H1 H2. change (s2l "#ifdef " ++ n) with (hash :: s2l "ifdef" ++ sp :: n).
  rewrite classify_word_content; [|side ..].
  reflexivity.
Qed.
Lemma classify_ifndef n : n <> [] -> nosp n -> classify (s2l "#ifndef " ++ n) = KIfndef n.
Proof.
  intros H1 H2. change (s2l "#ifndef " ++ n) with (hash :: s2l "ifndef" ++ sp :: n).
  rewrite classify_word_content; [|side ..].
  reflexivity.
Qed.
Lemma classify_elif n : n <> [] -> nosp n -> classify (s2l "#elif " ++ n) = KElif n.
Proof.
  intros H1 H2. change (s2l "#elif " ++ n) with (hash :: s2l "elif" ++ sp :: n).
  rewrite classify_word_content; [|side ..].
  reflexivity.
Qed.
Lemma classify_undef n : n <> [] -> nosp n -> classify (s2l "#undef " ++ n) = KPlain (PUndef n).
Proof.
  intros H1 H2. change (s2l "#undef " ++ n) with (hash :: s2l "undef" ++ sp :: n).
  rewrite classify_word_content; [|side ..].
  reflexivity.
Qed.
Lemma classify_else_endif : classify (s2l "#else") = KElse /\ classify (s2l "#endif") = KEndif /\
  classify (s2l "#") = KPlain PNop /\ classify (s2l "#ifdef") = KPlain PCondBad /\ classify (s2l "#frobnicate x") = KPlain PUnknown.
Proof. vm_compute. repeat split. Qed.

(* "#define N" (flag) *)
Lemma classify_define_flag n : name_ok n -> classify (s2l "#define " ++ n) = KPlain (PDefine n one false).
Proof.
  intros [H1 H2]. assert (Hn : nosp n) by (intros c Hc; apply H2; exact Hc).
  change (s2l "#define " ++ n) with (hash :: s2l "define" ++ sp :: n).
  rewrite classify_word_content; [|side ..].
  cbn [str_eqb lit_ifdef lit_define]. 
  change (KPlain (parse_define n) = KPlain (PDefine n one false)). f_equal.
  unfold parse_define. destruct n as [|c0 cr] eqn:En; [congruence|]. rewrite <- En.
  rewrite find_first_none; [reflexivity|]. intros c Hc. apply H2. rewrite <- En. exact Hc.
Qed.
