(* Extraction of the C17 model to OCaml (ExtrOcamlBasic + ExtrOcamlString only; nat stays unary). *)
From Coq Require Import Extraction ExtrOcamlBasic ExtrOcamlString.
From Cb Require Import C17.Model.
Extraction Language OCaml.
Extraction "C17/c17_model.ml" process define classify expand core.
