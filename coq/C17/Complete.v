(* C17 - completeness of error reporting: a line list that is NOT the flattening of a tree of
   well-nested conditional groups always ends with at least one more error - unbalanced
   directives are never ignored. *)
From Coq Require Import List Arith Bool Ascii Lia.
From Cb Require Import C17.Model C17.Spec.
Import ListNotations.

(* the nesting discipline alone; the stack holds the else_seen flags *)
Fixpoint wn (ls : list (str * kind)) (st : list bool) : bool :=
  match ls with
  | [] => match st with [] => true | _ => false end
  | (_, k) :: r =>
      match k with
      | KPlain _ => wn r st
      | KIfdef _ | KIfndef _ => wn r (false :: st)
      | KElif _ => match st with false :: _ => wn r st | _ => false end
      | KElse => match st with false :: t => wn r (true :: t) | _ => false end
      | KEndif => match st with _ :: t => wn r t | [] => false end
      end
  end.

Inductive dec : list bool -> list (str * kind) -> Prop :=
| dec_nil i : dec [] (fl_items i)
| dec_open i el ob rawend st r : dec st r ->
    dec (false :: st) (fl_items i ++ fl_elifs el ++ fl_oitems ob ++ [(rawend, KEndif)] ++ r)
| dec_else i rawend st r : dec st r -> dec (true :: st) (fl_items i ++ [(rawend, KEndif)] ++ r).

Lemma dec_eq st l l2 : dec st l -> l = l2 -> dec st l2.
Proof. intros H <-. exact H. Qed.

Ltac norm := cbn [fl_items fl_item fl_elifs fl_oitems app]; repeat rewrite <- app_assoc; cbn [app]; repeat rewrite <- app_assoc; reflexivity.

Lemma wn_dec ls : forall st, wn ls st = true -> dec st ls.
Proof.
  induction ls as [|[raw k] r IH]; intros st H; cbn [wn] in H.
  - destruct st; [|discriminate]. apply (dec_nil INil).
  - destruct k as [pk|n|n|n| |].
    + (* plain *) apply IH in H. inversion H; subst.
      * apply (dec_nil (ICons (IPlain raw pk) i)).
      * apply (dec_open (ICons (IPlain raw pk) i) el ob rawend st0 r0); assumption.
      * apply (dec_else (ICons (IPlain raw pk) i) rawend st0 r0); assumption.
    + (* ifdef *) apply IH in H. inversion H as [| i el ob rawend st0 r0 Hr |]; subst.
      inversion Hr; subst.
      * replace ((raw, KIfdef n) :: fl_items i ++ fl_elifs el ++ fl_oitems ob ++ [(rawend, KEndif)] ++ fl_items i0)
          with (fl_items (ICons (IGroup raw (CDef n) i el ob rawend) i0)).
        { apply dec_nil. }
        norm.
      * replace ((raw, KIfdef n) :: fl_items i ++ fl_elifs el ++ fl_oitems ob ++ [(rawend, KEndif)] ++
                 fl_items i0 ++ fl_elifs el0 ++ fl_oitems ob0 ++ [(rawend0, KEndif)] ++ r)
          with (fl_items (ICons (IGroup raw (CDef n) i el ob rawend) i0) ++ fl_elifs el0 ++ fl_oitems ob0 ++ [(rawend0, KEndif)] ++ r).
        { apply dec_open. assumption. }
        norm.
      * replace ((raw, KIfdef n) :: fl_items i ++ fl_elifs el ++ fl_oitems ob ++ [(rawend, KEndif)] ++
                 fl_items i0 ++ [(rawend0, KEndif)] ++ r)
          with (fl_items (ICons (IGroup raw (CDef n) i el ob rawend) i0) ++ [(rawend0, KEndif)] ++ r).
        { apply dec_else. assumption. }
        norm.
    + (* ifndef *) apply IH in H. inversion H as [| i el ob rawend st0 r0 Hr |]; subst.
      inversion Hr; subst.
      * replace ((raw, KIfndef n) :: fl_items i ++ fl_elifs el ++ fl_oitems ob ++ [(rawend, KEndif)] ++ fl_items i0)
          with (fl_items (ICons (IGroup raw (CNdef n) i el ob rawend) i0)).
        { apply dec_nil. }
        norm.
      * replace ((raw, KIfndef n) :: fl_items i ++ fl_elifs el ++ fl_oitems ob ++ [(rawend, KEndif)] ++
                 fl_items i0 ++ fl_elifs el0 ++ fl_oitems ob0 ++ [(rawend0, KEndif)] ++ r)
          with (fl_items (ICons (IGroup raw (CNdef n) i el ob rawend) i0) ++ fl_elifs el0 ++ fl_oitems ob0 ++ [(rawend0, KEndif)] ++ r).
        { apply dec_open. assumption. }
        norm.
      * replace ((raw, KIfndef n) :: fl_items i ++ fl_elifs el ++ fl_oitems ob ++ [(rawend, KEndif)] ++
                 fl_items i0 ++ [(rawend0, KEndif)] ++ r)
          with (fl_items (ICons (IGroup raw (CNdef n) i el ob rawend) i0) ++ [(rawend0, KEndif)] ++ r).
        { apply dec_else. assumption. }
        norm.
    + (* elif *) destruct st as [|[|] t]; try discriminate. apply IH in H.
      inversion H as [| i el ob rawend st0 r0 Hr |]; subst.
      eapply dec_eq; [apply (dec_open INil (ECons raw n i el) ob rawend t r0 Hr)|norm].
    + (* else *) destruct st as [|[|] t]; try discriminate. apply IH in H.
      inversion H as [| | i rawend st0 r0 Hr]; subst.
      eapply dec_eq; [apply (dec_open INil ENil (OSome raw i) rawend t r0 Hr)|norm].
    + (* endif *) destruct st as [|b t]; [discriminate|]. apply IH in H. destruct b.
      * eapply dec_eq; [apply (dec_else INil raw t r H)|norm].
      * eapply dec_eq; [apply (dec_open INil ENil ONone raw t r H)|norm].
Qed.

(* every file whose nesting is accepted is the flattening of a tree *)
Lemma wn_is_tree ls : wn ls [] = true -> exists its, ls = fl_items its.
Proof. intros H. apply wn_dec in H. inversion H; subst. eexists; reflexivity. Qed.

(* conversely a tree's flattening is accepted *)
Lemma tree_wn :
  (forall it st r, wn (fl_item it ++ r) st = wn r st) /\
  (forall its st r, wn (fl_items its ++ r) st = wn r st) /\
  (forall es t r, wn (fl_elifs es ++ r) (false :: t) = wn r (false :: t)) /\
  (forall ob t r, exists b, wn (fl_oitems ob ++ r) (false :: t) = wn r (b :: t)).
Proof.
  apply tree_mind.
  - intros raw k st r. reflexivity.
  - intros r0 c body IHb el IHe els IHo r1 st r. cbn [fl_item app]. 
    assert (E : wn ((r0, match c with CDef n => KIfdef n | CNdef n => KIfndef n end)
                     :: (fl_items body ++ fl_elifs el ++ fl_oitems els ++ [(r1, KEndif)]) ++ r) st
                = wn ((fl_items body ++ fl_elifs el ++ fl_oitems els ++ [(r1, KEndif)]) ++ r) (false :: st)).
    { destruct c; reflexivity. }
    rewrite E. rewrite <- !app_assoc. rewrite IHb, IHe. destruct (IHo st ([(r1, KEndif)] ++ r)) as [b Hb].
    rewrite Hb. reflexivity.
  - intros st r. reflexivity.
  - intros i IHi r0 IHr st r. cbn [fl_items]. rewrite <- app_assoc, IHi, IHr. reflexivity.
  - intros t r. reflexivity.
  - intros raw n b IHb r0 IHr t r. cbn [fl_elifs app wn]. rewrite <- app_assoc, IHb, IHr. reflexivity.
  - intros t r. exists false. reflexivity.
  - intros raw b IHb t r. exists true. cbn [fl_oitems app wn]. rewrite IHb. reflexivity.
Qed.

(* the machine's stack of else_seen flags *)
Definition flags (p : pstate) : list bool := map else_seen (stack p).

Lemma nerr_finish_ge p : nerr (cor p) <= nerr (finish p).
Proof. unfold finish. destruct (stack p); cbn; lia. Qed.

(* a file that violates the nesting discipline always gains an error *)
Lemma ill_nested_is_error ls : forall p, wn ls (flags p) = false ->
  nerr (cor p) < nerr (finish (run ls p)).
Proof.
  induction ls as [|[raw k] r IH]; intros p H.
  - cbn [wn] in H. cbn [run fold_left]. unfold finish, flags in *. destruct (stack p); [discriminate|cbn; lia].
  - cbn [run fold_left]. change (fold_left step r (step p (raw, k))) with (run r (step p (raw, k))).
    assert (Hmono : forall q, nerr (cor q) <= nerr (finish (run r q))).
    { intros q. etransitivity; [apply nerr_run|apply nerr_finish_ge]. }
    assert (T : nerr (tick (cor p)) = nerr (cor p)) by reflexivity.
    unfold flags in *. cbn [wn] in H. destruct k as [pk|n|n|n| |].
    + (* plain: stack unchanged *) 
      assert (S1 : stack (step p (raw, KPlain pk)) = stack p) by reflexivity.
      eapply Nat.le_lt_trans; [apply (nerr_step p (raw, KPlain pk))|]. apply IH. rewrite S1. exact H.
    + eapply Nat.le_lt_trans; [apply (nerr_step p (raw, KIfdef n))|]. apply IH.
      unfold step. cbn [snd fst stack mkp map else_seen]. exact H.
    + eapply Nat.le_lt_trans; [apply (nerr_step p (raw, KIfndef n))|]. apply IH.
      unfold step. cbn [snd fst stack mkp map else_seen]. exact H.
    + (* elif *) destruct (stack p) as [|x t] eqn:Sp.
      * eapply Nat.lt_le_trans; [|apply Hmono]. unfold step. cbn [snd fst]. rewrite Sp. cbn [cor mkp].
        rewrite nerr_fail_line. lia.
      * cbn [map] in H. destruct (else_seen x) eqn:Ex.
        -- eapply Nat.lt_le_trans; [|apply Hmono]. unfold step. cbn [snd fst]. rewrite Sp, Ex. cbn [cor mkp].
           rewrite nerr_fail_line. lia.
        -- eapply Nat.le_lt_trans; [apply (nerr_step p (raw, KElif n))|]. apply IH.
           unfold step. cbn [snd fst]. rewrite Sp, Ex. destruct (taken x); cbn [stack mkp map else_seen]; exact H.
    + (* else *) destruct (stack p) as [|x t] eqn:Sp.
      * eapply Nat.lt_le_trans; [|apply Hmono]. unfold step. cbn [snd fst]. rewrite Sp. cbn [cor mkp].
        rewrite nerr_fail_line. lia.
      * cbn [map] in H. destruct (else_seen x) eqn:Ex.
        -- eapply Nat.lt_le_trans; [|apply Hmono]. unfold step. cbn [snd fst]. rewrite Sp, Ex. cbn [cor mkp].
           rewrite nerr_fail_line. lia.
        -- eapply Nat.le_lt_trans; [apply (nerr_step p (raw, KElse))|]. apply IH.
           unfold step. cbn [snd fst]. rewrite Sp, Ex. cbn [stack mkp map else_seen]. exact H.
    + (* endif *) destruct (stack p) as [|x t] eqn:Sp.
      * eapply Nat.lt_le_trans; [|apply Hmono]. unfold step. cbn [snd fst]. rewrite Sp. cbn [cor mkp].
        rewrite nerr_fail_line. lia.
      * eapply Nat.le_lt_trans; [apply (nerr_step p (raw, KEndif))|]. apply IH.
        unfold step. cbn [snd fst]. rewrite Sp. cbn [stack mkp]. exact H.
Qed.

(* the two directions together: a whole file read with an empty stack reports no nesting error
   only if it is (the flattening of) a well-nested tree *)
Lemma no_error_implies_tree ls c0 :
  nerr (finish (run ls (mkp [] c0))) = nerr c0 -> exists its, ls = fl_items its.
Proof.
  intros H. apply wn_is_tree. destruct (wn ls []) eqn:E; [reflexivity|].
  pose proof (ill_nested_is_error ls (mkp [] c0) E) as L. cbn [cor mkp] in L. lia.
Qed.
