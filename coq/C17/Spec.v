(* C17 - Spec: a source file as a tree of nested conditional groups, and its meaning in the
   property's own words: a line lies in a region that is ACTIVE iff every enclosing branch is
   the first branch of its group whose condition holds under the definitions in force there;
   only active text lines are emitted (macro-expanded), only active #define/#undef change the
   table. Plus the refinement proof Mech (stack machine of Model.v) = Spec. *)
From Coq Require Import List Arith Bool Ascii Lia.
From Cb Require Import C17.Model.
Import ListNotations.

Inductive cond := CDef (n : str) | CNdef (n : str).
Inductive item :=
| IPlain (raw : str) (k : pkind)
| IGroup (rawif : str) (c : cond) (body : items) (el : elifs) (els : oitems) (rawend : str)
with items := INil | ICons (i : item) (r : items)
with elifs := ENil | ECons (raw : str) (n : str) (b : items) (r : elifs)
with oitems := ONone | OSome (raw : str) (b : items).

Scheme item_mind := Induction for item Sort Prop
with items_mind := Induction for items Sort Prop
with elifs_mind := Induction for elifs Sort Prop
with oitems_mind := Induction for oitems Sort Prop.
Combined Scheme tree_mind from item_mind, items_mind, elifs_mind, oitems_mind.

Definition holds (c : cond) (t : table) : bool :=
  match c with CDef n => defined n t | CNdef n => negb (defined n t) end.

(* every physical line advances the line counter ([tick]); nothing else happens in an
   inactive region except that a malformed #ifdef is still reported *)
Fixpoint sem_item (active : bool) (c : core) (it : item) : core :=
  match it with
  | IPlain raw k => plain_step active (tick c) raw k
  | IGroup _ cnd body el els _ =>
      let c1 := tick c in
      let b0 := holds cnd (tab c1) in
      let c2 := sem_items (active && b0) c1 body in
      let r3 := sem_elifs active b0 c2 el in
      let c4 := sem_oitems (active && negb (fst r3)) (snd r3) els in
      tick c4
  end
with sem_items (active : bool) (c : core) (its : items) : core :=
  match its with
  | INil => c
  | ICons i r => sem_items active (sem_item active c i) r
  end
with sem_elifs (active tk : bool) (c : core) (es : elifs) : bool * core :=
  match es with
  | ENil => (tk, c)
  | ECons _ n b r =>
      let c1 := tick c in
      let bb := negb tk && defined n (tab c1) in
      sem_elifs active (tk || bb) (sem_items (active && bb) c1 b) r
  end
with sem_oitems (active : bool) (c : core) (o : oitems) : core :=
  match o with ONone => c | OSome _ b => sem_items active (tick c) b end.

(* ---------- flattening a tree back to classified lines ---------- *)
Fixpoint fl_item (it : item) : list (str * kind) :=
  match it with
  | IPlain raw k => [(raw, KPlain k)]
  | IGroup r0 c body el els r1 =>
      (r0, match c with CDef n => KIfdef n | CNdef n => KIfndef n end)
        :: fl_items body ++ fl_elifs el ++ fl_oitems els ++ [(r1, KEndif)]
  end
with fl_items (its : items) : list (str * kind) :=
  match its with INil => [] | ICons i r => fl_item i ++ fl_items r end
with fl_elifs (es : elifs) : list (str * kind) :=
  match es with ENil => [] | ECons raw n b r => (raw, KElif n) :: fl_items b ++ fl_elifs r end
with fl_oitems (o : oitems) : list (str * kind) :=
  match o with ONone => [] | OSome raw b => (raw, KElse) :: fl_items b end.

(* ---------- refinement ---------- *)
Definition act (st : list cstate) : bool := negb (skipping st).

Lemma run_app a b p : run (a ++ b) p = run b (run a p).
Proof. unfold run. apply fold_left_app. Qed.

Lemma act_cons c st : act (c :: st) = met c && act st.
Proof. unfold act, skipping. cbn [existsb]. destruct (met c); reflexivity. Qed.

Definition P_item (it : item) := forall st c,
  run (fl_item it) (mkp st c) = mkp st (sem_item (act st) c it).
Definition P_items (its : items) := forall st c,
  run (fl_items its) (mkp st c) = mkp st (sem_items (act st) c its).
Definition P_elifs (es : elifs) := forall x st c, else_seen x = false ->
  exists m, run (fl_elifs es) (mkp (x :: st) c) =
  mkp ({| met := m; else_seen := false; taken := fst (sem_elifs (act st) (taken x) c es) |} :: st)
      (snd (sem_elifs (act st) (taken x) c es)).
Definition P_oitems (ob : oitems) := forall x st c, else_seen x = false ->
  exists x', run (fl_oitems ob) (mkp (x :: st) c) =
  mkp (x' :: st) (sem_oitems (act st && negb (taken x)) c ob).

Lemma refinement :
  (forall it, P_item it) /\ (forall its, P_items its) /\
  (forall es, P_elifs es) /\ (forall ob, P_oitems ob).
Proof.
  apply tree_mind.
  - (* IPlain *) intros raw k st c. reflexivity.
  - (* IGroup *) intros r0 cnd body IHb el IHe els IHo r1 st c.
    cbn [fl_item sem_item].
    set (c1 := tick c).
    set (b0 := holds cnd (tab c1)).
    set (x0 := {| met := b0; else_seen := false; taken := b0 |}).
    assert (Hpush : step (mkp st c) (r0, match cnd with CDef n => KIfdef n | CNdef n => KIfndef n end)
                    = mkp (x0 :: st) c1).
    { destruct cnd; reflexivity. }
    change (run (?x :: ?l) ?p) with (run l (step p x)). rewrite Hpush.
    rewrite !run_app. rewrite (IHb (x0 :: st) c1).
    rewrite act_cons. cbn [met x0]. rewrite (andb_comm b0 (act st)).
    set (c2 := sem_items (act st && b0) c1 body).
    destruct (IHe x0 st c2 eq_refl) as [m Hm]. rewrite Hm. cbn [taken x0].
    set (r3 := sem_elifs (act st) b0 c2 el).
    set (x1 := {| met := m; else_seen := false; taken := fst r3 |}).
    destruct (IHo x1 st (snd r3) eq_refl) as [x' Hx']. rewrite Hx'.
    cbn [taken x1]. reflexivity.
  - (* INil *) intros st c. reflexivity.
  - (* ICons *) intros i IHi r IHr st c. cbn [fl_items sem_items].
    rewrite run_app, IHi, IHr. reflexivity.
  - (* ENil *) intros x st c Hx. exists (met x). cbn.
    destruct x as [m es tk]. cbn in Hx. subst es. reflexivity.
  - (* ECons *) intros raw n b IHb r IHr x st c Hx. cbn [fl_elifs sem_elifs].
    change (run (?y :: ?l) ?p) with (run l (step p y)).
    set (c1 := tick c).
    set (bb := negb (taken x) && defined n (tab c1)).
    set (x' := {| met := bb; else_seen := false; taken := taken x || bb |}).
    assert (Hs : step (mkp (x :: st) c) (raw, KElif n) = mkp (x' :: st) c1).
    { unfold step. cbn [snd fst stack cor mkp]. rewrite Hx. fold c1. unfold x', bb.
      destruct (taken x); cbn; [reflexivity|]. destruct (defined n (tab c1)); reflexivity. }
    rewrite Hs, run_app, (IHb (x' :: st) c1), act_cons. cbn [met x']. rewrite (andb_comm bb (act st)).
    set (c2 := sem_items (act st && bb) c1 b).
    destruct (IHr x' st c2 eq_refl) as [m Hm]. exists m. rewrite Hm.
    reflexivity.
  - (* ONone *) intros x st c Hx. exists x. reflexivity.
  - (* OSome *) intros raw b IHb x st c Hx. cbn [fl_oitems sem_oitems].
    change (run (?y :: ?l) ?p) with (run l (step p y)).
    set (x' := {| met := negb (taken x); else_seen := true; taken := taken x |}).
    assert (Hs : step (mkp (x :: st) c) (raw, KElse) = mkp (x' :: st) (tick c)).
    { unfold step. cbn [snd fst stack cor mkp]. rewrite Hx. reflexivity. }
    exists x'. rewrite Hs, (IHb (x' :: st) (tick c)), act_cons. cbn [met x'].
    rewrite (andb_comm (negb (taken x)) (act st)). reflexivity.
Qed.

Lemma cond_stack_refines_tree_l its c0 :
  finish (run (fl_items its) (mkp [] c0)) = sem_items true c0 its.
Proof. destruct refinement as [_ [H _]]. rewrite (H its [] c0). reflexivity. Qed.

(* ---------- inactive regions are inert ---------- *)
(* two cores agree on everything a skipped region may not touch *)
Definition same_vis (a b : core) : Prop := outp a = outp b /\ nwarn a = nwarn b /\
  (forall n, n <> n_line -> n <> n_file -> defined n (tab a) = defined n (tab b)).

Lemma plain_dead_out c raw k : outp (plain_step false c raw k) = outp c /\
  tab (plain_step false c raw k) = tab c /\ nwarn (plain_step false c raw k) = nwarn c.
Proof. destruct k; cbn [plain_step]; auto. Qed.

Lemma tick_out c : outp (tick c) = outp c /\ nwarn (tick c) = nwarn c /\ nerr (tick c) = nerr c.
Proof. cbn; auto. Qed.

(* the user-visible table (bodies included) outside __LINE__/__FILE__ *)
Fixpoint lookup (n : str) (t : table) : option macro :=
  match t with [] => None | x :: r => if str_eqb n (mname x) then Some x else lookup n r end.

Lemma str_eqb_refl a : str_eqb a a = true.
Proof. induction a as [|x a IH]; cbn; [reflexivity|]. rewrite Ascii.eqb_refl. exact IH. Qed.
Lemma str_eqb_eq a b : str_eqb a b = true <-> a = b.
Proof.
  revert b; induction a as [|x a IH]; intros [|y b]; cbn; split; intro H; try reflexivity; try discriminate.
  - apply andb_true_iff in H as [H1 H2]. apply Ascii.eqb_eq in H1. apply IH in H2. congruence.
  - inversion H; subst. rewrite Ascii.eqb_refl. apply IH. reflexivity.
Qed.
Lemma str_eqb_sym a b : str_eqb a b = str_eqb b a.
Proof.
  destruct (str_eqb a b) eqn:E.
  - apply str_eqb_eq in E. subst. symmetry. apply str_eqb_refl.
  - destruct (str_eqb b a) eqn:E2; [|reflexivity]. apply str_eqb_eq in E2. subst.
    rewrite str_eqb_refl in E. discriminate.
Qed.

Lemma lookup_insert_other n m t : str_eqb n (mname m) = false -> lookup n (insert m t) = lookup n t.
Proof.
  intros Hn. induction t as [|x r IH]; cbn.
  - rewrite Hn. reflexivity.
  - destruct (str_eqb (mname m) (mname x)) eqn:E.
    + apply str_eqb_eq in E. cbn. rewrite Hn. rewrite <- E, Hn. reflexivity.
    + destruct (str_ltb (mname m) (mname x)); cbn.
      * rewrite Hn. reflexivity.
      * rewrite IH. reflexivity.
Qed.

Lemma lookup_insert_same m t : lookup (mname m) (insert m t) = Some m.
Proof.
  induction t as [|x r IH]; cbn.
  - rewrite str_eqb_refl. reflexivity.
  - destruct (str_eqb (mname m) (mname x)) eqn:E; cbn.
    + rewrite str_eqb_refl. reflexivity.
    + destruct (str_ltb (mname m) (mname x)); cbn.
      * rewrite str_eqb_refl. reflexivity.
      * rewrite E. exact IH.
Qed.

Lemma defined_lookup n t : defined n t = match lookup n t with Some _ => true | None => false end.
Proof. induction t as [|x r IH]; cbn; [reflexivity|]. destruct (str_eqb n (mname x)); cbn; auto. Qed.

Definition user_name (n : str) : Prop := n <> n_line /\ n <> n_file.

Lemma tick_lookup n c : user_name n -> lookup n (tab (tick c)) = lookup n (tab c).
Proof.
  intros [H1 H2]. cbn [tick tab].
  rewrite !lookup_insert_other; cbn [mname]; auto.
  - destruct (str_eqb n n_file) eqn:E; [apply str_eqb_eq in E; contradiction|reflexivity].
  - destruct (str_eqb n n_line) eqn:E; [apply str_eqb_eq in E; contradiction|reflexivity].
Qed.

(* what a skipped region cannot change: output, warnings, and every user macro's definition *)
Definition inert (c c' : core) : Prop :=
  outp c' = outp c /\ nwarn c' = nwarn c /\ (forall n, user_name n -> lookup n (tab c') = lookup n (tab c)).

Lemma inert_refl c : inert c c.
Proof. repeat split; auto. Qed.
Lemma inert_trans a b c : inert a b -> inert b c -> inert a c.
Proof. intros (A1 & A2 & A3) (B1 & B2 & B3). repeat split; try congruence.
  intros n Hn. rewrite B3, A3; auto. Qed.
Lemma inert_tick c : inert c (tick c).
Proof. repeat split; try reflexivity. intros n Hn. apply tick_lookup; auto. Qed.
Lemma inert_plain_dead c raw k : inert c (plain_step false c raw k).
Proof. destruct (plain_dead_out c raw k) as (A & B & C). repeat split; auto. intros; rewrite B; auto. Qed.

Lemma skipped_region_inert_l :
  (forall it c, inert c (sem_item false c it)) /\ (forall its c, inert c (sem_items false c its)) /\
  (forall es tk c, inert c (snd (sem_elifs false tk c es))) /\
  (forall ob c, inert c (sem_oitems false c ob)).
Proof.
  apply tree_mind; cbn [sem_item sem_items sem_elifs sem_oitems andb fst snd]; intros.
  - eapply inert_trans; [apply inert_tick|apply inert_plain_dead].
  - eapply inert_trans; [apply inert_tick|].
    eapply inert_trans; [apply H|].
    eapply inert_trans; [apply H0|].
    eapply inert_trans; [apply H1|apply inert_tick].
  - apply inert_refl.
  - eapply inert_trans; [apply H|apply H0].
  - apply inert_refl.
  - eapply inert_trans; [apply inert_tick|]. eapply inert_trans; [apply H|apply H0].
  - apply inert_refl.
  - eapply inert_trans; [apply inert_tick|apply H].
Qed.

(* ---------- errors are never ignored ---------- *)
Lemma nerr_fail_line live c raw : nerr (fail_line live c raw) = S (nerr c).
Proof. unfold fail_line. destruct live; reflexivity. Qed.

Lemma stray_is_error st c raw k : st = [] -> (k = KElse \/ k = KEndif \/ exists n, k = KElif n) ->
  nerr (cor (step (mkp st c) (raw, k))) = S (nerr c) /\ stack (step (mkp st c) (raw, k)) = [].
Proof.
  intros -> [->|[->|[n ->]]]; unfold step; cbn [snd fst stack cor mkp]; rewrite nerr_fail_line; auto.
Qed.

Lemma unclosed_is_error p : stack p <> [] -> nerr (finish p) = S (nerr (cor p)).
Proof. unfold finish. destruct (stack p); [congruence|reflexivity]. Qed.

Lemma unknown_live_is_error st c raw : skipping st = false ->
  let p' := step (mkp st c) (raw, KPlain PUnknown) in
  nerr (cor p') = S (nerr c) /\ outp (cor p') = outp c ++ [err_comment raw] /\ stack p' = st.
Proof. intros H. unfold step. cbn [snd fst stack cor mkp plain_step]. rewrite H. cbn. auto. Qed.

(* errors only ever accumulate: a reported error is never retracted by later lines *)
Lemma nerr_plain live c raw k : nerr c <= nerr (plain_step live c raw k).
Proof.
  destruct k; destruct live; cbn [plain_step];
    try (unfold fail_line, emit, add_err, add_warn, with_tab; cbn [nerr]; lia).
  - destruct (expand (tab c) raw) as [e over]. destruct over; unfold emit, add_err; cbn [nerr]; lia.
  - destruct fn; unfold with_tab, add_warn; cbn [nerr]; lia.
Qed.
Lemma nerr_step p rk : nerr (cor p) <= nerr (cor (step p rk)).
Proof.
  destruct rk as [raw k]. unfold step. cbn [snd fst].
  assert (T : nerr (tick (cor p)) = nerr (cor p)) by reflexivity.
  destruct k as [k|n|n|n| |]; cbn [cor mkp].
  - rewrite <- T at 1. apply nerr_plain.
  - lia.
  - lia.
  - destruct (stack p) as [|x r]; cbn [cor mkp]; [rewrite nerr_fail_line; lia|].
    destruct (else_seen x); cbn [cor mkp]; [rewrite nerr_fail_line; lia|].
    destruct (taken x); cbn [cor mkp]; lia.
  - destruct (stack p) as [|x r]; cbn [cor mkp]; [rewrite nerr_fail_line; lia|].
    destruct (else_seen x); cbn [cor mkp]; [rewrite nerr_fail_line; lia|lia].
  - destruct (stack p) as [|x r]; cbn [cor mkp]; [rewrite nerr_fail_line; lia|lia].
Qed.
Lemma nerr_run ls p : nerr (cor p) <= nerr (cor (run ls p)).
Proof.
  revert p; induction ls as [|x ls IH]; intros p; cbn [run fold_left]; [lia|].
  etransitivity; [apply nerr_step|apply IH].
Qed.

(* -DNAME=V is a leading "#define NAME V": same table for every user-visible name *)
Lemma dflag_is_define_l t file raw n v : user_name n ->
  let p := step (mkp [] (init_core t file)) (raw, KPlain (PDefine n v false)) in
  stack p = [] /\ outp (cor p) = [] /\ nerr (cor p) = 0 /\
  forall m, user_name m -> lookup m (tab (cor p)) = lookup m (define t n v).
Proof.
  intros Hn. unfold step. cbn [snd fst stack cor mkp plain_step skipping existsb negb].
  repeat split. intros m Hm. cbn [with_tab tab]. unfold define.
  set (mm := {| mname := n; mbody := v; mfn := false |}).
  destruct (str_eqb m n) eqn:E.
  - apply str_eqb_eq in E. subst m. rewrite (lookup_insert_same mm). symmetry. apply (lookup_insert_same mm).
  - rewrite !(lookup_insert_other m mm); auto.
    apply (tick_lookup m (init_core t file) Hm).
Qed.
