(* C17 - property theorems only. Statements are about the Mech model of preprocessor.cpp
   (Model.v); the proofs are in Spec.v / Expand.v. *)
From Coq Require Import List Arith Bool Ascii String NArith.
Local Open Scope string_scope.
Local Open Scope list_scope.
From Cb Require Import C17.Model C17.Spec C17.Expand C17.Complete C17.Classify.
Import ListNotations.

(* Conditional inclusion, any nesting depth, any initial table / line number / file name: running the
   conditional-stack machine over the lines of a well-nested file yields exactly the tree meaning -
   the selected lines in order, with the definitions in force - and no unclosed-conditional error. *)
Theorem cond_stack_refines_tree : forall its c0,
  finish (run (fl_items its) (mkp [] c0)) = sem_items true c0 its.
Proof. exact cond_stack_refines_tree_l. Qed.
Print Assumptions cond_stack_refines_tree.

(* #define / #undef / text inside a skipped branch have no effect: output, warnings and every user
   macro are unchanged by a whole inactive sub-tree. *)
Theorem skipped_define_inert : forall its c, inert c (sem_items false c its).
Proof. exact (proj1 (proj2 skipped_region_inert_l)). Qed.
Print Assumptions skipped_define_inert.

(* #else / #elif / #endif without an open conditional is an error, never ignored *)
Theorem stray_directive_is_error : forall st c raw k, st = [] ->
  (k = KElse \/ k = KEndif \/ exists n, k = KElif n) ->
  nerr (cor (step (mkp st c) (raw, k))) = S (nerr c) /\ stack (step (mkp st c) (raw, k)) = [].
Proof. exact stray_is_error. Qed.
Print Assumptions stray_directive_is_error.

Theorem unclosed_conditional_is_error : forall p, stack p <> [] -> nerr (finish p) = S (nerr (cor p)).
Proof. exact unclosed_is_error. Qed.
Print Assumptions unclosed_conditional_is_error.

(* completeness of the error report: a file that is not the flattening of a well-nested tree of
   conditional groups always ends with at least one more error, whatever else it contains *)
Theorem ill_nested_file_is_error : forall ls p, wn ls (flags p) = false ->
  nerr (cor p) < nerr (finish (run ls p)).
Proof. exact ill_nested_is_error. Qed.
Print Assumptions ill_nested_file_is_error.

Theorem no_error_only_if_well_nested : forall ls c0,
  nerr (finish (run ls (mkp [] c0))) = nerr c0 -> exists its, ls = fl_items its.
Proof. exact no_error_implies_tree. Qed.
Print Assumptions no_error_only_if_well_nested.

Theorem errors_never_retracted : forall ls p, nerr (cor p) <= nerr (cor (run ls p)).
Proof. exact nerr_run. Qed.
Print Assumptions errors_never_retracted.

Theorem unknown_directive_is_error : forall st c raw, skipping st = false ->
  let p' := step (mkp st c) (raw, KPlain PUnknown) in
  nerr (cor p') = S (nerr c) /\ outp (cor p') = outp c ++ [err_comment raw] /\ stack p' = st.
Proof. exact unknown_live_is_error. Qed.
Print Assumptions unknown_directive_is_error.

Theorem dflag_is_leading_define : forall t file raw n v, user_name n ->
  let p := step (mkp [] (init_core t file)) (raw, KPlain (PDefine n v false)) in
  stack p = [] /\ outp (cor p) = [] /\ nerr (cor p) = 0 /\
  forall m, user_name m -> lookup m (tab (cor p)) = lookup m (define t n v).
Proof. exact dflag_is_define_l. Qed.
Print Assumptions dflag_is_leading_define.

(* the canonical spelling of each directive is classified as intended, for every macro name that is a
   non-empty string without white space (other spellings are exercised by the correspondence run) *)
Theorem directive_text_classified : forall n, n <> [] -> nosp n ->
  classify (s2l "#ifdef " ++ n) = KIfdef n /\ classify (s2l "#ifndef " ++ n) = KIfndef n /\
  classify (s2l "#elif " ++ n) = KElif n /\ classify (s2l "#undef " ++ n) = KPlain (PUndef n) /\
  classify (s2l "#else") = KElse /\ classify (s2l "#endif") = KEndif.
Proof.
  intros n H1 H2. destruct classify_else_endif as (E1 & E2 & _).
  split; [apply classify_ifdef; assumption|]. split; [apply classify_ifndef; assumption|].
  split; [apply classify_elif; assumption|]. split; [apply classify_undef; assumption|].
  split; [exact E1|exact E2].
Qed.
Print Assumptions directive_text_classified.

Theorem define_flag_classified : forall n, name_ok n -> classify (s2l "#define " ++ n) = KPlain (PDefine n one false).
Proof. exact classify_define_flag. Qed.
Print Assumptions define_flag_classified.

(* every position the expander replaces holds a whole-word occurrence of the macro name that lies
   outside the string-literal ranges it was given *)
Theorem replacement_is_whole_word_outside_recorded_strings : forall fuel name s rs pos p,
  search fuel name s rs pos = Some p ->
  pos <= p /\ is_prefix name (skipn p s) = true /\ in_string p rs = false /\
  start_valid s p = true /\ end_valid s p (List.length name) = true.
Proof. exact search_sound. Qed.
Print Assumptions replacement_is_whole_word_outside_recorded_strings.

Theorem line_without_macro_names_untouched : forall t s, absent t s -> expand t s = (s, false).
Proof. exact expand_absent_id. Qed.
Print Assumptions line_without_macro_names_untouched.

(* the repaired loop (fix: commits for C17-stale-string-ranges and C17-cap-100): each step of the sweep
   over one macro replaces the first remaining whole-word occurrence outside the string literals of the
   CURRENT text, and goes on with the rest of the line *)
Theorem sweep_replaces_outside_current_strings : forall f limit name body s pos ch,
  sweep (S f) limit name body s pos ch =
  match search (S (List.length s)) name s (string_ranges s) pos with
  | None => SGo s ch
  | Some p => let s' := replace_at s p (List.length name) body in
              if too_large limit s' then SOver s'
              else sweep f limit name body s' (p + List.length body) true
  end.
Proof. exact sweep_unfold. Qed.
Print Assumptions sweep_replaces_outside_current_strings.

(* the two former counter-examples now behave as the property demands, and a self-referential macro
   ends in a reported error instead of exponential growth *)
Theorem former_witnesses_repaired :
  expand (define (define [] (s2l "A") (s2l "xxxxxxxx")) (s2l "B") (s2l "1")) (s2l "A ""B""") = (s2l "xxxxxxxx ""B""", false) /\
  expand (define [] (s2l "N") (s2l "1")) (List.concat (List.repeat (s2l "N ") 101)) = (List.concat (List.repeat (s2l "1 ") 101), false) /\
  snd (passes max_iterations 40 (define [] (s2l "A") (s2l "A A")) (s2l "x A y")) = true.
Proof. vm_compute. repeat split; reflexivity. Qed.
Print Assumptions former_witnesses_repaired.

(* "replaced by its fully expanded body": when the expander stops because a whole pass over the macro table
   changed nothing (and not because of the growth limit or the 100-pass cap), the emitted text holds no
   whole-word occurrence of any object-like macro name outside its string literals any more; the three ways
   the loop can end are exactly: growth limit (reported as an error), convergence, cap *)
Theorem expansion_result_is_fully_expanded : forall t line s' over,
  expand t line = (s', over) ->
  converged max_iterations (N.of_nat (List.length line) + max_growth)%N t line = true ->
  over = false /\ fully_expanded t s'.
Proof. exact expand_fully_expanded_l. Qed.
Print Assumptions expansion_result_is_fully_expanded.

Theorem expansion_ends_in_error_convergence_or_cap : forall n limit t s s' over,
  passes n limit t s = (s', over) ->
  over = true \/ converged n limit t s = true \/ cap_hit n limit t s = true.
Proof. exact passes_outcomes. Qed.
Print Assumptions expansion_ends_in_error_convergence_or_cap.

(* non-vacuity: a chain of three macros converges (three changing passes and one quiet one) and is fully expanded *)
Example chain_converges :
  let t := define (define (define [] (s2l "A") (s2l "B + 1")) (s2l "B") (s2l "C * 2")) (s2l "C") (s2l "7") in
  expand t (s2l "x = A; ""A""") = (s2l "x = 7 * 2 + 1; ""A""", false) /\
  converged max_iterations (N.of_nat 10 + max_growth)%N t (s2l "x = A; ""A""") = true.
Proof. vm_compute. split; reflexivity. Qed.

(* non-vacuity: a concrete three-level file meets the hypotheses and selects what one expects *)
Example nested_example :
  let T := fun s => IPlain (s2l s) PText in
  let prog := ICons (IPlain (s2l "#define A") (PDefine (s2l "A") (s2l "1") false))
              (ICons (IGroup (s2l "#ifdef A") (CDef (s2l "A"))
                        (ICons (T "t1") (ICons (IGroup (s2l "#ifdef B") (CDef (s2l "B")) (ICons (T "t2") INil)
                           (ECons (s2l "#elif A") (s2l "A") (ICons (T "t3 A") INil) ENil) (OSome (s2l "#else") (ICons (T "t4") INil)) (s2l "#endif")) INil))
                        ENil (OSome (s2l "#else") (ICons (T "t5") INil)) (s2l "#endif")) INil) in
  outp (finish (run (fl_items prog) (mkp [] (init_core [] (s2l "f"))))) = [s2l "t1"; s2l "t3 1"].
Proof. vm_compute. reflexivity. Qed.
