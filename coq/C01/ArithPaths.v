(* C01 - Mech: the two arithmetic paths of the implementation.
   [eval_i64]: ExpressionHelpers::evaluate_arithmetic_binary / evaluate_bitwise_binary / evaluate_comparison_binary
     (helpers.cpp) - int64_t arithmetic as the code computes it since fixes 7af444c / 4ed6b21 / 57fff8e: + - * wrap
     around (computed in uint64_t), truncating / and %, INT64_MIN / -1 is reported, x % -1 = 0, shift counts are taken
     modulo 64, << shifts the unsigned representation, >> is arithmetic.  This closed form is no longer a hand-written
     model only: C01/HelpersGen.v proves that the definitions GENERATED from the C++ text by translators/cxx_pure.py
     (C01/Gen_Helpers.v, semantics Cxx/Cxx.v) compute exactly [eval_i64] (theorem generated_helpers_are_eval_i64).
   [eval_ld] : BinaryUnaryTypedHelpers::evaluate_binary_op_typed (binary_unary.cpp) - operands
     converted to x87 long double (64-bit significand), + - * computed there (one rounding to
     nearest-even), result cast back to int64_t (an out-of-range cast yields INT64_MIN on x86);
     / % and the bitwise operators work on the integer views.
   Theorem: whenever the exact result fits int64 both paths return exactly it. *)
From Coq Require Import ZArith Bool Lia.
From Cb Require Import Lang.Syntax Lang.Sem.
Local Open Scope Z_scope.

Inductive mres := MVal (z : Z) | MDiv0 | MOvf | MUB.
(* MDiv0: "Division by zero" / "Modulo by zero" is reported; MOvf: "Arithmetic overflow in division" is reported;
   MUB: undefined behaviour in the C++ (neither path produces it any more) *)

Definition wrap64 (z : Z) : Z := (z + 2 ^ 63) mod 2 ^ 64 - 2 ^ 63.

Definition eval_i64 (o : binop) (a b : Z) : mres :=
  match o with
  | Add => MVal (wrap64 (a + b)) | Sub => MVal (wrap64 (a - b)) | Mul => MVal (wrap64 (a * b))
  | Div => if b =? 0 then MDiv0 else if (a =? int64_min) && (b =? -1) then MOvf else MVal (Z.quot a b)
  | Mod => if b =? 0 then MDiv0 else if b =? -1 then MVal 0 else MVal (Z.rem a b)
  | BAnd => MVal (Z.land a b) | BOr => MVal (Z.lor a b) | BXor => MVal (Z.lxor a b)
  | Shl => MVal (wrap64 (a * 2 ^ (b mod 64)))
  | Shr => MVal (Z.shiftr a (b mod 64))
  | Lt => MVal (b2z (a <? b)) | Le => MVal (b2z (a <=? b)) | Gt => MVal (b2z (b <? a)) | Ge => MVal (b2z (b <=? a))
  | Eq => MVal (b2z (a =? b)) | Ne => MVal (b2z (negb (a =? b)))
  end.

(* round an integer to a 64-bit significand, ties to even *)
Definition ld_round (z : Z) : Z :=
  if Z.abs z <? 2 ^ 64 then z else
  let e := Z.log2 (Z.abs z) - 63 in
  let m := Z.abs z in
  let q := m / 2 ^ e in
  let r := m mod 2 ^ e in
  let half := 2 ^ (e - 1) in
  let q' := if r <? half then q else if half <? r then q + 1 else if Z.even q then q else q + 1 in
  Z.sgn z * (q' * 2 ^ e).
Definition cast64 (z : Z) : Z := if in64 z then z else int64_min.

Definition eval_ld (o : binop) (a b : Z) : mres :=
  match o with
  | Add => MVal (cast64 (ld_round (a + b)))
  | Sub => MVal (cast64 (ld_round (a - b)))
  | Mul => MVal (cast64 (ld_round (a * b)))
  | _ => eval_i64 o a b
  end.

Lemma wrap64_id z : in64 z = true -> wrap64 z = z.
Proof.
  unfold in64, int64_min, int64_max, wrap64. intros H. apply andb_true_iff in H as [H1 H2].
  apply Z.leb_le in H1, H2. rewrite Z.mod_small; lia.
Qed.
Lemma ld_round_id z : in64 z = true -> ld_round z = z.
Proof.
  unfold in64, int64_min, int64_max, ld_round. intros H. apply andb_true_iff in H as [H1 H2].
  apply Z.leb_le in H1, H2. destruct (Z.abs z <? 2 ^ 64) eqn:E; [reflexivity|].
  apply Z.ltb_ge in E. lia.
Qed.
Lemma cast64_id z : in64 z = true -> cast64 z = z.
Proof. unfold cast64. intros ->. reflexivity. Qed.

Lemma chk_val z r : chk z = Val r -> in64 z = true /\ r = z.
Proof. unfold chk. destruct (in64 z); [intros [= <-]; auto|discriminate]. Qed.

Lemma arith_paths_agree_l o a b r : arith o a b = Val r -> eval_i64 o a b = MVal r /\ eval_ld o a b = MVal r.
Proof.
  destruct o; cbn [arith eval_i64 eval_ld]; intros H;
    try (apply chk_val in H as [Hin ->]; rewrite ?wrap64_id, ?ld_round_id, ?cast64_id by assumption; split; reflexivity);
    try (injection H as <-; split; reflexivity).
  - (* Div *) destruct (b =? 0); [discriminate|]. apply chk_val in H as [Hin ->].
    destruct ((a =? int64_min) && (b =? -1)) eqn:E; [|split; reflexivity].
    apply andb_true_iff in E as [E1 E2]. apply Z.eqb_eq in E1, E2. subst. vm_compute in Hin. discriminate.
  - (* Mod *) destruct (b =? 0); [discriminate|]. destruct ((a =? int64_min) && (b =? -1)); [discriminate|].
    injection H as <-. destruct (b =? -1) eqn:E; [|split; reflexivity].
    apply Z.eqb_eq in E. subst b. change (-1) with (- (1)). rewrite Z.rem_opp_r, Z.rem_1_r by discriminate. split; reflexivity.
  - (* Shl *) destruct ((0 <=? b) && (b <? 64)) eqn:E; [|discriminate].
    apply andb_true_iff in E as [E1 E2]. apply Z.leb_le in E1. apply Z.ltb_lt in E2. rewrite Z.mod_small by lia.
    apply chk_val in H as [Hin ->]. rewrite wrap64_id by assumption. split; reflexivity.
  - (* Shr *) destruct ((0 <=? b) && (b <? 64)) eqn:E; [|discriminate].
    apply andb_true_iff in E as [E1 E2]. apply Z.leb_le in E1. apply Z.ltb_lt in E2. rewrite Z.mod_small by lia.
    injection H as <-. split; reflexivity.
Qed.

Lemma div0_paths_agree_l o a b : arith o a b = Fail EDiv0 -> eval_i64 o a b = MDiv0 /\ eval_ld o a b = MDiv0.
Proof.
  destruct o; cbn [arith eval_i64 eval_ld]; unfold chk;
    repeat match goal with |- context [if ?c then _ else _] => destruct c end;
    try discriminate; auto.
Qed.

(* the typed path is NOT exact outside int64: 2^63 + 2^63 is cast to INT64_MIN, the wrap-around path
   gives 0 - the two paths differ on overflowing operands (such programs are not well-formed) *)
Lemma paths_differ_on_overflow :
  eval_i64 Add int64_min int64_min = MVal 0 /\ eval_ld Add int64_min int64_min = MVal int64_min.
Proof. vm_compute. split; reflexivity. Qed.
