(* C01 - "the documented C-like semantics" as two artefacts that must agree: the inference rules of
   [Lang.BigStep] (written from docs/spec.md and the property texts; no fuel, no monad) and the executable
   reference interpreter [Lang.Sem.eval/exec] / [Lang.Print.run] (the one compared with the implementation).
   Property theorems only; proofs in Lang/BigStepEquiv.v. *)
From Coq Require Import List ZArith Bool Arith.
From Cb Require Import Lang.Syntax Lang.Sem Lang.Print Lang.FuelMono Lang.BigStep Lang.BigStepEquiv.
Import ListNotations.
Local Open Scope Z_scope.

(* whatever transcript and outcome the interpreter computes without running out of fuel is what the rules say
   the program means *)
Theorem run_sound : forall n p out oc,
  run n p = (out, oc) -> oc <> Failed ENoFuel -> bmeans p out oc.
Proof. exact run_sound_l. Qed.
Print Assumptions run_sound.

(* whatever the rules say a program means is computed by the interpreter, given enough fuel *)
Theorem run_complete : forall p out oc, bmeans p out oc -> exists n, run n p = (out, oc).
Proof. exact run_complete_l. Qed.
Print Assumptions run_complete.

(* ... and then by every larger fuel as well *)
Theorem run_complete_every_larger_fuel : forall p out oc,
  bmeans p out oc -> exists n, forall m, (n <= m)%nat -> run m p = (out, oc).
Proof. exact run_complete_strong_l. Qed.
Print Assumptions run_complete_every_larger_fuel.

(* both directions in one statement: the rules and the interpreter define the same meaning of programs *)
Theorem run_sound_complete : forall p out oc,
  bmeans p out oc <-> exists n, run n p = (out, oc) /\ oc <> Failed ENoFuel.
Proof. exact run_sound_complete_l. Qed.
Print Assumptions run_sound_complete.

(* the same at the level of single expressions and statements, for every function table and start state *)
Theorem eval_sound_complete : forall funcs,
  (forall e s c s', beval funcs e s c s' <-> exists n, eval funcs n e s = (c, s') /\ c <> Fail ENoFuel) /\
  (forall st s c s', bexec funcs st s c s' <-> exists n, exec funcs n st s = (c, s') /\ c <> Fail ENoFuel).
Proof. exact eval_sound_complete_l. Qed.
Print Assumptions eval_sound_complete.

(* the rules determine at most one outcome and final state (expressions, statements) and at most one
   transcript and exit status (programs) *)
Theorem bigstep_deterministic :
  (forall funcs e s c1 s1 c2 s2, beval funcs e s c1 s1 -> beval funcs e s c2 s2 -> c1 = c2 /\ s1 = s2) /\
  (forall funcs st s c1 s1 c2 s2, bexec funcs st s c1 s1 -> bexec funcs st s c2 s2 -> c1 = c2 /\ s1 = s2) /\
  (forall p o1 c1 o2 c2, bmeans p o1 c1 -> bmeans p o2 c2 -> o1 = o2 /\ c1 = c2).
Proof. exact bigstep_deterministic_l. Qed.
Print Assumptions bigstep_deterministic.

(* no rule concludes "out of fuel": a program without a finite derivation simply has no meaning *)
Theorem bigstep_never_out_of_fuel : forall funcs,
  (forall e s c s', beval funcs e s c s' -> c <> Fail ENoFuel) /\
  (forall st s c s', bexec funcs st s c s' -> c <> Fail ENoFuel) /\
  (forall ss s c s', bexecs funcs ss s c s' -> c <> Fail ENoFuel).
Proof. exact BigStepEquiv.bigstep_never_out_of_fuel. Qed.
Print Assumptions bigstep_never_out_of_fuel.

(* non-vacuity: the sample programs of Properties_C01.v have a derivation - obtained through [run_sound] from
   a computed run - with exactly the computed transcript and outcome; a for loop with `continue`, then a
   division by zero inside println ... *)
Example sample_run_has_derivation :
  let p := {| pglobals := []; pfuncs := [];
              pmain := [ SFor [SDecl false false {| base := TInt; uns := false |} 1%nat (Some (ENum 0))]
                              (EBin Lt (EVar 1%nat) (ENum 3)) [SIncDec false true (LVar 1%nat)]
                              [ SIf (EBin Eq (EVar 1%nat) (ENum 1)) [SContinue] []; SPrint true [EVar 1%nat] ];
                         SPrint true [EBin Div (ENum 1) (ENum 0)];
                         SPrint true [ENum 9] ] |} in
  bmeans p [OInt 0; ONl; OInt 2; ONl] (Failed EDiv0).
Proof. intros p. apply (run_sound 100). - vm_compute. reflexivity. - discriminate. Qed.

(* ... and struct declaration, member stores, whole-struct copy, then an out-of-bounds member read *)
Example sample_struct_run_has_derivation :
  let tl := {| base := TLong; uns := false |} in
  let fl := [ {| fty := tl; fdims := [] |}; {| fty := tl; fdims := [2%nat] |} ] in
  let p := {| pglobals := []; pfuncs := [];
              pmain := [ SStruct 1%nat 2%nat fl; SStruct 1%nat 3%nat fl;
                         SAssign (LVar (mkey 2%nat 0%nat)) None (ENum 5); SAssign (LIdx (mkey 2%nat 1%nat) [ENum 1]) None (ENum 7);
                         SCopy 3%nat 2%nat fl;
                         SAssign (LVar (mkey 2%nat 0%nat)) None (ENum 100);
                         SPrint true [EVar (mkey 3%nat 0%nat); EIdx (mkey 3%nat 1%nat) [ENum 1]; EVar (mkey 2%nat 0%nat); EIdx (mkey 3%nat 1%nat) [ENum 0]];
                         SPrint true [EIdx (mkey 3%nat 1%nat) [ENum 2]] ] |} in
  bmeans p [OInt 5; OSp; OInt 7; OSp; OInt 100; OSp; OInt 0; ONl] (Failed EBounds).
Proof. intros tl fl p. apply (run_sound 100). - vm_compute. reflexivity. - discriminate. Qed.

(* a recursive function with a default argument, a static counter and a short-circuit guard; the derivation
   exists and, by determinism, its transcript is the only one the rules allow *)
Example sample_call_run_is_the_meaning :
  let ti := {| base := TInt; uns := false |} in
  let f := {| fname := 1%nat; fret := Some ti;
              fparams := [ {| pty := ti; pname := 1%nat; pdef := None |}; {| pty := ti; pname := 2%nat; pdef := Some (ENum 1) |} ];
              fbody := [ SDecl false true ti 3%nat (Some (ENum 0)); SIncDec false true (LVar 3%nat);
                         SIf (EAnd (EBin Ne (EVar 1%nat) (ENum 0)) (EBin Gt (EBin Div (ENum 6) (EVar 1%nat)) (ENum 0)))
                             [ SReturn (Some (ECall 1%nat [EBin Sub (EVar 1%nat) (ENum 1); EBin Mul (EVar 2%nat) (EVar 1%nat)])) ] [];
                         SPrint true [EVar 3%nat];
                         SReturn (Some (EVar 2%nat)) ] |} in
  let p := {| pglobals := []; pfuncs := [f]; pmain := [ SPrint true [ECall 1%nat [ENum 4]] ] |} in
  bmeans p [OInt 5; ONl; OInt 24; ONl] Finished /\
  (forall out oc, bmeans p out oc -> out = [OInt 5; ONl; OInt 24; ONl] /\ oc = Finished).
Proof.
  intros ti f p.
  assert (H : bmeans p [OInt 5; ONl; OInt 24; ONl] Finished).
  { apply (run_sound 100). - vm_compute. reflexivity. - discriminate. }
  split; [exact H|]. intros out oc H2. exact (proj2 (proj2 bigstep_deterministic) p _ _ _ _ H2 H).
Qed.
