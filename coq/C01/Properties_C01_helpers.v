(* C01 - property theorems about the int64 helpers of the interpreter, stated about the definitions GENERATED from the
   current C++ text (C01/Gen_Helpers.v, written by translators/cxx_pure.py from clang's AST on every run of ./check C01;
   meaning of the generated terms: Cxx/Cxx.v; proofs: C01/HelpersGen.v, Cxx/CxxLemmas.v).
   [run f op args] is the C++17 meaning of calling f with the operator string op and the given int64_t arguments:
   RVal (returned value) | RThrow (text of the std::runtime_error) | RUB (undefined behaviour) | RFallOff | RStuck. *)
From Coq Require Import List ZArith Bool String.
From Cb Require Import Cxx.Cxx Cxx.CxxLemmas C01.Gen_Helpers C01.HelpersGen.
From Cb Require Lang.Syntax Lang.Sem C01.ArithPaths.
Import ListNotations.
Local Open Scope string_scope.
Local Open Scope Z_scope.

(* Freedom from undefined behaviour (content of /repo's fixes 7af444c, 4ed6b21, 57fff8e): for EVERY operator string -
   not only the ones a helper accepts - and all int64 operands, each of the four binary helpers returns an int64 value or
   throws std::runtime_error; it never reaches signed overflow, division by zero, INT64_MIN / -1, INT64_MIN % -1, a shift
   count outside 0..63 or a left shift of a negative value, never falls off its end. *)
Theorem helpers_ub_free : forall f op a b, In f binary_helpers -> Sem.in64 a = true -> Sem.in64 b = true ->
  well_defined (run f op (args2 a b)).
Proof. exact helpers_ub_free_l. Qed.
Print Assumptions helpers_ub_free.

Theorem unary_helper_ub_free : forall op a, Sem.in64 a = true -> well_defined (run fn_evaluate_simple_unary op (args1 a)).
Proof. exact unary_ub_free. Qed.
Print Assumptions unary_helper_ub_free.

(* Complete characterisation on ALL int64 operands (also outside the exact range): the generated helpers compute exactly
   the closed form ArithPaths.eval_i64 - wrap64 for + - *, truncating / and %, "Division by zero" / "Modulo by zero" for
   a zero divisor, "Arithmetic overflow in division" for INT64_MIN / -1, x % -1 = 0, shift count taken modulo 64,
   << on the unsigned representation, >> arithmetic, comparisons 0/1. *)
Theorem helpers_wraparound : forall o a b, Sem.in64 a = true -> Sem.in64 b = true ->
  run (helper_of o) (spelling o) (args2 a b) = result_of_mres o (ArithPaths.eval_i64 o a b).
Proof. exact (fun o a b Ha Hb => helpers_are_eval_i64_l a b Ha Hb o). Qed.
Print Assumptions helpers_wraparound.

(* Against the reference semantics: whenever Lang.Sem.arith gives the exact 64-bit result r the generated helper returns
   exactly r, and the reference reports division by zero iff the helper throws one of the two division messages. *)
Theorem helpers_match_reference : forall o a b, Sem.in64 a = true -> Sem.in64 b = true ->
  (forall r, Sem.arith o a b = Sem.Val r -> run (helper_of o) (spelling o) (args2 a b) = RVal (TLong, r)) /\
  (Sem.arith o a b = Sem.Fail Sem.EDiv0 <->
   run (helper_of o) (spelling o) (args2 a b) = RThrow "Division by zero" \/
   run (helper_of o) (spelling o) (args2 a b) = RThrow "Modulo by zero").
Proof.
  exact (fun o a b Ha Hb => conj (fun r => helpers_match_reference_val o a b r Ha Hb) (helpers_match_reference_div0 o a b Ha Hb)).
Qed.
Print Assumptions helpers_match_reference.

(* evaluate_logical_binary: the value Lang.Sem gives `a && b` / `a || b` once both operands have been evaluated *)
Theorem logical_helper_matches_reference : forall a b, Sem.in64 a = true -> Sem.in64 b = true ->
  run fn_evaluate_logical_binary "&&" (args2 a b) = RVal (TLong, if a =? 0 then 0 else Sem.b2z (negb (b =? 0))) /\
  run fn_evaluate_logical_binary "||" (args2 a b) = RVal (TLong, if a =? 0 then Sem.b2z (negb (b =? 0)) else 1).
Proof. exact (fun a b Ha Hb => conj (run_land a b Ha Hb) (run_lor a b Ha Hb)). Qed.
Print Assumptions logical_helper_matches_reference.

(* evaluate_simple_unary: complete characterisation (unary minus wraps around) and agreement with Lang.Sem.unarith *)
Theorem unary_helper_wraparound : forall a, Sem.in64 a = true ->
  run fn_evaluate_simple_unary "+" (args1 a) = RVal (TLong, a) /\
  run fn_evaluate_simple_unary "-" (args1 a) = RVal (TLong, ArithPaths.wrap64 (- a)) /\
  run fn_evaluate_simple_unary "!" (args1 a) = RVal (TLong, Sem.b2z (a =? 0)) /\
  run fn_evaluate_simple_unary "~" (args1 a) = RVal (TLong, Z.lnot a).
Proof. exact (fun a Ha => conj (run_uplus a Ha) (conj (run_uneg a Ha) (conj (run_unot a Ha) (run_ucompl a Ha)))). Qed.
Print Assumptions unary_helper_wraparound.

Theorem unary_helper_matches_reference : forall o a r, Sem.in64 a = true ->
  Sem.unarith o a = Sem.Val r -> run fn_evaluate_simple_unary (uspelling o) (args1 a) = RVal (TLong, r).
Proof. exact unary_matches_reference. Qed.
Print Assumptions unary_helper_matches_reference.

(* an operator string a helper does not know is reported, with the string in the message *)
Theorem helpers_reject_unknown_operators : forall op a b, Sem.in64 a = true -> Sem.in64 b = true ->
  (~ In op ["+"; "-"; "*"; "/"; "%"] ->
   run fn_evaluate_arithmetic_binary op (args2 a b) = RThrow ("Unknown arithmetic operator: " ++ op)) /\
  (~ In op ["&"; "|"; "^"; "<<"; ">>"] ->
   run fn_evaluate_bitwise_binary op (args2 a b) = RThrow ("Unknown bitwise operator: " ++ op)) /\
  (~ In op ["=="; "!="; "<"; ">"; "<="; ">="] ->
   run fn_evaluate_comparison_binary op (args2 a b) = RThrow ("Unknown comparison operator: " ++ op)) /\
  (~ In op ["&&"; "||"] ->
   run fn_evaluate_logical_binary op (args2 a b) = RThrow ("Unknown logical operator: " ++ op)).
Proof.
  exact (fun op a b Ha Hb => conj (reject_arith op a b Ha Hb) (conj (reject_bitwise op a b Ha Hb)
          (conj (reject_comparison op a b Ha Hb) (reject_logical op a b Ha Hb)))).
Qed.
Print Assumptions helpers_reject_unknown_operators.

(* for every function of the Cxx fragment: a returned value has the declared return type and lies inside it *)
Theorem returned_values_are_in_range : forall f op args t z, is_ld (f_ret f) = false ->
  run f op args = RVal (t, z) -> t = f_ret f /\ in_range (f_ret f) z = true.
Proof. exact run_returns_in_range. Qed.
Print Assumptions returned_values_are_in_range.

(* ---- non-vacuity: the generated terms evaluated on boundary operands (vm_compute runs the C++ semantics) ---- *)
Example wraps_at_the_top : run fn_evaluate_arithmetic_binary "+" (args2 9223372036854775807 1) = RVal (TLong, -9223372036854775808).
Proof. vm_compute. reflexivity. Qed.
Example mul_wraps : run fn_evaluate_arithmetic_binary "*" (args2 (-9223372036854775808) (-1)) = RVal (TLong, -9223372036854775808).
Proof. vm_compute. reflexivity. Qed.
Example min_div_minus_one_is_reported :
  run fn_evaluate_arithmetic_binary "/" (args2 (-9223372036854775808) (-1)) = RThrow "Arithmetic overflow in division".
Proof. vm_compute. reflexivity. Qed.
Example min_mod_minus_one_is_zero : run fn_evaluate_arithmetic_binary "%" (args2 (-9223372036854775808) (-1)) = RVal (TLong, 0).
Proof. vm_compute. reflexivity. Qed.
Example mod_keeps_the_sign_of_the_dividend : run fn_evaluate_arithmetic_binary "%" (args2 (-7) 2) = RVal (TLong, -1).
Proof. vm_compute. reflexivity. Qed.
Example mod_by_zero_is_reported : run fn_evaluate_arithmetic_binary "%" (args2 5 0) = RThrow "Modulo by zero".
Proof. vm_compute. reflexivity. Qed.
Example shift_count_is_taken_modulo_64 : run fn_evaluate_bitwise_binary ">>" (args2 (-7) 65) = RVal (TLong, -4).
Proof. vm_compute. reflexivity. Qed.
Example negative_shift_count : run fn_evaluate_bitwise_binary "<<" (args2 1 (-1)) = RVal (TLong, -9223372036854775808).
Proof. vm_compute. reflexivity. Qed.
Example shift_left_of_a_negative_value : run fn_evaluate_bitwise_binary "<<" (args2 (-3) 2) = RVal (TLong, -12).
Proof. vm_compute. reflexivity. Qed.
Example le_at_equal_operands : run fn_evaluate_comparison_binary "<=" (args2 5 5) = RVal (TLong, 1).
Proof. vm_compute. reflexivity. Qed.
Example unknown_operator : run fn_evaluate_arithmetic_binary "**" (args2 1 2) = RThrow "Unknown arithmetic operator: **".
Proof. vm_compute. reflexivity. Qed.
Example negation_of_min_wraps : run fn_evaluate_simple_unary "-" (args1 (-9223372036854775808)) = RVal (TLong, -9223372036854775808).
Proof. vm_compute. reflexivity. Qed.
(* the semantics does report undefined behaviour where C++ has it: the same operations written directly on int64_t *)
Example direct_signed_add_would_be_ub :
  run {| f_name := "plain"; f_ret := TLong; f_sparam := "op"; f_params := [("left", TLong); ("right", TLong)];
         f_body := SReturn (EBin BAdd (EVar "left") (EVar "right")) |} "+" (args2 9223372036854775807 1) = RUB ub_add.
Proof. vm_compute. reflexivity. Qed.
Example direct_shift_by_64_would_be_ub :
  run {| f_name := "plain"; f_ret := TLong; f_sparam := "op"; f_params := [("left", TLong); ("right", TLong)];
         f_body := SReturn (EBin BShr (EVar "left") (EVar "right")) |} ">>" (args2 1 64) = RUB ub_shcount.
Proof. vm_compute. reflexivity. Qed.
Example direct_min_div_minus_one_would_be_ub :
  run {| f_name := "plain"; f_ret := TLong; f_sparam := "op"; f_params := [("left", TLong); ("right", TLong)];
         f_body := SReturn (EBin BDiv (EVar "left") (EVar "right")) |} "/" (args2 (-9223372036854775808) (-1)) = RUB ub_divovf.
Proof. vm_compute. reflexivity. Qed.
