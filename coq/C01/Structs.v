(* C01 - plain structs in the reference semantics (Lang): a struct variable is the group of its member
   cells [mkey x j]; this file shows that the encoding is sound (distinct members are distinct cells, disjoint
   from the plain variables), that a whole-struct copy MEANS the member-by-member, cell-by-cell assignments
   `v<x>.m<j>[i..] = v<y>.m<j>[i..]`, and that a store to one member never shows through any other member
   of any struct variable (so the two sides of a copy are independent afterwards). *)
From Coq Require Import List ZArith Bool Arith Lia.
From Cb Require Import Lang.Syntax Lang.Sem Lang.Print Lang.Theorems C04.StoreLaws.
Import ListNotations.
Local Open Scope Z_scope.

(* ------------------------------------------------------------------ the cell encoding *)
Lemma mkey_injective_l x j x' j' : (j < 8)%nat -> (j' < 8)%nat -> mkey x j = mkey x' j' -> x = x' /\ j = j'.
Proof. unfold mkey. lia. Qed.
Lemma mkey_not_plain_l x j y : (y < 1000)%nat -> mkey x j <> y.
Proof. unfold mkey. lia. Qed.

(* ------------------------------------------------------------------ copy = member-wise assignment *)
Definition cell_assign (dst src : ident) (i : list Z) : stmt :=
  SAssign (LIdx dst (map ENum i)) None (EIdx src (map ENum i)).
Fixpoint copy_stmts (x y : ident) (j : nat) (flds : list fld) : list stmt :=
  match flds with
  | [] => []
  | f :: r => map (cell_assign (mkey x j) (mkey y j)) (all_idx (fdims f)) ++ copy_stmts x y (S j) r
  end.

Lemma eval_list_nums funcs k is_ : eval_list (eval funcs (S k)) (map ENum is_) = ret is_.
Proof.
  induction is_ as [|i r IH]; [reflexivity|].
  cbn [map eval_list]. rewrite IH. reflexivity.
Qed.

Lemma exec_assign_eq' funcs k lv e : exec funcs (S k) (SAssign lv None e) =
  (v <- eval funcs k e ;; tg <- lval_target (eval funcs k) lv ;; m_write (fst tg) (snd tg) v).
Proof. reflexivity. Qed.
Lemma eval_idx_eq funcs k a idx : eval funcs (S k) (EIdx a idx) = (is_ <- eval_list (eval funcs k) idx ;; m_read a is_).
Proof. reflexivity. Qed.
Lemma lval_idx_eq ev a idx : lval_target ev (LIdx a idx) = (is_ <- eval_list ev idx ;; ret (a, is_)).
Proof. reflexivity. Qed.

Lemma cell_assign_eq funcs k dst src i :
  exec funcs (S (S (S k))) (cell_assign dst src i) = (v <- m_read src i ;; m_write dst i v).
Proof.
  unfold cell_assign. rewrite exec_assign_eq', eval_idx_eq, lval_idx_eq, !eval_list_nums. reflexivity.
Qed.

Lemma copy_cells_desugar funcs k dst src idxs s :
  copy_cells dst src idxs s = exec_list (exec funcs (S (S (S k)))) (map (cell_assign dst src) idxs) s.
Proof.
  revert s. induction idxs as [|i r IH]; intros s; [reflexivity|].
  cbn [copy_cells map exec_list]. rewrite cell_assign_eq.
  unfold bind at 1 2 3 4. destruct (m_read src i s) as [c s1]. destruct c; try reflexivity.
  destruct (m_write dst i a s1) as [c2 s2]. destruct c2; try reflexivity. apply IH.
Qed.

Lemma copy_members_desugar funcs k x y flds : forall j s,
  copy_members x y j flds s = exec_list (exec funcs (S (S (S k)))) (copy_stmts x y j flds) s.
Proof.
  induction flds as [|f r IH]; intros j s; [reflexivity|].
  cbn [copy_members copy_stmts]. rewrite exec_list_app. unfold bind.
  rewrite (copy_cells_desugar funcs k). destruct (exec_list _ (map _ _) s) as [c s1]. destruct c; try reflexivity. apply IH.
Qed.

Lemma struct_copy_desugar_l funcs k n x y flds s :
  exec funcs (S n) (SCopy x y flds) s = exec_list (exec funcs (S (S (S k)))) (copy_stmts x y 0 flds) s.
Proof. cbn [exec]. apply copy_members_desugar. Qed.

(* ------------------------------------------------------------------ members are private cells *)
Lemma struct_member_store_private_l x j idx v s s' x' j' idx' :
  (j < 8)%nat -> (j' < 8)%nat -> (x <> x' \/ j <> j') ->
  m_write (mkey x j) idx v s = (Val tt, s') ->
  m_read (mkey x' j') idx' s' = (fst (m_read (mkey x' j') idx' s), s').
Proof.
  intros Hj Hj' Hne Hw.
  apply (proj1 (store_touches_only_target_l _ _ _ _ _ (mkey x' j') idx' Hw)).
  intros E. destruct (mkey_injective_l _ _ _ _ Hj Hj' E) as [-> ->]. destruct Hne as [H|H]; apply H; reflexivity.
Qed.
Lemma struct_member_store_leaves_plain_l x j idx v s s' y idx' :
  (y < 1000)%nat -> m_write (mkey x j) idx v s = (Val tt, s') ->
  m_read y idx' s' = (fst (m_read y idx' s), s').
Proof.
  intros Hy Hw. apply (proj1 (store_touches_only_target_l _ _ _ _ _ y idx' Hw)). apply mkey_not_plain_l. exact Hy.
Qed.

(* a declared struct starts out zeroed: the declaration of one member yields a cell that reads 0 everywhere *)
Lemma pad_nil_nth n k : nth k (pad n []) 0 = 0.
Proof. revert k. induction n as [|n IH]; intros k; cbn [pad]; destruct k; try reflexivity. apply IH. Qed.

Lemma member_declared_reads_zero_l t c dims idx s s' :
  m_declare false false t c dims [] s = (Val tt, s') ->
  fst (m_read c idx s') = Val 0 \/ fst (m_read c idx s') = Fail EBounds.
Proof.
  unfold m_declare. cbn [coerce_all]. destruct (sframes s) as [|f fr] eqn:Hf.
  - intros [= <-]. unfold m_read, get_entry. cbn [sframes sglob assoc]. rewrite Nat.eqb_refl. cbn [edims evals].
    destruct (flat_index dims idx 0); [left; cbn [fst]; rewrite pad_nil_nth; reflexivity|right; reflexivity].
  - destruct (fscopes f) as [|sc scs] eqn:Hs; [discriminate|]. intros [= <-].
    unfold m_read, get_entry. cbn [sframes fscopes scopes_get assoc]. rewrite Nat.eqb_refl. cbn [edims evals].
    destruct (flat_index dims idx 0); [left; cbn [fst]; rewrite pad_nil_nth; reflexivity|right; reflexivity].
Qed.
